(** Lemmas about Model/Bincode.v: round trips, input consumption (fuel
    suffices), the bounds check of byte payloads, the speculative reservation. *)
From Coq Require Import ZArith List Bool Lia Arith.
From Copia Require Import Gen.Constants Model.Checksum Model.Delta Model.Bincode.
Import ListNotations.
Open Scope Z_scope.

(** ** little-endian integers *)
Lemma get_le_put_le n v rest :
  0 <= v < 256 ^ Z.of_nat n -> get_le n (put_le n v ++ rest) = Some (v, rest).
Proof.
  revert v; induction n as [|n IH]; intros v Hv.
  - cbn [put_le get_le app]. change (256 ^ Z.of_nat 0) with 1 in Hv. replace v with 0 by lia. reflexivity.
  - cbn [put_le get_le app].
    rewrite Nat2Z.inj_succ, Z.pow_succ_r in Hv by lia.
    rewrite IH.
    + cbv beta iota. f_equal. f_equal. pose proof (Z.div_mod v 256). lia.
    + split; [apply Z.div_pos; lia|]. apply Z.div_lt_upper_bound; lia.
Qed.

Lemma length_put_le n v : length (put_le n v) = n.
Proof. revert v; induction n as [|n IH]; intros v; cbn [put_le length]; [reflexivity|]. now rewrite IH. Qed.

Lemma get_u32_put_u32 v rest : u32 v -> get_u32 (put_u32 v ++ rest) = Some (v, rest).
Proof. intros Hv. apply get_le_put_le. exact Hv. Qed.
Lemma get_u64_put_u64 v rest : u64 v -> get_u64 (put_u64 v ++ rest) = Some (v, rest).
Proof. intros Hv. apply get_le_put_le. exact Hv. Qed.
Lemma get_u16_put_u16 v rest : 0 <= v < 2^16 -> get_u16 (put_u16 v ++ rest) = Some (v, rest).
Proof. intros Hv. apply get_le_put_le. exact Hv. Qed.

Lemma get_le_length n inp v r : get_le n inp = Some (v, r) -> length inp = (n + length r)%nat.
Proof.
  revert inp v r; induction n as [|n IH]; intros inp v r; cbn [get_le].
  - intros E; injection E as _ <-. reflexivity.
  - destruct inp as [|x inp]; [discriminate|].
    destruct (get_le n inp) as [[v' r']|] eqn:E; [|discriminate].
    intros E2; injection E2 as _ <-. cbn [length]. rewrite (IH _ _ _ E). lia.
Qed.

(** ** raw arrays *)
Lemma get_raw_app s rest : get_raw (length s) (s ++ rest) = Some (s, rest).
Proof. induction s as [|x s IH]; cbn [length get_raw app]; [reflexivity|]. now rewrite IH. Qed.

Lemma get_raw_length n inp s r : get_raw n inp = Some (s, r) -> length inp = (n + length r)%nat /\ length s = n.
Proof.
  revert inp s r; induction n as [|n IH]; intros inp s r; cbn [get_raw].
  - intros E; injection E as <- <-. split; reflexivity.
  - destruct inp as [|x inp]; [discriminate|].
    destruct (get_raw n inp) as [[s' r']|] eqn:E; [|discriminate].
    intros E2; injection E2 as <- <-. destruct (IH _ _ _ E) as [H1 H2]. cbn [length]. lia.
Qed.

Lemma get_raw_split n inp s r : get_raw n inp = Some (s, r) -> inp = s ++ r.
Proof.
  revert inp s r; induction n as [|n IH]; intros inp s r; cbn [get_raw].
  - intros E; injection E as <- <-. reflexivity.
  - destruct inp as [|x inp]; [discriminate|].
    destruct (get_raw n inp) as [[s' r']|] eqn:E; [|discriminate].
    intros E2; injection E2 as <- <-. cbn [app]. now rewrite (IH _ _ _ E).
Qed.

(** ** lengths *)
Lemma zlen_acc_spec {T} (l : list T) acc : zlen_acc l acc = acc + Z.of_nat (length l).
Proof. revert acc; induction l as [|x l IH]; intros acc; cbn [zlen_acc length]; [lia|]. rewrite IH. lia. Qed.
Lemma zlen_spec {T} (l : list T) : zlen l = Z.of_nat (length l).
Proof. unfold zlen. rewrite zlen_acc_spec. lia. Qed.

(** ** sequences *)
Lemma get_seq_put_seq {T} (g : dec T) (p : T -> list Z) l : forall f rest,
  Forall (fun x => forall r, g (p x ++ r) = Some (x, r)) l -> (length l <= f)%nat ->
  get_seq g f (Z.of_nat (length l)) (put_seq p l ++ rest) = Some (l, rest).
Proof.
  induction l as [|x l IH]; intros f rest HF Hf.
  - destruct f; reflexivity.
  - cbn [length] in Hf. destruct f as [|f]; [lia|].
    inversion HF as [|? ? Hx Hl]; subst.
    cbn [get_seq put_seq length].
    replace (Z.of_nat (S (length l)) <=? 0) with false by (symmetry; apply Z.leb_gt; lia).
    rewrite <- app_assoc, Hx. cbv beta iota.
    replace (Z.of_nat (S (length l)) - 1) with (Z.of_nat (length l)) by lia.
    rewrite IH by (auto; lia). reflexivity.
Qed.

Lemma length_put_seq_ge {T} (p : T -> list Z) l :
  (forall x, (1 <= length (p x))%nat) -> (length l <= length (put_seq p l))%nat.
Proof.
  intros Hp. induction l as [|x l IH]; cbn [put_seq length]; [lia|].
  rewrite app_length. specialize (Hp x). lia.
Qed.

Lemma length_put_seq_in {T} (p : T -> list Z) l x :
  In x l -> (length (p x) <= length (put_seq p l))%nat.
Proof.
  induction l as [|y l IH]; intros Hi; [contradiction|].
  cbn [put_seq]. rewrite app_length. destruct Hi as [->|Hi]; [lia|]. specialize (IH Hi). lia.
Qed.

Lemma get_seq_bytes l : forall f rest, (length l <= f)%nat ->
  get_seq get_u8 f (Z.of_nat (length l)) (l ++ rest) = Some (l, rest).
Proof.
  induction l as [|x l IH]; intros f rest Hf.
  - destruct f; reflexivity.
  - cbn [length] in Hf. destruct f as [|f]; [lia|].
    cbn [get_seq length app get_u8].
    replace (Z.of_nat (S (length l)) <=? 0) with false by (symmetry; apply Z.leb_gt; lia).
    replace (Z.of_nat (S (length l)) - 1) with (Z.of_nat (length l)) by lia.
    rewrite IH by lia. reflexivity.
Qed.

Lemma get_bytes_put_bytes f l rest : len64 l -> (length l <= f)%nat ->
  get_bytes f (put_bytes l ++ rest) = Some (l, rest).
Proof.
  intros Hl Hf. unfold get_bytes, get_vec, put_bytes. rewrite <- app_assoc.
  rewrite get_u64_put_u64 by (rewrite zlen_spec; unfold u64, len64 in *; lia).
  cbv beta iota. rewrite zlen_spec. apply get_seq_bytes. exact Hf.
Qed.

Lemma length_put_bytes l : length (put_bytes l) = (8 + length l)%nat.
Proof. unfold put_bytes, put_u64. now rewrite app_length, length_put_le. Qed.

(** The byte payload is "bounds check, then split": with enough fuel, [count]
    bytes are delivered iff [count] does not exceed the remaining input. *)
Lemma get_seq_bytes_spec : forall f c inp, (length inp <= f)%nat ->
  get_seq get_u8 f c inp =
  if c <=? Z.of_nat (length inp)
  then Some (firstn (Z.to_nat c) inp, skipn (Z.to_nat c) inp) else None.
Proof.
  induction f as [|f IH]; intros c inp Hf; cbn [get_seq].
  - destruct inp; [|cbn [length] in Hf; lia]. cbn [length].
    change (Z.of_nat 0) with 0.
    destruct (c <=? 0) eqn:E; [|reflexivity].
    apply Z.leb_le in E. replace (Z.to_nat c) with 0%nat by lia. reflexivity.
  - destruct (c <=? 0) eqn:E.
    + apply Z.leb_le in E. replace (Z.to_nat c) with 0%nat by lia.
      replace (c <=? Z.of_nat (length inp)) with true by (symmetry; apply Z.leb_le; lia). reflexivity.
    + apply Z.leb_gt in E. destruct inp as [|x inp]; cbn [get_u8].
      * cbn [length]. replace (c <=? Z.of_nat 0) with false by (symmetry; apply Z.leb_gt; lia). reflexivity.
      * cbn [length] in Hf |- *. rewrite IH by lia.
        replace (Z.to_nat c) with (S (Z.to_nat (c - 1))) by lia. cbn [firstn skipn].
        destruct (c - 1 <=? Z.of_nat (length inp)) eqn:E2.
        -- apply Z.leb_le in E2. replace (c <=? Z.of_nat (S (length inp))) with true by (symmetry; apply Z.leb_le; lia). reflexivity.
        -- apply Z.leb_gt in E2. replace (c <=? Z.of_nat (S (length inp))) with false by (symmetry; apply Z.leb_gt; lia). reflexivity.
Qed.

(** ** every decoder consumes input; therefore the fuel of the entry points suffices *)
Definition consumes {T} (g : dec T) : Prop :=
  forall inp x r, g inp = Some (x, r) -> (length r < length inp)%nat.
Definition no_grow {T} (g : dec T) : Prop :=
  forall inp x r, g inp = Some (x, r) -> (length r <= length inp)%nat.

Lemma consumes_no_grow {T} (g : dec T) : consumes g -> no_grow g.
Proof. intros Hc inp x r E. specialize (Hc _ _ _ E). lia. Qed.

Lemma get_u8_consumes : consumes get_u8.
Proof. intros [|y inp] x r E; cbn [get_u8] in E; [discriminate|]. injection E as _ <-. cbn [length]. lia. Qed.

Lemma get_le_consumes n : (0 < n)%nat -> consumes (get_le n).
Proof. intros Hn inp x r E. apply get_le_length in E. lia. Qed.

Lemma get_seq_no_grow {T} (g : dec T) : no_grow g -> forall f c, no_grow (get_seq g f c).
Proof.
  intros Hg f; induction f as [|f IH]; intros c inp xs r; cbn [get_seq]; destruct (c <=? 0).
  - intros E; injection E as _ <-. lia.
  - discriminate.
  - intros E; injection E as _ <-. lia.
  - destruct (g inp) as [[x r1]|] eqn:E1; [|discriminate].
    destruct (get_seq g f (c - 1) r1) as [[xs' r2]|] eqn:E2; [|discriminate].
    intros E; injection E as _ <-. specialize (Hg _ _ _ E1). specialize (IH _ _ _ _ E2). lia.
Qed.

Lemma get_vec_consumes {T} (g : dec T) f : no_grow g -> consumes (get_vec g f).
Proof.
  intros Hg inp xs r. unfold get_vec.
  destruct (get_u64 inp) as [[c r1]|] eqn:E1; [|discriminate].
  intros E2. apply get_le_length in E1. apply (get_seq_no_grow g Hg) in E2. lia.
Qed.

(** More fuel than the input is long never changes a result. *)
Lemma get_seq_fuel {T} (g1 g2 : dec T) : consumes g1 ->
  forall f1 f2 c inp,
  (forall i, (length i <= length inp)%nat -> g1 i = g2 i) ->
  (length inp <= f1)%nat -> (length inp <= f2)%nat ->
  get_seq g1 f1 c inp = get_seq g2 f2 c inp.
Proof.
  intros Hc. induction f1 as [|f1 IH]; intros f2 c inp Hg H1 H2.
  - destruct inp; [|cbn [length] in H1; lia].
    cbn [get_seq]. destruct f2 as [|f2]; cbn [get_seq]; destruct (c <=? 0); try reflexivity.
    rewrite <- Hg by lia. destruct (g1 []) as [[x r]|] eqn:E; [|reflexivity].
    specialize (Hc _ _ _ E). cbn [length] in Hc. lia.
  - destruct f2 as [|f2].
    + destruct inp; [|cbn [length] in H2; lia].
      cbn [get_seq]. destruct (c <=? 0); try reflexivity.
      destruct (g1 []) as [[x r]|] eqn:E; [|reflexivity].
      specialize (Hc _ _ _ E). cbn [length] in Hc. lia.
    + cbn [get_seq]. destruct (c <=? 0); [reflexivity|].
      rewrite <- Hg by lia. destruct (g1 inp) as [[x r]|] eqn:E; [|reflexivity].
      specialize (Hc _ _ _ E).
      rewrite (IH f2 (c - 1) r); [reflexivity| |lia|lia].
      intros i Hi. apply Hg. lia.
Qed.

Lemma get_vec_fuel {T} (g1 g2 : dec T) f1 f2 inp : consumes g1 ->
  (forall i, (length i <= length inp)%nat -> g1 i = g2 i) ->
  (length inp <= f1)%nat -> (length inp <= f2)%nat ->
  get_vec g1 f1 inp = get_vec g2 f2 inp.
Proof.
  intros Hc Hg H1 H2. unfold get_vec.
  destruct (get_u64 inp) as [[c r]|] eqn:E; [|reflexivity].
  apply get_le_length in E. apply get_seq_fuel; try assumption; try lia.
  intros i Hi. apply Hg. lia.
Qed.

Lemma get_bytes_fuel f1 f2 inp : (length inp <= f1)%nat -> (length inp <= f2)%nat ->
  get_bytes f1 inp = get_bytes f2 inp.
Proof. intros. apply get_vec_fuel; auto using get_u8_consumes. Qed.

Lemma get_bsig_consumes : consumes get_bsig.
Proof.
  intros inp x r. unfold get_bsig.
  destruct (get_u32 inp) as [[i r1]|] eqn:E1; [|discriminate].
  destruct (get_u32 r1) as [[w r2]|] eqn:E2; [|discriminate].
  destruct (get_raw HASH_LEN r2) as [[s r3]|] eqn:E3; [|discriminate].
  intros E; injection E as _ <-.
  apply get_le_length in E1. apply get_le_length in E2. apply get_raw_length in E3. lia.
Qed.

Lemma get_sig_fuel f1 f2 inp : (length inp <= f1)%nat -> (length inp <= f2)%nat ->
  get_sig f1 inp = get_sig f2 inp.
Proof.
  intros H1 H2. unfold get_sig.
  destruct (get_u64 inp) as [[b r1]|] eqn:E1; [|reflexivity].
  destruct (get_u64 r1) as [[f r2]|] eqn:E2; [|reflexivity].
  apply get_le_length in E1. apply get_le_length in E2.
  rewrite (get_vec_fuel get_bsig get_bsig f1 f2 r2); auto using get_bsig_consumes; lia.
Qed.

Lemma get_dop_consumes f : consumes (get_dop f).
Proof.
  intros inp x r. unfold get_dop.
  destruct (get_u32 inp) as [[t r0]|] eqn:E0; [|discriminate]. apply get_le_length in E0.
  destruct (t =? 0).
  - destruct (get_u64 r0) as [[o r1]|] eqn:E1; [|discriminate].
    destruct (get_u32 r1) as [[l r2]|] eqn:E2; [|discriminate].
    intros E; injection E as _ <-. apply get_le_length in E1. apply get_le_length in E2. lia.
  - destruct (t =? 1); [|discriminate].
    destruct (get_bytes f r0) as [[d r1]|] eqn:E1; [|discriminate].
    intros E; injection E as _ <-.
    apply (get_vec_consumes get_u8 f (consumes_no_grow _ get_u8_consumes)) in E1. lia.
Qed.

Lemma get_dop_fuel f1 f2 inp : (length inp <= f1)%nat -> (length inp <= f2)%nat ->
  get_dop f1 inp = get_dop f2 inp.
Proof.
  intros H1 H2. unfold get_dop.
  destruct (get_u32 inp) as [[t r0]|] eqn:E0; [|reflexivity]. apply get_le_length in E0.
  destruct (t =? 0); [reflexivity|]. destruct (t =? 1); [|reflexivity].
  rewrite (get_bytes_fuel f1 f2 r0) by lia. reflexivity.
Qed.

Lemma get_delta_fuel f1 f2 inp : (length inp <= f1)%nat -> (length inp <= f2)%nat ->
  get_delta f1 inp = get_delta f2 inp.
Proof.
  intros H1 H2. unfold get_delta.
  destruct (get_u32 inp) as [[b r1]|] eqn:E1; [|reflexivity].
  destruct (get_u64 r1) as [[s r2]|] eqn:E2; [|reflexivity].
  destruct (get_u64 r2) as [[z r3]|] eqn:E3; [|reflexivity].
  apply get_le_length in E1. apply get_le_length in E2. apply get_le_length in E3.
  rewrite (get_vec_fuel (get_dop f1) (get_dop f2) f1 f2 r3); [reflexivity|apply get_dop_consumes| |lia|lia].
  intros i Hi. apply get_dop_fuel; lia.
Qed.

Section Utf8.
Variable utf8 : list Z -> bool.

Lemma get_string_fuel f1 f2 inp : (length inp <= f1)%nat -> (length inp <= f2)%nat ->
  get_string utf8 f1 inp = get_string utf8 f2 inp.
Proof. intros. unfold get_string. now rewrite (get_bytes_fuel f1 f2 inp). Qed.

Lemma get_message_fuel f1 f2 inp : (length inp <= f1)%nat -> (length inp <= f2)%nat ->
  get_message utf8 f1 inp = get_message utf8 f2 inp.
Proof.
  intros H1 H2. unfold get_message.
  destruct (get_u32 inp) as [[t r0]|] eqn:E0; [|reflexivity]. apply get_le_length in E0.
  destruct (t =? 0); [reflexivity|].
  destruct (t =? 1).
  { destruct (get_u64 r0) as [[f r1]|] eqn:E1; [|reflexivity]. apply get_le_length in E1.
    rewrite (get_sig_fuel f1 f2 r1) by lia. reflexivity. }
  destruct (t =? 2).
  { destruct (get_u64 r0) as [[f r1]|] eqn:E1; [|reflexivity]. apply get_le_length in E1.
    rewrite (get_delta_fuel f1 f2 r1) by lia. reflexivity. }
  destruct (t =? 3).
  { destruct (get_u64 r0) as [[f r1]|] eqn:E1; [|reflexivity]. apply get_le_length in E1.
    destruct (get_bool r1) as [[ok r2]|] eqn:E2; [|reflexivity].
    assert (length r2 < length r1)%nat.
    { destruct r1 as [|x r1]; cbn [get_bool] in E2; [discriminate|].
      destruct (x =? 1); [injection E2 as _ <-; cbn [length]; lia|].
      destruct (x =? 0); [injection E2 as _ <-; cbn [length]; lia|discriminate]. }
    unfold get_opt_string. destruct r2 as [|y r2]; [reflexivity|].
    destruct (y =? 0); [reflexivity|]. destruct (y =? 1); [|reflexivity].
    cbn [length] in *. rewrite (get_string_fuel f1 f2 r2) by lia. reflexivity. }
  destruct (t =? 4).
  { destruct (get_u32 r0) as [[c r1]|] eqn:E1; [|reflexivity]. apply get_le_length in E1.
    rewrite (get_string_fuel f1 f2 r1) by lia. reflexivity. }
  reflexivity.
Qed.
End Utf8.

(** ** round trips *)
Lemma get_bsig_put_bsig b rest : wf_bsig b -> get_bsig (put_bsig b ++ rest) = Some (b, rest).
Proof.
  intros (Hi & Hw & Hs). destruct b as [i w s]. cbn [b_idx b_weak b_strong] in *.
  unfold get_bsig, put_bsig. cbn [b_idx b_weak b_strong]. rewrite <- !app_assoc.
  rewrite get_u32_put_u32 by assumption. cbv beta iota.
  rewrite get_u32_put_u32 by assumption. cbv beta iota.
  rewrite <- Hs, get_raw_app. reflexivity.
Qed.

Lemma length_put_bsig b : (1 <= length (put_bsig b))%nat.
Proof. unfold put_bsig, put_u32. rewrite !app_length, !length_put_le. lia. Qed.

Lemma get_sig_put_sig fuel s rest : wf_sig s -> (length (put_sig s) <= fuel)%nat ->
  get_sig fuel (put_sig s ++ rest) = Some (s, rest).
Proof.
  intros (Hb & Hf & Hn & Hbl) Hfuel. destruct s as [b f l]. cbn [s_block_size s_file_size s_blocks] in *.
  unfold put_sig, put_vec, put_u64 in Hfuel. cbn [s_block_size s_file_size s_blocks] in Hfuel.
  rewrite !app_length, !length_put_le in Hfuel.
  pose proof (length_put_seq_ge put_bsig l length_put_bsig) as Hge.
  unfold get_sig, put_sig, get_vec, put_vec. cbn [s_block_size s_file_size s_blocks]. rewrite <- !app_assoc.
  rewrite get_u64_put_u64 by assumption. cbv beta iota.
  rewrite get_u64_put_u64 by assumption. cbv beta iota.
  rewrite get_u64_put_u64 by (rewrite zlen_spec; unfold u64, len64 in *; lia). cbv beta iota.
  rewrite zlen_spec, get_seq_put_seq; [reflexivity| |lia].
  eapply Forall_impl; [|exact Hbl]. intros x Hx r. now apply get_bsig_put_bsig.
Qed.

Lemma get_dop_put_dop fuel o rest : wf_dop o -> (length (put_dop o) <= fuel)%nat ->
  get_dop fuel (put_dop o ++ rest) = Some (o, rest).
Proof.
  intros Hw Hfuel. destruct o as [off len|d]; cbn [wf_dop] in Hw; unfold get_dop; cbn [put_dop] in *.
  - destruct Hw as [Ho Hl]. rewrite <- !app_assoc.
    rewrite get_u32_put_u32 by (unfold u32; lia). cbv beta iota.
    change (0 =? 0) with true. cbv beta iota.
    rewrite get_u64_put_u64 by assumption. cbv beta iota.
    rewrite get_u32_put_u32 by assumption. reflexivity.
  - rewrite app_length, length_put_bytes in Hfuel. rewrite <- !app_assoc.
    rewrite get_u32_put_u32 by (unfold u32; lia). cbv beta iota.
    change (1 =? 0) with false. change (1 =? 1) with true. cbv beta iota.
    rewrite get_bytes_put_bytes by (auto; lia). reflexivity.
Qed.

Lemma length_put_dop o : (1 <= length (put_dop o))%nat.
Proof. destruct o; cbn [put_dop]; unfold put_u32; rewrite app_length, length_put_le; lia. Qed.

Lemma get_delta_put_delta fuel d rest : wf_delta d -> (length (put_delta d) <= fuel)%nat ->
  get_delta fuel (put_delta d ++ rest) = Some (d, rest).
Proof.
  intros (Hb & Hs & Hz & Hn & Hops & Hc) Hfuel. destruct d as [b s z ops c].
  cbn [d_block_size d_source_size d_basis_size d_ops d_checksum] in *.
  unfold put_delta, put_vec, put_u64, put_u32 in Hfuel.
  cbn [d_block_size d_source_size d_basis_size d_ops d_checksum] in Hfuel.
  rewrite !app_length, !length_put_le in Hfuel.
  pose proof (length_put_seq_ge put_dop ops length_put_dop) as Hge.
  unfold get_delta, put_delta, get_vec, put_vec.
  cbn [d_block_size d_source_size d_basis_size d_ops d_checksum]. rewrite <- !app_assoc.
  rewrite get_u32_put_u32 by assumption. cbv beta iota.
  rewrite get_u64_put_u64 by assumption. cbv beta iota.
  rewrite get_u64_put_u64 by assumption. cbv beta iota.
  rewrite get_u64_put_u64 by (rewrite zlen_spec; unfold u64, len64 in *; lia). cbv beta iota.
  rewrite zlen_spec, get_seq_put_seq; [| |lia].
  - cbv beta iota. rewrite <- Hc, get_raw_app. reflexivity.
  - rewrite Forall_forall in Hops |- *. intros x Hx r. apply get_dop_put_dop; [auto|].
    pose proof (length_put_seq_in put_dop ops x Hx). lia.
Qed.

Section Utf8RT.
Variable utf8 : list Z -> bool.

Lemma get_string_put_bytes fuel s rest : wf_string utf8 s -> (length s <= fuel)%nat ->
  get_string utf8 fuel (put_bytes s ++ rest) = Some (s, rest).
Proof.
  intros [Hl Hu] Hf. unfold get_string. rewrite get_bytes_put_bytes by assumption.
  cbv beta iota. now rewrite Hu.
Qed.

Lemma get_message_put_message fuel m rest :
  wf_message utf8 m -> (length (put_message m) <= fuel)%nat ->
  get_message utf8 fuel (put_message m ++ rest) = Some (m, rest).
Proof.
  intros Hw Hfuel. unfold get_message.
  destruct m as [f b|f s|f d|f ok msg|c msg|s|s]; cbn [wf_message put_message] in *;
    unfold put_u32, put_u64 in Hfuel; rewrite ?app_length, ?length_put_le in Hfuel;
    rewrite <- ?app_assoc; rewrite get_u32_put_u32 by (unfold u32; lia); cbv beta iota.
  - destruct Hw as [Hf Hb]. change (0 =? 0) with true. cbv beta iota.
    rewrite get_u64_put_u64 by assumption. cbv beta iota.
    rewrite get_u32_put_u32 by assumption. reflexivity.
  - destruct Hw as [Hf Hs]. change (1 =? 0) with false. change (1 =? 1) with true. cbv beta iota.
    rewrite get_u64_put_u64 by assumption. cbv beta iota.
    rewrite get_sig_put_sig by (auto; lia). reflexivity.
  - destruct Hw as [Hf Hd]. change (2 =? 0) with false. change (2 =? 1) with false.
    change (2 =? 2) with true. cbv beta iota.
    rewrite get_u64_put_u64 by assumption. cbv beta iota.
    rewrite get_delta_put_delta by (auto; lia). reflexivity.
  - destruct Hw as [Hf Hm]. change (3 =? 0) with false. change (3 =? 1) with false.
    change (3 =? 2) with false. change (3 =? 3) with true. cbv beta iota.
    rewrite get_u64_put_u64 by assumption. cbv beta iota.
    unfold put_bool, get_bool, get_opt_string. cbn [app].
    destruct msg as [s|]; cbn [put_opt_string app length] in *.
    + rewrite length_put_bytes in Hfuel.
      destruct ok; cbv beta iota.
      * change (1 =? 1) with true. change (1 =? 0) with false. cbv beta iota.
        rewrite get_string_put_bytes by (auto; lia). reflexivity.
      * change (0 =? 1) with false. change (0 =? 0) with true. change (1 =? 0) with false.
        change (1 =? 1) with true. cbv beta iota.
        rewrite get_string_put_bytes by (auto; lia). reflexivity.
    + destruct ok; reflexivity.
  - destruct Hw as [Hc Hm]. rewrite length_put_bytes in Hfuel.
    change (4 =? 0) with false. change (4 =? 1) with false. change (4 =? 2) with false.
    change (4 =? 3) with false. change (4 =? 4) with true. cbv beta iota.
    rewrite get_u32_put_u32 by assumption. cbv beta iota.
    rewrite get_string_put_bytes by (auto; lia). reflexivity.
  - change (5 =? 0) with false. change (5 =? 1) with false. change (5 =? 2) with false.
    change (5 =? 3) with false. change (5 =? 4) with false. change (5 =? 5) with true. cbv beta iota.
    rewrite get_u64_put_u64 by assumption. reflexivity.
  - change (6 =? 0) with false. change (6 =? 1) with false. change (6 =? 2) with false.
    change (6 =? 3) with false. change (6 =? 4) with false. change (6 =? 5) with false.
    change (6 =? 6) with true. cbv beta iota.
    rewrite get_u64_put_u64 by assumption. reflexivity.
Qed.

Lemma message_roundtrip m rest : wf_message utf8 m ->
  decode_message utf8 (encode_message m ++ rest) = Some (m, rest).
Proof.
  intros Hw. unfold decode_message, encode_message. apply get_message_put_message; [exact Hw|].
  rewrite app_length. lia.
Qed.

Lemma message_fuel_suffices inp k :
  get_message utf8 (length inp + k) inp = decode_message utf8 inp.
Proof. unfold decode_message. apply get_message_fuel; lia. Qed.
End Utf8RT.

Lemma signature_roundtrip s rest : wf_sig s -> decode_signature (encode_signature s ++ rest) = Some (s, rest).
Proof.
  intros Hw. unfold decode_signature, encode_signature. apply get_sig_put_sig; [exact Hw|].
  rewrite app_length. lia.
Qed.

Lemma delta_roundtrip d rest : wf_delta d -> decode_delta (encode_delta d ++ rest) = Some (d, rest).
Proof.
  intros Hw. unfold decode_delta, encode_delta. apply get_delta_put_delta; [exact Hw|].
  rewrite app_length. lia.
Qed.

Lemma signature_fuel_suffices inp k : get_sig (length inp + k) inp = decode_signature inp.
Proof. unfold decode_signature. apply get_sig_fuel; lia. Qed.
Lemma delta_fuel_suffices inp k : get_delta (length inp + k) inp = decode_delta inp.
Proof. unfold decode_delta. apply get_delta_fuel; lia. Qed.

(** ** the speculative reservation of a Vec decoder is at most 1 MiB *)
Lemma cautious_reserve_bounded count elem_size :
  0 < elem_size -> cautious_reserve count elem_size * elem_size <= MAX_PREALLOC_BYTES
                   /\ cautious_reserve count elem_size <= Z.max 0 count.
Proof.
  intros Hs. unfold cautious_reserve.
  replace (elem_size <=? 0) with false by (symmetry; apply Z.leb_gt; lia).
  pose proof (Z.mul_div_le MAX_PREALLOC_BYTES elem_size Hs).
  split; [|lia].
  assert (Z.min count (MAX_PREALLOC_BYTES / elem_size) <= MAX_PREALLOC_BYTES / elem_size) by lia.
  nia.
Qed.
