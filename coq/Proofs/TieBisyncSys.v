(** The step list of one copy in Model/BisyncSteps.v IS the translated source of bidir.rs `copy_atomic`.

    Gen/BisyncSysGen.v (regenerated on every run) lists the file-system calls `copy_atomic(src, dst)` makes in program
    order.  Read as steps of the crash model (Model/BisyncSys.v [fsteps_of_sys]), they are exactly [copy_steps]:
    create/truncate the staging file of [dst] and fill it with the source's bytes, fsync THAT staging file, rename it
    onto [dst] - whatever `dst.parent()` says.  A source in which the fsync is missing, comes after the rename, or goes
    to another file (seeded/R2-C08) does not satisfy this equation. *)
From stdpp Require Import gmap.
From Copia Require Import Model.Bisync Model.BisyncSteps Model.BisyncSys Gen.BisyncSysGen.

Section Tie.
Context `{Countable K} {D : Type}.

Lemma tie_copy_atomic (parent_of : @pexpr K -> option (@pexpr K)) (src : side * K) (sd : side) (q : K) (c : list Z) :
  fsteps_of_sys (D := D) c (g_copy_atomic parent_of (PLive src) (PLive (sd, q))) = Some (copy_steps sd q c).
Proof.
  unfold g_copy_atomic, copy_steps.
  destruct (parent_of (PLive (sd, q))); cbn [app with_suffix fsteps_of_sys];
    destruct sd; cbn [side_eqb andb]; rewrite bool_decide_eq_true_2 by reflexivity; reflexivity.
Qed.
End Tie.

Definition copy_atomic_is_translation : Prop :=
  forall (K : Type) (EqK : EqDecision K) (CK : Countable K) (D : Type)
         (parent_of : @pexpr K -> option (@pexpr K)) (src : side * K) (sd : side) (q : K) (c : list Z),
    @fsteps_of_sys K EqK CK D c (g_copy_atomic parent_of (PLive src) (PLive (sd, q))) = Some (@copy_steps K EqK CK D sd q c).
Lemma copy_atomic_is_translation_holds : copy_atomic_is_translation.
Proof. unfold copy_atomic_is_translation. intros. apply tie_copy_atomic. Qed.
