(** Proofs about Model/Glob.v: the iterative matcher equals the definition [gm]
    (and never runs out of fuel); [is_excluded] characterised by [gm]; the order of
    tests before the F3 repair is refuted by a concrete pair. *)
From Coq Require Import ZArith List Bool Arith Lia.
From Copia Require Import Model.Path Model.Glob.
Import ListNotations.
Local Arguments is_star : simpl never.
Local Arguments is_q : simpl never.
Local Arguments Z.eqb : simpl never.
Local Open Scope Z_scope.
Local Open Scope nat_scope.

(* star_any p u : p matches some suffix of u *)
Fixpoint star_any (p u : list Z) : bool :=
  gm p u || match u with [] => false | _ :: u' => star_any p u' end.

Lemma gm_star x p t : is_star x = true -> gm (x :: p) t = star_any p t.
Proof. intros Hx. simpl. rewrite Hx. induction t as [|c t IH]; simpl; [reflexivity|]. now rewrite IH. Qed.

Lemma gm_nil p : gm p [] = only_stars p.
Proof. induction p as [|x p IH]; simpl; [reflexivity|]. destruct (is_star x); simpl; [now rewrite orb_false_r|reflexivity]. Qed.

(* char-wise match of a star-free pattern segment against a text segment *)
Fixpoint seg (q w : list Z) : bool :=
  match q, w with
  | [], [] => true
  | x :: q', c :: w' => negb (is_star x) && (is_q x || (x =? c)%Z) && seg q' w'
  | _, _ => false
  end.

Lemma seg_len q w : seg q w = true -> length q = length w.
Proof. revert w; induction q as [|x q IH]; destruct w; simpl; try discriminate; auto.
  intros H. apply andb_prop in H as [_ H]. f_equal; auto. Qed.

Lemma seg_gm q w p t : seg q w = true -> gm (q ++ p) (w ++ t) = gm p t.
Proof. revert w; induction q as [|x q IH]; destruct w; simpl; try discriminate; auto.
  intros H. apply andb_prop in H as [H H3]. apply andb_prop in H as [H1 H2].
  apply negb_true_iff in H1. rewrite H1, H2. simpl. now apply IH. Qed.

Lemma seg_snoc q w x c : seg q w = true -> is_star x = false -> (is_q x || (x =? c)%Z) = true -> seg (q ++ [x]) (w ++ [c]) = true.
Proof. revert w; induction q as [|y q IH]; destruct w; simpl; try discriminate.
  - intros _ H1 H2. now rewrite H1, H2.
  - intros H H1 H2. apply andb_prop in H as [H H3]. rewrite H. simpl. now apply IH. Qed.

(* minimal length *)
Fixpoint minlen (p : list Z) : nat :=
  match p with [] => 0 | x :: p' => if is_star x then minlen p' else S (minlen p') end.

Lemma gm_minlen p : forall t, gm p t = true -> minlen p <= length t.
Proof. induction p as [|x p IH]; intros t; [simpl; lia|].
  destruct (is_star x) eqn:Hx.
  - rewrite gm_star by assumption. simpl minlen. rewrite Hx.
    induction t as [|c t IHt]; simpl.
    + rewrite orb_false_r. intros H. apply IH in H. simpl in H. lia.
    + intros H. apply orb_prop in H as [H|H]; [apply IH in H; simpl in H; lia| apply IHt in H; lia].
  - simpl. rewrite Hx. destruct t as [|c t]; [discriminate|]. intros H. apply andb_prop in H as [_ H]. apply IH in H. simpl. lia. Qed.

Lemma star_any_minlen p u : star_any p u = true -> minlen p <= length u.
Proof. induction u as [|c u IH]; simpl.
  - rewrite orb_false_r. intros H. apply gm_minlen in H. simpl in H. lia.
  - intros H. apply orb_prop in H as [H|H]; [apply gm_minlen in H; simpl in H; lia | apply IH in H; lia]. Qed.

Lemma minlen_app q p : minlen (q ++ p) = minlen q + minlen p.
Proof. induction q as [|x q IH]; simpl; [reflexivity|]. destruct (is_star x); simpl; lia. Qed.
Lemma seg_minlen q w : seg q w = true -> minlen q = length q.
Proof. revert w; induction q as [|x q IH]; destruct w; simpl; try discriminate; auto.
  intros H. apply andb_prop in H as [H H3]. apply andb_prop in H as [H1 _]. apply negb_true_iff in H1. rewrite H1. f_equal. eauto. Qed.
Lemma only_stars_minlen p : only_stars p = false -> 1 <= minlen p.
Proof. induction p as [|x p IH]; simpl; [discriminate|]. destruct (is_star x); simpl; [auto|lia]. Qed.

(* star_any monotone under suffix extension *)
Lemma star_any_cons p c u : star_any p u = true -> star_any p (c :: u) = true.
Proof. intros H. simpl. rewrite H. apply orb_true_r. Qed.
Lemma star_any_app p w u : star_any p u = true -> star_any p (w ++ u) = true.
Proof. induction w; simpl app; auto. intros H. apply star_any_cons; auto. Qed.


Lemma star_any_iff p u : star_any p u = true <-> exists pre s, u = pre ++ s /\ gm p s = true.
Proof. split.
  - induction u as [|c u IH]; simpl.
    + rewrite orb_false_r. intros H. exists [], []. auto.
    + intros H. apply orb_prop in H as [H|H].
      * exists [], (c :: u). auto.
      * destruct (IH H) as (pre & s & -> & Hs). exists (c :: pre), s. auto.
  - intros (pre & s & -> & Hs). apply star_any_app. destruct s; simpl; rewrite Hs; reflexivity.
Qed.

Definition starfree (q : list Z) := forallb (fun x => negb (is_star x)) q.
Lemma seg_starfree q w : seg q w = true -> starfree q = true.
Proof. revert w; induction q as [|x q IH]; destruct w; simpl; try discriminate; auto.
  intros H. apply andb_prop in H as [H H3]. apply andb_prop in H as [H1 _]. rewrite H1. simpl. eauto. Qed.

Lemma gm_starfree_prefix q r : starfree q = true -> forall s, gm (q ++ r) s = true ->
  length q <= length s /\ gm r (skipn (length q) s) = true.
Proof. induction q as [|x q IH]; intros Hq s H.
  - simpl. split; [lia|exact H].
  - simpl in Hq. apply andb_prop in Hq as [Hx Hq]. apply negb_true_iff in Hx.
    simpl app in H. simpl gm in H. rewrite Hx in H. destruct s as [|c s]; [discriminate|].
    apply andb_prop in H as [_ H]. destruct (IH Hq _ H) as [H1 H2]. simpl. split; [lia|exact H2]. Qed.

Lemma star_step q w x p' t : is_star x = true -> seg q w = true ->
  star_any (q ++ x :: p') (w ++ t) = star_any p' t.
Proof. intros Hx Hs. apply eq_true_iff_eq. split.
  - intros H. apply star_any_iff in H as (pre & s & E & Hg).
    apply gm_starfree_prefix in Hg as [Hl Hg]; [|eapply seg_starfree; eauto].
    rewrite gm_star in Hg by assumption.
    apply seg_len in Hs.
    (* t = skipn |w| (pre ++ s) *)
    assert (Et : t = skipn (length w) (pre ++ s)) by (rewrite <- E, skipn_app, skipn_all, Nat.sub_diag; reflexivity).
    assert (Es : s = firstn (length q) s ++ skipn (length q) s) by (symmetry; apply firstn_skipn).
    rewrite Es, app_assoc in Et. rewrite skipn_app in Et.
    assert (Hz : length w - length (pre ++ firstn (length q) s) = 0).
    { rewrite app_length, firstn_length. lia. }
    rewrite Hz in Et. simpl skipn in Et at 2. rewrite Et. apply star_any_app. exact Hg.
  - intros H. apply star_any_iff. exists [], (w ++ t). split; [reflexivity|].
    rewrite seg_gm by assumption. now rewrite gm_star. Qed.


(** Termination measure of the loop: lexicographic (text left from the backtrack
    point, pattern left), flattened. *)
Definition mu (star : option (list Z)) (mark p t : list Z) : nat :=
  match star with
  | None => length t * (length p + 1) + length p + 1
  | Some sp => length mark * (length sp + 1) + length p + 1
  end.

(** Loop invariant: with a backtrack point [(sp, mark)], the star-free pattern
    segment [q] consumed since the star matches the text [w] consumed since
    [mark]; the loop then decides whether [sp] matches some suffix of [mark]. *)
Lemma loop_correct : forall fuel p t star mark, mu star mark p t <= fuel ->
  match star with
  | None => glob_loop fuel p t None mark = Some (gm p t)
  | Some sp => forall q w, sp = q ++ p -> mark = w ++ t -> seg q w = true ->
       glob_loop fuel p t (Some sp) mark = Some (star_any sp mark)
  end.
Proof.
  induction fuel as [|f IH]; intros p t star mark Hmu.
  { destruct star as [sp|]; simpl in Hmu; lia. }
  destruct star as [sp|].
  - intros q w Esp Emt Hseg. rename mark into mt.
    pose proof (seg_len _ _ Hseg) as Hlen.
    assert (F1 : gm sp mt = gm p t) by (subst; now apply seg_gm).
    destruct t as [|c t'].
    + (* text exhausted *)
      cbn [glob_loop]. f_equal. rewrite <- gm_nil, <- F1.
      destruct mt as [|m0 mt']; [simpl; now rewrite orb_false_r|].
      simpl star_any. destruct (gm sp (m0 :: mt')) eqn:G; [reflexivity|]. simpl.
      destruct (star_any sp mt') eqn:HS; [|reflexivity]. exfalso.
      apply star_any_minlen in HS. rewrite gm_nil in F1. symmetry in F1. apply only_stars_minlen in F1.
      rewrite Esp, minlen_app, (seg_minlen _ _ Hseg) in HS.
      rewrite app_nil_r in Emt. assert (length w = S (length mt')) by (rewrite <- Emt; reflexivity). lia.
    + assert (Hmt : exists m0 mt', mt = m0 :: mt').
      { subst mt. destruct w; simpl; eauto. }
      destruct Hmt as (m0 & mt' & Emt').
      assert (Hback : gm p (c :: t') = false ->
                glob_loop f sp (tl mt) (Some sp) (tl mt) = Some (star_any sp mt)).
      { intros Hg. specialize (IH sp mt' (Some sp) mt'). cbn [mu] in IH.
        assert (Hm' : length mt' * (length sp + 1) + length sp + 1 <= f)
          by (unfold mu in Hmu; rewrite Emt' in Hmu; cbn [length] in Hmu; nia).
        rewrite Emt'. cbn [tl].
        rewrite (IH Hm' [] [] eq_refl eq_refl eq_refl).
        rewrite Emt' in F1. simpl star_any. rewrite F1, Hg. reflexivity. }
      destruct p as [|x p'].
      * cbn [glob_loop star_here lit_here]. apply Hback. reflexivity.
      * cbn [glob_loop star_here lit_here tl]. destruct (is_star x) eqn:Hx.
        -- specialize (IH p' (c :: t') (Some p') (c :: t')). cbn [mu] in IH.
           rewrite (IH ltac:(unfold mu in Hmu; rewrite Esp, Emt, !app_length in Hmu; cbn [length] in Hmu |- *; nia) [] [] eq_refl eq_refl eq_refl).
           subst sp mt. f_equal. symmetry. now apply star_step.
        -- destruct (is_q x || (x =? c)%Z) eqn:Hm.
           ++ specialize (IH p' t' (Some sp) mt). cbn [mu] in IH.
              apply (IH ltac:(unfold mu in Hmu; cbn [length] in Hmu; lia) (q ++ [x]) (w ++ [c])).
              ** subst sp. now rewrite <- app_assoc.
              ** subst mt. now rewrite <- app_assoc.
              ** now apply seg_snoc.
           ++ apply Hback. simpl. rewrite Hx, Hm. reflexivity.
  - destruct t as [|c t'].
    + cbn [glob_loop]. now rewrite gm_nil.
    + destruct p as [|x p']; [reflexivity|].
      cbn [glob_loop star_here lit_here tl]. destruct (is_star x) eqn:Hx.
      * specialize (IH p' (c :: t') (Some p') (c :: t')). cbn [mu] in IH.
        rewrite (IH ltac:(unfold mu in Hmu; cbn [length] in Hmu |- *; nia) [] [] eq_refl eq_refl eq_refl).
        now rewrite gm_star.
      * destruct (is_q x || (x =? c)%Z) eqn:Hm.
        -- specialize (IH p' t' None mark). cbn [mu] in IH. rewrite IH by (unfold mu in Hmu; cbn [length] in Hmu; nia).
           simpl. now rewrite Hx, Hm.
        -- simpl. now rewrite Hx, Hm.
Qed.

(** The fuel computed from the input lengths is enough: the loop never reports [None]. *)
Lemma glob_fuel_suffices p t : glob_loop (glob_fuel p t) p t None t = Some (gm p t).
Proof. apply (loop_correct _ p t None t). unfold mu, glob_fuel. nia. Qed.

Lemma glob_match_gm p t : glob_match p t = gm p t.
Proof. unfold glob_match. now rewrite glob_fuel_suffices. Qed.

(** ** The defining equations of [gm] (as in the property text) *)
Lemma gm_nil_l t : gm [] t = match t with [] => true | _ => false end.
Proof. reflexivity. Qed.
Lemma gm_star_eq p t : gm (STAR :: p) t = gm p t || match t with [] => false | _ :: t' => gm (STAR :: p) t' end.
Proof. destruct t; reflexivity. Qed.
Lemma gm_q_eq p c t : gm (QMARK :: p) (c :: t) = gm p t.
Proof. reflexivity. Qed.
Lemma gm_lit_eq x p c t : x <> STAR -> x <> QMARK -> gm (x :: p) (c :: t) = (x =? c)%Z && gm p t.
Proof. intros H1 H2. cbn [gm]. unfold is_star, is_q.
  destruct (Z.eqb_spec x STAR); [contradiction|]. destruct (Z.eqb_spec x QMARK); [contradiction|]. reflexivity. Qed.
Lemma gm_nonstar_nil x p : x <> STAR -> gm (x :: p) [] = false.
Proof. intros H1. cbn [gm]. unfold is_star. destruct (Z.eqb_spec x STAR); [contradiction|]. reflexivity. Qed.

(** ** F3: the order of tests before the repair is wrong *)
Lemma glob_match_prefix_refuted :
  glob_match_prefix [42%Z] [42%Z; 97%Z; 98%Z] = false /\ gm [42%Z] [42%Z; 97%Z; 98%Z] = true.
Proof. split; vm_compute; reflexivity. Qed.

(** ** is_excluded *)
Local Close Scope nat_scope.
Local Close Scope Z_scope.
Lemma is_excluded_with_ext m1 m2 rel ex : (forall p t, m1 p t = m2 p t) ->
  is_excluded_with m1 rel ex = is_excluded_with m2 rel ex.
Proof. intros E. induction ex as [|pat ex IH]; [reflexivity|]. cbn [is_excluded_with].
  assert (A : forall pat cs, any_normal m1 pat cs = any_normal m2 pat cs).
  { intros pt cs. induction cs as [|[| | |c] cs IHc]; cbn [any_normal]; auto. now rewrite E, IHc. }
  rewrite IH, A, E. reflexivity. Qed.

Lemma is_excluded_gm rel ex : is_excluded rel ex = is_excluded_with gm rel ex.
Proof. apply is_excluded_with_ext. exact glob_match_gm. Qed.

Lemma any_normal_iff m pat cs : any_normal m pat cs = true <-> exists c, In (CNormal c) cs /\ m pat c = true.
Proof. induction cs as [|x cs IH]; cbn [any_normal].
  - split; [discriminate|]. intros (c & [] & _).
  - assert (Hskip : (forall c, x <> CNormal c) ->
      (any_normal m pat cs = true <-> exists c, In (CNormal c) (x :: cs) /\ m pat c = true)).
    { intros Hx. rewrite IH. split; intros (c' & Hin & Hm); exists c'; (split; [|exact Hm]).
      - right; exact Hin.
      - destruct Hin as [Hd|Hin]; [exfalso; eapply Hx; eauto|exact Hin]. }
    destruct x as [| | |c]; try (apply Hskip; intros; discriminate). clear Hskip.
    destruct (m pat c) eqn:Hm.
    + split; [|reflexivity]. intros _. exists c. split; [left; reflexivity|exact Hm].
    + rewrite IH. split; intros (c' & Hin & Hm'); exists c'; (split; [|exact Hm']).
      * right; exact Hin.
      * destruct Hin as [Hd|Hin]; [|exact Hin]. inversion Hd; subst. congruence.
Qed.

(** One pattern applies to a path when, after trimming trailing slashes, it is
    non-empty and - containing a slash - matches the whole path string, or -
    slash-free - matches one Normal component. *)
Definition pattern_excludes (rel pat0 : list Z) : Prop :=
  let pat := trim_end_slash pat0 in
  pat <> [] /\ (if has_slash pat then gm pat rel = true
   else exists c, In (CNormal c) (components rel) /\ gm pat c = true).

Lemma is_excluded_iff rel ex : is_excluded rel ex = true <-> exists pat0, In pat0 ex /\ pattern_excludes rel pat0.
Proof. rewrite is_excluded_gm. induction ex as [|pat0 ex IH].
  - cbn. split; [discriminate|]. intros (p & [] & _).
  - cbn [is_excluded_with]. unfold pattern_excludes in *.
    destruct (trim_end_slash pat0) as [|x0 pr] eqn:Et.
    + rewrite IH. split.
      * intros (p & Hin & Hp). exists p. split; [right; exact Hin|exact Hp].
      * intros (p & [Hd|Hin] & Hp); [subst p; rewrite Et in Hp; destruct Hp as [Hp _]; contradiction|]. exists p; auto.
    + destruct (has_slash (x0 :: pr)) eqn:Hs.
      * destruct (gm (x0 :: pr) rel) eqn:Hg.
        -- split; [|reflexivity]. intros _. exists pat0. split; [left; reflexivity|]. rewrite Et, Hs. split; [discriminate|exact Hg].
        -- rewrite IH. split.
           ++ intros (p & Hin & Hp). exists p. split; [right; exact Hin|exact Hp].
           ++ intros (p & [Hd|Hin] & Hp); [subst p; rewrite Et, Hs in Hp; destruct Hp as [_ Hp]; congruence|]. exists p; auto.
      * destruct (any_normal gm (x0 :: pr) (components rel)) eqn:Ha.
        -- split; [|reflexivity]. intros _. exists pat0. split; [left; reflexivity|]. rewrite Et, Hs. split; [discriminate|]. now apply any_normal_iff.
        -- rewrite IH. split.
           ++ intros (p & Hin & Hp). exists p. split; [right; exact Hin|exact Hp].
           ++ intros (p & [Hd|Hin] & Hp); [subst p; rewrite Et, Hs in Hp; destruct Hp as [_ Hp]; apply any_normal_iff in Hp; congruence|]. exists p; auto.
Qed.

(** [trim_end_slash] removes exactly the trailing run of slashes. *)
Lemma trim_end_slash_spec s :
  exists k, s = trim_end_slash s ++ repeat PSEP k /\
            (trim_end_slash s = [] \/ exists pre x, trim_end_slash s = pre ++ [x] /\ x <> PSEP).
Proof. induction s as [|x r (k & E & H)]; [exists 0%nat; cbn; auto|]. cbn [trim_end_slash].
  destruct (trim_end_slash r) as [|y r'] eqn:Et.
  - destruct (Z.eqb_spec x PSEP) as [->|N].
    + exists (S k). cbn [app repeat]. split; [now rewrite E at 1|auto].
    + exists k. split; [cbn [app]; now rewrite E at 1|]. right. exists [], x. auto.
  - exists k. split; [cbn [app]; now rewrite E at 1|]. right.
    destruct H as [H|(pre & z & Hz & Nz)]; [discriminate|]. exists (x :: pre), z. cbn [app]. now rewrite Hz. Qed.
