(** Totality, bounded allocation, no effect before a request, staying in step. *)
From Coq Require Import ZArith List Bool Lia.
From Copia Require Import Gen.Constants Model.Wire.
Import ListNotations.
Open Scope Z_scope.

Section P.
Variable T : Type.
Variable request : Type.
Variable R : Type.
Variable decode : list Z -> option request.
Variable is_bye : request -> bool.
Variable content_len : request -> Z.
Variable handle : T -> request -> list Z -> option (T * R).
Notation loop := (loop T request R decode is_bye content_len handle).
Notation serve_input := (serve_input T request R decode is_bye content_len handle).
Notation o_exit := (Wire.o_exit T R).
Notation o_tree := (Wire.o_tree T R).
Notation o_replies := (Wire.o_replies T R).
Notation o_allocs := (Wire.o_allocs T R).

(** the loop never runs out of fuel: every iteration consumes at least 4 bytes *)
Lemma loop_total fuel : forall inp t out al, (length inp < fuel)%nat ->
  o_exit (loop fuel inp t out al) <> OutOfFuel.
Proof. induction fuel as [|f IH]; intros inp t out al Hf; [lia|]. cbn [Wire.loop].
  destruct (Z.ltb_spec (Z.of_nat (length inp)) 4) as [H4|H4]; [cbn; discriminate|].
  destruct (MAX_FRAME <? be32 (firstn 4 inp)); [cbn; discriminate|].
  destruct (Z.of_nat (length (skipn 4 inp)) <? be32 (firstn 4 inp)); [cbn; discriminate|].
  destruct (decode _) as [rq|]; [|cbn; discriminate].
  destruct (is_bye rq); [cbn; discriminate|].
  destruct (handle _ _ _) as [[t' reply]|]; [|cbn; discriminate].
  apply IH. rewrite !skipn_length. lia. Qed.

Theorem serve_total inp t : o_exit (serve_input inp t) = Exit0 \/ o_exit (serve_input inp t) = ExitError.
Proof. assert (Hne : o_exit (serve_input inp t) <> OutOfFuel).
  { unfold Wire.serve_input. destruct (Z.of_nat (length inp) <? 6); [cbn; discriminate|].
    destruct (negb _); [cbn; discriminate|]. apply loop_total. rewrite skipn_length. lia. }
  destruct (o_exit (serve_input inp t)); auto. congruence. Qed.

(** every frame buffer that is reserved is at most MAX_FRAME bytes *)
Lemma loop_allocs fuel : forall inp t out al, Forall (fun a => a <= MAX_FRAME) al ->
  Forall (fun a => a <= MAX_FRAME) (o_allocs (loop fuel inp t out al)).
Proof. induction fuel as [|f IH]; intros inp t out al Hal; cbn [Wire.loop]; [exact Hal|].
  destruct (Z.of_nat (length inp) <? 4); [exact Hal|].
  destruct (Z.ltb_spec MAX_FRAME (be32 (firstn 4 inp))) as [Hb|Hb]; [exact Hal|].
  assert (Hal' : Forall (fun a => a <= MAX_FRAME) (al ++ [be32 (firstn 4 inp)])).
  { apply Forall_app. split; [assumption|]. constructor; [lia|constructor]. }
  destruct (Z.of_nat (length (skipn 4 inp)) <? be32 (firstn 4 inp)); [exact Hal'|].
  destruct (decode _) as [rq|]; [|exact Hal'].
  destruct (is_bye rq); [exact Hal'|].
  destruct (handle _ _ _) as [[t' reply]|]; [|exact Hal'].
  now apply IH. Qed.

Theorem serve_alloc_bounded inp t : Forall (fun a => a <= MAX_FRAME) (o_allocs (serve_input inp t)).
Proof. unfold Wire.serve_input. destruct (Z.of_nat (length inp) <? 6); [constructor|].
  destruct (negb _); [constructor|]. apply loop_allocs. constructor. Qed.

(** the tree only changes through the handler applied to a decoded request: if no
    reply was produced, the tree is the initial one *)
Lemma loop_tree_unchanged fuel : forall inp t out al,
  length (o_replies (loop fuel inp t out al)) = length out -> o_tree (loop fuel inp t out al) = t.
Proof. induction fuel as [|f IH]; intros inp t out al; cbn [Wire.loop]; [reflexivity|].
  destruct (Z.of_nat (length inp) <? 4); [reflexivity|].
  destruct (MAX_FRAME <? be32 (firstn 4 inp)); [reflexivity|].
  destruct (Z.of_nat (length (skipn 4 inp)) <? be32 (firstn 4 inp)); [reflexivity|].
  destruct (decode _) as [rq|]; [|reflexivity].
  destruct (is_bye rq); [reflexivity|].
  destruct (handle _ _ _) as [[t' reply]|]; [|reflexivity].
  intros Hl. exfalso.
  assert (Hge : forall fuel inp t out al, (length out <= length (o_replies (loop fuel inp t out al)))%nat).
  { clear. induction fuel as [|f IH]; intros inp t out al; cbn [Wire.loop]; [cbn; lia|].
    destruct (Z.of_nat (length inp) <? 4); [cbn; lia|].
    destruct (MAX_FRAME <? be32 (firstn 4 inp)); [cbn; lia|].
    destruct (Z.of_nat (length (skipn 4 inp)) <? be32 (firstn 4 inp)); [cbn; lia|].
    destruct (decode _) as [rq|]; [|cbn; lia].
    destruct (is_bye rq); [cbn; lia|].
    destruct (handle _ _ _) as [[t' reply]|]; [|cbn; lia].
    specialize (IH (skipn (Z.to_nat (Z.min (Z.max 0 (content_len rq)) (Z.of_nat (length (skipn (Z.to_nat (be32 (firstn 4 inp))) (skipn 4 inp)))))) (skipn (Z.to_nat (be32 (firstn 4 inp))) (skipn 4 inp))) t' (out ++ [reply]) (al ++ [be32 (firstn 4 inp)])).
    rewrite app_length in IH. cbn [length] in IH. lia. }
  match type of Hl with length (o_replies (loop f ?i ?t2 ?o ?a)) = _ => specialize (Hge f i t2 o a) end.
  rewrite app_length in Hge. cbn [length] in Hge. lia. Qed.

Theorem serve_no_effect_without_reply inp t :
  o_replies (serve_input inp t) = [] -> o_tree (serve_input inp t) = t.
Proof. unfold Wire.serve_input. destruct (Z.of_nat (length inp) <? 6); [reflexivity|].
  destruct (negb _); [reflexivity|]. intros Hr. apply loop_tree_unchanged. rewrite Hr. reflexivity. Qed.

(** bad prologue: nothing happens at all *)
Theorem serve_bad_prologue inp t :
  (Z.of_nat (length inp) < 6 \/ firstn 6 inp <> MAGIC) ->
  o_exit (serve_input inp t) = ExitError /\ o_tree (serve_input inp t) = t /\
  o_replies (serve_input inp t) = [] /\ o_allocs (serve_input inp t) = [].
Proof. unfold Wire.serve_input. intros [Hs|Hm].
  - apply Z.ltb_lt in Hs. rewrite Hs. auto.
  - destruct (Z.ltb_spec (Z.of_nat (length inp)) 6) as [|Hl]; [auto|].
    destruct (forallb _ _) eqn:Ef; cbn [negb]; [|auto]. exfalso. apply Hm.
    assert (Hlen : length (firstn 6 inp) = 6%nat) by (rewrite firstn_length; lia).
    destruct (firstn 6 inp) as [|a0 [|a1 [|a2 [|a3 [|a4 [|a5 [|? ?]]]]]]]; cbn [length] in Hlen; try lia.
    unfold MAGIC in *. cbn [combine forallb] in Ef.
    repeat (apply andb_prop in Ef as [? Ef]).
    repeat match goal with Hx : (_ =? _) = true |- _ => apply Z.eqb_eq in Hx end. subst. reflexivity. Qed.

(** staying in step: one well-framed, decodable request (with the content it
    announces fully present) is consumed exactly, whatever the reply was, and the
    loop continues on the following bytes with the handler's tree. *)
Lemma be32_bytes_ok n : 0 <= n < 2^32 -> be32 (be32_bytes n) = n.
Proof. intros Hn. unfold be32, be32_bytes.
  pose proof (Z.div_mod n 256 ltac:(lia)). pose proof (Z.div_mod (n / 256) 256 ltac:(lia)).
  pose proof (Z.div_mod (n / 256 / 256) 256 ltac:(lia)).
  rewrite !Z.div_div in * by lia. change (256 * 256) with 65536 in *. change (65536 * 256) with 16777216 in *.
  assert (n / 16777216 < 256) by (apply Z.div_lt_upper_bound; lia).
  assert (0 <= n / 16777216) by (apply Z.div_pos; lia).
  rewrite (Z.mod_small (n / 16777216) 256) by lia. lia. Qed.

Theorem loop_in_step fuel payload rq content rest t out al t' reply :
  Z.of_nat (length payload) <= MAX_FRAME -> MAX_FRAME < 2^32 ->
  decode payload = Some rq -> is_bye rq = false ->
  Z.of_nat (length content) = Z.max 0 (content_len rq) ->
  handle t rq content = Some (t', reply) ->
  loop (S fuel) (frame payload ++ content ++ rest) t out al =
  loop fuel rest t' (out ++ [reply]) (al ++ [Z.of_nat (length payload)]).
Proof. intros Hp Hm Hd Hb Hc Hh. cbn [Wire.loop]. unfold frame.
  assert (Hlen4 : length (be32_bytes (Z.of_nat (length payload))) = 4%nat) by reflexivity.
  rewrite <- !app_assoc.
  replace (Z.of_nat (length (be32_bytes (Z.of_nat (length payload)) ++ payload ++ content ++ rest)) <? 4) with false
    by (symmetry; apply Z.ltb_ge; rewrite app_length, Hlen4; lia).
  rewrite firstn_app, Hlen4. replace (4 - 4)%nat with 0%nat by lia.
  rewrite (firstn_all2 (be32_bytes _)) by (rewrite Hlen4; lia). cbn [firstn]. rewrite app_nil_r.
  rewrite skipn_app, Hlen4. replace (4 - 4)%nat with 0%nat by lia.
  rewrite (skipn_all2 (be32_bytes _)) by (rewrite Hlen4; lia). cbn [skipn app].
  rewrite be32_bytes_ok by lia.
  replace (MAX_FRAME <? Z.of_nat (length payload)) with false by (symmetry; apply Z.ltb_ge; lia).
  replace (Z.of_nat (length (payload ++ content ++ rest)) <? Z.of_nat (length payload)) with false
    by (symmetry; apply Z.ltb_ge; rewrite app_length; lia).
  rewrite Nat2Z.id. rewrite firstn_app, Nat.sub_diag, firstn_all. cbn [firstn]. rewrite app_nil_r.
  rewrite skipn_app, Nat.sub_diag, skipn_all. cbn [skipn app].
  rewrite Hd, Hb.
  assert (Hn : Z.to_nat (Z.min (Z.max 0 (content_len rq)) (Z.of_nat (length (content ++ rest)))) = length content).
  { rewrite app_length. rewrite <- Hc. lia. }
  rewrite Hn. rewrite firstn_app, Nat.sub_diag, firstn_all. cbn [firstn]. rewrite app_nil_r.
  rewrite skipn_app, Nat.sub_diag, skipn_all. cbn [skipn app].
  rewrite Hh. reflexivity. Qed.


(** the accumulators do not influence the run *)
Lemma loop_acc fuel : forall inp t out al,
  o_exit (loop fuel inp t out al) = o_exit (loop fuel inp t [] []) /\
  o_tree (loop fuel inp t out al) = o_tree (loop fuel inp t [] []) /\
  o_replies (loop fuel inp t out al) = out ++ o_replies (loop fuel inp t [] []).
Proof. induction fuel as [|f IH]; intros inp t out al; cbn [Wire.loop].
  - cbn. now rewrite app_nil_r.
  - destruct (Z.of_nat (length inp) <? 4); [cbn; now rewrite app_nil_r|].
    destruct (MAX_FRAME <? be32 (firstn 4 inp)); [cbn; now rewrite app_nil_r|].
    destruct (Z.of_nat (length (skipn 4 inp)) <? be32 (firstn 4 inp)); [cbn; now rewrite app_nil_r|].
    destruct (decode _) as [rq|]; [|cbn; now rewrite app_nil_r].
    destruct (is_bye rq); [cbn; now rewrite app_nil_r|].
    destruct (handle _ _ _) as [[t' reply]|]; [|cbn; now rewrite app_nil_r].
    match goal with |- context [loop f ?i t' (out ++ [reply]) ?a] =>
      destruct (IH i t' (out ++ [reply]) a) as (E1 & E2 & E3);
      destruct (IH i t' ([] ++ [reply]) ([] ++ [be32 (firstn 4 inp)])) as (F1 & F2 & F3) end.
    rewrite E1, E2, E3, F1, F2, F3. rewrite <- app_assoc. auto. Qed.

(** a well-framed request whose handler leaves the tree unchanged (e.g. a refused
    path) can be skipped: the session with it = its reply followed by the session
    without it *)
Theorem refused_request_is_skippable fuel payload rq content rest t e :
  Z.of_nat (length payload) <= MAX_FRAME -> MAX_FRAME < 2^32 ->
  decode payload = Some rq -> is_bye rq = false ->
  Z.of_nat (length content) = Z.max 0 (content_len rq) ->
  handle t rq content = Some (t, e) ->
  let A := loop (S fuel) (frame payload ++ content ++ rest) t [] [] in
  let B := loop fuel rest t [] [] in
  o_exit A = o_exit B /\ o_tree A = o_tree B /\ o_replies A = e :: o_replies B.
Proof. intros Hp Hm Hd Hb Hc Hh A B. unfold A.
  rewrite (loop_in_step fuel payload rq content rest t [] [] t e Hp Hm Hd Hb Hc Hh).
  destruct (loop_acc fuel rest t ([] ++ [e]) ([] ++ [Z.of_nat (length payload)])) as (E1 & E2 & E3).
  rewrite E1, E2, E3. auto. Qed.

End P.
