(** The prologue test of the hub's read loop IS the translated source of wire.rs `read_magic`.

    Gen/WireMagicGen.v (regenerated on every run): read exactly six bytes (fewer = error) and compare them, all six,
    with MAGIC.  Model/Wire.v [serve_input] makes the same two tests; the lemmas below say so, and that a session is
    served only when the generated function answers [Some true]. *)
From Coq Require Import ZArith List Bool Lia.
From Copia Require Import Gen.Constants Model.LoopLib Model.Wire Gen.WireMagicGen.
Import ListNotations.
Open Scope Z_scope.

Lemma list_eqb_combine (a b : list Z) : length a = length b ->
  list_eqb Z.eqb a b = forallb (fun '(x, y) => x =? y) (combine a b).
Proof.
  revert b; induction a as [|x a IH]; intros [|y b] Hl; cbn in *; try discriminate; [reflexivity|].
  rewrite IH by lia. reflexivity.
Qed.

Lemma tie_read_magic_short inp : g_read_magic inp = None <-> Z.of_nat (length inp) < 6.
Proof.
  unfold g_read_magic, take_exact, lenZ. destruct (Z.ltb_spec (Z.of_nat (length inp)) 6); split; intros Hx; try reflexivity; try discriminate; lia.
Qed.

Lemma tie_read_magic inp : 6 <= Z.of_nat (length inp) ->
  g_read_magic inp = Some (forallb (fun '(a, b) => a =? b) (combine (firstn 6 inp) MAGIC)).
Proof.
  intros Hl. unfold g_read_magic, take_exact, lenZ.
  destruct (Z.ltb_spec (Z.of_nat (length inp)) 6); [lia|].
  change (Z.to_nat 6) with 6%nat. rewrite list_eqb_combine; [reflexivity|].
  rewrite firstn_length. unfold MAGIC. cbn [length]. lia.
Qed.

Section Serve.
Variables (T request R : Type) (decode : list Z -> option request) (is_bye : request -> bool)
          (content_len : request -> Z) (handle : T -> request -> list Z -> option (T * R)).

(** unless the translated `read_magic` says [Some true], nothing is answered and the tree is untouched *)
Lemma serve_requires_magic inp t :
  g_read_magic inp <> Some true ->
  let o := serve_input T request R decode is_bye content_len handle inp t in
  o_exit _ _ o = ExitError /\ o_replies _ _ o = [] /\ o_tree _ _ o = t.
Proof.
  intros Hm. unfold serve_input.
  destruct (Z.ltb_spec (Z.of_nat (length inp)) 6) as [Hs|Hl]; [repeat split|].
  rewrite tie_read_magic in Hm by lia.
  destruct (forallb _ (combine (firstn 6 inp) MAGIC)); [exfalso; apply Hm; reflexivity|]. repeat split.
Qed.
End Serve.

Definition wire_magic_is_translation : Prop :=
  (forall inp, g_read_magic inp = None <-> Z.of_nat (length inp) < 6) /\
  (forall inp, 6 <= Z.of_nat (length inp) -> g_read_magic inp = Some (forallb (fun '(a, b) => a =? b) (combine (firstn 6 inp) MAGIC))) /\
  (forall (T request R : Type) decode is_bye content_len handle inp (t : T), g_read_magic inp <> Some true ->
     let o := serve_input T request R decode is_bye content_len handle inp t in
     o_exit _ _ o = ExitError /\ o_replies _ _ o = [] /\ o_tree _ _ o = t).
Lemma wire_magic_is_translation_holds : wire_magic_is_translation.
Proof. split; [exact tie_read_magic_short|]. split; [exact tie_read_magic|]. intros. apply serve_requires_magic. assumption. Qed.
