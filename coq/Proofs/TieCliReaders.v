(** The CLI readers of Model/Protocol.v ARE the translated source of main.rs `validate_block_size`, `run_patch`,
    `run_delta`.

    Gen/CliReadersGen.v (regenerated on every run): `validate_block_size` (power of two, then the range);
    `copia patch` / `copia delta` as the ordered list of what they do, given the block size of the file that
    `bincode::deserialize` accepted (or its refusal): the input file is read, a refused file or a block size that
    `validate_block_size` rejects ends the command with an error BEFORE the engine is constructed (its constructor
    asserts) and before any other file is opened or created; only then the engine, the other input, (patch) the output
    file, the work, done. *)
From Coq Require Import ZArith List Bool Lia.
From Copia Require Import Gen.Constants Model.LoopLib Model.Checksum Model.Delta Model.Bincode Model.Protocol Gen.CliReadersGen.
Import ListNotations.
Open Scope Z_scope.

Lemma tie_validate_block_size (n : Z) : g_validate_block_size n = validate_block_size n.
Proof. reflexivity. Qed.

Definition patch_program (decoded : option Z) : list keff :=
  KRead KInput :: match decoded with
                  | Some bs => if validate_block_size bs then [KEngine bs; KOpen KBasis; KCreate KOutput; KPatch; KDone] else [KFail]
                  | None => [KFail]
                  end.
Definition delta_program (decoded : option Z) : list keff :=
  KRead KInput :: match decoded with
                  | Some bs => if validate_block_size bs then [KEngine bs; KOpen KSource; KDelta; KWrite KOutput; KDone] else [KFail]
                  | None => [KFail]
                  end.

Lemma tie_run_patch decoded : g_run_patch decoded = patch_program decoded.
Proof. unfold g_run_patch, patch_program. destruct decoded as [bs|]; [|reflexivity]. rewrite tie_validate_block_size. unfold block_size_of. destruct (validate_block_size bs); reflexivity. Qed.
Lemma tie_run_delta decoded : g_run_delta decoded = delta_program decoded.
Proof. unfold g_run_delta, delta_program. destruct decoded as [bs|]; [|reflexivity]. rewrite tie_validate_block_size. unfold block_size_of. destruct (validate_block_size bs); reflexivity. Qed.

(** the engine is only ever constructed with a block size its assertion accepts (the model's reason for having no
    panic outcome), and a refused file touches nothing but the input *)
Lemma engine_only_with_valid_size decoded bs :
  (In (KEngine bs) (g_run_patch decoded) \/ In (KEngine bs) (g_run_delta decoded)) -> validate_block_size bs = true.
Proof.
  rewrite tie_run_patch, tie_run_delta. unfold patch_program, delta_program.
  destruct decoded as [b|]; [destruct (validate_block_size b) eqn:Ev|]; cbn [In];
    intros [Hx|Hx]; repeat (destruct Hx as [Hx|Hx]; try discriminate; try (inversion Hx; subst; assumption)); contradiction.
Qed.

(** the programs agree with the model's top of the CLI readers: proceed exactly when the file decodes and its block size is accepted *)
Lemma programs_match_model (deltafile sigfile : list Z) :
  (match run_patch_top deltafile with
   | CliError => g_run_patch (option_map (fun d => d_block_size _ (fst d)) (decode_delta deltafile)) = [KRead KInput; KFail]
   | Proceed d => g_run_patch (option_map (fun d => d_block_size _ (fst d)) (decode_delta deltafile))
                  = [KRead KInput; KEngine (d_block_size _ d); KOpen KBasis; KCreate KOutput; KPatch; KDone]
   end) /\
  (match run_delta_top sigfile with
   | CliError => g_run_delta (option_map (fun s => s_block_size _ (fst s)) (decode_signature sigfile)) = [KRead KInput; KFail]
   | Proceed s => g_run_delta (option_map (fun s => s_block_size _ (fst s)) (decode_signature sigfile))
                  = [KRead KInput; KEngine (s_block_size _ s); KOpen KSource; KDelta; KWrite KOutput; KDone]
   end).
Proof.
  split.
  - rewrite tie_run_patch. unfold run_patch_top, patch_program. destruct (decode_delta deltafile) as [[d r]|]; cbn [option_map fst]; [|reflexivity].
    destruct (validate_block_size (d_block_size _ d)); reflexivity.
  - rewrite tie_run_delta. unfold run_delta_top, delta_program. destruct (decode_signature sigfile) as [[s r]|]; cbn [option_map fst]; [|reflexivity].
    destruct (validate_block_size (s_block_size _ s)); reflexivity.
Qed.

Definition cli_readers_are_translation : Prop :=
  (forall n, g_validate_block_size n = validate_block_size n) /\
  (forall decoded, g_run_patch decoded = patch_program decoded) /\
  (forall decoded, g_run_delta decoded = delta_program decoded) /\
  (forall decoded bs, (In (KEngine bs) (g_run_patch decoded) \/ In (KEngine bs) (g_run_delta decoded)) -> validate_block_size bs = true).
Lemma cli_readers_are_translation_holds : cli_readers_are_translation.
Proof. split; [exact tie_validate_block_size|]. split; [exact tie_run_patch|]. split; [exact tie_run_delta|exact engine_only_with_valid_size]. Qed.
