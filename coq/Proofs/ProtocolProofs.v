(** Lemmas about Model/Protocol.v: header round trip / shape / rejection,
    codec round trip, allocation bound, CLI readers. *)
From Coq Require Import ZArith List Bool Lia Arith.
From Copia Require Import Gen.Constants Model.Checksum Model.Delta Model.Bincode Model.Protocol
  Proofs.BincodeProofs.
Import ListNotations.
Open Scope Z_scope.

(** ** message types *)
Lemma from_u8_code t : from_u8 (mt_code t) = Some t.
Proof. destruct t; vm_compute; reflexivity. Qed.

Lemma from_u8_some b t : from_u8 b = Some t -> b = mt_code t.
Proof.
  unfold from_u8.
  repeat match goal with
  | |- context [?x =? ?y] => destruct (Z.eqb_spec x y) as [->|_]; [intros E; injection E as <-; reflexivity|]
  end. discriminate.
Qed.

Lemma from_u8_none b : from_u8 b = None <-> forall t, b <> mt_code t.
Proof.
  split.
  - intros Hn t ->. rewrite from_u8_code in Hn. discriminate.
  - intros Hn. destruct (from_u8 b) as [t|] eqn:E; [|reflexivity].
    apply from_u8_some in E. exfalso. exact (Hn t E).
Qed.

Lemma mt_codes_1_to_7 b : (exists t, b = mt_code t) <-> 1 <= b <= 7.
Proof.
  split.
  - intros [t ->]. destruct t; vm_compute; split; discriminate.
  - intros Hb.
    assert (b = 1 \/ b = 2 \/ b = 3 \/ b = 4 \/ b = 5 \/ b = 6 \/ b = 7) as Hc by lia.
    destruct Hc as [->|[->|[->|[->|[->|[->| ->]]]]]].
    + now exists TSigReq. + now exists TSigResp. + now exists TDeltaData. + now exists TAck.
    + now exists TError. + now exists TPing. + now exists TPong.
Qed.

(** ** little-endian fields of the header *)
Lemma le4_split v : 0 <= v < 2^32 ->
  v mod 256 + 256 * (v / 256 mod 256 + 256 * (v / 256 / 256 mod 256 + 256 * (v / 256 / 256 / 256 mod 256))) = v.
Proof.
  intros Hv.
  pose proof (Z.div_mod v 256). pose proof (Z.div_mod (v / 256) 256).
  pose proof (Z.div_mod (v / 256 / 256) 256).
  assert (0 <= v / 256 / 256 / 256 < 256).
  { split; [repeat apply Z.div_pos; lia|]. repeat (apply Z.div_lt_upper_bound; [lia|]). lia. }
  rewrite (Z.mod_small (v / 256 / 256 / 256) 256) by assumption. lia.
Qed.
Lemma le2_split v : 0 <= v < 2^16 -> v mod 256 + 256 * (v / 256 mod 256) = v.
Proof.
  intros Hv. pose proof (Z.div_mod v 256).
  assert (0 <= v / 256 < 256) by (split; [apply Z.div_pos; lia|apply Z.div_lt_upper_bound; lia]).
  rewrite (Z.mod_small (v / 256) 256) by assumption. lia.
Qed.

Definition header_explicit (h : header) : list Z :=
  let l := h_length h in let f := h_flags h in
  [h_m0 h; h_m1 h; h_m2 h; h_m3 h; l mod 256; l / 256 mod 256; l / 256 / 256 mod 256;
   l / 256 / 256 / 256 mod 256; mt_code (h_type h); h_version h; f mod 256; f / 256 mod 256].
Lemma header_encode_explicit h : header_encode h = header_explicit h.
Proof. reflexivity. Qed.

Definition good_header (h : header) : Prop :=
  h_m0 h = PROTO_MAGIC0 /\ h_m1 h = PROTO_MAGIC1 /\ h_m2 h = PROTO_MAGIC2 /\ h_m3 h = PROTO_MAGIC3 /\
  h_version h = PROTO_VERSION /\ 0 <= h_length h <= MAX_PAYLOAD_SIZE /\ 0 <= h_flags h < 2^16.

Lemma validate_good h : good_header h -> hvalidate h = ROk tt.
Proof.
  intros (H0 & H1 & H2 & H3 & Hv & Hl & _). unfold hvalidate, magic_ok.
  rewrite H0, H1, H2, H3, Hv, !Z.eqb_refl. cbn [andb negb].
  replace (h_length h >? MAX_PAYLOAD_SIZE) with false; [reflexivity|].
  symmetry. rewrite Z.gtb_ltb. apply Z.ltb_ge. lia.
Qed.

Lemma validate_ok h : hvalidate h = ROk tt ->
  magic_ok (h_m0 h) (h_m1 h) (h_m2 h) (h_m3 h) = true /\ h_version h = PROTO_VERSION /\
  h_length h <= MAX_PAYLOAD_SIZE.
Proof.
  unfold hvalidate.
  destruct (magic_ok _ _ _ _); cbn [negb]; [|discriminate].
  destruct (Z.eqb_spec (h_version h) PROTO_VERSION); cbn [negb]; [|discriminate].
  destruct (h_length h >? MAX_PAYLOAD_SIZE) eqn:E; [discriminate|].
  rewrite Z.gtb_ltb in E. apply Z.ltb_ge in E. auto.
Qed.

Lemma validate_cases h : hvalidate h = ROk tt \/ exists e, hvalidate h = RErr e.
Proof.
  unfold hvalidate.
  destruct (negb _); [right; eauto|]. destruct (negb _); [right; eauto|].
  destruct (_ >? _); [right; eauto|left; reflexivity].
Qed.

Lemma header_roundtrip h : good_header h -> header_decode (header_encode h) = ROk h.
Proof.
  intros Hg. pose proof Hg as (H0 & H1 & H2 & H3 & Hv & Hl & Hf).
  rewrite header_encode_explicit. unfold header_explicit, header_decode.
  rewrite from_u8_code.
  assert (0 <= h_length h < 2^32) as Hl32 by (unfold MAX_PAYLOAD_SIZE in Hl; lia).
  rewrite (le4_split _ Hl32), (le2_split _ Hf).
  replace {| h_m0 := h_m0 h; h_m1 := h_m1 h; h_m2 := h_m2 h; h_m3 := h_m3 h; h_length := h_length h;
             h_type := h_type h; h_version := h_version h; h_flags := h_flags h |} with h by (destruct h; reflexivity).
  now rewrite (validate_good h Hg).
Qed.

Lemma length_header_encode h : length (header_encode h) = Z.to_nat HEADER_SIZE.
Proof. reflexivity. Qed.

Lemma encode_shape h : 0 <= h_length h < 2^32 ->
  length (header_encode h) = Z.to_nat HEADER_SIZE /\
  firstn 4 (header_encode h) = [h_m0 h; h_m1 h; h_m2 h; h_m3 h] /\
  nth 9 (header_encode h) 0 = h_version h /\
  get_u32 (skipn 4 (header_encode h)) = Some (h_length h, skipn 8 (header_encode h)).
Proof.
  intros Hl. repeat split.
  rewrite header_encode_explicit. unfold header_explicit. cbn [skipn].
  unfold get_u32. cbn [get_le]. f_equal. f_equal.
  pose proof (le4_split _ Hl). lia.
Qed.

(** ** rejection: every 12-byte input, by cases on its fields *)
Section Reject.
Variables b0 b1 b2 b3 b4 b5 b6 b7 b8 b9 b10 b11 : Z.
Let buf := [b0; b1; b2; b3; b4; b5; b6; b7; b8; b9; b10; b11].
Let len := b4 + 256 * (b5 + 256 * (b6 + 256 * b7)).

Lemma header_decode_cases :
  header_decode buf =
  match from_u8 b8 with
  | None => RErr EType
  | Some t =>
      if negb (magic_ok b0 b1 b2 b3) then RErr EMagic
      else if negb (b9 =? PROTO_VERSION) then RErr EVersion
      else if len >? MAX_PAYLOAD_SIZE then RErr ELength
      else ROk {| h_m0 := b0; h_m1 := b1; h_m2 := b2; h_m3 := b3; h_length := len;
                  h_type := t; h_version := b9; h_flags := b10 + 256 * b11 |}
  end.
Proof.
  unfold buf, header_decode. destruct (from_u8 b8) as [t|]; [|reflexivity].
  unfold hvalidate. cbn [h_m0 h_m1 h_m2 h_m3 h_version h_length]. fold len.
  destruct (negb (magic_ok b0 b1 b2 b3)); [reflexivity|].
  destruct (negb (b9 =? PROTO_VERSION)); [reflexivity|].
  destruct (len >? MAX_PAYLOAD_SIZE); reflexivity.
Qed.

Lemma header_rejects :
  (magic_ok b0 b1 b2 b3 = false -> exists e, header_decode buf = RErr e) /\
  (b9 <> PROTO_VERSION -> exists e, header_decode buf = RErr e) /\
  ((forall t, b8 <> mt_code t) -> header_decode buf = RErr EType) /\
  (len > MAX_PAYLOAD_SIZE -> exists e, header_decode buf = RErr e).
Proof.
  rewrite header_decode_cases. repeat split.
  - intros Hm. destruct (from_u8 b8); [|eauto]. rewrite Hm. cbn [negb]. eauto.
  - intros Hv. destruct (from_u8 b8); [|eauto].
    destruct (negb (magic_ok b0 b1 b2 b3)); [eauto|].
    destruct (Z.eqb_spec b9 PROTO_VERSION); [contradiction|]. cbn [negb]. eauto.
  - intros Ht. apply from_u8_none in Ht. now rewrite Ht.
  - intros Hl. destruct (from_u8 b8); [|eauto].
    destruct (negb (magic_ok b0 b1 b2 b3)); [eauto|].
    destruct (negb (b9 =? PROTO_VERSION)); [eauto|].
    replace (len >? MAX_PAYLOAD_SIZE) with true; [eauto|].
    symmetry. rewrite Z.gtb_ltb. apply Z.ltb_lt. lia.
Qed.

Lemma header_accepts_iff h :
  header_decode buf = ROk h <->
  (magic_ok b0 b1 b2 b3 = true /\ b9 = PROTO_VERSION /\ len <= MAX_PAYLOAD_SIZE /\
   exists t, b8 = mt_code t /\
     h = {| h_m0 := b0; h_m1 := b1; h_m2 := b2; h_m3 := b3; h_length := len;
            h_type := t; h_version := b9; h_flags := b10 + 256 * b11 |}).
Proof.
  rewrite header_decode_cases. split.
  - destruct (from_u8 b8) as [t|] eqn:Et; [|discriminate]. apply from_u8_some in Et.
    destruct (magic_ok b0 b1 b2 b3); cbn [negb]; [|discriminate].
    destruct (Z.eqb_spec b9 PROTO_VERSION); cbn [negb]; [|discriminate].
    destruct (len >? MAX_PAYLOAD_SIZE) eqn:El; [discriminate|].
    rewrite Z.gtb_ltb in El. apply Z.ltb_ge in El.
    intros E; injection E as <-. repeat split; auto. exists t. auto.
  - intros (Hm & Hv & Hl & t & Ht & ->). rewrite Ht, from_u8_code, Hm, Hv, Z.eqb_refl. cbn [negb].
    replace (len >? MAX_PAYLOAD_SIZE) with false; [reflexivity|].
    symmetry. rewrite Z.gtb_ltb. apply Z.ltb_ge. lia.
Qed.
End Reject.

Lemma header_decode_ok_valid buf h : header_decode buf = ROk h -> hvalidate h = ROk tt.
Proof.
  unfold header_decode.
  do 12 (destruct buf as [|? buf]; [discriminate|]). destruct buf; [|discriminate].
  destruct (from_u8 _); [|discriminate].
  match goal with |- context [hvalidate ?x] => destruct (hvalidate x) as [[]|e] eqn:E end; [|discriminate].
  intros E2; injection E2 as <-. exact E.
Qed.

(** ** codec *)
Lemma write_message_ok m :
  zlen (encode_message m) <= MAX_PAYLOAD_SIZE ->
  write_message m =
  ROk (header_encode (header_new (msg_type m) (zlen (encode_message m))) ++ encode_message m).
Proof.
  intros Hl. unfold write_message. cbv zeta.
  replace (zlen (encode_message m) >=? P32) with false.
  2:{ symmetry. rewrite Z.geb_leb. apply Z.leb_gt. unfold MAX_PAYLOAD_SIZE, P32 in *. lia. }
  replace (zlen (encode_message m) >? MAX_PAYLOAD_SIZE) with false; [reflexivity|].
  symmetry. rewrite Z.gtb_ltb. apply Z.ltb_ge. lia.
Qed.

Lemma write_message_refuses m :
  zlen (encode_message m) > MAX_PAYLOAD_SIZE -> write_message m = RErr EPayload.
Proof.
  intros Hl. unfold write_message. cbv zeta.
  replace (zlen (encode_message m) >? MAX_PAYLOAD_SIZE) with true; [now rewrite orb_true_r|].
  symmetry. rewrite Z.gtb_ltb. apply Z.ltb_lt. lia.
Qed.

Lemma write_message_inv m w : write_message m = ROk w ->
  zlen (encode_message m) <= MAX_PAYLOAD_SIZE /\
  w = header_encode (header_new (msg_type m) (zlen (encode_message m))) ++ encode_message m.
Proof.
  unfold write_message. cbv zeta.
  destruct (zlen (encode_message m) >=? P32); cbn [orb]; [discriminate|].
  destruct (zlen (encode_message m) >? MAX_PAYLOAD_SIZE) eqn:E; [discriminate|].
  rewrite Z.gtb_ltb in E. apply Z.ltb_ge in E. intros E2; injection E2 as <-. auto.
Qed.

Lemma good_header_new t len : 0 <= len <= MAX_PAYLOAD_SIZE -> good_header (header_new t len).
Proof. intros Hl. unfold good_header, header_new. cbn. repeat split; try lia. Qed.

Lemma read_from_encoded h rest : good_header h ->
  read_from (header_encode h ++ rest) = ROk (h, rest).
Proof.
  intros Hg. unfold read_from.
  rewrite <- (length_header_encode h), get_raw_app.
  pose proof (header_roundtrip h Hg) as Hrt.
  destruct Hg as (H0 & H1 & H2 & H3 & _).
  rewrite Hrt. rewrite header_encode_explicit. unfold header_explicit.
  unfold magic_ok. rewrite H0, H1, H2, H3, !Z.eqb_refl. reflexivity.
Qed.

Section Utf8.
Variable utf8 : list Z -> bool.

Lemma codec_roundtrip m rest : wf_message utf8 m ->
  zlen (encode_message m) <= MAX_PAYLOAD_SIZE ->
  exists w, write_message m = ROk w /\
            read_message utf8 (w ++ rest) = (zlen (encode_message m), ROk (m, rest)).
Proof.
  intros Hw Hl. eexists. split; [apply write_message_ok; exact Hl|].
  set (payload := encode_message m) in *.
  assert (0 <= zlen payload) by (rewrite zlen_spec; lia).
  assert (good_header (header_new (msg_type m) (zlen payload))) as Hg by (apply good_header_new; lia).
  unfold read_message. rewrite <- app_assoc, (read_from_encoded _ _ Hg), (validate_good _ Hg).
  cbn [h_length header_new]. f_equal.
  rewrite zlen_spec, get_seq_bytes by (rewrite app_length; lia).
  rewrite <- (app_nil_r payload). unfold payload.
  rewrite (message_roundtrip utf8 m [] Hw). reflexivity.
Qed.

Lemma read_message_reservation inp : fst (read_message utf8 inp) <= MAX_PAYLOAD_SIZE.
Proof.
  unfold read_message.
  destruct (read_from inp) as [[h rest]|e] eqn:E; [|cbn [fst]; unfold MAX_PAYLOAD_SIZE; lia].
  destruct (hvalidate h) as [[]|e] eqn:Ev; [|cbn [fst]; unfold MAX_PAYLOAD_SIZE; lia].
  cbn [fst]. apply validate_ok in Ev. destruct Ev as (_ & _ & Hl). exact Hl.
Qed.
End Utf8.

(** ** CLI readers *)
Lemma pos_is_pow2_spec p : pos_is_pow2 p = true <-> exists k : nat, Zpos p = 2 ^ Z.of_nat k.
Proof.
  induction p as [p IH|p IH|].
  - cbn [pos_is_pow2]. split; [discriminate|]. intros [k Hk]. exfalso.
    destruct k as [|k]; [cbn in Hk; discriminate|].
    rewrite Nat2Z.inj_succ, Z.pow_succ_r in Hk by lia. lia.
  - cbn [pos_is_pow2]. rewrite IH. split.
    + intros [k Hk]. exists (S k). rewrite Nat2Z.inj_succ, Z.pow_succ_r by lia. lia.
    + intros [k Hk]. destruct k as [|k]; [cbn in Hk; discriminate|].
      rewrite Nat2Z.inj_succ, Z.pow_succ_r in Hk by lia. exists k. lia.
  - cbn [pos_is_pow2]. split; [|reflexivity]. intros _. exists 0%nat. reflexivity.
Qed.

Lemma is_pow2_spec n : is_pow2 n = true <-> exists k : nat, n = 2 ^ Z.of_nat k.
Proof.
  destruct n as [|p|p]; cbn [is_pow2].
  - split; [discriminate|]. intros [k Hk]. pose proof (Z.pow_pos_nonneg 2 (Z.of_nat k)). lia.
  - apply pos_is_pow2_spec.
  - split; [discriminate|]. intros [k Hk]. pose proof (Z.pow_pos_nonneg 2 (Z.of_nat k)). lia.
Qed.

Lemma validate_block_size_engine n : validate_block_size n = true -> engine_assert n = true.
Proof.
  unfold validate_block_size, engine_assert.
  destruct (is_pow2 n); cbn [negb andb]; [|discriminate].
  destruct (BS_MIN_CLI <=? n) eqn:E1; cbn [negb andb]; [|discriminate].
  destruct (n <=? BS_MAX_CLI) eqn:E2; cbn [negb andb]; [|discriminate].
  intros _. apply Z.leb_le in E1. apply Z.leb_le in E2.
  unfold BS_MIN_CLI, BS_MAX_CLI in *.
  replace (BS_MIN_ASYNC <=? n) with true by (symmetry; apply Z.leb_le; unfold BS_MIN_ASYNC; lia).
  replace (n <=? BS_MAX_ASYNC) with true by (symmetry; apply Z.leb_le; unfold BS_MAX_ASYNC; lia).
  reflexivity.
Qed.

Lemma engine_assert_spec n : engine_assert n = true <->
  (exists k : nat, n = 2 ^ Z.of_nat k) /\ BS_MIN_ASYNC <= n <= BS_MAX_ASYNC.
Proof.
  unfold engine_assert. rewrite !andb_true_iff, is_pow2_spec, !Z.leb_le. tauto.
Qed.

Lemma run_delta_top_cases file :
  run_delta_top file = CliError \/
  exists s, run_delta_top file = Proceed s /\ engine_assert (s_block_size _ s) = true.
Proof.
  unfold run_delta_top. destruct (decode_signature file) as [[s r]|]; [|now left].
  destruct (validate_block_size (s_block_size _ s)) eqn:E; [|now left].
  right. exists s. split; [reflexivity|]. now apply validate_block_size_engine.
Qed.

Lemma run_patch_top_cases file :
  run_patch_top file = CliError \/
  exists d, run_patch_top file = Proceed d /\ engine_assert (d_block_size _ d) = true.
Proof.
  unfold run_patch_top. destruct (decode_delta file) as [[d r]|]; [|now left].
  destruct (validate_block_size (d_block_size _ d)) eqn:E; [|now left].
  right. exists d. split; [reflexivity|]. now apply validate_block_size_engine.
Qed.

(** ** statements in the form used by Props/C20.v *)
Lemma encode_shape_good h : good_header h ->
  length (header_encode h) = 12%nat /\
  firstn 4 (header_encode h) = [PROTO_MAGIC0; PROTO_MAGIC1; PROTO_MAGIC2; PROTO_MAGIC3] /\
  nth 9 (header_encode h) 0 = PROTO_VERSION /\
  get_u32 (skipn 4 (header_encode h)) = Some (h_length h, skipn 8 (header_encode h)).
Proof.
  intros (H0 & H1 & H2 & H3 & Hv & Hl & _).
  assert (0 <= h_length h < 2^32) as Hl32 by (unfold MAX_PAYLOAD_SIZE in Hl; lia).
  destruct (encode_shape h Hl32) as (E1 & E2 & E3 & E4).
  split; [exact E1|]. split; [rewrite E2; congruence|]. split; [congruence|exact E4].
Qed.

Lemma codec_roundtrip_full (utf8 : list Z -> bool) m rest : wf_message utf8 m ->
  Z.of_nat (length (encode_message m)) <= MAX_PAYLOAD_SIZE ->
  exists w, write_message m = ROk w /\
    read_message utf8 (w ++ rest) = (Z.of_nat (length (encode_message m)), ROk (m, rest)) /\
    get_u32 (skipn 4 w) = Some (Z.of_nat (length (encode_message m)), skipn 8 w) /\
    skipn 12 w = encode_message m.
Proof.
  intros Hw Hl. rewrite <- zlen_spec in *.
  destruct (codec_roundtrip utf8 m rest Hw Hl) as (w & E1 & E2).
  exists w. split; [exact E1|]. split; [exact E2|].
  apply write_message_inv in E1. destruct E1 as [_ ->].
  assert (0 <= zlen (encode_message m)) by (rewrite zlen_spec; lia).
  set (h := header_new (msg_type m) (zlen (encode_message m))).
  assert (0 <= h_length h < 2^32) as Hl32 by (unfold h; cbn [h_length header_new]; unfold MAX_PAYLOAD_SIZE in Hl; lia).
  rewrite header_encode_explicit. unfold header_explicit. cbn [skipn app].
  split; [|reflexivity].
  unfold get_u32. cbn [get_le]. f_equal. f_equal.
  pose proof (le4_split _ Hl32). unfold h in *. cbn [h_length header_new] in *. lia.
Qed.

Lemma write_message_refuses_iff m :
  (Z.of_nat (length (encode_message m)) > MAX_PAYLOAD_SIZE -> write_message m = RErr EPayload) /\
  (forall w, write_message m = ROk w -> Z.of_nat (length (encode_message m)) <= MAX_PAYLOAD_SIZE).
Proof.
  rewrite <- zlen_spec. split; [apply write_message_refuses|].
  intros w E. now apply write_message_inv in E.
Qed.

Lemma decode_total_full (utf8 : list Z -> bool) inp :
  fst (read_message utf8 inp) <= MAX_PAYLOAD_SIZE /\
  (forall k, get_message utf8 (length inp + k) inp = decode_message utf8 inp) /\
  (forall k, get_sig (length inp + k) inp = decode_signature inp) /\
  (forall k, get_delta (length inp + k) inp = decode_delta inp) /\
  (forall count elem_size, 0 < elem_size -> cautious_reserve count elem_size * elem_size <= 1048576).
Proof.
  split; [apply read_message_reservation|].
  split; [intros k; apply message_fuel_suffices|].
  split; [intros k; apply signature_fuel_suffices|].
  split; [intros k; apply delta_fuel_suffices|].
  intros c s Hs. exact (proj1 (cautious_reserve_bounded c s Hs)).
Qed.

Lemma cli_full file :
  (run_delta_top file = CliError \/
   exists s, run_delta_top file = Proceed s /\
     (exists k : nat, s_block_size _ s = 2 ^ Z.of_nat k) /\ BS_MIN_ASYNC <= s_block_size _ s <= BS_MAX_ASYNC) /\
  (run_patch_top file = CliError \/
   exists d, run_patch_top file = Proceed d /\
     (exists k : nat, d_block_size _ d = 2 ^ Z.of_nat k) /\ BS_MIN_ASYNC <= d_block_size _ d <= BS_MAX_ASYNC).
Proof.
  split.
  - destruct (run_delta_top_cases file) as [E|(s & E & Ha)]; [now left|right].
    exists s. split; [exact E|]. now apply engine_assert_spec.
  - destruct (run_patch_top_cases file) as [E|(d & E & Ha)]; [now left|right].
    exists d. split; [exact E|]. now apply engine_assert_spec.
Qed.
