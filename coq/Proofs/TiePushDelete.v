(** What a push with `--delete` sends to the remote side IS the translated source of incremental.rs
    `apply_remote_deletes` (push arm, after the repair 297f20b): the list is `<remote_root>/<rel>` + NUL for every path of
    the delete plan, in plan order ([nul_list] of Model/ShellQuote.v), and the command compares the staged byte count
    with EXACTLY the length of that list before `xargs -0 rm` sees it - the size the theorem
    `crash_push_delete_all_or_nothing` (Props/C09.v) is about. *)
From Coq Require Import ZArith List Bool Lia.
From Copia Require Import Gen.Constants Model.LoopLib Model.Path Model.Glob Model.Plan Model.Listing Model.ShellQuote Gen.PushDeleteGen.
Import ListNotations.
Open Scope Z_scope.

Definition remote_paths (remote_root : list Z) (dels : list (list Z)) : list (list Z) := map (fun rel => remote_root ++ [47] ++ rel) dels.

Lemma list_loop (remote_root : list Z) (dels : list (list Z)) (acc : list Z) :
  for_loop dels (fun rel => fun list_ => let list_ := list_ ++ (remote_root ++ [47] ++ rel ++ [0]) in (inl list_ : list Z + (list Z * list Z))) acc
  = inl (acc ++ nul_list (remote_paths remote_root dels)).
Proof.
  revert acc; induction dels as [|d dels IH]; intros acc; cbn [for_loop remote_paths map nul_list flat_map]; [rewrite app_nil_r; reflexivity|].
  cbv zeta. rewrite IH. unfold remote_paths, nul_list. rewrite <- !app_assoc. reflexivity.
Qed.

Definition delete_command (size : Z) : list Z :=
  [116; 61; 36; 40; 109; 107; 116; 101; 109; 112; 41; 32; 38; 38; 32; 99; 97; 116; 32; 62; 32; 34; 36; 116; 34; 32; 38; 38; 32; 91; 32; 34; 36; 40; 119; 99; 32; 45; 99; 32; 60; 32; 34; 36; 116; 34; 41; 34; 32; 45; 101; 113; 32]
  ++ dec size ++
  [32; 93; 32; 38; 38; 32; 120; 97; 114; 103; 115; 32; 45; 48; 32; 114; 109; 32; 45; 102; 32; 45; 45; 32; 60; 32; 34; 36; 116; 34; 59; 32; 114; 109; 32; 45; 102; 32; 34; 36; 116; 34].

Theorem tie_push_delete_request (remote_root : list Z) (dels : list (list Z)) :
  g_push_delete_request remote_root dels
  = (nul_list (remote_paths remote_root dels), delete_command (lenZ (nul_list (remote_paths remote_root dels)))).
Proof.
  unfold g_push_delete_request. cbv zeta. pose proof (list_loop remote_root dels []) as HL. cbv zeta in HL. rewrite HL. reflexivity.
Qed.

(** handed the whole list, the remote side removes exactly those paths; handed less, nothing (Model/ShellQuote.v) *)
Lemma request_meaning (remote_root : list Z) (dels : list (list Z)) (arrived : list Z) :
  PUSH_DELETE_VERIFIES_COUNT = 1 ->
  let '(lst, _) := g_push_delete_request remote_root dels in
  (arrived = lst -> remote_delete (lenZ lst) arrived = xargs0 lst) /\
  (Z.of_nat (length arrived) <> lenZ lst -> remote_delete (lenZ lst) arrived = []).
Proof.
  intros Hv. rewrite tie_push_delete_request. unfold remote_delete. rewrite Hv. cbn [Z.eqb Pos.eqb]. split.
  - intros ->. unfold lenZ. rewrite Z.eqb_refl. reflexivity.
  - intros Hne. destruct (Z.eqb_spec (Z.of_nat (length arrived)) (lenZ (nul_list (remote_paths remote_root dels)))); [contradiction|reflexivity].
Qed.

Definition push_delete_is_translation : Prop :=
  forall remote_root dels,
    g_push_delete_request remote_root dels
    = (nul_list (remote_paths remote_root dels), delete_command (lenZ (nul_list (remote_paths remote_root dels)))).
Lemma push_delete_is_translation_holds : push_delete_is_translation.
Proof. exact tie_push_delete_request. Qed.

(** it computes: one path, a four-byte list, whose length `4` (byte 52) stands in the command after `-eq ` *)
Example push_delete_nonvacuous :
  fst (g_push_delete_request [114] [[97]]) = [114; 47; 97; 0] /\
  firstn 5 (skipn 49 (snd (g_push_delete_request [114] [[97]]))) = [45; 101; 113; 32; 52].
Proof. vm_compute. split; reflexivity. Qed.
