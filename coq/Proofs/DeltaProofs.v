(** Lemmas about Model/Delta.v: round trip (C01), well-formedness, greedy
    literal count (C16), patch soundness (C05). *)
From Coq Require Import ZArith List Bool Lia Arith.
From Copia Require Import Gen.Constants Model.Checksum Proofs.ChecksumProofs Model.Delta.
Import ListNotations.
Open Scope Z_scope.

(** generic list facts (Coq 8.16 lacks some) *)
Lemma skipn_skipn' {T} a b (l : list T) : skipn a (skipn b l) = skipn (b + a) l.
Proof. revert l; induction b as [|b IH]; intros l; cbn [skipn Nat.add]; [reflexivity|].
  destruct l; [now destruct a|]. apply IH. Qed.
Lemma firstn_add' {T} a b (l : list T) : firstn (a + b) l = firstn a l ++ firstn b (skipn a l).
Proof. revert l; induction a as [|a IH]; intros l; cbn [firstn skipn Nat.add app]; [reflexivity|].
  destruct l; [now destruct b|]. cbn [app]. now rewrite IH. Qed.
Lemma skipn_app_le {T} n (a b : list T) : (n <= length a)%nat -> skipn n (a ++ b) = skipn n a ++ b.
Proof. intros. rewrite skipn_app. replace (n - length a)%nat with 0%nat by lia. reflexivity. Qed.
Lemma skipn_app_ge {T} n (a b : list T) : (length a <= n)%nat -> skipn n (a ++ b) = skipn (n - length a) b.
Proof. intros. rewrite skipn_app. rewrite skipn_all2 by lia. reflexivity. Qed.
Lemma firstn_app_exact {T} (a b : list T) : firstn (length a) (a ++ b) = a.
Proof. rewrite firstn_app, Nat.sub_diag, firstn_all. cbn [firstn]. apply app_nil_r. Qed.

Lemma Forall_firstn' {T} (P : T -> Prop) n l : Forall P l -> Forall P (firstn n l).
Proof. intros HF. revert n; induction HF as [|x l Hx Hl IH]; intros n; destruct n; cbn [firstn]; constructor; auto. Qed.
Lemma Forall_skipn' {T} (P : T -> Prop) n l : Forall P l -> Forall P (skipn n l).
Proof. intros HF. revert n; induction HF as [|x l Hx Hl IH]; intros n; destruct n; cbn [skipn]; try constructor; auto. Qed.
Lemma skipn_In' {T} n (l : list T) y : In y (skipn n l) -> In y l.
Proof. revert l; induction n as [|n IH]; intros l; cbn [skipn]; [auto|].
  destruct l as [|x l]; [auto|]. intros Hi. right. now apply IH. Qed.
Lemma tl_skipn {T} n (l : list T) : tl (skipn n l) = skipn (S n) l.
Proof. revert l; induction n as [|n IH]; intros l.
  - destruct l; reflexivity.
  - destruct l as [|x l]; [reflexivity|]. cbn [skipn]. rewrite IH. reflexivity. Qed.

Section P.
Variable digest : Type.
Variable H : list Z -> digest.
Variable deq : forall a b : digest, {a = b} + {a <> b}.
Variable bs : nat.
Hypothesis bs_pos : (0 < bs)%nat.
Hypothesis bs_u32 : Z.of_nat bs < 2^32.

Notation bsz := (bsz bs).
Notation blocks := (blocks bs).
Notation gen_signature := (gen_signature digest H bs).
Notation find_match := (find_match digest H deq).
Notation scan := (scan digest H deq bs).
Notation lookup := (lookup digest H deq bs).
Notation compute_delta := (compute_delta digest H deq bs).
Notation patch := (patch digest H deq).
Notation sig_of := (sig_of digest H).

Lemma bsz_pos : 0 < bsz. Proof. unfold Delta.bsz; lia. Qed.
Lemma w32_bsz : w32 bsz = bsz. Proof. apply w32_id. unfold Delta.bsz. lia. Qed.

(** ** patch primitives *)
Lemma read_some basis o l a : read basis o l = Some a ->
  0 <= o /\ 0 <= l /\ o + l <= Z.of_nat (length basis) /\
  a = firstn (Z.to_nat l) (skipn (Z.to_nat o) basis).
Proof. unfold read. destruct (0 <=? o) eqn:E1; [|discriminate].
  destruct (0 <=? l) eqn:E2; [|discriminate].
  destruct (o + l <=? Z.of_nat (length basis)) eqn:E3; [|discriminate].
  cbn [andb]. intros [= <-]. apply Z.leb_le in E1, E2, E3. auto. Qed.

Lemma read_intro basis o l : 0 <= o -> 0 <= l -> o + l <= Z.of_nat (length basis) ->
  read basis o l = Some (firstn (Z.to_nat l) (skipn (Z.to_nat o) basis)).
Proof. intros H1 H2 H3. unfold read.
  apply Z.leb_le in H1, H2, H3. now rewrite H1, H2, H3. Qed.

Lemma read_length basis o l a : read basis o l = Some a -> Z.of_nat (length a) = l.
Proof. intros Hr. apply read_some in Hr as (H1 & H2 & H3 & ->).
  rewrite firstn_length, skipn_length. lia. Qed.

Lemma read_concat basis o l1 l2 a b :
  read basis o l1 = Some a -> read basis (o + l1) l2 = Some b ->
  read basis o (l1 + l2) = Some (a ++ b).
Proof. intros Ha Hb. apply read_some in Ha as (A1 & A2 & A3 & ->).
  apply read_some in Hb as (B1 & B2 & B3 & ->).
  rewrite read_intro by lia. f_equal.
  rewrite Z2Nat.inj_add by lia. rewrite firstn_add'. f_equal.
  rewrite skipn_skipn'. rewrite <- Z2Nat.inj_add by lia. reflexivity. Qed.

Definition rapply basis (r : list dop) := apply_ops basis (rev r).

Lemma apply_ops_app basis a b : apply_ops basis (a ++ b) =
  match apply_ops basis a, apply_ops basis b with Some x, Some y => Some (x ++ y) | _, _ => None end.
Proof. induction a as [|o a IH]; cbn [app apply_ops].
  - destruct (apply_ops basis b); reflexivity.
  - destruct o as [off len|d].
    + rewrite IH. destruct (read basis off len), (apply_ops basis a), (apply_ops basis b);
        try reflexivity. now rewrite app_assoc.
    + rewrite IH. destruct (apply_ops basis a), (apply_ops basis b); try reflexivity.
      now rewrite app_assoc. Qed.

Lemma rapply_snoc_copy basis r o l pre a : rapply basis r = Some pre -> read basis o l = Some a ->
  rapply basis (Copy o l :: r) = Some (pre ++ a).
Proof. unfold rapply. intros Hr Ha. cbn [rev]. rewrite apply_ops_app, Hr. cbn [apply_ops].
  rewrite Ha. now rewrite app_nil_r. Qed.
Lemma rapply_snoc_lit basis r d pre : rapply basis r = Some pre ->
  rapply basis (Lit d :: r) = Some (pre ++ d).
Proof. unfold rapply. intros Hr. cbn [rev]. rewrite apply_ops_app, Hr. cbn [apply_ops].
  now rewrite app_nil_r. Qed.

Lemma rapply_push_copy basis r off len out a :
  rapply basis r = Some out -> read basis off len = Some a ->
  rapply basis (push_copy r off len) = Some (out ++ a).
Proof. intros Hr Ha. unfold push_copy.
  destruct r as [|[o l|d] r']; try (now apply rapply_snoc_copy).
  destruct ((o + l =? off) && (l + len <? P32)) eqn:E; [|now apply rapply_snoc_copy].
  apply andb_prop in E as [E _]. apply Z.eqb_eq in E. subst off.
  unfold rapply in *. cbn [rev] in *. rewrite apply_ops_app in *. cbn [apply_ops] in *.
  destruct (apply_ops basis (rev r')) as [pre|]; [|discriminate].
  destruct (read basis o l) as [x|] eqn:Ex; [|discriminate].
  injection Hr as <-. rewrite (read_concat _ _ _ _ _ _ Ex Ha).
  now rewrite !app_nil_r, app_assoc. Qed.

Lemma rapply_push_lit basis r d out :
  rapply basis r = Some out -> rapply basis (push_lit r d) = Some (out ++ d).
Proof. intros Hr. unfold push_lit. destruct d as [|x d]; [now rewrite app_nil_r|].
  destruct r as [|[o l|p] r']; try (now apply rapply_snoc_lit).
  unfold rapply in *. cbn [rev] in *. rewrite apply_ops_app in *. cbn [apply_ops] in *.
  destruct (apply_ops basis (rev r')) as [pre|]; [|discriminate]. injection Hr as <-.
  now rewrite !app_nil_r, app_assoc. Qed.

Lemma rapply_push_lit_byte basis r x out :
  rapply basis r = Some out -> rapply basis (push_lit_byte r x) = Some (out ++ [x]).
Proof. intros Hr. change (push_lit_byte r x) with (push_lit r [x]). now apply rapply_push_lit. Qed.

(** ** signature facts *)
Lemma find_match_sound sg w data b :
  find_match sg w data = Some b -> In b sg /\ b_weak _ b = w /\ b_strong _ b = H data.
Proof. unfold Delta.find_match. intros Hf. apply find_some in Hf as [Hi Hb]. split; [exact Hi|].
  apply andb_prop in Hb as [Hw Hb]. apply Z.eqb_eq in Hw. split; [exact Hw|].
  destruct (deq (b_strong _ b) (H data)); [assumption|discriminate]. Qed.

Lemma sig_of_in i bl b : In b (sig_of i bl) ->
  exists k c, nth_error bl k = Some c /\ b_idx _ b = w32 (i + Z.of_nat k) /\
              b_strong _ b = H c /\ b_weak _ b = rc_digest (rc_new c).
Proof. revert i; induction bl as [|c bl IH]; intros i; cbn [Delta.sig_of In]; [tauto|].
  intros [<-|Hin].
  - exists 0%nat, c. cbn [nth_error b_idx b_strong b_weak]. repeat split. f_equal; lia.
  - destruct (IH _ Hin) as (k & c' & Hk & Hi & Hs & Hw). exists (S k), c'.
    cbn [nth_error]. repeat split; auto. rewrite Hi. f_equal; lia. Qed.

Lemma sig_of_nth i bl k c : nth_error bl k = Some c ->
  In {| b_idx := w32 (i + Z.of_nat k); b_weak := rc_digest (rc_new c); b_strong := H c |} (sig_of i bl).
Proof. revert i k; induction bl as [|c' bl IH]; intros i k; [destruct k; discriminate|].
  destruct k as [|k]; cbn [nth_error Delta.sig_of In].
  - intros [= ->]. left. f_equal. f_equal. lia.
  - intros Hk. right. replace (i + Z.of_nat (S k)) with ((i + 1) + Z.of_nat k) by lia. now apply IH. Qed.

Lemma chunks_nth fuel l k c : (length l <= fuel)%nat -> nth_error (chunks bs fuel l) k = Some c ->
  c = firstn bs (skipn (k * bs) l) /\ (k * bs < length l)%nat.
Proof. revert l k; induction fuel as [|f IH]; intros l k Hl; cbn [chunks].
  - destruct k; discriminate.
  - destruct l as [|x l']; [destruct k; discriminate|]. destruct k as [|k]; cbn [nth_error].
    + intros [= <-]. cbn [Nat.mul skipn length]. split; [reflexivity|lia].
    + intros Hn. apply IH in Hn.
      2:{ rewrite skipn_length. cbn [length] in *. lia. }
      destruct Hn as [Hc Hk]. rewrite skipn_length in Hk. split.
      * rewrite Hc, skipn_skipn'. reflexivity.
      * cbn [length] in *. lia. Qed.

Lemma chunks_length fuel l : (length l <= fuel)%nat ->
  (length (chunks bs fuel l) <= length l)%nat.
Proof. revert l; induction fuel as [|f IH]; intros l Hl; cbn [chunks]; [cbn; lia|].
  destruct l as [|x l']; [cbn; lia|]. cbn [length].
  assert ((length (skipn bs (x :: l')) <= f)%nat) by (rewrite skipn_length; cbn [length] in *; lia).
  specialize (IH _ H0). rewrite skipn_length in IH. cbn [length] in *. lia. Qed.

Lemma chunks_bytes fuel l c : bytes l -> In c (chunks bs fuel l) -> bytes c /\ (length c <= bs)%nat.
Proof. revert l; induction fuel as [|f IH]; intros l Hb; cbn [chunks In]; [tauto|].
  destruct l as [|x l']; [cbn [In]; tauto|]. cbn [In]. intros [<-|Hin].
  - split; [apply Forall_firstn'; assumption|rewrite firstn_length; lia].
  - eapply IH; [|exact Hin]. apply Forall_skipn'; assumption. Qed.


(** ** the execution-friendly scan computes the same delta *)
Lemma unR_push_copy r o l : map unR (push_copyR r o l) = push_copy (map unR r) o l.
Proof. unfold push_copyR, push_copy. destruct r as [|[o' l'|p] r']; cbn [map unR]; auto.
  destruct ((o' + l' =? o) && (l' + l <? P32)); reflexivity. Qed.
Lemma unR_push_lit_byte r x : map unR (push_lit_byteR r x) = push_lit_byte (map unR r) x.
Proof. unfold push_lit_byteR, push_lit_byte. destruct r as [|[o' l'|p] r']; cbn [map unR]; auto.
  unfold rev'. rewrite <- !rev_alt. reflexivity. Qed.
Lemma unR_push_lit r d : map unR (push_litR r d) = push_lit (map unR r) d.
Proof. unfold push_litR, push_lit. destruct d as [|x d]; [reflexivity|].
  destruct r as [|[o' l'|p] r']; cbn [map unR]; unfold rev'; rewrite <- ?rev_alt, ?rev_append_rev;
    rewrite ?rev_app_distr, ?rev_involutive, ?app_nil_r; reflexivity. Qed.

Lemma scanR_scan fuel : forall sg rest ahead n st r,
  map unR (scanR digest H deq bs bsz fuel sg rest ahead n st r) = scan fuel sg rest ahead n st (map unR r).
Proof. induction fuel as [|f IH]; intros sg rest ahead n st r; cbn [Delta.scanR Delta.scan]; [reflexivity|].
  destruct (bsz <=? n); [|apply unR_push_lit].
  destruct (lookup sg st rest).
  - rewrite IH, unR_push_copy. reflexivity.
  - destruct rest; [reflexivity|]. rewrite IH, unR_push_lit_byte. reflexivity. Qed.

Lemma compute_delta_fast_eq sg src :
  compute_delta_fast digest H deq bs sg src = compute_delta sg src.
Proof. unfold Delta.compute_delta_fast, Delta.compute_delta. f_equal.
  destruct src; [reflexivity|]. destruct (s_blocks _ sg); [reflexivity|].
  unfold rev'. rewrite <- rev_alt. rewrite scanR_scan. reflexivity. Qed.

(** windows of the source *)
Definition window (src win : list Z) : Prop := exists pre post, src = pre ++ win ++ post.

Section WithBasis.
Variable basis src : list Z.
Hypothesis nblocks_u32 : Z.of_nat (length (blocks basis)) <= 2^32.
(** BLAKE3 is collision-free between the blocks of the basis and the
    block-sized windows of the source (the only strings the scan compares). *)
Hypothesis Hcf : forall c win, In c (blocks basis) -> window src win -> length win = bs ->
  H c = H win -> c = win.

Notation sg := (s_blocks _ (gen_signature basis)).

Lemma match_reads w win b : length win = bs -> window src win ->
  find_match sg w win = Some b ->
  read basis (b_idx _ b * bsz) bsz = Some win /\ In win (blocks basis).
Proof. intros Hlen Hwin Hf. apply find_match_sound in Hf as (Hin & _ & Hs).
  cbn [s_blocks Delta.gen_signature] in Hin.
  apply sig_of_in in Hin as (k & c & Hk & Hi & Hs' & _).
  assert (Hinc : In c (blocks basis)) by (eapply nth_error_In; eauto).
  rewrite Hs' in Hs. apply Hcf in Hs; auto. subst c.
  assert (Hkl : (k < length (blocks basis))%nat) by (apply nth_error_Some; congruence).
  rewrite Hi, Z.add_0_l, w32_id by lia.
  apply chunks_nth in Hk as [Hc Hk]; [|lia].
  assert (Hl : length win = bs) by assumption.
  rewrite Hc in Hl. rewrite firstn_length, skipn_length in Hl.
  split; [|assumption].
  unfold Delta.bsz. rewrite read_intro by lia.
  f_equal. rewrite Nat2Z.id. rewrite <- Nat2Z.inj_mul, Nat2Z.id. now rewrite Hc. Qed.

(** ** the scan invariant and the round trip *)
Lemma scan_apply fuel : forall rest ahead n st r pre,
  src = pre ++ rest -> ahead = skipn bs rest -> n = Z.of_nat (length rest) ->
  (length rest < fuel)%nat ->
  rapply basis r = Some pre ->
  rapply basis (scan fuel sg rest ahead n st r) = Some src.
Proof.
  induction fuel as [|f IH]; intros rest ahead n st r pre Hsrc Hah Hn Hf Hr; [lia|].
  cbn [Delta.scan]. destruct (Z.leb_spec bsz n) as [Hb|Hb].
  - assert (Hbl : (bs <= length rest)%nat) by (unfold Delta.bsz in Hb; lia).
    destruct (lookup sg st rest) as [b|] eqn:E.
    + unfold Delta.lookup in E.
      destruct (has_weak _ _ _); [|discriminate].
      apply match_reads in E as [E _].
      2:{ rewrite firstn_length; lia. }
      2:{ exists pre, (skipn bs rest). now rewrite firstn_skipn. }
      eapply (IH ahead _ _ _ _ (pre ++ firstn bs rest)).
      * subst ahead. now rewrite <- app_assoc, firstn_skipn.
      * reflexivity.
      * subst ahead n. rewrite skipn_length. unfold Delta.bsz. lia.
      * subst ahead. rewrite skipn_length. lia.
      * rewrite w32_bsz. now apply rapply_push_copy.
    + destruct rest as [|x rest']; [cbn [length] in Hbl; lia|].
      eapply (IH rest' _ _ _ _ (pre ++ [x])).
      * now rewrite <- app_assoc.
      * subst ahead. destruct bs as [|b']; [lia|]. cbn [skipn]. apply tl_skipn.
      * subst n. cbn [length]. lia.
      * cbn [length] in Hf. lia.
      * now apply rapply_push_lit_byte.
  - subst src. now apply rapply_push_lit.
Qed.


(** ** consequences for validate / sizes *)
Lemma apply_ops_valid ops : forall out, Z.of_nat (length basis) < 2^64 ->
  apply_ops basis ops = Some out ->
  validate (Z.of_nat (length basis)) ops = true /\ out_len ops = Z.of_nat (length out).
Proof. induction ops as [|[o l|d] ops IH]; intros out Hb; cbn [apply_ops validate out_len].
  - intros [= <-]. split; reflexivity.
  - destruct (read basis o l) as [a|] eqn:Ea; [|discriminate].
    destruct (apply_ops basis ops) as [b|] eqn:Eb; [|discriminate]. intros [= <-].
    destruct (IH b Hb eq_refl) as [V L]. rewrite V, L, app_length.
    pose proof (read_length _ _ _ _ Ea) as Hl.
    apply read_some in Ea as (A1 & A2 & A3 & _).
    split; [|lia]. rewrite andb_true_r. apply Z.leb_le. unfold sat_add64. rewrite P64_val. lia.
  - destruct (apply_ops basis ops) as [b|] eqn:Eb; [|discriminate]. intros [= <-].
    destruct (IH b Hb eq_refl) as [V L]. rewrite L, app_length. split; [assumption|lia]. Qed.

Lemma delta_ops_apply_gen s : s = src ->
  apply_ops basis (d_ops _ (compute_delta (gen_signature basis) s)) = Some s.
Proof. intros Es. unfold Delta.compute_delta. cbn [d_ops].
  destruct s as [|x s0]; [reflexivity|].
  destruct sg as [|b0 sg0] eqn:Esg.
  - cbn [apply_ops]. now rewrite app_nil_r.
  - rewrite <- Esg. rewrite Es.
    apply (scan_apply (S (length src)) src (skipn bs src) _ _ [] []); auto.
Qed.
Lemma delta_ops_apply : apply_ops basis (d_ops _ (compute_delta (gen_signature basis) src)) = Some src.
Proof. now apply delta_ops_apply_gen. Qed.

Theorem roundtrip checked : Z.of_nat (length basis) < 2^64 -> Z.of_nat (length src) < 2^64 ->
  patch checked true basis (compute_delta (gen_signature basis) src) = POk src.
Proof. intros Hb Hs. pose proof delta_ops_apply as Ha.
  destruct (apply_ops_valid _ _ Hb Ha) as [V L].
  unfold Delta.patch. rewrite Ha.
  replace (d_basis_size _ (compute_delta (gen_signature basis) src)) with (Z.of_nat (length basis)) by reflexivity.
  replace (d_source_size _ (compute_delta (gen_signature basis) src)) with (Z.of_nat (length src)) by reflexivity.
  replace (d_checksum _ (compute_delta (gen_signature basis) src)) with (H src) by reflexivity.
  rewrite V, L. cbn [negb].
  replace (Z.of_nat (length src) <? P64) with true by (symmetry; apply Z.ltb_lt; rewrite P64_val; lia).
  rewrite Z.eqb_refl. cbn [andb negb]. rewrite andb_false_r.
  destruct (deq (H src) (H src)); [reflexivity|congruence]. Qed.

Theorem delta_wellformed : Z.of_nat (length basis) < 2^64 ->
  let d := compute_delta (gen_signature basis) src in
  d_source_size _ d = Z.of_nat (length src) /\ d_checksum _ d = H src /\
  d_basis_size _ d = Z.of_nat (length basis) /\ d_block_size _ d = bsz /\
  out_len (d_ops _ d) = Z.of_nat (length src) /\
  validate (Z.of_nat (length basis)) (d_ops _ d) = true.
Proof. intros Hb d. pose proof delta_ops_apply as Ha. fold d in Ha.
  destruct (apply_ops_valid _ _ Hb Ha) as [V L].
  repeat split; try assumption. unfold d, Delta.compute_delta; cbn [d_block_size s_block_size Delta.gen_signature]. apply w32_bsz. Qed.

(** ** literal count = textbook greedy (needs the weak checksums to agree) *)
Variable beq : list Z -> list Z -> bool.
Hypothesis beq_spec : forall a b, beq a b = true <-> a = b.
Hypothesis bs_max : Z.of_nat bs <= MAXW.
Hypothesis basis_bytes : bytes basis.

Notation full_blocks := (full_blocks bs).
Notation greedy_lit := (greedy_lit bs beq).

Lemma lits_push_copy r o l : lits (push_copy r o l) = lits r.
Proof. unfold push_copy. destruct r as [|[o' l'|d] r']; cbn [lits]; auto.
  destruct ((o' + l' =? o) && (l' + l <? P32)); reflexivity. Qed.
Lemma lits_push_lit r d : lits (push_lit r d) = lits r + Z.of_nat (length d).
Proof. unfold push_lit. destruct d as [|x d]; [cbn [length]; lia|].
  destruct r as [|[o' l'|p] r']; cbn [lits]; try lia. rewrite app_length. lia. Qed.
Lemma lits_push_lit_byte r x : lits (push_lit_byte r x) = lits r + 1.
Proof. change (push_lit_byte r x) with (push_lit r [x]). rewrite lits_push_lit. cbn [length]. lia. Qed.
Lemma lits_rev r : lits (rev r) = lits r.
Proof. induction r as [|[o l|d] r IH]; cbn [rev lits]; auto.
  - assert (forall a b, lits (a ++ b) = lits a + lits b) as Happ.
    { induction a as [|[? ?|?] a IHa]; intros b; cbn [app lits]; rewrite ?IHa; lia. }
    rewrite Happ, IH. cbn [lits]. lia.
  - assert (forall a b, lits (a ++ b) = lits a + lits b) as Happ.
    { induction a as [|[? ?|?] a IHa]; intros b; cbn [app lits]; rewrite ?IHa; lia. }
    rewrite Happ, IH. cbn [lits]. lia. Qed.

Lemma match_iff st rest : (bs <= length rest)%nat -> window src (firstn bs rest) ->
  bytes (firstn bs rest) -> FInv st (firstn bs rest) ->
  lookup sg st rest <> None <-> existsb (beq (firstn bs rest)) (full_blocks basis) = true.
Proof. intros Hl Hw Hby HF. set (win := firstn bs rest) in *.
  assert (Hlen : length win = bs) by (unfold win; rewrite firstn_length; lia).
  unfold Delta.lookup. fold win. split.
  - intros Hm. destruct (has_weak _ _ _); [|congruence].
    destruct (find_match sg (frc_digest st) win) as [b|] eqn:Hf; [|congruence].
    apply match_reads in Hf as [_ Hin]; auto.
    apply existsb_exists. exists win. split; [|now apply beq_spec].
    apply filter_In. split; [assumption|now apply Nat.eqb_eq].
  - intros He. apply existsb_exists in He as (c & Hin & Hc). apply beq_spec in Hc. subst c.
    apply filter_In in Hin as [Hin _]. apply In_nth_error in Hin as [k Hk].
    pose proof (sig_of_nth 0 _ _ _ Hk) as Hin.
    assert (Hweak : rc_digest (rc_new win) = frc_digest st).
    { assert (Z.of_nat (length win) <= MAXW) by lia.
      destruct (rinv_new win Hby H0) as [HR _].
      now rewrite (rc_digest_of_inv _ _ HR), (frc_digest_of_inv _ _ HF). }
    rewrite Hweak in Hin.
    assert (Hw' : has_weak _ sg (frc_digest st) = true).
    { apply existsb_exists. eexists. split; [exact Hin|]. cbn [b_weak]. apply Z.eqb_refl. }
    rewrite Hw'. unfold Delta.find_match.
    destruct (find _ _) eqn:Hf; [congruence|]. exfalso.
    eapply find_none in Hf; [|exact Hin]. cbn [b_weak b_strong] in Hf. rewrite Z.eqb_refl in Hf.
    destruct (deq (H win) (H win)); [discriminate|congruence]. Qed.

Lemma firstn_tl_shift (x : Z) rest' y ah : skipn bs (x :: rest') = y :: ah ->
  firstn bs rest' = tl (firstn bs (x :: rest')) ++ [y].
Proof. destruct bs as [|b]; [lia|]. cbn [skipn firstn tl]. clear. revert rest'.
  induction b as [|b IH]; intros rest'; cbn [skipn firstn].
  - intros ->. reflexivity.
  - destruct rest' as [|z l]; [discriminate|]. intros Hs. cbn [app]. f_equal. now apply IH. Qed.

Lemma scan_lits fuel : forall rest ahead n st r pre,
  src = pre ++ rest -> ahead = skipn bs rest -> n = Z.of_nat (length rest) ->
  (length rest < fuel)%nat -> bytes rest ->
  ((bs <= length rest)%nat -> FInv st (firstn bs rest)) ->
  lits (scan fuel sg rest ahead n st r) = lits r + greedy_lit fuel (full_blocks basis) rest.
Proof.
  induction fuel as [|f IH]; intros rest ahead n st r pre Hsrc Hah Hn Hf Hby HF; [lia|].
  cbn [Delta.scan Delta.greedy_lit]. destruct (Z.leb_spec bsz n) as [Hb|Hb].
  - assert (Hbl : (bs <= length rest)%nat) by (unfold Delta.bsz in Hb; lia).
    replace (Nat.leb bs (length rest)) with true by (symmetry; apply Nat.leb_le; lia).
    assert (Hwin : window src (firstn bs rest)).
    { exists pre, (skipn bs rest). now rewrite firstn_skipn. }
    pose proof (match_iff st rest Hbl Hwin (Forall_firstn' _ _ _ Hby) (HF Hbl)) as Hm.
    destruct (lookup sg st rest) as [b|] eqn:E.
    + destruct Hm as [Hm _]. rewrite Hm by congruence.
      rewrite (IH ahead _ _ _ _ (pre ++ firstn bs rest)).
      * rewrite lits_push_copy. subst ahead. reflexivity.
      * subst ahead. now rewrite <- app_assoc, firstn_skipn.
      * reflexivity.
      * subst ahead n. rewrite skipn_length. unfold Delta.bsz. lia.
      * subst ahead. rewrite skipn_length. lia.
      * subst ahead. now apply Forall_skipn'.
      * intros Hl2. subst ahead n. rewrite skipn_length in Hl2.
        replace (bsz <=? Z.of_nat (length rest) - bsz) with true
          by (symmetry; apply Z.leb_le; unfold Delta.bsz; lia).
        apply finv_new.
        -- apply Forall_firstn'. now apply Forall_skipn'.
        -- rewrite firstn_length. lia.
    + destruct (existsb _ _) eqn:Ex; [destruct Hm as [_ Hm]; exfalso; now apply Hm|].
      destruct rest as [|x rest']; [cbn [length] in Hbl; lia|].
      rewrite (IH rest' _ _ _ _ (pre ++ [x])).
      * rewrite lits_push_lit_byte. lia.
      * now rewrite <- app_assoc.
      * subst ahead. destruct bs as [|b']; [lia|]. cbn [skipn]. apply tl_skipn.
      * subst n. cbn [length]. lia.
      * cbn [length] in Hf. lia.
      * now inversion Hby.
      * intros Hl2. destruct ahead as [|y ah] eqn:Ea.
        -- exfalso. assert (length (skipn bs (x :: rest')) = 0%nat) by (rewrite <- Hah; reflexivity).
           rewrite skipn_length in H0. cbn [length] in *. lia.
        -- symmetry in Hah. rewrite (firstn_tl_shift x rest' y ah Hah).
           specialize (HF Hbl).
           assert (Hfx : firstn bs (x :: rest') = x :: tl (firstn bs (x :: rest'))).
           { destruct bs; [lia|]. reflexivity. }
           rewrite Hfx in HF |- *. cbn [tl].
           assert (Hy : 0 <= y < 256).
           { assert (Hin : In y (x :: rest')).
             { apply (skipn_In' bs). rewrite Hah. now left. }
             unfold bytes in Hby. rewrite Forall_forall in Hby. now apply Hby. }
           apply finv_roll; auto.
           ++ rewrite <- Hfx. now apply Forall_firstn'.
           ++ rewrite <- Hfx. rewrite firstn_length. lia.
  - replace (Nat.leb bs (length rest)) with false
      by (symmetry; apply Nat.leb_gt; unfold Delta.bsz in Hb; lia).
    apply lits_push_lit.
Qed.

Lemma delta_literals_gen s : s = src -> bytes src ->
  lits (d_ops _ (compute_delta (gen_signature basis) s)) =
  match s with [] => 0 | _ =>
    match blocks basis with [] => Z.of_nat (length s)
    | _ => greedy_lit (S (length s)) (full_blocks basis) s end end.
Proof. intros Es Hby. unfold Delta.compute_delta. cbn [d_ops].
  destruct s as [|x s0]; [reflexivity|].
  cbn [s_blocks Delta.gen_signature].
  assert (Hcase : blocks basis = [] \/ exists c bl, blocks basis = c :: bl)
    by (destruct (blocks basis); eauto).
  destruct Hcase as [Eb|(c & bl & Eb)]; rewrite Eb; [cbn [Delta.sig_of lits length]; lia|].
  rewrite <- Eb.
  assert (Hne : sig_of 0 (blocks basis) <> []) by (rewrite Eb; discriminate).
  destruct (sig_of 0 (blocks basis)) as [|b0 sg0] eqn:Esg; [congruence|]. rewrite <- Esg.
  rewrite lits_rev. rewrite Es.
  change (sig_of 0 (blocks basis)) with sg.
  rewrite (scan_lits (S (length src)) src (skipn bs src) _ _ [] []); auto.
  intros _. apply finv_new; [now apply Forall_firstn'|rewrite firstn_length; lia].
Qed.

Theorem delta_literals_eq_greedy : bytes src ->
  lits (d_ops _ (compute_delta (gen_signature basis) src)) =
  match src with [] => 0 | _ =>
    match blocks basis with [] => Z.of_nat (length src)
    | _ => greedy_lit (S (length src)) (full_blocks basis) src end end.
Proof. now apply delta_literals_gen. Qed.


End WithBasis.

Section Greedy.
Variable beq : list Z -> list Z -> bool.
Hypothesis beq_spec : forall a b, beq a b = true <-> a = b.
Notation full_blocks := (full_blocks bs).
Notation greedy_lit := (greedy_lit bs beq).
(** ** resynchronisation of the textbook scan: literals <= |pre| + |tail| *)
Lemma greedy_nonneg full fuel : forall rest, 0 <= greedy_lit fuel full rest.
Proof. induction fuel as [|f IH]; intros rest; cbn [Delta.greedy_lit]; [lia|].
  destruct (Nat.leb bs (length rest)); [|lia].
  destruct (existsb _ _); [apply IH|]. destruct rest; [lia|]. specialize (IH rest). lia. Qed.

Lemma greedy_resync full fuel : forall pre bl tail,
  (forall b, In b bl -> In b full /\ length b = bs) -> (length tail < bs)%nat ->
  (length (pre ++ concat bl ++ tail) < fuel)%nat ->
  greedy_lit fuel full (pre ++ concat bl ++ tail) <= Z.of_nat (length pre) + Z.of_nat (length tail).
Proof.
  induction fuel as [|f IH]; intros pre bl tail Hbl Ht Hf; [lia|].
  cbn [Delta.greedy_lit]. set (rest := pre ++ concat bl ++ tail) in *.
  assert (Hlr : length rest = (length pre + length (concat bl) + length tail)%nat)
    by (unfold rest; rewrite !app_length; lia).
  destruct (Nat.leb_spec bs (length rest)) as [Hb|Hb].
  - destruct (existsb (beq (firstn bs rest)) full) eqn:Ex.
    + destruct (Nat.le_gt_cases bs (length pre)) as [Hp|Hp].
      * unfold rest. rewrite skipn_app_le by lia.
        etransitivity; [apply IH; auto|].
        -- rewrite !app_length, skipn_length. lia.
        -- rewrite skipn_length. lia.
      * destruct bl as [|b bl'].
        -- unfold rest. cbn [concat app]. rewrite skipn_app_ge by lia.
           specialize (IH [] [] (skipn (bs - length pre) tail)). cbn [concat app length] in IH.
           etransitivity; [apply IH|].
           ++ intros ? [].
           ++ rewrite skipn_length. lia.
           ++ rewrite skipn_length. cbn [concat length] in Hlr. lia.
           ++ rewrite skipn_length. lia.
        -- destruct (Hbl b (or_introl eq_refl)) as [_ Hlb].
           unfold rest. cbn [concat]. rewrite skipn_app_ge by lia. rewrite <- app_assoc.
           rewrite skipn_app_le by lia.
           etransitivity; [apply (IH (skipn (bs - length pre) b) bl' tail)|].
           ++ intros b' Hb'. apply Hbl. now right.
           ++ assumption.
           ++ cbn [concat] in Hlr. rewrite !app_length in *. rewrite skipn_length. lia.
           ++ rewrite skipn_length. lia.
    + destruct pre as [|x pre0].
      * destruct bl as [|b bl'].
        -- cbn [concat length] in Hlr. lia.
        -- exfalso. destruct (Hbl b (or_introl eq_refl)) as [Hin Hlb].
           assert (Hfb : firstn bs rest = b).
           { unfold rest. cbn [concat app]. rewrite <- app_assoc, <- Hlb. apply firstn_app_exact. }
           rewrite Hfb in Ex.
           assert (existsb (beq b) full = true)
             by (apply existsb_exists; exists b; split; [assumption|now apply beq_spec]).
           congruence.
      * unfold rest. cbn [app].
        specialize (IH pre0 bl tail Hbl Ht).
        assert (Hlt : (length (pre0 ++ concat bl ++ tail) < f)%nat)
          by (rewrite !app_length; cbn [length] in Hlr; lia).
        specialize (IH Hlt). cbn [length]. lia.
  - destruct bl as [|b bl'].
    + cbn [concat length] in Hlr. lia.
    + exfalso. destruct (Hbl b (or_introl eq_refl)) as [_ Hlb]. cbn [concat] in Hlr.
      rewrite app_length in Hlr. lia.
Qed.

Lemma chunks_decomp fuel : forall l, (length l <= fuel)%nat ->
  exists bl tail, l = concat bl ++ tail /\ (length tail < bs)%nat /\
    forall b, In b bl -> In b (chunks bs fuel l) /\ length b = bs.
Proof. induction fuel as [|f IH]; intros l Hl.
  - destruct l; [|cbn [length] in Hl; lia]. exists [], [].
    split; [reflexivity|]. split; [cbn [length]; lia|]. intros b [].
  - destruct (Nat.le_gt_cases bs (length l)) as [Hge|Hlt].
    + destruct l as [|x l0]; [cbn [length] in Hge; lia|].
      destruct (IH (skipn bs (x :: l0))) as (bl & tail & E & Ht & Hbl).
      { rewrite skipn_length. cbn [length] in *. lia. }
      exists (firstn bs (x :: l0) :: bl), tail.
      split; [cbn [concat]; rewrite <- app_assoc, <- E; now rewrite firstn_skipn|].
      split; [assumption|]. intros b [<-|Hin].
      * split; [cbn [chunks]; now left|rewrite firstn_length; lia].
      * destruct (Hbl b Hin) as [Hi Hlb]. split; [cbn [chunks]; now right|assumption].
    + exists [], l. split; [reflexivity|]. split; [assumption|]. intros b [].
Qed.


(** aligned full blocks at the front are consumed without a literal *)
Lemma greedy_skip_blocks full : forall bl fuel rest,
  (forall b, In b bl -> In b full /\ length b = bs) ->
  (length (concat bl ++ rest) < fuel)%nat ->
  exists fuel', (length rest < fuel')%nat /\ greedy_lit fuel full (concat bl ++ rest) = greedy_lit fuel' full rest.
Proof. induction bl as [|b bl IH]; intros fuel rest Hbl Hf.
  - exists fuel. split; [exact Hf|reflexivity].
  - destruct (Hbl b (or_introl eq_refl)) as [Hin Hlb].
    destruct fuel as [|f]; [lia|]. cbn [concat]. rewrite <- app_assoc. cbn [Delta.greedy_lit].
    assert (Hlen : (bs <= length (b ++ concat bl ++ rest))%nat) by (rewrite app_length; lia).
    replace (Nat.leb bs (length (b ++ concat bl ++ rest))) with true by (symmetry; apply Nat.leb_le; exact Hlen).
    assert (Hfb : firstn bs (b ++ concat bl ++ rest) = b) by (rewrite <- Hlb; apply firstn_app_exact).
    rewrite Hfb.
    assert (Hex : existsb (beq b) full = true)
      by (apply existsb_exists; exists b; split; [assumption|now apply beq_spec]).
    rewrite Hex.
    assert (Hsk : skipn bs (b ++ concat bl ++ rest) = concat bl ++ rest)
      by (rewrite skipn_app_ge by lia; replace (bs - length b)%nat with 0%nat by lia; reflexivity).
    rewrite Hsk.
    apply IH; [intros b' Hb'; apply Hbl; now right|].
    cbn [concat] in Hf. rewrite <- app_assoc, app_length in Hf. lia. Qed.

Lemma greedy_fuel_irrelevant full : forall fuel fuel' rest, (length rest < fuel)%nat -> (length rest < fuel')%nat ->
  greedy_lit fuel full rest = greedy_lit fuel' full rest.
Proof. induction fuel as [|f IH]; intros fuel' rest Hf Hf'; [lia|]. destruct fuel' as [|f']; [lia|].
  cbn [Delta.greedy_lit]. destruct (Nat.leb_spec bs (length rest)) as [Hb|Hb]; [|reflexivity].
  destruct (existsb _ _).
  - apply IH; rewrite skipn_length; lia.
  - destruct rest as [|x r]; [reflexivity|]. f_equal. apply IH; cbn [length] in *; lia. Qed.

(** The cost of an edit (C16, last clause), in decomposed form: when the source is
    the basis with the region X replaced by Y, written around the block structure
    of the basis as  blocks ++ Apost ++ [X|Y] ++ Bpre ++ blocks ++ tail  with the
    three remainders shorter than a block, the textbook scan spends literals on at
    most Apost, Y, Bpre and the trailing partial block: |Y| + 2(bs-1) + |tail|. *)
Theorem edit_cost full fuel blA blB Apost Bpre tail Y :
  (forall b, In b blA -> In b full /\ length b = bs) ->
  (forall b, In b blB -> In b full /\ length b = bs) ->
  (length Apost < bs)%nat -> (length Bpre < bs)%nat -> (length tail < bs)%nat ->
  (length (concat blA ++ (Apost ++ Y ++ Bpre) ++ concat blB ++ tail) < fuel)%nat ->
  greedy_lit fuel full (concat blA ++ (Apost ++ Y ++ Bpre) ++ concat blB ++ tail)
  <= Z.of_nat (length Y) + 2 * (Z.of_nat bs - 1) + Z.of_nat (length tail).
Proof. intros HA HB Ha Hb Ht Hf.
  destruct (greedy_skip_blocks full blA fuel _ HA Hf) as (fuel' & Hf' & ->).
  pose proof (greedy_resync full fuel' (Apost ++ Y ++ Bpre) blB tail HB Ht Hf') as R.
  rewrite !app_length in R. lia. Qed.

End Greedy.

(** a source identical to the basis costs fewer literal bytes than one block *)
Theorem identical_lt_block (basis : list Z) (beq : list Z -> list Z -> bool) :
  (forall a b, beq a b = true <-> a = b) -> Z.of_nat bs <= MAXW -> bytes basis ->
  Z.of_nat (length (blocks basis)) <= 2^32 ->
  (forall c win, In c (blocks basis) -> window basis win -> length win = bs -> H c = H win -> c = win) ->
  lits (d_ops _ (compute_delta (gen_signature basis) basis)) < bsz.
Proof. intros Hbeq Hmax Hby Hnb Hcf.
  rewrite (delta_literals_eq_greedy basis basis Hnb Hcf beq Hbeq Hmax Hby).
  destruct (chunks_decomp (length basis) basis (le_n _)) as (bl & tail & E & Ht & Hbl).
  assert (R' : greedy_lit bs beq (S (length basis)) (full_blocks bs basis) basis <= 0 + Z.of_nat (length tail)).
  { pose proof (greedy_resync beq Hbeq (full_blocks bs basis) (S (length basis)) [] bl tail) as R.
    cbn [app length] in R. rewrite <- E in R. apply R; auto.
    intros b Hb. destruct (Hbl b Hb) as [Hin Hl]. split; [|assumption].
    apply filter_In. split; [assumption|now apply Nat.eqb_eq]. }
  clear E Hbl Hcf Hnb Hby.
  destruct basis as [|x b0]; [apply bsz_pos|].
  destruct (blocks (x :: b0)) eqn:Ebl.
  - exfalso. unfold Delta.blocks in Ebl. cbn [length chunks] in Ebl. discriminate.
  - unfold Delta.bsz. lia.
Qed.



End P.

(** ** patch on arbitrary (hostile) basis / delta - C05 *)
Section Hostile.
Variable digest : Type.
Variable H : list Z -> digest.
Variable deq : forall a b : digest, {a = b} + {a <> b}.
Notation patch := (patch digest H deq).
Variable basis : list Z.
Variable d : delta digest.

Lemma patch_ok_sound checked out :
  patch checked true basis d = POk out -> H out = d_checksum _ d.
Proof. unfold Delta.patch.
  destruct (checked && _); [discriminate|].
  destruct (negb (validate _ _)); [discriminate|].
  destruct (apply_ops basis (d_ops _ d)) as [o|]; [|discriminate].
  destruct (deq (H o) (d_checksum _ d)) as [E|]; [|discriminate]. now intros [= <-]. Qed.

Lemma patch_ok_inv checked verify out : patch checked verify basis d = POk out ->
  apply_ops basis (d_ops _ d) = Some out /\ validate (d_basis_size _ d) (d_ops _ d) = true.
Proof. unfold Delta.patch.
  destruct (checked && _); [discriminate|].
  destruct (validate _ _); cbn [negb]; [|discriminate].
  destruct (apply_ops basis (d_ops _ d)) as [o|]; [|discriminate].
  destruct verify; [destruct (deq _ _); [|discriminate]|]; intros [= <-]; auto. Qed.

(** every copy that a successful patch performed read inside the actual basis *)
Fixpoint copies_in_bounds (n : Z) (ops : list dop) : Prop :=
  match ops with
  | [] => True
  | Copy o l :: r => 0 <= o /\ 0 <= l /\ o + l <= n /\ copies_in_bounds n r
  | Lit _ :: r => copies_in_bounds n r
  end.

Lemma apply_ops_in_bounds ops : forall out, apply_ops basis ops = Some out ->
  copies_in_bounds (Z.of_nat (length basis)) ops.
Proof. induction ops as [|[o l|x] ops IH]; intros out; cbn [apply_ops copies_in_bounds]; auto.
  - destruct (read basis o l) as [a|] eqn:Ea; [|discriminate].
    destruct (apply_ops basis ops) as [b|]; [|discriminate]. intros _.
    apply read_some in Ea as (A1 & A2 & A3 & _). repeat split; auto. eapply IH; eauto.
  - destruct (apply_ops basis ops) as [b|]; [|discriminate]. intros _. eapply IH; eauto. Qed.

Lemma patch_reads_in_bounds checked verify out : patch checked verify basis d = POk out ->
  copies_in_bounds (Z.of_nat (length basis)) (d_ops _ d).
Proof. intros Hp. apply patch_ok_inv in Hp as [Ha _]. eapply apply_ops_in_bounds; eauto. Qed.

Lemma patch_panic_iff verify :
  (patch true verify basis d = PPanic <->
     ~ (out_len (d_ops _ d) < 2^64 /\ out_len (d_ops _ d) = d_source_size _ d)) /\
  patch false verify basis d <> PPanic.
Proof. unfold Delta.patch. cbn [andb]. split.
  - destruct (Z.ltb_spec (out_len (d_ops _ d)) P64) as [E1|E1]; rewrite P64_val in E1;
      destruct (Z.eqb_spec (out_len (d_ops _ d)) (d_source_size _ d)) as [E2|E2]; cbn [andb negb].
    + split; [|intros Hn; exfalso; apply Hn; auto].
      intros Hp. exfalso. revert Hp.
      destruct (negb _); [discriminate|]. destruct (apply_ops _ _); [|discriminate].
      destruct verify; [destruct (deq _ _)|]; discriminate.
    + split; [intros _ [_ ?]; congruence|reflexivity].
    + split; [intros _ [? _]; lia|reflexivity].
    + split; [intros _ [? _]; lia|reflexivity].
  - destruct (negb _); [discriminate|]. destruct (apply_ops _ _); [|discriminate].
    destruct verify; [destruct (deq _ _)|]; discriminate. Qed.

(** success implies the unique preimage, given no collision between the two strings *)
Lemma patch_detects_any_change checked src out :
  d_checksum _ d = H src -> (H out = H src -> out = src) ->
  patch checked true basis d = POk out -> out = src.
Proof. intros Hc Hinj Hp. apply patch_ok_sound in Hp. apply Hinj. congruence. Qed.

End Hostile.
