(** Invariants of Model/Hub.v: lock discipline, the value read under the lock is
    still current at the commit, live tree = replay of the commit log through the
    CAS-map specification, every logged reply is the specification's reply, every
    logged Put was hash- and length-verified.  All by induction over arbitrary
    schedules (with kills), for any number of processes and any programs. *)
From stdpp Require Import gmap sorting.
From Copia Require Import Model.Hub.

Section P.
Context `{Countable K}.
Context {D : Type} `{EqDecision D}.
Variable Hh : list Z -> D.
Variable cname : K -> D -> K.
Notation pid := nat.
Notation content := (list Z).
Notation req := (@req K D).
Notation reply := (@reply D).
Notation sys := (@sys K _ _ D).
Notation spec := (spec Hh cname).
Notation step := (step Hh cname).
Notation commit := (commit cname).
Notation run := (run Hh cname).
Notation do_ev := (do_ev Hh cname).
Notation cur_of := (cur_of Hh).
Notation verified := (verified Hh).

Fixpoint replay (m : gmap K content) (l : list (pid * req * reply * nat)) : gmap K content :=
  match l with [] => m | (_, r, _, _) :: l' => replay (fst (spec m r)) l' end.
Fixpoint legal (m : gmap K content) (l : list (pid * req * reply * nat)) : Prop :=
  match l with [] => True | (_, r, rp, _) :: l' => snd (spec m r) = rp /\ legal (fst (spec m r)) l' end.

Lemma replay_app m l1 l2 : replay m (l1 ++ l2) = replay (replay m l1) l2.
Proof. revert m; induction l1 as [|[[[? ?] ?] ?] l1 IH]; intros m; simpl; auto. Qed.
Lemma legal_app m l1 l2 : legal m (l1 ++ l2) <-> legal m l1 /\ legal (replay m l1) l2.
Proof. revert m; induction l1 as [|[[[? ?] ?] ?] l1 IH]; intros m; simpl; [tauto|]. rewrite IH. tauto. Qed.

Definition holds_lock (c : @pc K D) : bool :=
  match c with Locked _ _ _ | ReadCur _ _ _ _ | Committed _ _ _ => true | _ => false end.

Definition body_ok (c : @pc K D) : Prop :=
  match c with
  | Staging (Put _ _ _ _ chunks) cs acc _ => body chunks = acc ++ concat cs
  | Staging _ _ _ _ => False
  | Locked (Put _ _ d l chunks) c _ => c = body chunks /\ verified d l c = true
  | ReadCur (Put _ _ d l chunks) c _ _ => c = body chunks /\ verified d l c = true
  | _ => True
  end.

Definition put_verified (e : pid * req * reply * nat) : Prop :=
  match e with
  | (_, Put _ _ d l ch, _, _) => verified d l (body ch) = true
  | _ => True
  end.

Record Inv (m0 : gmap K content) (s : sys) : Prop := {
  I_lock : forall i q, procs s !! i = Some q -> (holds_lock (ppc q) = true <-> lock s = Some i);
  I_lockdom : forall i, lock s = Some i -> is_Some (procs s !! i);
  I_cur : forall i q r c cur t0, procs s !! i = Some q -> ppc q = ReadCur r c cur t0 ->
            cur = cur_of (live s) (path_of r);
  I_body : forall i q, procs s !! i = Some q -> body_ok (ppc q);
  I_log : live s = replay m0 (log s);
  I_legal : legal m0 (log s);
  I_verified : Forall put_verified (log s)
}.

Lemma inv_init m0 progs : Inv m0 (init_sys m0 progs).
Proof. constructor; simpl; auto.
  - intros i q Hq. apply lookup_fmap_Some in Hq as (l & <- & _). simpl. split; discriminate.
  - discriminate.
  - intros i q r c cur t0 Hq. apply lookup_fmap_Some in Hq as (l & <- & _). discriminate.
  - intros i q Hq. apply lookup_fmap_Some in Hq as (l & <- & _). exact I.
Qed.

(** the commit step is the specification step when the value read is current *)
Lemma commit_is_spec m r c :
  match r with Put _ _ _ _ ch => c = body ch | _ => True end ->
  commit m r c (cur_of m (path_of r)) = spec m r.
Proof. destruct r as [p e d l ch|p e|p]; simpl; [intros ->|intros _|intros _]; reflexivity. Qed.

Ltac other j i :=
  destruct (decide (j = i)) as [->|?];
  [rewrite lookup_insert | rewrite lookup_insert_ne by congruence].

Lemma step_inv m0 s i s' : Inv m0 s -> step s i = Some s' -> Inv m0 s'.
Proof.
  intros [Il Id Ic Ib Ig Ile Iv] Hs. unfold Hub.step in Hs.
  destruct (procs s !! i) as [q|] eqn:Eq; [|discriminate].
  pose proof (Il i q Eq) as Ili. pose proof (Ib i q Eq) as Ibi.
  destruct (ppc q) as [|r cs acc t0|r c t0|r c cur t0|r rp t0|] eqn:Epc.
  - (* Idle *)
    destruct (todo q) as [|[p e d l ch|p e|p] rest]; [discriminate| | |].
    + (* Put: open staging *)
      injection Hs as <-. constructor; simpl; auto.
      * intros j qj; other j i; [intros [= <-]; simpl; exact Ili|apply Il].
      * intros j Hj; other j i; eauto.
      * intros j qj r' c' cur' t'; other j i; [intros [= <-]; discriminate|apply Ic].
      * intros j qj; other j i; [intros [= <-]; simpl; reflexivity|apply Ib].
    + (* Del: flock *)
      destruct (lock s) as [h|] eqn:El; [discriminate|]. injection Hs as <-.
      constructor; simpl; auto.
      * intros j qj; other j i; [intros [= <-]; simpl; tauto|].
        intros Hj. specialize (Il j qj Hj). try rewrite El in Il.
        split; [intros Hh'; apply Il in Hh'; discriminate|intros [= ->]; congruence].
      * intros j [= <-]. rewrite lookup_insert. eauto.
      * intros j qj r' c' cur' t'; other j i; [intros [= <-]; discriminate|apply Ic].
      * intros j qj; other j i; [intros [= <-]; exact I|apply Ib].
    + (* Get: open + reply, logged *)
      injection Hs as <-. constructor; simpl; auto.
      * intros j qj; other j i; [intros [= <-]; simpl; exact Ili|apply Il].
      * intros j Hj; other j i; eauto.
      * intros j qj r' c' cur' t'; other j i; [intros [= <-]; discriminate|apply Ic].
      * intros j qj; other j i; [intros [= <-]; exact I|apply Ib].
      * rewrite replay_app, <- Ig. reflexivity.
      * apply legal_app. split; [assumption|]. rewrite <- Ig. simpl. auto.
      * apply Forall_app. split; [assumption|]. repeat constructor.
  - (* Staging *)
    destruct cs as [|c cs].
    + destruct r as [p e d l ch|p e|p]; [|discriminate|discriminate].
      destruct (verified d l acc) eqn:Ev.
      * (* flock *)
        destruct (lock s) as [h|] eqn:El; [discriminate|]. injection Hs as <-.
        simpl in Ibi. rewrite app_nil_r in Ibi.
        constructor; simpl; auto.
        -- intros j qj; other j i; [intros [= <-]; simpl; tauto|].
           intros Hj. specialize (Il j qj Hj). try rewrite El in Il.
           split; [intros Hh'; apply Il in Hh'; discriminate|intros [= ->]; congruence].
        -- intros j [= <-]. rewrite lookup_insert. eauto.
        -- intros j qj r' c' cur' t'; other j i; [intros [= <-]; discriminate|apply Ic].
        -- intros j qj; other j i; [intros [= <-]; simpl; split; [congruence|assumption]|apply Ib].
      * (* reject *)
        injection Hs as <-. constructor; simpl; auto.
        -- intros j qj; other j i; [intros [= <-]; simpl; exact Ili|apply Il].
        -- intros j Hj; other j i; eauto.
        -- intros j qj r' c' cur' t'; other j i; [intros [= <-]; discriminate|apply Ic].
        -- intros j qj; other j i; [intros [= <-]; exact I|apply Ib].
    + (* write a chunk *)
      injection Hs as <-. constructor; simpl; auto.
      * intros j qj; other j i; [intros [= <-]; simpl; exact Ili|apply Il].
      * intros j Hj; other j i; eauto.
      * intros j qj r' c' cur' t'; other j i; [intros [= <-]; discriminate|apply Ic].
      * intros j qj; other j i; [intros [= <-]; simpl|apply Ib].
        destruct r as [p e d l ch|p e|p]; simpl in Ibi |- *; try contradiction.
        rewrite Ibi. simpl. now rewrite app_assoc.
  - (* Locked -> ReadCur *)
    injection Hs as <-. constructor; simpl; auto.
    + intros j qj; other j i; [intros [= <-]; simpl; exact Ili|apply Il].
    + intros j Hj; other j i; eauto.
    + intros j qj r' c' cur' t'; other j i; [intros [= <-]; simpl; intros [= <- <- <- <-]; reflexivity|apply Ic].
    + intros j qj; other j i; [intros [= <-]; simpl; destruct r; exact Ibi|apply Ib].
  - (* ReadCur -> Committed: the linearization point *)
    assert (Hcur : cur = cur_of (live s) (path_of r)) by (eapply Ic; eauto).
    assert (Hl : lock s = Some i) by (apply Ili; reflexivity).
    destruct (commit (live s) r c cur) as [m' rp] eqn:Em. injection Hs as <-.
    assert (Hspec : spec (live s) r = (m', rp)).
    { rewrite <- Em, Hcur. symmetry. apply commit_is_spec.
      destruct r as [p e d l ch|p e|p]; simpl in Ibi; tauto. }
    constructor; simpl.
    + intros j qj; other j i; [intros [= <-]; simpl; tauto|apply Il].
    + intros j Hj; other j i; eauto.
    + intros j qj r' c' cur' t'; other j i; [intros [= <-]; discriminate|].
      intros Hj Hp. exfalso.
      assert (lock s = Some j) by (apply (Il j qj Hj); rewrite Hp; reflexivity). congruence.
    + intros j qj; other j i; [intros [= <-]; exact I|apply Ib].
    + rewrite replay_app, <- Ig. simpl. now rewrite Hspec.
    + apply legal_app. split; [assumption|]. rewrite <- Ig. simpl. rewrite Hspec. simpl. auto.
    + apply Forall_app. split; [assumption|]. constructor; [|constructor].
      destruct r as [p e d l ch|p e|p]; simpl in Ibi |- *; auto. destruct Ibi as [-> Hv]. exact Hv.
  - (* Committed -> unlock, reply *)
    assert (Hl : lock s = Some i) by (apply Ili; reflexivity).
    injection Hs as <-. constructor; simpl; auto.
    + intros j qj; other j i; [intros [= <-]; simpl; split; discriminate|].
      intros Hj. specialize (Il j qj Hj). try rewrite Hl in Il.
      split; [intros Hh'; apply Il in Hh'; congruence|discriminate].
    + discriminate.
    + intros j qj r' c' cur' t'; other j i; [intros [= <-]; discriminate|].
      intros Hj Hp. exfalso.
      assert (lock s = Some j) by (apply (Il j qj Hj); rewrite Hp; reflexivity). congruence.
    + intros j qj; other j i; [intros [= <-]; exact I|apply Ib].
  - discriminate.
Qed.

Lemma kill_inv m0 s i : Inv m0 s -> Inv m0 (kill s i).
Proof.
  intros [Il Id Ic Ib Ig Ile Iv]. unfold kill.
  destruct (procs s !! i) as [q|] eqn:Eq; [|constructor; auto].
  constructor; simpl; auto.
  - intros j qj; other j i.
    + intros [= <-]. simpl. split; [discriminate|].
      destruct (lock s) as [h|]; [|discriminate]. destruct (decide (h = i)); [discriminate|congruence].
    + intros Hj. specialize (Il j qj Hj).
      destruct (lock s) as [h|] eqn:El; [|exact Il].
      destruct (decide (h = i)) as [->|Hh'].
      * split; [intros Hx; apply Il in Hx; congruence|discriminate].
      * exact Il.
  - intros j Hj. destruct (lock s) as [h|] eqn:El; [|discriminate].
    destruct (decide (h = i)) as [->|Hh']; [discriminate|]. injection Hj as <-.
    rewrite lookup_insert_ne by congruence. apply Id. reflexivity.
  - intros j qj r c cur t0; other j i; [intros [= <-]; discriminate|apply Ic].
  - intros j qj; other j i; [intros [= <-]; exact I|apply Ib].
Qed.

Lemma tick_inv m0 s : Inv m0 s -> Inv m0 (tick s).
Proof. intros [Il Id Ic Ib Ig Ile Iv]. constructor; simpl; auto. Qed.

Lemma do_ev_inv m0 s e : Inv m0 s -> Inv m0 (do_ev s e).
Proof. intros Hi. destruct e as [i|i]; simpl.
  - destruct (step s i) eqn:E; apply tick_inv; [eapply step_inv; eauto|assumption].
  - apply tick_inv. now apply kill_inv. Qed.

Theorem run_inv m0 sched : forall s, Inv m0 s -> Inv m0 (run s sched).
Proof. induction sched as [|e rest IH]; intros s Hi; simpl; [assumption|]. apply IH. now apply do_ev_inv. Qed.

(** every snapshot of the run satisfies the invariant too *)
Theorem run_trace_inv m0 sched : forall s, Inv m0 s ->
  Forall (fun m => exists s', Inv m0 s' /\ live s' = m) (run_trace Hh cname s sched).
Proof. induction sched as [|e rest IH]; intros s Hi; simpl; [constructor|].
  constructor; [exists (do_ev s e); split; [now apply do_ev_inv|reflexivity]|]. apply IH. now apply do_ev_inv. Qed.


(** ** Real-time order: every logged operation takes effect between its invocation
    and its response, and the log is ordered by (strictly increasing) time *)
Definition ltime (e : pid * req * reply * nat) : nat := snd e.

Definition started (c : @pc K D) : nat :=
  match c with
  | Staging _ _ _ t0 | Locked _ _ t0 | ReadCur _ _ _ t0 | Committed _ _ t0 => t0
  | _ => 0
  end.

Record TInv (s : sys) : Prop := {
  T_sorted : StronglySorted lt (map ltime (log s));
  T_bound : Forall (fun e => ltime e < clock s) (log s);
  T_sent : forall i q r rp t0 t1, procs s !! i = Some q -> In (r, rp, t0, t1) (sent q) ->
             t0 <= t1 /\ t1 < clock s /\
             (rp <> ErrRes -> exists t, In (i, r, rp, t) (log s) /\ t0 <= t /\ t <= t1);
  T_pend : forall i q r rp t0, procs s !! i = Some q -> ppc q = Committed r rp t0 ->
             exists t, In (i, r, rp, t) (log s) /\ t0 <= t;
  T_start : forall i q, procs s !! i = Some q -> started (ppc q) <= clock s
}.

Lemma tinv_init m0 progs : TInv (init_sys m0 progs).
Proof. constructor; simpl.
  - constructor.
  - constructor.
  - intros i q r rp t0 t1 Hq. apply lookup_fmap_Some in Hq as (l & <- & _). simpl. intros [].
  - intros i q r rp t0 Hq. apply lookup_fmap_Some in Hq as (l & <- & _). discriminate.
  - intros i q Hq. apply lookup_fmap_Some in Hq as (l & <- & _). simpl. lia.
Qed.

Lemma sorted_snoc l t : StronglySorted lt l -> Forall (fun x => x < t) l -> StronglySorted lt (l ++ [t]).
Proof. induction 1 as [|x l Hs IH Hx]; intros Hb; simpl.
  - repeat constructor.
  - inversion Hb; subst. constructor; [now apply IH|].
    apply Forall_app. split; [assumption|]. repeat constructor. assumption. Qed.

Lemma bound_mono (l : list (pid * req * reply * nat)) a b : a <= b ->
  Forall (fun e => ltime e < a) l -> Forall (fun e => ltime e < b) l.
Proof. intros Hab HF. eapply Forall_impl; [exact HF|]. intros e He. simpl in *. lia. Qed.

(** the three shapes of a step: only the pc changes / log grows by one entry at the current time *)
Lemma do_ev_tinv s e : TInv s -> TInv (do_ev s e).
Proof.
  intros [Ts Tb Tse Tp Tst].
  destruct e as [i|i]; simpl.
  2:{ (* kill *)
    unfold kill. destruct (procs s !! i) as [q|] eqn:Eq.
    - constructor; simpl.
      + assumption.
      + eapply bound_mono; [|exact Tb]. lia.
      + intros j qj r rp t0 t1; other j i.
        * intros [= <-]. simpl. intros Hin. destruct (Tse i q r rp t0 t1 Eq Hin) as (A & B & C). repeat split; auto; lia.
        * intros Hj Hin. destruct (Tse j qj r rp t0 t1 Hj Hin) as (A & B & C). repeat split; auto; lia.
      + intros j qj r rp t0; other j i; [intros [= <-]; discriminate|apply Tp].
      + intros j qj; other j i; [intros [= <-]; simpl; lia|]. intros Hj. specialize (Tst j qj Hj). lia.
    - constructor; simpl.
      + assumption.
      + eapply bound_mono; [|exact Tb]. lia.
      + intros j qj r rp t0 t1 Hj Hin. destruct (Tse j qj r rp t0 t1 Hj Hin) as (A & B & C). repeat split; auto; lia.
      + assumption.
      + intros j qj Hj. specialize (Tst j qj Hj). lia. }
  destruct (step s i) as [s'|] eqn:Hs.
  2:{ constructor; simpl.
      - assumption.
      - eapply bound_mono; [|exact Tb]. lia.
      - intros j qj r rp t0 t1 Hj Hin. destruct (Tse j qj r rp t0 t1 Hj Hin) as (A & B & C). repeat split; auto; lia.
      - assumption.
      - intros j qj Hj. specialize (Tst j qj Hj). lia. }
  unfold Hub.step in Hs.
  destruct (procs s !! i) as [q|] eqn:Eq; [|discriminate].
  pose proof (Tst i q Eq) as Tsti.
  assert (Hother_sent : forall j qj r rp t0 t1, j <> i -> procs s !! j = Some qj -> In (r, rp, t0, t1) (sent qj) ->
            forall l', t0 <= t1 /\ t1 < S (clock s) /\ (rp <> ErrRes -> exists t, In (j, r, rp, t) (log s ++ l') /\ t0 <= t /\ t <= t1)).
  { intros j qj r rp t0 t1 _ Hj Hin l'. destruct (Tse j qj r rp t0 t1 Hj Hin) as (A & B & C).
    split; [assumption|]. split; [lia|]. intros Hne. destruct (C Hne) as (t & Hl & Ht). exists t. split; [apply in_or_app; now left|assumption]. }
  assert (Hown_sent : forall r rp t0 t1, In (r, rp, t0, t1) (sent q) ->
            forall l', t0 <= t1 /\ t1 < S (clock s) /\ (rp <> ErrRes -> exists t, In (i, r, rp, t) (log s ++ l') /\ t0 <= t /\ t <= t1)).
  { intros r rp t0 t1 Hin l'. destruct (Tse i q r rp t0 t1 Eq Hin) as (A & B & C).
    split; [assumption|]. split; [lia|]. intros Hne. destruct (C Hne) as (t & Hl & Ht). exists t. split; [apply in_or_app; now left|assumption]. }
  assert (Hb' : Forall (fun e => ltime e < S (clock s)) (log s)) by (eapply bound_mono; [|exact Tb]; lia).
  destruct (ppc q) as [|r cs acc t0|r c t0|r c cur t0|r rp t0|] eqn:Epc.
  - (* Idle *)
    destruct (todo q) as [|[p e d l ch|p e|p] rest]; [discriminate| | |].
    + injection Hs as <-. constructor; simpl; auto.
      * intros j qj r rp t0 t1; other j i; [intros [= <-]; simpl; intros Hin|intros Hj Hin].
        -- specialize (Hown_sent r rp t0 t1 Hin []). now rewrite app_nil_r in Hown_sent.
        -- specialize (Hother_sent j qj r rp t0 t1 ltac:(assumption) Hj Hin []). now rewrite app_nil_r in Hother_sent.
      * intros j qj r rp t0; other j i; [intros [= <-]; discriminate|apply Tp].
      * intros j qj; other j i; [intros [= <-]; simpl; lia|]. intros Hj. specialize (Tst j qj Hj). lia.
    + destruct (lock s) as [h|]; [discriminate|]. injection Hs as <-. constructor; simpl; auto.
      * intros j qj r rp t0 t1; other j i; [intros [= <-]; simpl; intros Hin|intros Hj Hin].
        -- specialize (Hown_sent r rp t0 t1 Hin []). now rewrite app_nil_r in Hown_sent.
        -- specialize (Hother_sent j qj r rp t0 t1 ltac:(assumption) Hj Hin []). now rewrite app_nil_r in Hother_sent.
      * intros j qj r rp t0; other j i; [intros [= <-]; discriminate|apply Tp].
      * intros j qj; other j i; [intros [= <-]; simpl; lia|]. intros Hj. specialize (Tst j qj Hj). lia.
    + (* Get *)
      injection Hs as <-. constructor; simpl.
      * rewrite map_app. simpl. apply sorted_snoc; [assumption|]. rewrite Forall_map. exact Tb.
      * apply Forall_app. split; [assumption|]. constructor; [simpl; lia|constructor].
      * intros j qj r rp t0 t1; other j i; [intros [= <-]; simpl; intros Hin|intros Hj Hin].
        -- apply in_app_or in Hin as [Hin|[[= <- <- <- <-]|[]]].
           ++ apply (Hown_sent r rp t0 t1 Hin).
           ++ repeat split; try lia. intros _. exists (clock s). split; [apply in_or_app; right; now left|lia].
        -- apply (Hother_sent j qj r rp t0 t1 ltac:(assumption) Hj Hin).
      * intros j qj r rp t0; other j i; [intros [= <-]; discriminate|].
        intros Hj Hp. destruct (Tp j qj r rp t0 Hj Hp) as (t & Hl & Ht). exists t. split; [apply in_or_app; now left|assumption].
      * intros j qj; other j i; [intros [= <-]; simpl; lia|]. intros Hj. specialize (Tst j qj Hj). lia.
  - (* Staging *)
    destruct cs as [|c cs].
    + destruct r as [p e d l ch|p e|p]; [|discriminate|discriminate].
      destruct (verified d l acc).
      * destruct (lock s) as [h|]; [discriminate|]. injection Hs as <-. constructor; simpl; auto.
        -- intros j qj r rp t0' t1; other j i; [intros [= <-]; simpl; intros Hin|intros Hj Hin].
           ++ specialize (Hown_sent r rp t0' t1 Hin []). now rewrite app_nil_r in Hown_sent.
           ++ specialize (Hother_sent j qj r rp t0' t1 ltac:(assumption) Hj Hin []). now rewrite app_nil_r in Hother_sent.
        -- intros j qj r rp t0'; other j i; [intros [= <-]; discriminate|apply Tp].
        -- intros j qj; other j i; [intros [= <-]; simpl in *; lia|]. intros Hj. specialize (Tst j qj Hj). lia.
      * injection Hs as <-. constructor; simpl; auto.
        -- intros j qj r rp t0' t1; other j i; [intros [= <-]; simpl; intros Hin|intros Hj Hin].
           ++ apply in_app_or in Hin as [Hin|[[= <- <- <- <-]|[]]].
              ** specialize (Hown_sent r rp t0' t1 Hin []). now rewrite app_nil_r in Hown_sent.
              ** simpl in Tsti. repeat split; try lia. intros Hne; congruence.
           ++ specialize (Hother_sent j qj r rp t0' t1 ltac:(assumption) Hj Hin []). now rewrite app_nil_r in Hother_sent.
        -- intros j qj r rp t0'; other j i; [intros [= <-]; discriminate|apply Tp].
        -- intros j qj; other j i; [intros [= <-]; simpl; lia|]. intros Hj. specialize (Tst j qj Hj). lia.
    + injection Hs as <-. constructor; simpl; auto.
      * intros j qj r' rp t0' t1; other j i; [intros [= <-]; simpl; intros Hin|intros Hj Hin].
        -- specialize (Hown_sent r' rp t0' t1 Hin []). now rewrite app_nil_r in Hown_sent.
        -- specialize (Hother_sent j qj r' rp t0' t1 ltac:(assumption) Hj Hin []). now rewrite app_nil_r in Hother_sent.
      * intros j qj r' rp t0'; other j i; [intros [= <-]; discriminate|apply Tp].
      * intros j qj; other j i; [intros [= <-]; simpl in *; lia|]. intros Hj. specialize (Tst j qj Hj). lia.
  - (* Locked *)
    injection Hs as <-. constructor; simpl; auto.
    + intros j qj r' rp t0' t1; other j i; [intros [= <-]; simpl; intros Hin|intros Hj Hin].
      * specialize (Hown_sent r' rp t0' t1 Hin []). now rewrite app_nil_r in Hown_sent.
      * specialize (Hother_sent j qj r' rp t0' t1 ltac:(assumption) Hj Hin []). now rewrite app_nil_r in Hother_sent.
    + intros j qj r' rp t0'; other j i; [intros [= <-]; discriminate|apply Tp].
    + intros j qj; other j i; [intros [= <-]; simpl in *; lia|]. intros Hj. specialize (Tst j qj Hj). lia.
  - (* ReadCur -> Committed: log grows *)
    destruct (commit (live s) r c cur) as [m' rp] eqn:Em. injection Hs as <-. constructor; simpl.
    + rewrite map_app. simpl. apply sorted_snoc; [assumption|]. rewrite Forall_map. exact Tb.
    + apply Forall_app. split; [assumption|]. constructor; [simpl; lia|constructor].
    + intros j qj r' rp' t0' t1; other j i; [intros [= <-]; simpl; intros Hin|intros Hj Hin].
      * apply (Hown_sent r' rp' t0' t1 Hin).
      * apply (Hother_sent j qj r' rp' t0' t1 ltac:(assumption) Hj Hin).
    + intros j qj r' rp' t0'; other j i.
      * intros [= <-]. simpl. intros [= <- <- <-]. exists (clock s). split; [apply in_or_app; right; now left|]. simpl in Tsti. lia.
      * intros Hj Hp. destruct (Tp j qj r' rp' t0' Hj Hp) as (t & Hl & Ht). exists t. split; [apply in_or_app; now left|assumption].
    + intros j qj; other j i; [intros [= <-]; simpl in *; lia|]. intros Hj. specialize (Tst j qj Hj). lia.
  - (* Committed -> reply *)
    injection Hs as <-. constructor; simpl; auto.
    + intros j qj r' rp' t0' t1; other j i; [intros [= <-]; simpl; intros Hin|intros Hj Hin].
      * apply in_app_or in Hin as [Hin|[[= <- <- <- <-]|[]]].
        -- specialize (Hown_sent r' rp' t0' t1 Hin []). now rewrite app_nil_r in Hown_sent.
        -- destruct (Tp i q r rp t0 Eq Epc) as (t & Hl & Ht).
           rewrite Forall_forall in Tb. pose proof (Tb _ (proj2 (elem_of_list_In _ _) Hl)) as Hlt. simpl in Hlt.
           simpl in Tsti. repeat split; try lia. intros _. exists t. repeat split; auto; lia.
      * specialize (Hother_sent j qj r' rp' t0' t1 ltac:(assumption) Hj Hin []). now rewrite app_nil_r in Hother_sent.
    + intros j qj r' rp' t0'; other j i; [intros [= <-]; discriminate|apply Tp].
    + intros j qj; other j i; [intros [= <-]; simpl; lia|]. intros Hj. specialize (Tst j qj Hj). lia.
  - discriminate.
Qed.

Theorem run_tinv sched : forall s, TInv s -> TInv (run s sched).
Proof. induction sched as [|e rest IH]; intros s Hi; simpl; [assumption|]. apply IH. now apply do_ev_tinv. Qed.

(** non-overlapping logged operations keep their real-time order in the log *)
Theorem realtime_order s : TInv s ->
  forall i qi j qj rA rpA a0 a1 rB rpB b0 b1,
  procs s !! i = Some qi -> procs s !! j = Some qj ->
  In (rA, rpA, a0, a1) (sent qi) -> In (rB, rpB, b0, b1) (sent qj) ->
  rpA <> ErrRes -> rpB <> ErrRes -> a1 < b0 ->
  exists tA tB, In (i, rA, rpA, tA) (log s) /\ In (j, rB, rpB, tB) (log s) /\
                a0 <= tA /\ tA <= a1 /\ b0 <= tB /\ tB <= b1 /\ tA < tB.
Proof. intros [_ _ Tse _ _] i qi j qj rA rpA a0 a1 rB rpB b0 b1 Hi Hj HA HB HnA HnB Hlt.
  destruct (Tse i qi rA rpA a0 a1 Hi HA) as (_ & _ & CA). destruct (CA HnA) as (tA & HlA & ? & ?).
  destruct (Tse j qj rB rpB b0 b1 Hj HB) as (_ & _ & CB). destruct (CB HnB) as (tB & HlB & ? & ?).
  exists tA, tB. repeat split; auto; lia. Qed.

(** ** Consequences about the specification's replay (C03 / C10 corollaries) *)

(** where a content in the replayed map comes from *)
Lemma replay_content m0 l : forall p c, replay m0 l !! p = Some c ->
  (exists p0, m0 !! p0 = Some c) \/
  (exists i q e d len ch rp t, In (i, Put q e d len ch, rp, t) l /\ c = body ch).
Proof. revert m0. induction l as [|[[[i r] rp] t] l IH]; intros m0 p c; simpl; [eauto|].
  intros Hp. apply IH in Hp as [(p0 & Hp0)|(i' & q & e & d & len & ch & rp' & t' & Hin & ->)].
  - destruct r as [q e d len ch|q e|q]; simpl in Hp0.
    + destruct (decide (cur_of m0 q = e)); simpl in Hp0.
      * apply lookup_insert_Some in Hp0 as [[_ <-]|[_ Hp0]]; [right; eauto 12|left; eauto].
      * apply lookup_insert_Some in Hp0 as [[_ <-]|[_ Hp0]]; [right; eauto 12|left; eauto].
    + destruct (decide (cur_of m0 q = e)); simpl in Hp0; [apply lookup_delete_Some in Hp0 as [_ Hp0]|]; left; eauto.
    + left; eauto.
  - right. exists i', q, e, d, len, ch, rp', t'. split; [now right|reflexivity]. Qed.

(** C10: every live content is an initial content or the complete, hash- and
    length-verified content of one single Put. *)
Theorem live_paths_verified m0 s : Inv m0 s -> forall p c, live s !! p = Some c ->
  (exists p0, m0 !! p0 = Some c) \/
  (exists i q e d len ch rp t, In (i, Put q e d len ch, rp, t) (log s) /\ c = body ch /\
                               Hh c = d /\ Z.of_nat (length c) = len).
Proof. intros [_ _ _ _ Ig _ Iv] p c Hp. rewrite Ig in Hp.
  apply replay_content in Hp as [?|(i & q & e & d & len & ch & rp & t & Hin & ->)]; [now left|right].
  assert (Hin' := Hin). exists i, q, e, d, len, ch, rp, t. split; [assumption|]. split; [reflexivity|].
  rewrite Forall_forall in Iv. apply elem_of_list_In in Hin. specialize (Iv _ Hin). simpl in Iv.
  unfold Hub.verified in Iv. apply andb_prop in Iv as [H1 H2].
  apply bool_decide_eq_true in H1, H2. auto. Qed.


(** ** every request the system ever works on comes from the clients' programs *)
Definition allreqs (progs : gmap pid (list req)) (r : req) : Prop :=
  exists i l, progs !! i = Some l /\ In r l.

Definition cur_req (c : @pc K D) : option req :=
  match c with
  | Staging r _ _ _ | Locked r _ _ | ReadCur r _ _ _ | Committed r _ _ => Some r
  | _ => None
  end.

Record RInv (progs : gmap pid (list req)) (s : sys) : Prop := {
  R_todo : forall i q r, procs s !! i = Some q -> In r (todo q) -> allreqs progs r;
  R_cur : forall i q r, procs s !! i = Some q -> cur_req (ppc q) = Some r -> allreqs progs r;
  R_log : Forall (fun e => allreqs progs (snd (fst (fst e)))) (log s)
}.

Lemma rinv_init m0 progs : RInv progs (init_sys m0 progs).
Proof. constructor; simpl.
  - intros i q r Hq. apply lookup_fmap_Some in Hq as (l & <- & Hl). simpl. intros Hin. exists i, l. auto.
  - intros i q r Hq. apply lookup_fmap_Some in Hq as (l & <- & Hl). discriminate.
  - constructor. Qed.

Lemma do_ev_rinv progs s e : RInv progs s -> RInv progs (do_ev s e).
Proof.
  intros [Rt Rc Rl]. destruct e as [i|i]; simpl.
  2:{ unfold kill. destruct (procs s !! i) as [q|] eqn:Eq; [|constructor; auto].
      constructor; simpl; auto.
      - intros j qj r; other j i; [intros [= <-]; simpl; intros []|apply Rt].
      - intros j qj r; other j i; [intros [= <-]; discriminate|apply Rc]. }
  destruct (step s i) as [s'|] eqn:Hs; [|constructor; auto].
  unfold Hub.step in Hs.
  destruct (procs s !! i) as [q|] eqn:Eq; [|discriminate].
  pose proof (Rt i q) as Rti. pose proof (Rc i q) as Rci.
  destruct (ppc q) as [|r cs acc t0|r c t0|r c cur t0|r rp t0|] eqn:Epc.
  - destruct (todo q) as [|[p e d l ch|p e|p] rest] eqn:Et; [discriminate| | |].
    + injection Hs as <-. constructor; simpl; auto.
      * intros j qj r; other j i; [intros [= <-]; simpl; intros Hin; apply (Rti r Eq); now right|apply Rt].
      * intros j qj r; other j i; [intros [= <-]; simpl; intros [= <-]; apply (Rti _ Eq); now left|apply Rc].
    + destruct (lock s); [discriminate|]. injection Hs as <-. constructor; simpl; auto.
      * intros j qj r; other j i; [intros [= <-]; simpl; intros Hin; apply (Rti r Eq); now right|apply Rt].
      * intros j qj r; other j i; [intros [= <-]; simpl; intros [= <-]; apply (Rti _ Eq); now left|apply Rc].
    + injection Hs as <-. constructor; simpl; auto.
      * intros j qj r; other j i; [intros [= <-]; simpl; intros Hin; apply (Rti r Eq); now right|apply Rt].
      * intros j qj r; other j i; [intros [= <-]; discriminate|apply Rc].
      * apply Forall_app. split; [assumption|]. constructor; [|constructor]. simpl. apply (Rti _ Eq). now left.
  - destruct cs as [|c cs].
    + destruct r as [p e d l ch|p e|p]; [|discriminate|discriminate].
      destruct (verified d l acc).
      * destruct (lock s); [discriminate|]. injection Hs as <-. constructor; simpl; auto.
        -- intros j qj r; other j i; [intros [= <-]; simpl; apply (Rti r Eq)|apply Rt].
        -- intros j qj r; other j i; [intros [= <-]; simpl; intros [= <-]; now apply (Rci _ Eq)|apply Rc].
      * injection Hs as <-. constructor; simpl; auto.
        -- intros j qj r; other j i; [intros [= <-]; simpl; apply (Rti r Eq)|apply Rt].
        -- intros j qj r; other j i; [intros [= <-]; discriminate|apply Rc].
    + injection Hs as <-. constructor; simpl; auto.
      * intros j qj r'; other j i; [intros [= <-]; simpl; apply (Rti r' Eq)|apply Rt].
      * intros j qj r'; other j i; [intros [= <-]; simpl; intros [= <-]; now apply (Rci _ Eq)|apply Rc].
  - injection Hs as <-. constructor; simpl; auto.
    + intros j qj r'; other j i; [intros [= <-]; simpl; apply (Rti r' Eq)|apply Rt].
    + intros j qj r'; other j i; [intros [= <-]; simpl; intros [= <-]; now apply (Rci _ Eq)|apply Rc].
  - destruct (commit (live s) r c cur) as [m' rp] eqn:Em. injection Hs as <-. constructor; simpl; auto.
    + intros j qj r'; other j i; [intros [= <-]; simpl; apply (Rti r' Eq)|apply Rt].
    + intros j qj r'; other j i; [intros [= <-]; simpl; intros [= <-]; now apply (Rci _ Eq)|apply Rc].
    + apply Forall_app. split; [assumption|]. constructor; [|constructor]. simpl. now apply (Rci _ Eq).
  - injection Hs as <-. constructor; simpl; auto.
    + intros j qj r'; other j i; [intros [= <-]; simpl; apply (Rti r' Eq)|apply Rt].
    + intros j qj r'; other j i; [intros [= <-]; discriminate|apply Rc].
  - discriminate.
Qed.

(** C10 in closed form: at every instant of every schedule (kills included) each live
    content is an initial content or the complete body of ONE Put of the clients'
    programs whose bytes match its declared hash and length. *)
Definition good_content (m0 : gmap K content) (progs : gmap pid (list req)) (c : content) : Prop :=
  (exists p0, m0 !! p0 = Some c) \/
  (exists q e d len ch, allreqs progs (Put q e d len ch) /\ c = body ch /\ Hh c = d /\ Z.of_nat (length c) = len).

Theorem all_snapshots_verified m0 progs sched : forall s, Inv m0 s -> RInv progs s ->
  Forall (fun m => forall p c, m !! p = Some c -> good_content m0 progs c) (run_trace Hh cname s sched).
Proof. induction sched as [|e rest IH]; intros s Hi Hr; simpl; [constructor|].
  assert (Hi' := do_ev_inv m0 s e Hi). assert (Hr' := do_ev_rinv progs s e Hr).
  constructor; [|now apply IH].
  intros p c Hp. destruct (live_paths_verified m0 _ Hi' p c Hp) as [?|(i & q & e' & d & len & ch & rp & t & Hin & -> & Hd & Hl)]; [now left|right].
  exists q, e', d, len, ch. split; [|auto].
  destruct Hr' as [_ _ Rl]. rewrite Forall_forall in Rl. apply elem_of_list_In in Hin. specialize (Rl _ Hin). exact Rl.
Qed.

(** a path's content only changes by a logged operation that targets it (as its
    path, or as the conflict name of an uncommitted Put) *)
Definition targets (e : pid * req * reply * nat) (p : K) : Prop :=
  match e with
  | (_, Put q _ d _ _, _, _) => p = q \/ p = cname q d
  | (_, Del q _, _, _) => p = q
  | (_, Get _, _, _) => False
  end.

Lemma replay_untouched m0 l p : (forall e, In e l -> ~ targets e p) -> replay m0 l !! p = m0 !! p.
Proof. revert m0. induction l as [|[[[i r] rp] t] l IH]; intros m0 Hn; simpl; [reflexivity|].
  rewrite IH by (intros e He; apply Hn; now right).
  specialize (Hn _ (or_introl eq_refl)). simpl in Hn.
  destruct r as [q e d len ch|q e|q]; simpl.
  - destruct (decide (cur_of m0 q = e)); simpl; rewrite lookup_insert_ne; auto; intros ->; apply Hn; auto.
  - destruct (decide (cur_of m0 q = e)); simpl; [rewrite lookup_delete_ne|]; auto.
  - reflexivity. Qed.

(** semantics of single operations in the specification *)
Lemma spec_put_uncommitted m p e d len ch :
  cur_of m p <> e -> cname p d <> p ->
  fst (spec m (Put p e d len ch)) !! p = m !! p /\
  fst (spec m (Put p e d len ch)) !! cname p d = Some (body ch) /\
  snd (spec m (Put p e d len ch)) = PutRes false (cur_of m p).
Proof. intros Hne Hcn. simpl. destruct (decide (cur_of m p = e)); [contradiction|]. simpl.
  rewrite lookup_insert_ne by auto. rewrite lookup_insert. auto. Qed.

Lemma spec_put_committed m p e d len ch :
  cur_of m p = e ->
  fst (spec m (Put p e d len ch)) !! p = Some (body ch) /\
  snd (spec m (Put p e d len ch)) = PutRes true (Some d).
Proof. intros He. simpl. destruct (decide (cur_of m p = e)); [|contradiction]. simpl.
  rewrite lookup_insert. auto. Qed.

End P.
