(** Invariants of Model/Hub.v: lock discipline, the value read under the lock is
    still current at the commit, live tree = replay of the commit log through the
    CAS-map specification, every logged reply is the specification's reply, every
    logged Put was hash- and length-verified.  All by induction over arbitrary
    schedules (with kills), for any number of processes and any programs. *)
From stdpp Require Import gmap.
From Copia Require Import Model.Hub.

Section P.
Context `{Countable K}.
Context {D : Type} `{EqDecision D}.
Variable Hh : list Z -> D.
Variable cname : K -> D -> K.
Notation pid := nat.
Notation content := (list Z).
Notation req := (@req K D).
Notation reply := (@reply D).
Notation sys := (@sys K _ _ D).
Notation spec := (spec Hh cname).
Notation step := (step Hh cname).
Notation commit := (commit cname).
Notation run := (run Hh cname).
Notation do_ev := (do_ev Hh cname).
Notation cur_of := (cur_of Hh).
Notation verified := (verified Hh).

Fixpoint replay (m : gmap K content) (l : list (pid * req * reply * nat)) : gmap K content :=
  match l with [] => m | (_, r, _, _) :: l' => replay (fst (spec m r)) l' end.
Fixpoint legal (m : gmap K content) (l : list (pid * req * reply * nat)) : Prop :=
  match l with [] => True | (_, r, rp, _) :: l' => snd (spec m r) = rp /\ legal (fst (spec m r)) l' end.

Lemma replay_app m l1 l2 : replay m (l1 ++ l2) = replay (replay m l1) l2.
Proof. revert m; induction l1 as [|[[[? ?] ?] ?] l1 IH]; intros m; simpl; auto. Qed.
Lemma legal_app m l1 l2 : legal m (l1 ++ l2) <-> legal m l1 /\ legal (replay m l1) l2.
Proof. revert m; induction l1 as [|[[[? ?] ?] ?] l1 IH]; intros m; simpl; [tauto|]. rewrite IH. tauto. Qed.

Definition holds_lock (c : @pc K D) : bool :=
  match c with Locked _ _ _ | ReadCur _ _ _ _ | Committed _ _ _ => true | _ => false end.

Definition body_ok (c : @pc K D) : Prop :=
  match c with
  | Staging (Put _ _ _ _ chunks) cs acc _ => body chunks = acc ++ concat cs
  | Staging _ _ _ _ => False
  | Locked (Put _ _ d l chunks) c _ => c = body chunks /\ verified d l c = true
  | ReadCur (Put _ _ d l chunks) c _ _ => c = body chunks /\ verified d l c = true
  | _ => True
  end.

Definition put_verified (e : pid * req * reply * nat) : Prop :=
  match e with
  | (_, Put _ _ d l ch, _, _) => verified d l (body ch) = true
  | _ => True
  end.

Record Inv (m0 : gmap K content) (s : sys) : Prop := {
  I_lock : forall i q, procs s !! i = Some q -> (holds_lock (ppc q) = true <-> lock s = Some i);
  I_lockdom : forall i, lock s = Some i -> is_Some (procs s !! i);
  I_cur : forall i q r c cur t0, procs s !! i = Some q -> ppc q = ReadCur r c cur t0 ->
            cur = cur_of (live s) (path_of r);
  I_body : forall i q, procs s !! i = Some q -> body_ok (ppc q);
  I_log : live s = replay m0 (log s);
  I_legal : legal m0 (log s);
  I_verified : Forall put_verified (log s)
}.

Lemma inv_init m0 progs : Inv m0 (init_sys m0 progs).
Proof. constructor; simpl; auto.
  - intros i q Hq. apply lookup_fmap_Some in Hq as (l & <- & _). simpl. split; discriminate.
  - discriminate.
  - intros i q r c cur t0 Hq. apply lookup_fmap_Some in Hq as (l & <- & _). discriminate.
  - intros i q Hq. apply lookup_fmap_Some in Hq as (l & <- & _). exact I.
Qed.

(** the commit step is the specification step when the value read is current *)
Lemma commit_is_spec m r c :
  match r with Put _ _ _ _ ch => c = body ch | _ => True end ->
  commit m r c (cur_of m (path_of r)) = spec m r.
Proof. destruct r as [p e d l ch|p e|p]; simpl; [intros ->|intros _|intros _]; reflexivity. Qed.

Ltac other j i :=
  destruct (decide (j = i)) as [->|?];
  [rewrite lookup_insert | rewrite lookup_insert_ne by congruence].

Lemma step_inv m0 s i s' : Inv m0 s -> step s i = Some s' -> Inv m0 s'.
Proof.
  intros [Il Id Ic Ib Ig Ile Iv] Hs. unfold Hub.step in Hs.
  destruct (procs s !! i) as [q|] eqn:Eq; [|discriminate].
  pose proof (Il i q Eq) as Ili. pose proof (Ib i q Eq) as Ibi.
  destruct (ppc q) as [|r cs acc t0|r c t0|r c cur t0|r rp t0|] eqn:Epc.
  - (* Idle *)
    destruct (todo q) as [|[p e d l ch|p e|p] rest]; [discriminate| | |].
    + (* Put: open staging *)
      injection Hs as <-. constructor; simpl; auto.
      * intros j qj; other j i; [intros [= <-]; simpl; exact Ili|apply Il].
      * intros j Hj; other j i; eauto.
      * intros j qj r' c' cur' t'; other j i; [intros [= <-]; discriminate|apply Ic].
      * intros j qj; other j i; [intros [= <-]; simpl; reflexivity|apply Ib].
    + (* Del: flock *)
      destruct (lock s) as [h|] eqn:El; [discriminate|]. injection Hs as <-.
      constructor; simpl; auto.
      * intros j qj; other j i; [intros [= <-]; simpl; tauto|].
        intros Hj. specialize (Il j qj Hj). try rewrite El in Il.
        split; [intros Hh'; apply Il in Hh'; discriminate|intros [= ->]; congruence].
      * intros j [= <-]. rewrite lookup_insert. eauto.
      * intros j qj r' c' cur' t'; other j i; [intros [= <-]; discriminate|apply Ic].
      * intros j qj; other j i; [intros [= <-]; exact I|apply Ib].
    + (* Get: open + reply, logged *)
      injection Hs as <-. constructor; simpl; auto.
      * intros j qj; other j i; [intros [= <-]; simpl; exact Ili|apply Il].
      * intros j Hj; other j i; eauto.
      * intros j qj r' c' cur' t'; other j i; [intros [= <-]; discriminate|apply Ic].
      * intros j qj; other j i; [intros [= <-]; exact I|apply Ib].
      * rewrite replay_app, <- Ig. reflexivity.
      * apply legal_app. split; [assumption|]. rewrite <- Ig. simpl. auto.
      * apply Forall_app. split; [assumption|]. repeat constructor.
  - (* Staging *)
    destruct cs as [|c cs].
    + destruct r as [p e d l ch|p e|p]; [|discriminate|discriminate].
      destruct (verified d l acc) eqn:Ev.
      * (* flock *)
        destruct (lock s) as [h|] eqn:El; [discriminate|]. injection Hs as <-.
        simpl in Ibi. rewrite app_nil_r in Ibi.
        constructor; simpl; auto.
        -- intros j qj; other j i; [intros [= <-]; simpl; tauto|].
           intros Hj. specialize (Il j qj Hj). try rewrite El in Il.
           split; [intros Hh'; apply Il in Hh'; discriminate|intros [= ->]; congruence].
        -- intros j [= <-]. rewrite lookup_insert. eauto.
        -- intros j qj r' c' cur' t'; other j i; [intros [= <-]; discriminate|apply Ic].
        -- intros j qj; other j i; [intros [= <-]; simpl; split; [congruence|assumption]|apply Ib].
      * (* reject *)
        injection Hs as <-. constructor; simpl; auto.
        -- intros j qj; other j i; [intros [= <-]; simpl; exact Ili|apply Il].
        -- intros j Hj; other j i; eauto.
        -- intros j qj r' c' cur' t'; other j i; [intros [= <-]; discriminate|apply Ic].
        -- intros j qj; other j i; [intros [= <-]; exact I|apply Ib].
    + (* write a chunk *)
      injection Hs as <-. constructor; simpl; auto.
      * intros j qj; other j i; [intros [= <-]; simpl; exact Ili|apply Il].
      * intros j Hj; other j i; eauto.
      * intros j qj r' c' cur' t'; other j i; [intros [= <-]; discriminate|apply Ic].
      * intros j qj; other j i; [intros [= <-]; simpl|apply Ib].
        destruct r as [p e d l ch|p e|p]; simpl in Ibi |- *; try contradiction.
        rewrite Ibi. simpl. now rewrite app_assoc.
  - (* Locked -> ReadCur *)
    injection Hs as <-. constructor; simpl; auto.
    + intros j qj; other j i; [intros [= <-]; simpl; exact Ili|apply Il].
    + intros j Hj; other j i; eauto.
    + intros j qj r' c' cur' t'; other j i; [intros [= <-]; simpl; intros [= <- <- <- <-]; reflexivity|apply Ic].
    + intros j qj; other j i; [intros [= <-]; simpl; destruct r; exact Ibi|apply Ib].
  - (* ReadCur -> Committed: the linearization point *)
    assert (Hcur : cur = cur_of (live s) (path_of r)) by (eapply Ic; eauto).
    assert (Hl : lock s = Some i) by (apply Ili; reflexivity).
    destruct (commit (live s) r c cur) as [m' rp] eqn:Em. injection Hs as <-.
    assert (Hspec : spec (live s) r = (m', rp)).
    { rewrite <- Em, Hcur. symmetry. apply commit_is_spec.
      destruct r as [p e d l ch|p e|p]; simpl in Ibi; tauto. }
    constructor; simpl.
    + intros j qj; other j i; [intros [= <-]; simpl; tauto|apply Il].
    + intros j Hj; other j i; eauto.
    + intros j qj r' c' cur' t'; other j i; [intros [= <-]; discriminate|].
      intros Hj Hp. exfalso.
      assert (lock s = Some j) by (apply (Il j qj Hj); rewrite Hp; reflexivity). congruence.
    + intros j qj; other j i; [intros [= <-]; exact I|apply Ib].
    + rewrite replay_app, <- Ig. simpl. now rewrite Hspec.
    + apply legal_app. split; [assumption|]. rewrite <- Ig. simpl. rewrite Hspec. simpl. auto.
    + apply Forall_app. split; [assumption|]. constructor; [|constructor].
      destruct r as [p e d l ch|p e|p]; simpl in Ibi |- *; auto. destruct Ibi as [-> Hv]. exact Hv.
  - (* Committed -> unlock, reply *)
    assert (Hl : lock s = Some i) by (apply Ili; reflexivity).
    injection Hs as <-. constructor; simpl; auto.
    + intros j qj; other j i; [intros [= <-]; simpl; split; discriminate|].
      intros Hj. specialize (Il j qj Hj). try rewrite Hl in Il.
      split; [intros Hh'; apply Il in Hh'; congruence|discriminate].
    + discriminate.
    + intros j qj r' c' cur' t'; other j i; [intros [= <-]; discriminate|].
      intros Hj Hp. exfalso.
      assert (lock s = Some j) by (apply (Il j qj Hj); rewrite Hp; reflexivity). congruence.
    + intros j qj; other j i; [intros [= <-]; exact I|apply Ib].
  - discriminate.
Qed.

Lemma kill_inv m0 s i : Inv m0 s -> Inv m0 (kill s i).
Proof.
  intros [Il Id Ic Ib Ig Ile Iv]. unfold kill.
  destruct (procs s !! i) as [q|] eqn:Eq; [|constructor; auto].
  constructor; simpl; auto.
  - intros j qj; other j i.
    + intros [= <-]. simpl. split; [discriminate|].
      destruct (lock s) as [h|]; [|discriminate]. destruct (decide (h = i)); [discriminate|congruence].
    + intros Hj. specialize (Il j qj Hj).
      destruct (lock s) as [h|] eqn:El; [|exact Il].
      destruct (decide (h = i)) as [->|Hh'].
      * split; [intros Hx; apply Il in Hx; congruence|discriminate].
      * exact Il.
  - intros j Hj. destruct (lock s) as [h|] eqn:El; [|discriminate].
    destruct (decide (h = i)) as [->|Hh']; [discriminate|]. injection Hj as <-.
    rewrite lookup_insert_ne by congruence. apply Id. reflexivity.
  - intros j qj r c cur t0; other j i; [intros [= <-]; discriminate|apply Ic].
  - intros j qj; other j i; [intros [= <-]; exact I|apply Ib].
Qed.

Lemma tick_inv m0 s : Inv m0 s -> Inv m0 (tick s).
Proof. intros [Il Id Ic Ib Ig Ile Iv]. constructor; simpl; auto. Qed.

Lemma do_ev_inv m0 s e : Inv m0 s -> Inv m0 (do_ev s e).
Proof. intros Hi. destruct e as [i|i]; simpl.
  - destruct (step s i) eqn:E; apply tick_inv; [eapply step_inv; eauto|assumption].
  - apply tick_inv. now apply kill_inv. Qed.

Theorem run_inv m0 sched : forall s, Inv m0 s -> Inv m0 (run s sched).
Proof. induction sched as [|e rest IH]; intros s Hi; simpl; [assumption|]. apply IH. now apply do_ev_inv. Qed.

(** every snapshot of the run satisfies the invariant too *)
Theorem run_trace_inv m0 sched : forall s, Inv m0 s ->
  Forall (fun m => exists s', Inv m0 s' /\ live s' = m) (run_trace Hh cname s sched).
Proof. induction sched as [|e rest IH]; intros s Hi; simpl; [constructor|].
  constructor; [exists (do_ev s e); split; [now apply do_ev_inv|reflexivity]|]. apply IH. now apply do_ev_inv. Qed.

(** ** Consequences about the specification's replay (C03 / C10 corollaries) *)

(** where a content in the replayed map comes from *)
Lemma replay_content m0 l : forall p c, replay m0 l !! p = Some c ->
  (exists p0, m0 !! p0 = Some c) \/
  (exists i q e d len ch rp t, In (i, Put q e d len ch, rp, t) l /\ c = body ch).
Proof. revert m0. induction l as [|[[[i r] rp] t] l IH]; intros m0 p c; simpl; [eauto|].
  intros Hp. apply IH in Hp as [(p0 & Hp0)|(i' & q & e & d & len & ch & rp' & t' & Hin & ->)].
  - destruct r as [q e d len ch|q e|q]; simpl in Hp0.
    + destruct (decide (cur_of m0 q = e)); simpl in Hp0.
      * apply lookup_insert_Some in Hp0 as [[_ <-]|[_ Hp0]]; [right; eauto 12|left; eauto].
      * apply lookup_insert_Some in Hp0 as [[_ <-]|[_ Hp0]]; [right; eauto 12|left; eauto].
    + destruct (decide (cur_of m0 q = e)); simpl in Hp0; [apply lookup_delete_Some in Hp0 as [_ Hp0]|]; left; eauto.
    + left; eauto.
  - right. exists i', q, e, d, len, ch, rp', t'. split; [now right|reflexivity]. Qed.

(** C10: every live content is an initial content or the complete, hash- and
    length-verified content of one single Put. *)
Theorem live_paths_verified m0 s : Inv m0 s -> forall p c, live s !! p = Some c ->
  (exists p0, m0 !! p0 = Some c) \/
  (exists i q e d len ch rp t, In (i, Put q e d len ch, rp, t) (log s) /\ c = body ch /\
                               Hh c = d /\ Z.of_nat (length c) = len).
Proof. intros [_ _ _ _ Ig _ Iv] p c Hp. rewrite Ig in Hp.
  apply replay_content in Hp as [?|(i & q & e & d & len & ch & rp & t & Hin & ->)]; [now left|right].
  assert (Hin' := Hin). exists i, q, e, d, len, ch, rp, t. split; [assumption|]. split; [reflexivity|].
  rewrite Forall_forall in Iv. apply elem_of_list_In in Hin. specialize (Iv _ Hin). simpl in Iv.
  unfold Hub.verified in Iv. apply andb_prop in Iv as [H1 H2].
  apply bool_decide_eq_true in H1, H2. auto. Qed.

(** a path's content only changes by a logged operation that targets it (as its
    path, or as the conflict name of an uncommitted Put) *)
Definition targets (e : pid * req * reply * nat) (p : K) : Prop :=
  match e with
  | (_, Put q _ d _ _, _, _) => p = q \/ p = cname q d
  | (_, Del q _, _, _) => p = q
  | (_, Get _, _, _) => False
  end.

Lemma replay_untouched m0 l p : (forall e, In e l -> ~ targets e p) -> replay m0 l !! p = m0 !! p.
Proof. revert m0. induction l as [|[[[i r] rp] t] l IH]; intros m0 Hn; simpl; [reflexivity|].
  rewrite IH by (intros e He; apply Hn; now right).
  specialize (Hn _ (or_introl eq_refl)). simpl in Hn.
  destruct r as [q e d len ch|q e|q]; simpl.
  - destruct (decide (cur_of m0 q = e)); simpl; rewrite lookup_insert_ne; auto; intros ->; apply Hn; auto.
  - destruct (decide (cur_of m0 q = e)); simpl; [rewrite lookup_delete_ne|]; auto.
  - reflexivity. Qed.

(** semantics of single operations in the specification *)
Lemma spec_put_uncommitted m p e d len ch :
  cur_of m p <> e -> cname p d <> p ->
  fst (spec m (Put p e d len ch)) !! p = m !! p /\
  fst (spec m (Put p e d len ch)) !! cname p d = Some (body ch) /\
  snd (spec m (Put p e d len ch)) = PutRes false (cur_of m p).
Proof. intros Hne Hcn. simpl. destruct (decide (cur_of m p = e)); [contradiction|]. simpl.
  rewrite lookup_insert_ne by auto. rewrite lookup_insert. auto. Qed.

Lemma spec_put_committed m p e d len ch :
  cur_of m p = e ->
  fst (spec m (Put p e d len ch)) !! p = Some (body ch) /\
  snd (spec m (Put p e d len ch)) = PutRes true (Some d).
Proof. intros He. simpl. destruct (decide (cur_of m p = e)); [|contradiction]. simpl.
  rewrite lookup_insert. auto. Qed.

End P.
