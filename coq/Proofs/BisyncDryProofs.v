(** `bisync --dry-run` (Model/Bisync.v [bisync_dry]): the state is returned
    unchanged and the printed plan is the plan the real run executes from the
    same state.  (C15; both by unfolding.) *)
From stdpp Require Import gmap sorting.
From Copia Require Import Model.Bisync.

Section BisyncDry.
Context `{Countable K}.
Context {D : Type} `{EqDecision D}.
Variable Hh : list Z -> D.
Variable dge : D -> D -> bool.
Variable cname : K -> D -> K.
Variable kle : K -> K -> bool.

Lemma bisync_dry_identity_lemma (s : state) : fst (bisync_dry Hh kle s) = s.
Proof. reflexivity. Qed.

Lemma bisync_dry_prints_real_plan_lemma (s : state) :
  snd (bisync_dry Hh kle s) = snd (bisync_run Hh dge cname kle s).
Proof. unfold bisync_dry, bisync_run. cbn [snd]. destruct (wErr _); reflexivity. Qed.

(** the plan is a function of the two scans and the archive only *)
Lemma bisync_dry_plan (s : state) :
  snd (bisync_dry Hh kle s) = plan kle (scan Hh (tA s)) (scan Hh (tB s)) (arch s).
Proof. reflexivity. Qed.
End BisyncDry.
