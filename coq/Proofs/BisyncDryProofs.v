(** `bisync --dry-run` (Model/Bisync.v [bisync_dry]): the state is returned
    unchanged and the printed plan is the plan the real run executes from the
    same state.  (C15; both by unfolding.) *)
From stdpp Require Import gmap sorting.
From Copia Require Import Model.Bisync.

Section BisyncDry.
Context `{Countable K}.
Context {D : Type} `{EqDecision D}.
Variable Hh : list Z -> D.
Variable dge : D -> D -> bool.
Variable cname : K -> D -> K.
Variable kle : K -> K -> bool.

Lemma bisync_dry_identity_lemma (s : state) : fst (bisync_dry Hh kle s) = s.
Proof. reflexivity. Qed.

Lemma bisync_dry_prints_real_plan_lemma (s : state) :
  snd (bisync_dry Hh kle s) = snd (bisync_run Hh dge cname kle s).
Proof. unfold bisync_dry, bisync_run. cbn [snd]. destruct (wErr _); reflexivity. Qed.

(** the plan is a function of the two scans and the archive only *)
Lemma bisync_dry_plan (s : state) :
  snd (bisync_dry Hh kle s) = plan kle (scan Hh (tA s)) (scan Hh (tB s)) (arch s).
Proof. reflexivity. Qed.
End BisyncDry.

(** Non-vacuity (used by Props/C15.v): a state whose plan has two actions; the dry
    run prints them and changes nothing, the real run applies them. *)
Example bisync_dry_nonvacuous :
  let Hh := fun c : list Z => c in
  let dge := fun _ _ : list Z => true in
  let cname := fun (p : nat) (_ : list Z) => (100 + p)%nat in
  let s : @state nat _ _ (list Z) :=
    {| tA := {[ 1%nat := [7]%Z ]}; tB := {[ 2%nat := [8]%Z ]}; arch := None |} in
  bisync_dry Hh Nat.leb s = (s, [(1%nat, PropAB); (2%nat, PropBA)]) /\
  snd (bisync_run Hh dge cname Nat.leb s) = [(1%nat, PropAB); (2%nat, PropBA)] /\
  tB (fst (fst (bisync_run Hh dge cname Nat.leb s))) !! 1%nat = Some [7]%Z.
Proof. vm_compute. repeat split. Qed.
