(** Proofs about Model/OneWaySteps.v: an invariant of the unfolded deliveries that
    holds after EVERY schedule (so after every crash prefix), and after the remote
    commands of a killed push have run to completion. *)
From Coq Require Import ZArith List Bool Lia.
From Copia Require Import Model.OneWaySteps.
Import ListNotations.
Local Open Scope Z_scope.

Lemma set_nth_length {A} (x : A) l : forall n, length (set_nth n x l) = length l.
Proof. induction l as [|y r IH]; intros [|n]; cbn [set_nth length]; auto. Qed.
Lemma set_nth_same {A} (x : A) l : forall n, (n < length l)%nat -> nth_error (set_nth n x l) n = Some x.
Proof. induction l as [|y r IH]; intros [|n] H; cbn [set_nth nth_error length] in *; try lia; auto.
  apply IH. lia. Qed.
Lemma set_nth_other {A} (x : A) l : forall n m, n <> m -> nth_error (set_nth n x l) m = nth_error l m.
Proof. induction l as [|y r IH]; intros [|n] [|m] H; cbn [set_nth nth_error]; auto; try congruence. Qed.

Lemma nth_error_lt {A} (l : list A) i x : nth_error l i = Some x -> (i < length l)%nat.
Proof. intros H. apply nth_error_Some. congruence. Qed.

Section StepsProofs.
Variable K : Type.
Variable keqb : K -> K -> bool.
Hypothesis keqb_eq : forall x y, keqb x y = true <-> x = y.

Notation delivery := (delivery K).
Notation sys := (sys K).
Notation dst_t := (dst_t K).
Notation step := (step K keqb).
Notation run := (run K keqb).
Notation init := (init K).
Notation upd := (upd K keqb).
Notation remote_finish := (remote_finish K keqb).
Notation d_path := (d_path K).
Notation d_bytes := (d_bytes K).
Notation d_mtime := (d_mtime K).
Notation d_chunks := (d_chunks K).
Notation s_dst := (s_dst K).
Notation s_pcs := (s_pcs K).
Notation s_now := (s_now K).

(** the deliveries of one run have pairwise different destination paths *)
Definition distinct_paths (ds : list delivery) : Prop :=
  forall i j di dj, nth_error ds i = Some di -> nth_error ds j = Some dj -> i <> j -> d_path di <> d_path dj.

Lemma keqb_refl x : keqb x x = true.
Proof. now apply keqb_eq. Qed.
Lemma keqb_neq x y : x <> y -> keqb x y = false.
Proof. intros H. destruct (keqb x y) eqn:E; [|reflexivity]. apply keqb_eq in E. contradiction. Qed.

Lemma upd_same f k v : upd f k v k = v.
Proof. unfold OneWaySteps.upd. now rewrite keqb_refl. Qed.
Lemma upd_other f k v x : x <> k -> upd f k v x = f x.
Proof. intros H. unfold OneWaySteps.upd. now rewrite keqb_neq. Qed.

Section Inv.
Variable ds : list delivery.
Variable dst : dst_t.
Variable now : Z.
Hypothesis Hdist : distinct_paths ds.

Definition pc_ok (cur : dst_t) (d : delivery) (pc : dpc) : Prop :=
  match pc with
  | NotStarted => cur (d_path d) = dst (d_path d)
  | Staging todo acc => cur (d_path d) = dst (d_path d) /\ d_bytes d = acc ++ concat todo
  | Renamed => cur (d_path d) = Some (d_bytes d, now)
  | Finished => cur (d_path d) = Some (d_bytes d, d_mtime d)
  end.

Record Inv (s : sys) : Prop := {
  I_now : s_now s = now;
  I_len : length (s_pcs s) = length ds;
  I_pcs : forall i d pc, nth_error ds i = Some d -> nth_error (s_pcs s) i = Some pc -> pc_ok (s_dst s) d pc;
  I_other : forall p, (forall d, In d ds -> d_path d <> p) -> s_dst s p = dst p
}.

Lemma inv_init : Inv (init dst ds now).
Proof. constructor; cbn.
  - reflexivity.
  - apply map_length.
  - intros i d pc _ H. rewrite nth_error_map in H. destruct (nth_error ds i); inversion H. reflexivity.
  - reflexivity. Qed.

Lemma pc_ok_other cur d pc k v : d_path d <> k -> pc_ok cur d pc -> pc_ok (upd cur k v) d pc.
Proof. intros H. unfold pc_ok. destruct pc; rewrite upd_other by exact H; auto. Qed.

(** one update of delivery [i]: its program counter becomes [pc'], and optionally
    its destination path gets a new entry *)
Lemma inv_update s i d pc' (newv : option (option (list Z * Z))) :
  Inv s -> nth_error ds i = Some d -> (i < length (s_pcs s))%nat ->
  let cur' := match newv with Some v => upd (s_dst s) (d_path d) v | None => s_dst s end in
  pc_ok cur' d pc' ->
  Inv {| OneWaySteps.s_dst := cur'; OneWaySteps.s_pcs := set_nth i pc' (s_pcs s); OneWaySteps.s_now := s_now s |}.
Proof. intros [Hn Hl Hp Ho] Hd Hi cur' Hok. constructor; cbn.
  - exact Hn.
  - now rewrite set_nth_length.
  - intros j dj pc Hdj Hpc. destruct (Nat.eq_dec i j) as [<-|Hij].
    + rewrite set_nth_same in Hpc by exact Hi. inversion Hpc; subst pc. rewrite Hd in Hdj. inversion Hdj; subst dj. exact Hok.
    + rewrite set_nth_other in Hpc by exact Hij. specialize (Hp j dj pc Hdj Hpc).
      subst cur'. destruct newv as [v|]; [|exact Hp]. apply pc_ok_other; [|exact Hp].
      apply (Hdist j i dj d Hdj Hd). auto.
  - intros p Hnp. subst cur'. destruct newv as [v|]; [|now apply Ho].
    rewrite upd_other; [now apply Ho|]. intros E. apply (Hnp d); [|symmetry; exact E]. eapply nth_error_In; eauto. Qed.

Lemma inv_step s i : Inv s -> Inv (step ds s i).
Proof. intros HI. unfold OneWaySteps.step.
  destruct (nth_error ds i) as [d|] eqn:Ed; [|exact HI].
  destruct (nth_error (s_pcs s) i) as [pc|] eqn:Epc; [|exact HI].
  pose proof (nth_error_lt _ _ _ Epc) as Hi.
  pose proof (I_pcs s HI i d pc Ed Epc) as Hok.
  destruct pc as [|todo acc| |].
  - apply (inv_update s i d (Staging (d_chunks d) []) None HI Ed Hi). cbn in *. auto.
  - destruct todo as [|c cs].
    + apply (inv_update s i d Renamed (Some (Some (acc, s_now s))) HI Ed Hi).
      cbn in *. rewrite upd_same. destruct Hok as [_ ->]. now rewrite app_nil_r, (I_now _ HI).
    + apply (inv_update s i d (Staging cs (acc ++ c)) None HI Ed Hi). cbn in *.
      destruct Hok as [H1 ->]. split; [exact H1|]. now rewrite <- app_assoc.
  - apply (inv_update s i d Finished (Some (Some (d_bytes d, d_mtime d))) HI Ed Hi). cbn. now rewrite upd_same.
  - exact HI. Qed.

Lemma inv_run sched : forall s, Inv s -> Inv (run ds s sched).
Proof. unfold OneWaySteps.run. induction sched as [|i r IH]; intros s HI; cbn [fold_left]; [exact HI|].
  apply IH. now apply inv_step. Qed.

(** the remote command of delivery [i] finishing on what arrived *)
Definition finish_one (s' : sys) (i : nat) : sys :=
  match nth_error ds i, nth_error (s_pcs s') i with
  | Some d, Some (Staging _ acc) =>
      if Z.of_nat (length acc) =? Z.of_nat (length (d_bytes d))
      then {| OneWaySteps.s_dst := upd (s_dst s') (d_path d) (Some (acc, s_now s'));
              OneWaySteps.s_pcs := set_nth i Renamed (s_pcs s'); OneWaySteps.s_now := s_now s' |}
      else s'
  | _, _ => s'
  end.

Lemma inv_finish_one s i : Inv s -> Inv (finish_one s i).
Proof. intros HI. unfold finish_one.
  destruct (nth_error ds i) as [d|] eqn:Ed; [|exact HI].
  destruct (nth_error (s_pcs s) i) as [pc|] eqn:Epc; [|exact HI].
  destruct pc as [|todo acc| |]; try exact HI.
  destruct (Z.of_nat (length acc) =? Z.of_nat (length (d_bytes d))) eqn:E; [|exact HI].
  pose proof (nth_error_lt _ _ _ Epc) as Hi.
  pose proof (I_pcs s HI i d _ Ed Epc) as [_ Hb].
  apply Z.eqb_eq, Nat2Z.inj in E.
  assert (Hacc : acc = d_bytes d).
  { rewrite Hb in E. rewrite app_length in E. assert (L0 : length (concat todo) = 0%nat) by lia.
    apply length_zero_iff_nil in L0. now rewrite Hb, L0, app_nil_r. }
  apply (inv_update s i d Renamed (Some (Some (acc, s_now s))) HI Ed Hi). cbn.
  now rewrite upd_same, Hacc, (I_now s HI). Qed.

Lemma inv_remote_finish s : Inv s -> Inv (remote_finish ds s).
Proof. unfold OneWaySteps.remote_finish. fold finish_one.
  generalize (seq 0 (length ds)). intros l. revert s. induction l as [|i r IH]; intros s HI; cbn [fold_left]; [exact HI|].
  apply IH. now apply inv_finish_one. Qed.

(** what the invariant says about every path *)
Lemma inv_paths s : Inv s ->
  (forall p, s_dst s p = dst p \/
     exists d, In d ds /\ d_path d = p /\
       (s_dst s p = Some (d_bytes d, now) \/ s_dst s p = Some (d_bytes d, d_mtime d))) /\
  (forall p, (forall d, In d ds -> d_path d <> p) -> s_dst s p = dst p) /\
  (forall i d todo acc, nth_error ds i = Some d -> nth_error (s_pcs s) i = Some (Staging todo acc) ->
     exists rest, d_bytes d = acc ++ rest).
Proof. intros HI. split; [|split].
  - intros p. destruct (find (fun d => keqb (d_path d) p) ds) as [d|] eqn:Ef.
    + apply find_some in Ef as [Hin Hk]. apply keqb_eq in Hk.
      apply In_nth_error in Hin as Hn. destruct Hn as [i Hi].
      assert (Hl : (i < length (s_pcs s))%nat). { rewrite (I_len s HI). eapply nth_error_lt; eauto. }
      destruct (nth_error (s_pcs s) i) as [pc|] eqn:Epc; [|apply nth_error_None in Epc; lia].
      pose proof (I_pcs s HI i d pc Hi Epc) as Hok. subst p.
      destruct pc as [|todo acc| |]; cbn in Hok.
      * left. exact Hok.
      * left. apply Hok.
      * right. exists d. auto.
      * right. exists d. auto.
    + left. apply (I_other s HI). intros d Hd Hp.
      pose proof (find_none _ _ Ef d Hd) as Hk. cbn in Hk. rewrite <- Hp, keqb_refl in Hk. discriminate.
  - exact (I_other s HI).
  - intros i d todo acc Hd Hpc. destruct (I_pcs s HI i d _ Hd Hpc) as [_ Hb]. eauto. Qed.
End Inv.

Lemma crash_atomic_lemma ds dst now sched : distinct_paths ds ->
  let s := run ds (init dst ds now) sched in
  (forall p, s_dst s p = dst p \/
     exists d, In d ds /\ d_path d = p /\
       (s_dst s p = Some (d_bytes d, now) \/ s_dst s p = Some (d_bytes d, d_mtime d))) /\
  (forall p, (forall d, In d ds -> d_path d <> p) -> s_dst s p = dst p) /\
  (forall i d todo acc, nth_error ds i = Some d -> nth_error (s_pcs s) i = Some (Staging todo acc) ->
     exists rest, d_bytes d = acc ++ rest).
Proof. intros Hd s. apply (inv_paths ds dst now). apply inv_run; [exact Hd|]. apply inv_init. Qed.

Lemma crash_atomic_push_lemma ds dst now sched : distinct_paths ds ->
  let s := remote_finish ds (run ds (init dst ds now) sched) in
  (forall p, s_dst s p = dst p \/
     exists d, In d ds /\ d_path d = p /\
       (s_dst s p = Some (d_bytes d, now) \/ s_dst s p = Some (d_bytes d, d_mtime d))) /\
  (forall p, (forall d, In d ds -> d_path d <> p) -> s_dst s p = dst p) /\
  (forall i d todo acc, nth_error ds i = Some d -> nth_error (s_pcs s) i = Some (Staging todo acc) ->
     exists rest, d_bytes d = acc ++ rest).
Proof. intros Hd s. apply (inv_paths ds dst now). apply inv_remote_finish; [exact Hd|].
  apply inv_run; [exact Hd|]. apply inv_init. Qed.

End StepsProofs.
