(** The model of reconcile.rs IS the translation of the current source.

    Gen/ReconcileGen.v is regenerated from /repo's Rust source on every run by tools/gen_logic.py (construct by construct:
    match, if, let, early return, loops as LoopLib combinators).  Every lemma below states that a generated function
    equals, on ALL inputs, the function of the hand-written model about which the property theorems are proved.
    They are proved by case analysis / induction: when the source changes, the generated term changes and the
    lemma is re-checked against it. *)
From Coq Require Import ZArith List Bool Arith Lia.
From Copia Require Import Gen.Constants Model.LoopLib Model.Path Model.Reconcile Gen.ReconcileGen.
Import ListNotations.
Open Scope Z_scope.

(** ** reconcile.rs *)
Section WithDigest.
Variable digest : Type.
Variable deq : forall x y : digest, {x = y} + {x <> y}.

Lemma tie_same a b : g_same digest deq a b = same digest deq a b.
Proof. reflexivity. Qed.

Lemma tie_reconcile_path a b base :
  g_reconcile_path digest deq a b base = reconcile_path digest deq a b base.
Proof.
  unfold g_reconcile_path, reconcile_path.
  destruct a as [av|], b as [bv|], base as [z|]; try reflexivity;
    rewrite ?tie_same;
    repeat match goal with |- context [same digest deq ?x ?y] => destruct (same digest deq x y) end;
    reflexivity.
Qed.


(** ** reconcile (whole trees): the `for` loop that pushes onto `out` is [reconcile_over] *)
Section Trees.
Variable K : Type.
Variable cmp : K -> K -> comparison.

Lemma action_eqb_noop act : action_eqb act Noop = is_noop act.
Proof. destruct act as [| | | | | |k]; try reflexivity. destruct k; reflexivity. Qed.

Lemma tie_reconcile a b base trust :
  g_reconcile digest deq K cmp a b base trust = reconcile digest deq K cmp a b base trust.
Proof.
  unfold g_reconcile, reconcile, union_keys. cbv zeta.
  match goal with |- context [for_loop ?ps ?bd ?ac] => set (body := bd); set (paths := ps) end.
  assert (Hloop : forall l acc, for_loop l body acc = inl (acc ++ reconcile_over digest deq K cmp l a b base trust)).
  { induction l as [|p l IH]; intros acc; cbn [for_loop reconcile_over].
    - rewrite app_nil_r. reflexivity.
    - unfold body at 1. rewrite tie_reconcile_path, action_eqb_noop.
      destruct (is_noop _); cbn [negb]; rewrite IH; [reflexivity|].
      rewrite <- app_assoc. reflexivity. }
  rewrite Hloop. reflexivity.
Qed.
End Trees.
End WithDigest.

Definition reconcile_model_is_translation : Prop :=
  forall (digest : Type) (deq : forall x y : digest, {x = y} + {x <> y}),
    (forall a b base : option (fingerprint digest), g_reconcile_path digest deq a b base = reconcile_path digest deq a b base) /\
    (forall (K : Type) (cmp : K -> K -> comparison) (a b base : list (K * fingerprint digest)) (trust_base : bool),
       g_reconcile digest deq K cmp a b base trust_base = reconcile digest deq K cmp a b base trust_base).
Lemma reconcile_model_is_translation_holds : reconcile_model_is_translation.
Proof. intros digest deq. split; [intros a b base; apply tie_reconcile_path|intros K cmp a b base trust; apply tie_reconcile]. Qed.
