(** The model of reconcile.rs IS the translation of the current source.

    Gen/ReconcileGen.v is regenerated from /repo's Rust source on every run by tools/gen_logic.py (construct by construct:
    match, if, let, early return, loops as LoopLib combinators).  Every lemma below states that a generated function
    equals, on ALL inputs, the function of the hand-written model about which the property theorems are proved.
    They are proved by case analysis / induction: when the source changes, the generated term changes and the
    lemma is re-checked against it. *)
From Coq Require Import ZArith List Bool Arith Lia.
From Copia Require Import Gen.Constants Model.LoopLib Model.Path Model.Reconcile Gen.ReconcileGen.
Import ListNotations.
Open Scope Z_scope.

(** ** reconcile.rs *)
Section WithDigest.
Variable digest : Type.
Variable deq : forall x y : digest, {x = y} + {x <> y}.

Lemma tie_same a b : g_same digest deq a b = same digest deq a b.
Proof. reflexivity. Qed.

Lemma tie_reconcile_path a b base :
  g_reconcile_path digest deq a b base = reconcile_path digest deq a b base.
Proof.
  unfold g_reconcile_path, reconcile_path.
  destruct a as [av|], b as [bv|], base as [z|]; try reflexivity;
    rewrite ?tie_same;
    repeat match goal with |- context [same digest deq ?x ?y] => destruct (same digest deq x y) end;
    reflexivity.
Qed.

End WithDigest.

Definition reconcile_model_is_translation : Prop :=
  forall (digest : Type) (deq : forall x y : digest, {x = y} + {x <> y}) (a b base : option (fingerprint digest)),
    g_reconcile_path digest deq a b base = reconcile_path digest deq a b base.
Lemma reconcile_model_is_translation_holds : reconcile_model_is_translation.
Proof. intros digest deq a b base. apply tie_reconcile_path. Qed.
