(** The dispatch of the hub's read loop IS the translated source of serve.rs `serve`.

    Gen/ServeLoopGen.v (regenerated on every run) is `serve` read as the ordered list of what it does: create the served
    directory and its `.copia` control directory, test the prologue, and - only when it is the magic - for every decoded
    request until `Bye` or the end of the stream: Hello -> a Hello reply with the server's version; List -> the reviewed
    listing block; Get / Put / Delete -> `handle_get` / `handle_put` / `handle_delete` with the request's own fields
    (the handlers are tied to Model/HubSeq.v [seq_handle] by Proofs/TieHubDelete.v).  Nothing but the two mkdirs
    happens before the prologue is accepted, and nothing after `Bye`. *)
From stdpp Require Import gmap.
From Copia Require Import Gen.Constants Model.LoopLib Model.Hub Model.SafeJoin Model.HubSeq Gen.ServeLoopGen.

Section Tie.
Context {D : Type}.
Notation sreq := (@HubSeq.sreq D).
Notation veff := (@ServeLoopGen.veff D).

Definition eff_of (r : sreq) : veff :=
  match r with
  | SHello _ => VReply (RHelloV VERSION)
  | SList => VList
  | SGet p => VGet p
  | SPut p e len h => VPut p e len h
  | SDel p e => VDelete p e
  | SBye => VList (* never used: the loop ends at Bye *)
  end.

Fixpoint dispatch (reqs : list sreq) : list veff :=
  match reqs with
  | [] => []
  | r :: rest => if is_bye r then [] else eff_of r :: dispatch rest
  end.

Definition serve_program (magic_ok : bool) (reqs : list sreq) : list veff :=
  [VMkdir Root; VMkdir LockDir] ++ (if magic_ok then dispatch reqs else [VBadPrologue]).

Lemma loop_spec (reqs : list sreq) (effs : list veff) :
  match for_loop reqs (fun req => fun effs =>
          match req with
          | SHello _ => let effs := effs ++ [VReply (RHelloV VERSION)] in inl effs
          | SList => let effs := effs ++ [VList] in inl effs
          | SGet path => let effs := effs ++ [VGet path] in inl effs
          | SPut path expected len_ hash => let effs := effs ++ [VPut path expected len_ hash] in inl effs
          | SDel path expected => let effs := effs ++ [VDelete path expected] in inl effs
          | SBye => (inr effs : list veff + list veff)
          end) effs with
  | inl effs => effs
  | inr r => r
  end = effs ++ dispatch reqs.
Proof.
  revert effs; induction reqs as [|r rest IH]; intros effs; [cbn; rewrite app_nil_r; reflexivity|].
  cbn [for_loop dispatch]. destruct r; cbn [is_bye eff_of]; cbv zeta; try (rewrite IH, <- app_assoc; reflexivity).
  rewrite app_nil_r. reflexivity.
Qed.

Theorem tie_serve (magic_ok : bool) (reqs : list sreq) : g_serve magic_ok reqs = serve_program magic_ok reqs.
Proof.
  unfold g_serve, serve_program. cbv zeta. destruct magic_ok; cbn [negb]; [|reflexivity].
  pose proof (loop_spec reqs ([] ++ [VMkdir Root] ++ [VMkdir LockDir])) as HL. cbv zeta in HL.
  cbn [app] in *. exact HL.
Qed.

(** the requests the loop acts on are those before the first Bye - the ones Model/Wire.v [loop] hands to its handler *)
Fixpoint takeWhile {A} (f : A -> bool) (l : list A) : list A :=
  match l with [] => [] | x :: r => if f x then x :: takeWhile f r else [] end.
Lemma dispatch_is_until_bye (reqs : list sreq) :
  dispatch reqs = map eff_of (takeWhile (fun r => negb (is_bye r)) reqs).
Proof.
  induction reqs as [|r rest IH]; [reflexivity|]. cbn [dispatch takeWhile]. destruct (is_bye r); cbn [negb map]; [reflexivity|]. rewrite IH. reflexivity.
Qed.

Lemma nothing_before_the_prologue (reqs : list sreq) :
  g_serve false reqs = [VMkdir Root; VMkdir LockDir; VBadPrologue].
Proof. rewrite tie_serve. reflexivity. Qed.
End Tie.

Definition serve_loop_is_translation : Prop :=
  forall (D : Type) (magic_ok : bool) (reqs : list (@HubSeq.sreq D)),
    g_serve magic_ok reqs = serve_program magic_ok reqs /\
    dispatch reqs = map eff_of (takeWhile (fun r => negb (is_bye r)) reqs) /\
    g_serve false reqs = [VMkdir Root; VMkdir LockDir; VBadPrologue].
Lemma serve_loop_is_translation_holds : serve_loop_is_translation.
Proof. intros D m reqs. split; [apply tie_serve|]. split; [apply dispatch_is_until_bye|apply nothing_before_the_prologue]. Qed.

Example serve_loop_nonvacuous :
  g_serve (D := nat) true [SHello 1; SGet [97]; SPut [98] None 3 7%nat; SBye; SGet [99]]
  = [VMkdir Root; VMkdir LockDir; VReply (RHelloV 1); VGet [97]; VPut [98] None 3 7%nat].
Proof. vm_compute. reflexivity. Qed.
