(** The cost of an edit, in the form a user reads it: the source is the basis with the bytes [o, o+x) replaced by Y
    (insertion: x = 0; deletion: Y = []; replacement: both), anywhere in the whole-block part of the basis.  Then the
    textbook greedy scan - hence, by [delta_literals_eq_greedy], the computed delta - carries at most
    |Y| + 2(bs-1) + (|basis| mod bs) literal bytes.  Derived from [edit_cost] by cutting the block list of the basis at
    the two ends of the edit. *)
From Coq Require Import ZArith List Bool Arith Lia.
From Copia Require Import Model.Checksum Model.Delta Proofs.DeltaProofs.
Import ListNotations.
Local Open Scope nat_scope.

Lemma In_firstn_in {A} k (l : list A) x : In x (firstn k l) -> In x l.
Proof. revert k; induction l as [|y l IH]; intros [|k] Hin; cbn in *; try tauto. destruct Hin as [->|Hin]; [tauto|right; eapply IH; exact Hin]. Qed.
Lemma In_skipn_in {A} k (l : list A) x : In x (skipn k l) -> In x l.
Proof. revert k; induction l as [|y l IH]; intros [|k] Hin; cbn in *; try tauto. right. eapply IH. exact Hin. Qed.

Section Edit.
Variable bs : nat.
Hypothesis bs_pos : (0 < bs)%nat.

Definition all_full (bl : list (list Z)) : Prop := forall b, In b bl -> length b = bs.

Lemma concat_full_length bl : all_full bl -> length (concat bl) = length bl * bs.
Proof.
  induction bl as [|b bl IH]; intros Hf; cbn [concat length]; [reflexivity|].
  rewrite app_length, IH by (intros c Hc; apply Hf; right; exact Hc).
  rewrite (Hf b) by (left; reflexivity). lia.
Qed.

Lemma concat_split k (bl : list (list Z)) : concat bl = concat (firstn k bl) ++ concat (skipn k bl).
Proof. rewrite <- concat_app, firstn_skipn. reflexivity. Qed.

Lemma firstn_length_full k bl : all_full bl -> (k <= length bl)%nat -> length (concat (firstn k bl)) = k * bs.
Proof.
  intros Hf Hk. rewrite concat_full_length by (intros b Hb; apply Hf; eapply In_firstn_in; exact Hb).
  rewrite firstn_length. f_equal. lia.
Qed.

(** the edit theorem *)
Theorem edit_at_offset (beq : list Z -> list Z -> bool) :
  (forall a b, beq a b = true <-> a = b) ->
  forall (full bl : list (list Z)) (tail Y : list Z) (o x fuel : nat),
  (forall b, In b bl -> In b full /\ length b = bs) ->
  (length tail < bs)%nat -> (o + x <= length bl * bs)%nat ->
  let basis := concat bl ++ tail in
  let src := firstn o basis ++ Y ++ skipn (o + x) basis in
  (length src < fuel)%nat ->
  (greedy_lit bs beq fuel full src <= Z.of_nat (length Y) + 2 * (Z.of_nat bs - 1) + Z.of_nat (length tail))%Z.
Proof.
  intros Hbeq full bl tail Y o x fuel Hbl Ht Hox basis src Hfuel.
  assert (Hf : all_full bl) by (intros b Hb; apply Hbl; exact Hb).
  pose proof (concat_full_length bl Hf) as Hlen.
  set (i := (o / bs)%nat). set (p := (o + x)%nat). set (j := ((p + bs - 1) / bs)%nat).
  assert (Hi : (i * bs <= o < i * bs + bs)%nat).
  { unfold i. pose proof (Nat.div_mod o bs ltac:(lia)) as E. pose proof (Nat.mod_upper_bound o bs ltac:(lia)). lia. }
  assert (Hj : (p <= j * bs < p + bs)%nat).
  { unfold j. pose proof (Nat.div_mod (p + bs - 1) bs ltac:(lia)) as E. pose proof (Nat.mod_upper_bound (p + bs - 1) bs ltac:(lia)). lia. }
  assert (Hile : (i <= length bl)%nat) by (unfold p in *; nia).
  assert (Hjle : (j <= length bl)%nat).
  { destruct (Nat.le_gt_cases j (length bl)) as [?|Hgt]; [assumption|]. exfalso. unfold p in *. nia. }
  set (blA := firstn i bl). set (blB := skipn j bl).
  set (Apost := firstn (o - i * bs) (concat (skipn i bl))).
  set (Bpre := skipn p (concat (firstn j bl))).
  assert (EA : firstn o basis = concat blA ++ Apost).
  { unfold basis. rewrite firstn_app. replace (o - length (concat bl))%nat with 0%nat by lia. cbn [firstn]. rewrite app_nil_r.
    rewrite (concat_split i bl) at 1. rewrite firstn_app, (firstn_length_full i bl Hf Hile).
    rewrite firstn_all2 by (rewrite (firstn_length_full i bl Hf Hile); lia). reflexivity. }
  assert (EB : skipn p basis = Bpre ++ concat blB ++ tail).
  { unfold basis. rewrite skipn_app. replace (p - length (concat bl))%nat with 0%nat by (unfold p; lia). cbn [skipn].
    rewrite (concat_split j bl) at 1. rewrite skipn_app, (firstn_length_full j bl Hf Hjle).
    replace (p - j * bs)%nat with 0%nat by lia. cbn [skipn]. rewrite <- app_assoc. reflexivity. }
  assert (HlA : (length Apost < bs)%nat).
  { unfold Apost. rewrite firstn_length. lia. }
  assert (HlB : (length Bpre < bs)%nat).
  { unfold Bpre. rewrite skipn_length, (firstn_length_full j bl Hf Hjle). lia. }
  assert (Esrc : src = concat blA ++ (Apost ++ Y ++ Bpre) ++ concat blB ++ tail).
  { unfold src. fold p. rewrite EA, EB. rewrite <- !app_assoc. reflexivity. }
  rewrite Esrc in *.
  apply (edit_cost bs bs_pos beq Hbeq full fuel blA blB Apost Bpre tail Y); try assumption.
  - intros b Hb. apply Hbl. eapply In_firstn_in. exact Hb.
  - intros b Hb. apply Hbl. eapply In_skipn_in. exact Hb.
Qed.
End Edit.
