(** The identity of a directory pair - the key under which bisync records the common state - IS the translated source
    of archive.rs `root_pair_hash`: the hexadecimal BLAKE3 of `canonical(A) NUL canonical(B)`.  Where BLAKE3 does not
    collide, two pairs have the same key exactly when their canonical roots are the same IN THE SAME ORDER (a canonical
    path contains no NUL byte): a record found under the key of (A, B) was written for (A, B) - the premise of C07's
    "belongs to a different pair of directories" clause and of C06's per-order record. *)
From Coq Require Import ZArith List Bool Lia.
From Copia Require Import Gen.Constants Model.LoopLib Gen.PairKeyGen.
Import ListNotations.
Open Scope Z_scope.

Section Tie.
Variable D : Type.
Variable Hh : list Z -> D.
Variable hex_of : D -> list Z.
Variable canon : list Z -> list Z.

Theorem tie_root_pair_hash (a b : list Z) :
  g_root_pair_hash D Hh hex_of canon a b = hex_of (Hh (canon a ++ [0] ++ canon b)).
Proof. unfold g_root_pair_hash. cbv zeta. cbn [app]. rewrite <- app_assoc. reflexivity. Qed.

Lemma split_at_nul (x x' y y' : list Z) :
  ~ In 0 x -> ~ In 0 x' -> x ++ [0] ++ y = x' ++ [0] ++ y' -> x = x' /\ y = y'.
Proof.
  revert x'; induction x as [|c x IH]; intros x' Hx Hx' He.
  - destruct x' as [|c' x']; cbn [app] in He.
    + inversion He. split; reflexivity.
    + inversion He; subst. exfalso. apply Hx'. left. reflexivity.
  - destruct x' as [|c' x']; cbn [app] in He.
    + inversion He; subst. exfalso. apply Hx. left. reflexivity.
    + inversion He; subst. destruct (IH x') as [E1 E2]; [intros Hi; apply Hx; right; exact Hi|intros Hi; apply Hx'; right; exact Hi|assumption|].
      subst. split; reflexivity.
Qed.

Theorem pair_key_identifies_the_ordered_pair (a b a' b' : list Z) :
  (forall d d', hex_of d = hex_of d' -> d = d') ->
  (forall u v, Hh u = Hh v -> u = v) ->                      (* no BLAKE3 collision among the inputs in play *)
  (forall p, ~ In 0 (canon p)) ->
  g_root_pair_hash D Hh hex_of canon a b = g_root_pair_hash D Hh hex_of canon a' b' ->
  canon a = canon a' /\ canon b = canon b'.
Proof.
  intros Hhex Hcol Hnul He. rewrite !tie_root_pair_hash in He. apply Hhex, Hcol in He.
  apply split_at_nul in He; [exact He|apply Hnul|apply Hnul].
Qed.

(** ** where the record of a pair lives (archive.rs `archive_path`): `$HOME/.copia/archive/<key>.json`, `/tmp` standing in
    for an unset HOME; for one HOME, two keys that are not absolute paths name the same file only when they are equal -
    so, with [pair_key_identifies_the_ordered_pair], the record file identifies the ordered pair of canonical roots *)
Definition arch_dir (home_var : option (list Z)) : list Z :=
  pjoin (pjoin (match home_var with Some h => h | None => [47; 116; 109; 112] end) [46; 99; 111; 112; 105; 97]) [97; 114; 99; 104; 105; 118; 101].

Lemma tie_archive_path (home_var : option (list Z)) (key : list Z) :
  g_archive_path home_var key = pjoin (arch_dir home_var) (key ++ [46; 106; 115; 111; 110]).
Proof. unfold g_archive_path, arch_dir. cbv zeta. destruct home_var; reflexivity. Qed.

Definition relative (x : list Z) : Prop := match x with 47 :: _ => False | _ => True end.

Lemma pjoin_relative (base x : list Z) : relative x -> exists pre, forall y, relative y -> y <> [] -> x <> [] -> pjoin base x = pre ++ x /\ pjoin base y = pre ++ y.
Proof.
  intros Hx. unfold pjoin. destruct (rev base) as [|c r] eqn:Er.
  - exists []. intros y Hy Hny Hnx. destruct x as [|cx x]; [congruence|]. destruct y as [|cy y]; [congruence|].
    cbn [relative] in Hx, Hy. split.
    + destruct (Z.eq_dec cx 47) as [->|Hc]; [contradiction|]. destruct cx as [|px|px]; try reflexivity. repeat (destruct px as [px|px|]; try reflexivity). all: try congruence.
    + destruct (Z.eq_dec cy 47) as [->|Hc]; [contradiction|]. destruct cy as [|py|py]; try reflexivity. repeat (destruct py as [py|py|]; try reflexivity). all: try congruence.
  - assert (Hpre : exists pre, forall z, (match c :: r with [] => z | 47 :: _ => base ++ z | _ => base ++ [47] ++ z end) = pre ++ z).
    { destruct (Z.eq_dec c 47) as [->|Hc]; [exists base; reflexivity|]. exists (base ++ [47]). intros z. rewrite <- app_assoc.
      destruct c as [|pc|pc]; try reflexivity. repeat (destruct pc as [pc|pc|]; try reflexivity). all: try congruence. }
    destruct Hpre as [pre Hpre]. exists pre. intros y Hy Hny Hnx. destruct x as [|cx x]; [congruence|]. destruct y as [|cy y]; [congruence|].
    cbn [relative] in Hx, Hy. split.
    + rewrite <- Hpre. destruct (Z.eq_dec cx 47) as [->|Hc]; [contradiction|]. destruct cx as [|px|px]; try reflexivity. repeat (destruct px as [px|px|]; try reflexivity). all: try congruence.
    + rewrite <- Hpre. destruct (Z.eq_dec cy 47) as [->|Hc]; [contradiction|]. destruct cy as [|py|py]; try reflexivity. repeat (destruct py as [py|py|]; try reflexivity). all: try congruence.
Qed.

Lemma relative_app (x s : list Z) : relative x -> x <> [] -> relative (x ++ s).
Proof. destruct x as [|c x]; [congruence|]. intros H _. exact H. Qed.

Theorem archive_path_identifies_the_key (home_var : option (list Z)) (k k' : list Z) :
  relative k -> relative k' -> k <> [] -> k' <> [] ->
  g_archive_path home_var k = g_archive_path home_var k' -> k = k'.
Proof.
  intros Hk Hk' Hn Hn' He. rewrite !tie_archive_path in He.
  destruct (pjoin_relative (arch_dir home_var) (k ++ [46; 106; 115; 111; 110]) (relative_app _ _ Hk Hn)) as [pre Hpre].
  destruct (Hpre (k' ++ [46; 106; 115; 111; 110])) as [E1 E2].
  - apply relative_app; assumption.
  - destruct k'; discriminate.
  - destruct k; discriminate.
  - rewrite E1, E2 in He. apply app_inv_head in He. apply app_inv_tail in He. exact He.
Qed.

(** ** the host name that goes into a conflict-copy name and into the record (bidir.rs `host_id`): `$HOSTNAME` when it is
    set (even when empty: the `hostname` command is asked only when the variable is UNSET), else the trimmed output of
    `hostname`; an empty result of either is replaced by the word `host` - the name is never empty *)
Lemma tie_host_id (hv hc : option (list Z)) :
  g_host_id hv hc = match (match hv with Some v => Some v | None => option_map trim_ws hc end) with
                    | Some (c :: r) => c :: r
                    | _ => [104; 111; 115; 116]
                    end.
Proof.
  unfold g_host_id. destruct hv as [v|]; [|destruct hc as [o|]; cbn [option_map]].
  - destruct v as [|c r]; [reflexivity|]. unfold lenZ. cbn [length]. destruct (Z.eqb_spec (Z.of_nat (S (length r))) 0) as [E|E]; [lia|reflexivity].
  - destruct (trim_ws o) as [|c r]; [reflexivity|]. unfold lenZ. cbn [length]. destruct (Z.eqb_spec (Z.of_nat (S (length r))) 0) as [E|E]; [lia|reflexivity].
  - reflexivity.
Qed.

Theorem host_id_never_empty (hv hc : option (list Z)) : g_host_id hv hc <> [].
Proof. rewrite tie_host_id. destruct (match hv with Some v => Some v | None => option_map trim_ws hc end) as [[|c r]|]; discriminate. Qed.
End Tie.

Definition pair_key_is_translation : Prop :=
  forall (D : Type) (Hh : list Z -> D) (hex_of : D -> list Z) (canon : list Z -> list Z),
    (forall a b, g_root_pair_hash D Hh hex_of canon a b = hex_of (Hh (canon a ++ [0] ++ canon b))) /\
    ((forall d d', hex_of d = hex_of d' -> d = d') -> (forall u v, Hh u = Hh v -> u = v) -> (forall p, ~ In 0 (canon p)) ->
     forall a b a' b', g_root_pair_hash D Hh hex_of canon a b = g_root_pair_hash D Hh hex_of canon a' b' -> canon a = canon a' /\ canon b = canon b') /\
    (forall home_var key, g_archive_path home_var key = pjoin (arch_dir home_var) (key ++ [46; 106; 115; 111; 110])) /\
    (forall home_var k k', relative k -> relative k' -> k <> [] -> k' <> [] -> g_archive_path home_var k = g_archive_path home_var k' -> k = k') /\
    (forall hv hc, g_host_id hv hc <> []) /\
    (forall v hc, v <> [] -> g_host_id (Some v) hc = v).
Lemma pair_key_is_translation_holds : pair_key_is_translation.
Proof. intros D Hh hex_of canon. split; [apply tie_root_pair_hash|]. split; [intros H1 H2 H3 a b a' b'; apply pair_key_identifies_the_ordered_pair; assumption|]. split; [apply tie_archive_path|]. split; [apply archive_path_identifies_the_key|]. split; [apply host_id_never_empty|].
  intros v hc Hv. rewrite tie_host_id. destruct v; [congruence|reflexivity]. Qed.

Example pair_key_nonvacuous :
  g_root_pair_hash (list Z) (fun x => x) (fun x => x) (fun x => x) [47; 97] [47; 98] = [47; 97; 0; 47; 98] /\
  g_root_pair_hash (list Z) (fun x => x) (fun x => x) (fun x => x) [47; 98] [47; 97] <> [47; 97; 0; 47; 98].
Proof. split; [reflexivity|discriminate]. Qed.

Example archive_path_nonvacuous :
  g_archive_path (Some [47; 104]) [97; 98] = [47; 104; 47; 46; 99; 111; 112; 105; 97; 47; 97; 114; 99; 104; 105; 118; 101; 47; 97; 98; 46; 106; 115; 111; 110] /\
  g_archive_path None [97] = [47; 116; 109; 112; 47; 46; 99; 111; 112; 105; 97; 47; 97; 114; 99; 104; 105; 118; 101; 47; 97; 46; 106; 115; 111; 110].
Proof. split; reflexivity. Qed.

Example host_id_nonvacuous :
  g_host_id None (Some [32; 98; 111; 120; 10]) = [98; 111; 120] /\ g_host_id (Some []) (Some [98]) = [104; 111; 115; 116] /\ g_host_id None None = [104; 111; 115; 116].
Proof. repeat split; reflexivity. Qed.
