(** The identity of a directory pair - the key under which bisync records the common state - IS the translated source
    of archive.rs `root_pair_hash`: the hexadecimal BLAKE3 of `canonical(A) NUL canonical(B)`.  Where BLAKE3 does not
    collide, two pairs have the same key exactly when their canonical roots are the same IN THE SAME ORDER (a canonical
    path contains no NUL byte): a record found under the key of (A, B) was written for (A, B) - the premise of C07's
    "belongs to a different pair of directories" clause and of C06's per-order record. *)
From Coq Require Import ZArith List Bool Lia.
From Copia Require Import Gen.Constants Model.LoopLib Gen.PairKeyGen.
Import ListNotations.
Open Scope Z_scope.

Section Tie.
Variable D : Type.
Variable Hh : list Z -> D.
Variable hex_of : D -> list Z.
Variable canon : list Z -> list Z.

Theorem tie_root_pair_hash (a b : list Z) :
  g_root_pair_hash D Hh hex_of canon a b = hex_of (Hh (canon a ++ [0] ++ canon b)).
Proof. unfold g_root_pair_hash. cbv zeta. cbn [app]. rewrite <- app_assoc. reflexivity. Qed.

Lemma split_at_nul (x x' y y' : list Z) :
  ~ In 0 x -> ~ In 0 x' -> x ++ [0] ++ y = x' ++ [0] ++ y' -> x = x' /\ y = y'.
Proof.
  revert x'; induction x as [|c x IH]; intros x' Hx Hx' He.
  - destruct x' as [|c' x']; cbn [app] in He.
    + inversion He. split; reflexivity.
    + inversion He; subst. exfalso. apply Hx'. left. reflexivity.
  - destruct x' as [|c' x']; cbn [app] in He.
    + inversion He; subst. exfalso. apply Hx. left. reflexivity.
    + inversion He; subst. destruct (IH x') as [E1 E2]; [intros Hi; apply Hx; right; exact Hi|intros Hi; apply Hx'; right; exact Hi|assumption|].
      subst. split; reflexivity.
Qed.

Theorem pair_key_identifies_the_ordered_pair (a b a' b' : list Z) :
  (forall d d', hex_of d = hex_of d' -> d = d') ->
  (forall u v, Hh u = Hh v -> u = v) ->                      (* no BLAKE3 collision among the inputs in play *)
  (forall p, ~ In 0 (canon p)) ->
  g_root_pair_hash D Hh hex_of canon a b = g_root_pair_hash D Hh hex_of canon a' b' ->
  canon a = canon a' /\ canon b = canon b'.
Proof.
  intros Hhex Hcol Hnul He. rewrite !tie_root_pair_hash in He. apply Hhex, Hcol in He.
  apply split_at_nul in He; [exact He|apply Hnul|apply Hnul].
Qed.
End Tie.

Definition pair_key_is_translation : Prop :=
  forall (D : Type) (Hh : list Z -> D) (hex_of : D -> list Z) (canon : list Z -> list Z),
    (forall a b, g_root_pair_hash D Hh hex_of canon a b = hex_of (Hh (canon a ++ [0] ++ canon b))) /\
    ((forall d d', hex_of d = hex_of d' -> d = d') -> (forall u v, Hh u = Hh v -> u = v) -> (forall p, ~ In 0 (canon p)) ->
     forall a b a' b', g_root_pair_hash D Hh hex_of canon a b = g_root_pair_hash D Hh hex_of canon a' b' -> canon a = canon a' /\ canon b = canon b').
Lemma pair_key_is_translation_holds : pair_key_is_translation.
Proof. intros D Hh hex_of canon. split; [apply tie_root_pair_hash|]. intros H1 H2 H3 a b a' b'. apply pair_key_identifies_the_ordered_pair; assumption. Qed.

Example pair_key_nonvacuous :
  g_root_pair_hash (list Z) (fun x => x) (fun x => x) (fun x => x) [47; 97] [47; 98] = [47; 97; 0; 47; 98] /\
  g_root_pair_hash (list Z) (fun x => x) (fun x => x) (fun x => x) [47; 98] [47; 97] <> [47; 97; 0; 47; 98].
Proof. split; [reflexivity|discriminate]. Qed.
