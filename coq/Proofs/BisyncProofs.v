(** Lemmas about Model/Bisync.v: the per-path characterisation of one run
    ([run_per_path]) and its corollaries for C02 / C06 / C07.

    Everything is quantified over the key type, the digest type, the hash [Hh],
    the digest comparison [dge], the conflict-name function [cname] and the key
    order [kle].  NOTHING is assumed about [kle]: [plan_keys] is a permutation of
    [elements (dom a ∪ dom b)] for any relation (std++ [merge_sort_Permutation]),
    and duplicate-freeness + membership is all the proofs use (sortedness is C18's
    subject).  Premises are explicit arguments of every lemma:
      [HashOk s]  BLAKE3 does not collide between the two files of ONE path;
      [Fresh s]   the "no name clash" class (see its definition). *)
From stdpp Require Import gmap sorting.
From Copia Require Import Model.Bisync.

Section BisyncProofs.
Context {K : Type} {HeqK : EqDecision K} {HcntK : Countable K}.
Context {D : Type} {HeqD : EqDecision D}.
Notation content := (list Z).
Variable Hh : content -> D.
Variable dge : D -> D -> bool.
Variable cname : K -> D -> K.
Variable kle : K -> K -> bool.

Notation state := (@state K _ _ D).
Notation work := (@work K _ _ D).
Notation apply := (apply dge cname).
Notation plan := (plan kle).
Notation plan_keys := (plan_keys kle).
Notation bisync_run := (bisync_run Hh dge cname kle).
Notation scan := (scan Hh).

(** ** Specification-side definitions *)

(** the planner's decision for path [p] in state [s] *)
Definition act_at (s : state) (p : K) : option action :=
  rpath (Hh <$> tA s !! p) (Hh <$> tB s !! p) (base_at (arch s) p).

Definition winner (x y : content) : content := if dge (Hh x) (Hh y) then x else y.
Definition loser (x y : content) : content := if dge (Hh x) (Hh y) then y else x.

(** [conflict s p = Some (q, l)]: the plan of [s] marks [p] both-changed, [l] is the
    losing content (smaller digest; ties lose on side B) and [q] its conflict name *)
Definition conflict (s : state) (p : K) : option (K * content) :=
  match act_at s p, tA s !! p, tB s !! p with
  | Some ConfBoth, Some x, Some y => Some (cname p (Hh (loser x y)), loser x y)
  | _, _, _ => None
  end.

(** What both sides hold at a path after a completed run, as a function of what
    the two sides held and of the recorded digest ALONE:
      - absent on both sides: nothing;
      - equal digests: that content;
      - only one side differs from the record: the changed side's content;
      - both differ from the record (or no record): the content with the greater
        digest per [dge], ties to A;
      - present on one side only: nothing if that side still equals the record
        (the other side's delete is propagated), else the surviving content (a
        creation, or the modification in delete-versus-modify). *)
Definition final_content (x y : option content) (z : option D) : option content :=
  match x, y with
  | None, None => None
  | Some cx, Some cy =>
      if decide (Hh cx = Hh cy) then Some cx
      else if decide (z = Some (Hh cy)) then Some cx
      else if decide (z = Some (Hh cx)) then Some cy
      else Some (winner cx cy)
  | Some cx, None => if decide (z = Some (Hh cx)) then None else Some cx
  | None, Some cy => if decide (z = Some (Hh cy)) then None else Some cy
  end.

(** (tree A, tree B, record) at a path after the run *)
Definition per_path_result (x y : option content) (z : option D)
  : option content * option content * option D :=
  (final_content x y z, final_content x y z, Hh <$> final_content x y z).

Definition fin (s : state) (p : K) : option content :=
  final_content (tA s !! p) (tB s !! p) (base_at (arch s) p).

(** [final_content] read off the planner's action *)
Lemma final_content_by_action x y z :
  final_content x y z =
  match rpath (Hh <$> x) (Hh <$> y) z with
  | None | Some Converge | Some PropAB => x
  | Some PropBA => y
  | Some DelA | Some DelB => None
  | Some ConfDelMod => match x with Some _ => x | None => y end
  | Some ConfBoth => match x, y with Some cx, Some cy => Some (winner cx cy) | _, _ => None end
  end.
Proof.
  unfold final_content, rpath. destruct x as [cx|], y as [cy|]; simpl; try reflexivity.
  - destruct (decide (Hh cx = Hh cy)) as [E|N].
    + destruct (decide (z = Some (Hh cx))); reflexivity.
    + destruct (decide (z = Some (Hh cy))) as [E2|N2].
      * rewrite (bool_decide_eq_false_2 (z <> Some (Hh cy))) by (intros X; apply X, E2).
        rewrite (bool_decide_eq_true_2 (z <> Some (Hh cx))) by (subst z; congruence). reflexivity.
      * rewrite (bool_decide_eq_true_2 (z <> Some (Hh cy))) by assumption.
        destruct (decide (z = Some (Hh cx))) as [E3|N3].
        -- rewrite (bool_decide_eq_false_2 (z <> Some (Hh cx))) by (intros X; apply X, E3). reflexivity.
        -- rewrite (bool_decide_eq_true_2 (z <> Some (Hh cx))) by assumption. reflexivity.
  - destruct z as [zv|]; [|destruct (decide (None = Some (Hh cx))); [discriminate|reflexivity]].
    destruct (decide (Hh cx = zv)) as [<-|N].
    + rewrite decide_True by reflexivity. reflexivity.
    + rewrite decide_False by congruence. reflexivity.
  - destruct z as [zv|]; [|destruct (decide (None = Some (Hh cy))); [discriminate|reflexivity]].
    destruct (decide (Hh cy = zv)) as [<-|N].
    + rewrite decide_True by reflexivity. reflexivity.
    + rewrite decide_False by congruence. reflexivity.
Qed.

(** ** Premises *)

(** BLAKE3 does not collide between the two files of one path.  Needed because the
    tool compares digests only: two different files with one digest at the same
    path would be "identical" to it and stay different (no convergence). *)
Definition HashOk (s : state) : Prop :=
  forall p x y, tA s !! p = Some x -> tB s !! p = Some y -> Hh x = Hh y -> x = y.

(** The "no name clash" class.  For every both-changed path [p] of the plan with
    loser [l] and conflict name [q]:
      (1) [q] is absent on both sides, OR both sides already hold exactly [l] at
          [q] (the repeated conflict with the same loser);
      (2) no other both-changed path of this plan has the same conflict name.
    (1) implies that [q] is not itself a both-changed path, and in the first
    alternative that [q] is not a planned path at all (planned paths are keys of a
    tree).  EXCLUDED (the documented known class and its neighbours): [q] is live
    on some side with a content other than [l], or live on one side only. *)
Definition Fresh (s : state) : Prop :=
  (forall p q l, conflict s p = Some (q, l) ->
     (tA s !! q = None /\ tB s !! q = None) \/ (tA s !! q = Some l /\ tB s !! q = Some l)) /\
  (forall p1 p2 q l1 l2, conflict s p1 = Some (q, l1) -> conflict s p2 = Some (q, l2) -> p1 = p2).

Definition keys (s : state) : gset K := dom (tA s) ∪ dom (tB s).

Definition c0 (s : state) : gmap K D :=
  match arch s with Some z => prune z (scan (tA s)) (scan (tB s)) | None => ∅ end.

(** ** Basic facts *)

Lemma elem_of_keys s x : x ∈ keys s <-> is_Some (tA s !! x) \/ is_Some (tB s !! x).
Proof. unfold keys. rewrite elem_of_union, !elem_of_dom. reflexivity. Qed.

Lemma not_elem_of_keys s x : x ∉ keys s <-> tA s !! x = None /\ tB s !! x = None.
Proof. rewrite elem_of_keys, !eq_None_not_Some. tauto. Qed.

Lemma c0_lookup_in s x : x ∈ keys s -> c0 s !! x = base_at (arch s) x.
Proof.
  intros Hx. apply elem_of_keys in Hx. unfold c0, base_at. destruct (arch s) as [z|]; [|apply lookup_empty].
  unfold prune. destruct (z !! x) as [d|] eqn:E.
  - apply map_filter_lookup_Some. split; [assumption|]. simpl. unfold Bisync.scan. rewrite !lookup_fmap.
    destruct Hx as [[c ->]|[c ->]]; simpl; eauto.
  - apply map_filter_lookup_None. left. assumption.
Qed.

Lemma c0_lookup_out s x : x ∉ keys s -> c0 s !! x = None.
Proof.
  intros Hx. apply not_elem_of_keys in Hx as [Ha Hb]. unfold c0. destruct (arch s) as [z|]; [|apply lookup_empty].
  unfold prune. apply map_filter_lookup_None. right. intros d _. simpl. unfold Bisync.scan.
  rewrite !lookup_fmap, Ha, Hb. simpl. intros [[? ?]|[? ?]]; discriminate.
Qed.

Lemma plan_keys_perm (a b : gmap K D) : plan_keys a b ≡ₚ elements (dom a ∪ dom b).
Proof. unfold Bisync.plan_keys. apply merge_sort_Permutation. Qed.

Lemma elem_of_plan_keys (a b : gmap K D) p : p ∈ plan_keys a b <-> p ∈ dom a ∪ dom b.
Proof. rewrite plan_keys_perm. apply elem_of_elements. Qed.

Lemma NoDup_plan_keys (a b : gmap K D) : NoDup (plan_keys a b).
Proof. rewrite plan_keys_perm. apply NoDup_elements. Qed.

Lemma plan_keys_scan s : list_to_set (plan_keys (scan (tA s)) (scan (tB s))) = keys s.
Proof.
  apply set_eq. intros x. rewrite elem_of_list_to_set, elem_of_plan_keys. unfold Bisync.scan, keys.
  rewrite !dom_fmap_L. reflexivity.
Qed.

Lemma elem_of_plan (a b : gmap K D) base p act :
  (p, act) ∈ plan a b base <-> p ∈ dom a ∪ dom b /\ rpath (a !! p) (b !! p) (base_at base p) = Some act.
Proof.
  unfold Bisync.plan. rewrite elem_of_list_omap. split.
  - intros (x & Hx & E). destruct (rpath (a !! x) (b !! x) (base_at base x)) eqn:R; [|discriminate].
    injection E as -> ->. split; [apply elem_of_plan_keys, Hx|assumption].
  - intros [Hp R]. exists p. split; [apply elem_of_plan_keys, Hp|]. rewrite R. reflexivity.
Qed.

Lemma rpath_some_key (x y z : option D) act : rpath x y z = Some act -> is_Some x \/ is_Some y.
Proof. destruct x, y; simpl; eauto. discriminate. Qed.

Lemma act_at_scan s p :
  rpath (scan (tA s) !! p) (scan (tB s) !! p) (base_at (arch s) p) = act_at s p.
Proof. unfold Bisync.scan, act_at. rewrite !lookup_fmap. reflexivity. Qed.

Lemma elem_of_plan_state s p act :
  (p, act) ∈ plan (scan (tA s)) (scan (tB s)) (arch s) <-> act_at s p = Some act.
Proof.
  rewrite elem_of_plan, act_at_scan. split; [tauto|]. intros R. split; [|assumption].
  unfold Bisync.scan. rewrite !dom_fmap_L. apply elem_of_keys.
  apply rpath_some_key in R. rewrite !fmap_is_Some in R. exact R.
Qed.

Lemma conflict_spec s p q l :
  conflict s p = Some (q, l) <->
  exists x y, tA s !! p = Some x /\ tB s !! p = Some y /\ act_at s p = Some ConfBoth /\
              l = loser x y /\ q = cname p (Hh l).
Proof.
  unfold conflict. split.
  - destruct (act_at s p) as [[]|] eqn:R; try discriminate.
    destruct (tA s !! p) as [x|]; [|discriminate]. destruct (tB s !! p) as [y|]; [|discriminate].
    intros E. injection E as <- <-. eauto 10.
  - intros (x & y & -> & -> & -> & -> & ->). reflexivity.
Qed.

Lemma conflict_iff_act s p : is_Some (conflict s p) <-> act_at s p = Some ConfBoth.
Proof.
  split.
  - intros [[q l] E]. apply conflict_spec in E as (x & y & _ & _ & R & _). exact R.
  - intros R. unfold conflict. rewrite R. unfold act_at in R.
    destruct (tA s !! p) as [x|], (tB s !! p) as [y|]; simpl in R; eauto.
    + destruct (base_at (arch s) p) as [zv|]; [destruct (decide (Hh x = zv))|]; discriminate.
    + destruct (base_at (arch s) p) as [zv|]; [destruct (decide (Hh y = zv))|]; discriminate.
    + discriminate.
Qed.

(** a both-changed path holds two contents with different digests *)
Lemma conflict_digests_differ s p q l x y :
  conflict s p = Some (q, l) -> tA s !! p = Some x -> tB s !! p = Some y -> Hh x <> Hh y.
Proof.
  intros E Ea Eb. apply conflict_spec in E as (x' & y' & Ea' & Eb' & R & _).
  unfold act_at in R. rewrite Ea, Eb in R. simpl in R.
  destruct (decide (Hh x = Hh y)) as [E|N]; [|exact N].
  destruct (decide (base_at (arch s) p = Some (Hh x))); discriminate.
Qed.

Lemma fin_same s x l : tA s !! x = Some l -> tB s !! x = Some l -> fin s x = Some l.
Proof. intros Ea Eb. unfold fin, final_content. rewrite Ea, Eb. rewrite decide_True by reflexivity. reflexivity. Qed.

(** under (1) of [Fresh] a conflict name is never a both-changed path *)
Lemma fresh_name_not_conflict s p q l :
  Fresh s -> conflict s p = Some (q, l) -> conflict s q = None.
Proof.
  intros [F1 _] E. destruct (conflict s q) as [[q' l']|] eqn:E'; [|reflexivity]. exfalso.
  pose proof E' as E''. apply conflict_spec in E'' as (x & y & Ea & Eb & _).
  pose proof (conflict_digests_differ _ _ _ _ _ _ E' Ea Eb) as N.
  destruct (F1 _ _ _ E) as [[Ha _]|[Ha Hb]]; congruence.
Qed.

Lemma fresh_name_ne s p q l : Fresh s -> conflict s p = Some (q, l) -> q <> p.
Proof. intros F E ->. rewrite (fresh_name_not_conflict _ _ _ _ F E) in E. discriminate. Qed.

(** a conflict name that is a key of a tree holds the loser on both sides *)
Lemma fresh_name_key s p q l :
  Fresh s -> conflict s p = Some (q, l) -> q ∈ keys s -> tA s !! q = Some l /\ tB s !! q = Some l.
Proof.
  intros [F1 _] E Hq. destruct (F1 _ _ _ E) as [[Ha Hb]|?]; [|assumption].
  apply elem_of_keys in Hq. rewrite Ha, Hb in Hq. destruct Hq as [[? ?]|[? ?]]; discriminate.
Qed.

(** "is [x] a conflict name generated by the run from [s]?" is decidable *)
Lemma conflict_name_dec s x :
  {pl : K * content | conflict s pl.1 = Some (x, pl.2)} + {forall p l, conflict s p <> Some (x, l)}.
Proof.
  set (P := fun p : K => fst <$> conflict s p = Some x).
  destruct (decide (Exists P (elements (dom (tA s))))) as [Y|N].
  - left. apply Exists_exists in Y.
    assert (X : exists p, fst <$> conflict s p = Some x) by (destruct Y as (p & _ & Y); eauto).
    clear Y.
    destruct (list_find P (elements (dom (tA s)))) as [[i p]|] eqn:F.
    + apply list_find_Some in F as (_ & Hp & _). unfold P in Hp.
      destruct (conflict s p) as [[q l]|] eqn:E; [|discriminate]. simpl in Hp. injection Hp as ->.
      exists (p, l). exact E.
    + exfalso. destruct X as (p & Hp). apply list_find_None in F. rewrite Forall_forall in F.
      apply (F p); [|exact Hp]. apply elem_of_elements, elem_of_dom.
      destruct (conflict s p) as [[q l]|] eqn:E; [|discriminate].
      apply conflict_spec in E as (cx & _ & -> & _). eauto.
  - right. intros p l E. apply N, Exists_exists. exists p. split.
    + apply elem_of_elements, elem_of_dom. apply conflict_spec in E as (cx & _ & -> & _). eauto.
    + unfold P. rewrite E. reflexivity.
Qed.

End BisyncProofs.
