(** Lemmas about Model/Bisync.v: the per-path characterisation of one run
    ([run_per_path]) and its corollaries for C02 / C06 / C07.

    Everything is quantified over the key type, the digest type, the hash [Hh],
    the digest comparison [dge], the conflict-name function [cname] and the key
    order [kle].  NOTHING is assumed about [kle]: [plan_keys] is a permutation of
    [elements (dom a ∪ dom b)] for any relation (std++ [merge_sort_Permutation]),
    and duplicate-freeness + membership is all the proofs use (sortedness is C18's
    subject).  Premises are explicit arguments of every lemma:
      [HashOk s]  BLAKE3 does not collide between the two files of ONE path;
      [Fresh s]   the "no name clash" class (see its definition); its complement is
                  the documented known class F5. *)
From stdpp Require Import gmap sorting.
From Copia Require Import Model.Bisync.

Section BisyncProofs.
Context {K : Type} {HeqK : EqDecision K} {HcntK : Countable K}.
Context {D : Type} {HeqD : EqDecision D}.
Notation content := (list Z).
Variable Hh : content -> D.
Variable dge : D -> D -> bool.
Variable cname : K -> D -> K.
Variable kle : K -> K -> bool.

Notation state := (@state K _ _ D).
Notation work := (@work K _ _ D).
Notation apply := (apply dge cname).
Notation plan := (plan kle).
Notation plan_keys := (plan_keys kle).
Notation bisync_run := (bisync_run Hh dge cname kle).
Notation scan := (scan Hh).

(** ** Specification-side definitions *)

(** the planner's decision for path [p] in state [s] *)
Definition act_at (s : state) (p : K) : option action :=
  rpath (Hh <$> tA s !! p) (Hh <$> tB s !! p) (base_at (arch s) p).

Definition winner (x y : content) : content := if dge (Hh x) (Hh y) then x else y.
Definition loser (x y : content) : content := if dge (Hh x) (Hh y) then y else x.

(** [conflict s p = Some (q, l)]: the plan of [s] marks [p] both-changed, [l] is the
    losing content (smaller digest; ties lose on side B) and [q] its conflict name *)
Definition conflict (s : state) (p : K) : option (K * content) :=
  match act_at s p, tA s !! p, tB s !! p with
  | Some ConfBoth, Some x, Some y => Some (cname p (Hh (loser x y)), loser x y)
  | _, _, _ => None
  end.

(** What both sides hold at a path after a completed run, as a function of what
    the two sides held and of the recorded digest ALONE:
      - absent on both sides: nothing;
      - equal digests: that content;
      - only one side differs from the record: the changed side's content;
      - both differ from the record (or no record): the content with the greater
        digest per [dge], ties to A;
      - present on one side only: nothing if that side still equals the record
        (the other side's delete is propagated), else the surviving content (a
        creation, or the modification in delete-versus-modify). *)
Definition final_content (x y : option content) (z : option D) : option content :=
  match x, y with
  | None, None => None
  | Some cx, Some cy =>
      if decide (Hh cx = Hh cy) then Some cx
      else if decide (z = Some (Hh cy)) then Some cx
      else if decide (z = Some (Hh cx)) then Some cy
      else Some (winner cx cy)
  | Some cx, None => if decide (z = Some (Hh cx)) then None else Some cx
  | None, Some cy => if decide (z = Some (Hh cy)) then None else Some cy
  end.

(** (tree A, tree B, record) at a path after the run *)
Definition per_path_result (x y : option content) (z : option D)
  : option content * option content * option D :=
  (final_content x y z, final_content x y z, Hh <$> final_content x y z).

Definition fin (s : state) (p : K) : option content :=
  final_content (tA s !! p) (tB s !! p) (base_at (arch s) p).

(** [final_content] read off the planner's action *)
Lemma final_content_by_action x y z :
  final_content x y z =
  match rpath (Hh <$> x) (Hh <$> y) z with
  | None | Some Converge | Some PropAB => x
  | Some PropBA => y
  | Some DelA | Some DelB => None
  | Some ConfDelMod => match x with Some _ => x | None => y end
  | Some ConfBoth => match x, y with Some cx, Some cy => Some (winner cx cy) | _, _ => None end
  end.
Proof.
  unfold final_content, rpath. destruct x as [cx|], y as [cy|]; simpl; try reflexivity.
  - destruct (decide (Hh cx = Hh cy)) as [E|N].
    + destruct (decide (z = Some (Hh cx))); reflexivity.
    + destruct (decide (z = Some (Hh cy))) as [E2|N2].
      * rewrite (bool_decide_eq_false_2 (z <> Some (Hh cy))) by (intros X; apply X, E2).
        rewrite (bool_decide_eq_true_2 (z <> Some (Hh cx))) by (subst z; congruence). reflexivity.
      * rewrite (bool_decide_eq_true_2 (z <> Some (Hh cy))) by assumption.
        destruct (decide (z = Some (Hh cx))) as [E3|N3].
        -- rewrite (bool_decide_eq_false_2 (z <> Some (Hh cx))) by (intros X; apply X, E3). reflexivity.
        -- rewrite (bool_decide_eq_true_2 (z <> Some (Hh cx))) by assumption. reflexivity.
  - destruct z as [zv|]; [|destruct (decide (None = Some (Hh cx))); [discriminate|reflexivity]].
    destruct (decide (Hh cx = zv)) as [<-|N].
    + rewrite decide_True by reflexivity. reflexivity.
    + rewrite decide_False by congruence. reflexivity.
  - destruct z as [zv|]; [|destruct (decide (None = Some (Hh cy))); [discriminate|reflexivity]].
    destruct (decide (Hh cy = zv)) as [<-|N].
    + rewrite decide_True by reflexivity. reflexivity.
    + rewrite decide_False by congruence. reflexivity.
Qed.

(** ** Premises *)

(** BLAKE3 does not collide between the two files of one path.  Needed because the
    tool compares digests only: two different files with one digest at the same
    path would be "identical" to it and stay different (no convergence). *)
Definition HashOk (s : state) : Prop :=
  forall p x y, tA s !! p = Some x -> tB s !! p = Some y -> Hh x = Hh y -> x = y.

(** The "no name clash" class.  For every both-changed path [p] of the plan with
    loser [l] and conflict name [q]:
      (1) [name_ok s q l]: each side holds at [q] nothing or exactly [l], and if
          exactly one side holds it the record for [q] is not [l]'s digest.
          Inside: [q] absent on both sides; [l] on both sides (the repeated
          conflict with the same loser - [q]'s own action is a no-op or a
          re-record); [l] on one side with no or another record (what a crash in
          the middle of a conflict leaves - [q]'s own action re-copies [l]).
      (2) no other both-changed path of this plan has the same conflict name
          (automatic for the real name format, see [bi_cname_inj]).
    (1) implies that [q] is not itself a both-changed path.  EXCLUDED, i.e. the
    documented known class: (i) a side holds [q] with a content other than [l] (an
    edited conflict copy: it is overwritten on both sides); (ii) exactly one side
    holds [l] at [q] and the record says so (the plan, computed from the scan,
    then deletes the copy the conflict step has just re-created on that side). *)
Definition name_ok (s : state) (q : K) (l : content) : Prop :=
  (tA s !! q = None \/ tA s !! q = Some l) /\
  (tB s !! q = None \/ tB s !! q = Some l) /\
  (tA s !! q = tB s !! q \/ base_at (arch s) q <> Some (Hh l)).

Definition Fresh (s : state) : Prop :=
  (forall p q l, conflict s p = Some (q, l) -> name_ok s q l) /\
  (forall p1 p2 q l1 l2, conflict s p1 = Some (q, l1) -> conflict s p2 = Some (q, l2) -> p1 = p2).

Definition keys (s : state) : gset K := dom (tA s) ∪ dom (tB s).

Definition c0 (s : state) : gmap K D :=
  match arch s with Some z => prune z (scan (tA s)) (scan (tB s)) | None => ∅ end.

(** ** Basic facts *)

Lemma elem_of_keys s x : x ∈ keys s <-> is_Some (tA s !! x) \/ is_Some (tB s !! x).
Proof. unfold keys. rewrite elem_of_union, !elem_of_dom. reflexivity. Qed.

Lemma not_elem_of_keys s x : x ∉ keys s <-> tA s !! x = None /\ tB s !! x = None.
Proof. rewrite elem_of_keys, !eq_None_not_Some. tauto. Qed.

Lemma c0_lookup_in s x : x ∈ keys s -> c0 s !! x = base_at (arch s) x.
Proof.
  intros Hx. apply elem_of_keys in Hx. unfold c0, base_at. destruct (arch s) as [z|]; [|apply lookup_empty].
  unfold prune. destruct (z !! x) as [d|] eqn:E.
  - apply map_filter_lookup_Some. split; [assumption|]. simpl. unfold Bisync.scan. rewrite !lookup_fmap.
    destruct Hx as [[c ->]|[c ->]]; simpl; eauto.
  - apply map_filter_lookup_None. left. assumption.
Qed.

Lemma c0_lookup_out s x : x ∉ keys s -> c0 s !! x = None.
Proof.
  intros Hx. apply not_elem_of_keys in Hx as [Ha Hb]. unfold c0. destruct (arch s) as [z|]; [|apply lookup_empty].
  unfold prune. apply map_filter_lookup_None. right. intros d _. simpl. unfold Bisync.scan.
  rewrite !lookup_fmap, Ha, Hb. simpl. intros [[? ?]|[? ?]]; discriminate.
Qed.

Lemma plan_keys_perm (a b : gmap K D) : plan_keys a b ≡ₚ elements (dom a ∪ dom b).
Proof. unfold Bisync.plan_keys. apply merge_sort_Permutation. Qed.

Lemma elem_of_plan_keys (a b : gmap K D) p : p ∈ plan_keys a b <-> p ∈ dom a ∪ dom b.
Proof. rewrite plan_keys_perm. apply elem_of_elements. Qed.

Lemma NoDup_plan_keys (a b : gmap K D) : NoDup (plan_keys a b).
Proof. rewrite plan_keys_perm. apply NoDup_elements. Qed.

Lemma plan_keys_scan s : list_to_set (plan_keys (scan (tA s)) (scan (tB s))) = keys s.
Proof.
  apply set_eq. intros x. rewrite elem_of_list_to_set, elem_of_plan_keys. unfold Bisync.scan, keys.
  rewrite !dom_fmap_L. reflexivity.
Qed.

Lemma elem_of_plan (a b : gmap K D) base p act :
  (p, act) ∈ plan a b base <-> p ∈ dom a ∪ dom b /\ rpath (a !! p) (b !! p) (base_at base p) = Some act.
Proof.
  unfold Bisync.plan. rewrite elem_of_list_omap. split.
  - intros (x & Hx & E). destruct (rpath (a !! x) (b !! x) (base_at base x)) eqn:R; [|discriminate].
    injection E as -> ->. split; [apply elem_of_plan_keys, Hx|assumption].
  - intros [Hp R]. exists p. split; [apply elem_of_plan_keys, Hp|]. rewrite R. reflexivity.
Qed.

Lemma rpath_some_key (x y z : option D) act : rpath x y z = Some act -> is_Some x \/ is_Some y.
Proof. destruct x, y; simpl; eauto. discriminate. Qed.

Lemma act_at_scan s p :
  rpath (scan (tA s) !! p) (scan (tB s) !! p) (base_at (arch s) p) = act_at s p.
Proof. unfold Bisync.scan, act_at. rewrite !lookup_fmap. reflexivity. Qed.

Lemma elem_of_plan_state s p act :
  (p, act) ∈ plan (scan (tA s)) (scan (tB s)) (arch s) <-> act_at s p = Some act.
Proof.
  rewrite elem_of_plan, act_at_scan. split; [tauto|]. intros R. split; [|assumption].
  unfold Bisync.scan. rewrite !dom_fmap_L. apply elem_of_keys.
  apply rpath_some_key in R. rewrite !fmap_is_Some in R. exact R.
Qed.

Lemma conflict_spec s p q l :
  conflict s p = Some (q, l) <->
  exists x y, tA s !! p = Some x /\ tB s !! p = Some y /\ act_at s p = Some ConfBoth /\
              l = loser x y /\ q = cname p (Hh l).
Proof.
  unfold conflict. split.
  - destruct (act_at s p) as [[]|] eqn:R; try discriminate.
    destruct (tA s !! p) as [x|]; [|discriminate]. destruct (tB s !! p) as [y|]; [|discriminate].
    intros E. injection E as <- <-. eauto 10.
  - intros (x & y & -> & -> & -> & -> & ->). reflexivity.
Qed.

Lemma conflict_iff_act s p : is_Some (conflict s p) <-> act_at s p = Some ConfBoth.
Proof.
  split.
  - intros [[q l] E]. apply conflict_spec in E as (x & y & _ & _ & R & _). exact R.
  - intros R. unfold conflict. rewrite R. unfold act_at in R.
    destruct (tA s !! p) as [x|], (tB s !! p) as [y|]; simpl in R; eauto.
    + destruct (base_at (arch s) p) as [zv|]; [destruct (decide (Hh x = zv))|]; discriminate.
    + destruct (base_at (arch s) p) as [zv|]; [destruct (decide (Hh y = zv))|]; discriminate.
    + discriminate.
Qed.

(** a both-changed path holds two contents with different digests *)
Lemma conflict_digests_differ s p q l x y :
  conflict s p = Some (q, l) -> tA s !! p = Some x -> tB s !! p = Some y -> Hh x <> Hh y.
Proof.
  intros E Ea Eb. apply conflict_spec in E as (x' & y' & Ea' & Eb' & R & _).
  unfold act_at in R. rewrite Ea, Eb in R. simpl in R.
  destruct (decide (Hh x = Hh y)) as [E|N]; [|exact N].
  destruct (decide (base_at (arch s) p = Some (Hh x))); discriminate.
Qed.

Lemma name_ok_not_conflict s q l : name_ok s q l -> conflict s q = None.
Proof.
  intros (Ha & Hb & _). destruct (conflict s q) as [[q' l']|] eqn:E'; [|reflexivity]. exfalso.
  pose proof E' as E''. apply conflict_spec in E'' as (x & y & Ea & Eb & _).
  pose proof (conflict_digests_differ _ _ _ _ _ _ E' Ea Eb) as N.
  destruct Ha as [Ha|Ha], Hb as [Hb|Hb]; congruence.
Qed.

(** a conflict name that is a key of a tree ends up holding the loser *)
Lemma name_ok_fin s q l : name_ok s q l -> q ∈ keys s -> fin s q = Some l.
Proof.
  intros (Ha & Hb & Hz) Hq. apply elem_of_keys in Hq. unfold fin, final_content.
  destruct Ha as [Ha|Ha], Hb as [Hb|Hb]; rewrite Ha, Hb in *.
  - destruct Hq as [[? ?]|[? ?]]; discriminate.
  - destruct Hz as [?|Hz]; [discriminate|]. rewrite decide_False by exact Hz. reflexivity.
  - destruct Hz as [?|Hz]; [discriminate|]. rewrite decide_False by exact Hz. reflexivity.
  - rewrite decide_True by reflexivity. reflexivity.
Qed.

(** under (1) of [Fresh] a conflict name is never a both-changed path *)
Lemma fresh_name_not_conflict s p q l :
  Fresh s -> conflict s p = Some (q, l) -> conflict s q = None.
Proof. intros [F1 _] E. eapply name_ok_not_conflict, F1, E. Qed.

Lemma fresh_name_ne s p q l : Fresh s -> conflict s p = Some (q, l) -> q <> p.
Proof. intros F E ->. rewrite (fresh_name_not_conflict _ _ _ _ F E) in E. discriminate. Qed.

Lemma fresh_name_fin s p q l :
  Fresh s -> conflict s p = Some (q, l) -> q ∈ keys s -> fin s q = Some l.
Proof. intros [F1 _] E Hq. eapply name_ok_fin; eauto. Qed.

(** "is [x] a conflict name generated by the run from [s]?" is decidable *)
Lemma conflict_name_dec s x :
  {pl : K * content | conflict s pl.1 = Some (x, pl.2)} + {forall p l, conflict s p <> Some (x, l)}.
Proof.
  set (P := fun p : K => fst <$> conflict s p = Some x).
  destruct (decide (Exists P (elements (dom (tA s))))) as [Y|N].
  - left. apply Exists_exists in Y.
    assert (X : exists p, fst <$> conflict s p = Some x) by (destruct Y as (p & _ & Y); eauto).
    clear Y.
    destruct (list_find P (elements (dom (tA s)))) as [[i p]|] eqn:F.
    + apply list_find_Some in F as (_ & Hp & _). unfold P in Hp.
      destruct (conflict s p) as [[q l]|] eqn:E; [|discriminate]. simpl in Hp. injection Hp as ->.
      exists (p, l). exact E.
    + exfalso. destruct X as (p & Hp). apply list_find_None in F. rewrite Forall_forall in F.
      apply (F p); [|exact Hp]. apply elem_of_elements, elem_of_dom.
      destruct (conflict s p) as [[q l]|] eqn:E; [|discriminate].
      apply conflict_spec in E as (cx & _ & -> & _). eauto.
  - right. intros p l E. apply N, Exists_exists. exists p. split.
    + apply elem_of_elements, elem_of_dom. apply conflict_spec in E as (cx & _ & -> & _). eauto.
    + unfold P. rewrite E. reflexivity.
Qed.

(** ** One step of the apply loop, per key *)

Definition kstep (s : state) (w : work) (p : K) : work :=
  match act_at s p with
  | Some act => apply (scan (tA s)) (scan (tB s)) w (p, act)
  | None => w
  end.

Lemma foldl_plan s w l :
  foldl (apply (scan (tA s)) (scan (tB s))) w
    (omap (fun p => match rpath (scan (tA s) !! p) (scan (tB s) !! p) (base_at (arch s) p) with
                    | Some act => Some (p, act) | None => None end) l)
  = foldl (kstep s) w l.
Proof.
  revert w. induction l as [|p l IH]; intros w; [reflexivity|]. cbn [omap list_omap foldl].
  unfold kstep at 2. rewrite act_at_scan. destruct (act_at s p) as [act|]; cbn [foldl]; apply IH.
Qed.

(** pointwise description of a map after the step for key [p]: the conflict name
    (if the step is a both-changed conflict) holds [l], [p] holds [v], the rest is
    untouched *)
Definition upd {V} (m : gmap K V) (p : K) (v : option V) (cq : option (K * V)) (x : K) : option V :=
  match cq with
  | Some (q, l) => if decide (x = q) then Some l else if decide (x = p) then v else m !! x
  | None => if decide (x = p) then v else m !! x
  end.

Ltac lk := repeat first [ rewrite lookup_insert | rewrite lookup_insert_ne by congruence
                        | rewrite lookup_delete | rewrite lookup_delete_ne by congruence ].
Ltac updx := intros x0; unfold upd; repeat case_decide; subst; lk; repeat split; congruence.

Lemma kstep_effect s w p :
  HashOk s ->
  (forall q l, conflict s p = Some (q, l) -> q <> p) ->
  p ∈ keys s ->
  wErr w = false ->
  wA w !! p = tA s !! p -> wB w !! p = tB s !! p ->
  (wC w !! p = base_at (arch s) p \/
   exists l, tA s !! p = Some l /\ tB s !! p = Some l /\ wC w !! p = Some (Hh l)) ->
  wErr (kstep s w p) = false /\
  wConf (kstep s w p) = (if conflict s p then S (wConf w) else wConf w) /\
  forall x,
    wA (kstep s w p) !! x = upd (wA w) p (fin s p) (conflict s p) x /\
    wB (kstep s w p) !! x = upd (wB w) p (fin s p) (conflict s p) x /\
    wC (kstep s w p) !! x = upd (wC w) p (Hh <$> fin s p) (prod_map id Hh <$> conflict s p) x.
Proof.
  intros Hok Hq Hk He HA HB HC. apply elem_of_keys in Hk.
  unfold kstep, conflict, fin, final_content, act_at in *. unfold Bisync.scan.
  destruct (tA s !! p) as [cx|] eqn:EA, (tB s !! p) as [cy|] eqn:EB; cbn [fmap option_fmap option_map rpath] in *.
  - (* present on both sides *)
    destruct (decide (Hh cx = Hh cy)) as [E|N].
    + assert (cy = cx) as -> by (symmetry; eapply Hok; eauto).
      destruct (decide (base_at (arch s) p = Some (Hh cx))) as [Ez|Nz].
      * (* Noop *) split; [assumption|]. split; [reflexivity|]. simpl.
        destruct HC as [HC|(l & [= <-] & _ & HC)]; updx.
      * (* Converge *) unfold Bisync.apply. rewrite He. cbn.
        rewrite lookup_fmap, EA. cbn. split; [reflexivity|]. split; [reflexivity|]. updx.
    + destruct (decide (base_at (arch s) p = Some (Hh cy))) as [Ey|Ny].
      * (* only A changed *)
        rewrite (bool_decide_eq_false_2 (base_at (arch s) p <> Some (Hh cy))) by (intros X; apply X, Ey).
        rewrite (bool_decide_eq_true_2 (base_at (arch s) p <> Some (Hh cx))) by (rewrite Ey; congruence).
        unfold Bisync.apply, Bisync.copy. rewrite He. cbn. rewrite HA, lookup_fmap, EA. cbn.
        split; [reflexivity|]. split; [reflexivity|]. updx.
      * rewrite (bool_decide_eq_true_2 (base_at (arch s) p <> Some (Hh cy))) by assumption.
        destruct (decide (base_at (arch s) p = Some (Hh cx))) as [Ex|Nx].
        -- (* only B changed *)
           rewrite (bool_decide_eq_false_2 (base_at (arch s) p <> Some (Hh cx))) by (intros X; apply X, Ex).
           unfold Bisync.apply, Bisync.copy. rewrite He. cbn. rewrite HB, lookup_fmap, EB. cbn.
           split; [reflexivity|]. split; [reflexivity|]. updx.
        -- (* both changed *)
           rewrite (bool_decide_eq_true_2 (base_at (arch s) p <> Some (Hh cx))) by assumption.
           rewrite (bool_decide_eq_true_2 (base_at (arch s) p <> Some (Hh cx))) in Hq by assumption.
           rewrite (bool_decide_eq_true_2 (base_at (arch s) p <> Some (Hh cy))) in Hq by assumption.
           cbn in Hq. specialize (Hq _ _ eq_refl).
           unfold Bisync.apply, Bisync.copy. rewrite He. cbn. rewrite !lookup_fmap, EA, EB. cbn.
           unfold loser, winner in *. destruct (dge (Hh cx) (Hh cy)).
           ++ rewrite HB. rewrite lookup_insert_ne by congruence. rewrite HB.
              rewrite lookup_insert_ne by congruence. rewrite HA. cbn.
              split; [reflexivity|]. split; [reflexivity|]. updx.
           ++ rewrite HA. rewrite lookup_insert_ne by congruence. rewrite HA.
              rewrite lookup_insert_ne by congruence. rewrite HB. cbn.
              split; [reflexivity|]. split; [reflexivity|]. updx.
  - (* on A only *)
    destruct HC as [HC|(l & _ & [=] & _)].
    destruct (base_at (arch s) p) as [zv|] eqn:Ez.
    + destruct (decide (Hh cx = zv)) as [<-|Nz].
      * (* DelA *) rewrite decide_True by reflexivity.
        unfold Bisync.apply. rewrite He. cbn. split; [reflexivity|]. split; [reflexivity|]. updx.
      * (* delete-vs-modify, A survives *) rewrite decide_False by congruence.
        unfold Bisync.apply, Bisync.copy. rewrite He. cbn. rewrite !lookup_fmap, EA, HA. cbn.
        split; [reflexivity|]. split; [reflexivity|]. updx.
    + rewrite decide_False by discriminate.
      unfold Bisync.apply, Bisync.copy. rewrite He. cbn. rewrite HA, !lookup_fmap, EA. cbn.
      split; [reflexivity|]. split; [reflexivity|]. updx.
  - (* on B only *)
    destruct HC as [HC|(l & [=] & _)].
    destruct (base_at (arch s) p) as [zv|] eqn:Ez.
    + destruct (decide (Hh cy = zv)) as [<-|Nz].
      * rewrite decide_True by reflexivity.
        unfold Bisync.apply. rewrite He. cbn. split; [reflexivity|]. split; [reflexivity|]. updx.
      * rewrite decide_False by congruence.
        unfold Bisync.apply, Bisync.copy. rewrite He. cbn. rewrite !lookup_fmap, EA, EB, HB. cbn.
        split; [reflexivity|]. split; [reflexivity|]. updx.
    + rewrite decide_False by discriminate.
      unfold Bisync.apply, Bisync.copy. rewrite He. cbn. rewrite HB, !lookup_fmap, EB. cbn.
      split; [reflexivity|]. split; [reflexivity|]. updx.
  - destruct Hk as [[? ?]|[? ?]]; discriminate.
Qed.

(** the same, as a three-way case split on the looked-up path *)
Lemma kstep_cases s w p :
  HashOk s -> Fresh s -> p ∈ keys s -> wErr w = false ->
  wA w !! p = tA s !! p -> wB w !! p = tB s !! p ->
  (wC w !! p = base_at (arch s) p \/
   exists l, tA s !! p = Some l /\ tB s !! p = Some l /\ wC w !! p = Some (Hh l)) ->
  wErr (kstep s w p) = false /\
  wConf (kstep s w p) = (if conflict s p then S (wConf w) else wConf w) /\
  forall x,
    (exists l, conflict s p = Some (x, l) /\
       wA (kstep s w p) !! x = Some l /\ wB (kstep s w p) !! x = Some l /\ wC (kstep s w p) !! x = Some (Hh l)) \/
    ((forall l, conflict s p <> Some (x, l)) /\ x = p /\
       wA (kstep s w p) !! x = fin s p /\ wB (kstep s w p) !! x = fin s p /\ wC (kstep s w p) !! x = Hh <$> fin s p) \/
    ((forall l, conflict s p <> Some (x, l)) /\ x <> p /\
       wA (kstep s w p) !! x = wA w !! x /\ wB (kstep s w p) !! x = wB w !! x /\ wC (kstep s w p) !! x = wC w !! x).
Proof.
  intros Hok F Hk He HA HB HC.
  destruct (kstep_effect s w p Hok (fun q l E => fresh_name_ne s p q l F E) Hk He HA HB HC) as (E1 & E2 & E3).
  split; [exact E1|]. split; [exact E2|]. intros x. destruct (E3 x) as (-> & -> & ->). clear E1 E2 E3.
  destruct (conflict s p) as [[q l]|]; cbn; unfold upd.
  - destruct (decide (x = q)) as [->|Nq].
    + left. exists l. auto.
    + right. destruct (decide (x = p)) as [->|Np]; [left|right]; (split; [intros l' [= ? ?]; congruence|auto]).
  - right. destruct (decide (x = p)) as [->|Np]; [left|right]; (split; [intros l' [=]|auto]).
Qed.

(** the step for a key that a processed conflict has already overwritten with its
    loser (the key is that conflict's name): nothing changes any more *)
Lemma kstep_named s w p l :
  name_ok s p l -> p ∈ keys s -> wErr w = false ->
  wA w !! p = Some l -> wB w !! p = Some l -> wC w !! p = Some (Hh l) ->
  wErr (kstep s w p) = false /\ wConf (kstep s w p) = wConf w /\
  forall x, wA (kstep s w p) !! x = wA w !! x /\ wB (kstep s w p) !! x = wB w !! x /\
            wC (kstep s w p) !! x = wC w !! x.
Proof.
  intros (Ha & Hb & Hz) Hk He HA HB HC. apply elem_of_keys in Hk.
  assert (U : forall {V} (m : gmap K V) (v : V) x, m !! p = Some v -> <[p := v]> m !! x = m !! x).
  { intros V m v x Hm. destruct (decide (x = p)) as [->|N]; [rewrite lookup_insert; congruence|].
    rewrite lookup_insert_ne by congruence. reflexivity. }
  unfold kstep, act_at. unfold Bisync.scan.
  destruct Ha as [Ha|Ha], Hb as [Hb|Hb]; rewrite Ha, Hb in *; cbn [fmap option_fmap option_map rpath].
  - destruct Hk as [[? ?]|[? ?]]; discriminate.
  - destruct Hz as [?|Hz]; [discriminate|].
    assert (R : forall (r : option action),
               match base_at (arch s) p with
               | Some zv => if decide (Hh l = zv) then Some DelB else Some ConfDelMod
               | None => Some PropBA end = r -> r = Some PropBA \/ r = Some ConfDelMod).
    { intros r <-. destruct (base_at (arch s) p) as [zv|]; [|auto]. rewrite decide_False by congruence. auto. }
    destruct (R _ eq_refl) as [->| ->]; unfold Bisync.apply, Bisync.copy; rewrite He; cbn;
      rewrite !lookup_fmap, ?Ha, Hb, HB; cbn; (split; [reflexivity|]); (split; [reflexivity|]);
      intros x; rewrite !U by assumption; auto.
  - destruct Hz as [?|Hz]; [discriminate|].
    assert (R : forall (r : option action),
               match base_at (arch s) p with
               | Some zv => if decide (Hh l = zv) then Some DelA else Some ConfDelMod
               | None => Some PropAB end = r -> r = Some PropAB \/ r = Some ConfDelMod).
    { intros r <-. destruct (base_at (arch s) p) as [zv|]; [|auto]. rewrite decide_False by congruence. auto. }
    destruct (R _ eq_refl) as [->| ->]; unfold Bisync.apply, Bisync.copy; rewrite He; cbn;
      rewrite !lookup_fmap, Ha, HA; cbn; (split; [reflexivity|]); (split; [reflexivity|]);
      intros x; rewrite !U by assumption; auto.
  - rewrite decide_True by reflexivity. destruct (decide (base_at (arch s) p = Some (Hh l))).
    + auto.
    + unfold Bisync.apply. rewrite He. cbn. rewrite lookup_fmap, Ha. cbn.
      split; [reflexivity|]. split; [reflexivity|]. intros x. rewrite U by assumption. auto.
Qed.

(** ** The invariant of the apply loop *)

Record Inv (s : state) (done : gset K) (w : work) : Prop := {
  inv_err : wErr w = false;
  inv_conf : wConf w <> 0 <-> exists p, p ∈ done /\ conflict s p <> None;
  (* conflict names of processed conflicts hold the loser, recorded *)
  inv_name : forall p q l, p ∈ done -> conflict s p = Some (q, l) ->
    wA w !! q = Some l /\ wB w !! q = Some l /\ wC w !! q = Some (Hh l);
  (* processed keys have their final values *)
  inv_done : forall x, x ∈ done ->
    wA w !! x = fin s x /\ wB w !! x = fin s x /\ wC w !! x = Hh <$> fin s x;
  (* an unprocessed key is untouched - or it is the conflict name of a processed
     conflict and already holds the loser, recorded *)
  inv_todo : forall x, x ∈ keys s -> x ∉ done ->
    (wA w !! x = tA s !! x /\ wB w !! x = tB s !! x /\ wC w !! x = base_at (arch s) x) \/
    (exists l, name_ok s x l /\ wA w !! x = Some l /\ wB w !! x = Some l /\ wC w !! x = Some (Hh l));
  (* everything else is absent and unrecorded *)
  inv_out : forall x, x ∉ keys s -> (forall p l, p ∈ done -> conflict s p <> Some (x, l)) ->
    wA w !! x = None /\ wB w !! x = None /\ wC w !! x = None;
}.

Definition w0 (s : state) : work :=
  {| wA := tA s; wB := tB s; wC := c0 s; wConf := 0; wErr := false |}.

Lemma inv_init s : Inv s ∅ (w0 s).
Proof.
  split; cbn.
  - reflexivity.
  - split; [intros X; exfalso; apply X; reflexivity|]. intros (p & Hp & _). set_solver.
  - intros p q l Hp. set_solver.
  - intros x Hx. set_solver.
  - intros x Hx _. left. split; [reflexivity|]. split; [reflexivity|]. apply c0_lookup_in, Hx.
  - intros x Hx _. pose proof (c0_lookup_out s x Hx) as Ec. apply not_elem_of_keys in Hx as [Ha Hb]. auto.
Qed.

Lemma inv_step s done w p :
  HashOk s -> Fresh s -> done ⊆ keys s -> p ∈ keys s -> p ∉ done ->
  Inv s done w -> Inv s ({[p]} ∪ done) (kstep s w p).
Proof.
  intros Hok F Hsub Hk Hnd [Ie Ic In Id It Io].
  destruct (It p Hk Hnd) as [(HA & HB & HC)|(l0 & Hn & HA & HB & HC)].
  - (* [p] still holds what the scan saw *)
    destruct (kstep_cases s w p Hok F Hk Ie HA HB (or_introl HC)) as (E1 & E2 & E3).
    split.
    + exact E1.
    + rewrite E2. destruct (conflict s p) as [[q l]|] eqn:Ec.
      * split; [|intros _ X; discriminate X]. intros _. exists p. split; [set_solver|congruence].
      * rewrite Ic. split; intros (p' & Hp' & Hc); exists p'; (split; [|exact Hc]); [set_solver|].
        apply elem_of_union in Hp' as [Hp'|Hp']; [|exact Hp']. apply elem_of_singleton in Hp'. congruence.
    + intros p' q l Hp' Ec'.
      destruct (E3 q) as [(l2 & Ec & -> & -> & ->)|[(Nc & -> & -> & -> & ->)|(Nc & Nq & -> & -> & ->)]].
      * assert (p' = p) as -> by (eapply (proj2 F); eauto). rewrite Ec in Ec'. injection Ec' as ->. auto.
      * rewrite (fresh_name_fin s p' p l F Ec' Hk). auto.
      * apply (In p'); [|exact Ec']. apply elem_of_union in Hp' as [Hp'|Hp']; [|exact Hp'].
        apply elem_of_singleton in Hp'. subst p'. exfalso. exact (Nc _ Ec').
    + intros x Hx.
      assert (Hxk : x ∈ keys s).
      { apply elem_of_union in Hx as [Hx|Hx]; [apply elem_of_singleton in Hx; congruence|apply Hsub, Hx]. }
      destruct (E3 x) as [(l2 & Ec & -> & -> & ->)|[(Nc & -> & -> & -> & ->)|(Nc & Nq & -> & -> & ->)]].
      * rewrite (fresh_name_fin s p x l2 F Ec Hxk). auto.
      * auto.
      * apply Id. apply elem_of_union in Hx as [Hx|Hx]; [|exact Hx]. apply elem_of_singleton in Hx. contradiction.
    + intros x Hxk Hx.
      destruct (E3 x) as [(l2 & Ec & -> & -> & ->)|[(Nc & -> & _)|(Nc & Nq & -> & -> & ->)]].
      * right. exists l2. split; [exact (proj1 F _ _ _ Ec)|auto].
      * exfalso. apply Hx. set_solver.
      * apply It; [exact Hxk|]. set_solver.
    + intros x Hxk Hx.
      destruct (E3 x) as [(l2 & Ec & _)|[(Nc & -> & _)|(Nc & Nq & -> & -> & ->)]].
      * exfalso. apply (Hx p l2); [set_solver|exact Ec].
      * contradiction.
      * apply Io; [exact Hxk|]. intros p' l Hp'. apply Hx. set_solver.
  - (* [p] is the conflict name of a processed conflict: already final *)
    destruct (kstep_named s w p l0 Hn Hk Ie HA HB HC) as (E1 & E2 & E3).
    pose proof (name_ok_not_conflict s p l0 Hn) as Ec.
    assert (Hd : forall p' q l, p' ∈ {[p]} ∪ done -> conflict s p' = Some (q, l) -> p' ∈ done).
    { intros p' q l Hp' Ec'. apply elem_of_union in Hp' as [Hp'|Hp']; [|exact Hp'].
      apply elem_of_singleton in Hp'. congruence. }
    split.
    + exact E1.
    + rewrite E2, Ic. split; intros (p' & Hp' & Hc); exists p'; (split; [|exact Hc]); [set_solver|].
      destruct (conflict s p') as [[q l]|] eqn:Ec'; [eapply Hd; eauto|congruence].
    + intros p' q l Hp' Ec'. destruct (E3 q) as (-> & -> & ->). apply (In p'); [eapply Hd; eauto|exact Ec'].
    + intros x Hx. destruct (E3 x) as (-> & -> & ->).
      apply elem_of_union in Hx as [Hx|Hx]; [|apply Id, Hx]. apply elem_of_singleton in Hx. subst x.
      rewrite (name_ok_fin s p l0 Hn Hk). auto.
    + intros x Hxk Hx. destruct (E3 x) as (-> & -> & ->). apply It; [exact Hxk|]. set_solver.
    + intros x Hxk Hx. destruct (E3 x) as (-> & -> & ->). apply Io; [exact Hxk|].
      intros p' l Hp'. apply Hx. set_solver.
Qed.

Lemma fold_inv s : HashOk s -> Fresh s ->
  forall todo done w, NoDup todo -> (forall x, x ∈ todo -> x ∈ keys s /\ x ∉ done) -> done ⊆ keys s ->
  Inv s done w -> Inv s (list_to_set todo ∪ done) (foldl (kstep s) w todo).
Proof.
  intros Hok F todo. induction todo as [|p todo IH]; intros done w Hnd Hin Hsub I; cbn [foldl list_to_set].
  - rewrite (left_id_L ∅ (∪)). exact I.
  - apply NoDup_cons in Hnd as [Hp Hnd]. destruct (Hin p ltac:(left)) as [Hpk Hpd].
    replace ({[p]} ∪ list_to_set todo ∪ done) with (list_to_set todo ∪ ({[p]} ∪ done)) by set_solver.
    apply IH.
    + exact Hnd.
    + intros x Hx. destruct (Hin x ltac:(right; exact Hx)) as [Hxk Hxd]. split; [exact Hxk|].
      intros [Hx'|Hx']%elem_of_union; [|contradiction]. apply elem_of_singleton in Hx'. subst x. contradiction.
    + intros x [Hx|Hx]%elem_of_union; [apply elem_of_singleton in Hx; subst x; exact Hpk|apply Hsub, Hx].
    + apply inv_step; assumption.
Qed.

(** the working state when the loop ends *)
Definition wfinal (s : state) : work :=
  foldl (kstep s) (w0 s) (plan_keys (scan (tA s)) (scan (tB s))).

Lemma run_unfold s :
  bisync_run s =
  (if wErr (wfinal s)
   then ({| tA := wA (wfinal s); tB := wB (wfinal s); arch := arch s |}, ExitIoError,
         plan (scan (tA s)) (scan (tB s)) (arch s))
   else ({| tA := wA (wfinal s); tB := wB (wfinal s); arch := Some (wC (wfinal s)) |},
         (if decide (wConf (wfinal s) = 0) then ExitOk else ExitConflicts),
         plan (scan (tA s)) (scan (tB s)) (arch s))).
Proof.
  unfold Bisync.bisync_run. cbv zeta.
  assert (E : forall w, foldl (apply (scan (tA s)) (scan (tB s))) w (plan (scan (tA s)) (scan (tB s)) (arch s))
                        = foldl (kstep s) w (plan_keys (scan (tA s)) (scan (tB s)))) by (intros w; apply foldl_plan).
  rewrite E. reflexivity.
Qed.

Lemma final_inv s : HashOk s -> Fresh s -> Inv s (keys s) (wfinal s).
Proof.
  intros Hok F. unfold wfinal.
  pose proof (fold_inv s Hok F (plan_keys (scan (tA s)) (scan (tB s))) ∅ (w0 s)) as X.
  rewrite plan_keys_scan, (right_id_L ∅ (∪)) in X. apply X.
  - apply NoDup_plan_keys.
  - intros x Hx. split; [|set_solver]. rewrite <- plan_keys_scan. apply elem_of_list_to_set, Hx.
  - set_solver.
  - apply inv_init.
Qed.

(** ** The result of a run, path by path *)

(** what both trees hold at [x] after the run: the loser if [x] is a conflict name
    generated by this run, else the per-path result *)
Definition expected (s : state) (x : K) : option content :=
  match conflict_name_dec s x with
  | inleft pl => Some (proj1_sig pl).2
  | inright _ => fin s x
  end.

Lemma expected_name s p x l : Fresh s -> conflict s p = Some (x, l) -> expected s x = Some l.
Proof.
  intros F E. unfold expected. destruct (conflict_name_dec s x) as [[[p' l'] E']|N]; cbn in *.
  - assert (p' = p) as -> by (eapply (proj2 F); eauto). congruence.
  - exfalso. exact (N _ _ E).
Qed.

Lemma expected_other s x : (forall p l, conflict s p <> Some (x, l)) -> expected s x = fin s x.
Proof.
  intros N. unfold expected. destruct (conflict_name_dec s x) as [[[p' l'] E']|_]; [|reflexivity].
  exfalso. exact (N _ _ E').
Qed.

Lemma conflict_key s p q l : conflict s p = Some (q, l) -> p ∈ keys s.
Proof. intros E. apply conflict_spec in E as (x & _ & Ea & _). apply elem_of_keys. left. eauto. Qed.

Lemma fin_out s x : x ∉ keys s -> fin s x = None.
Proof. intros [Ha Hb]%not_elem_of_keys. unfold fin. rewrite Ha, Hb. reflexivity. Qed.

Lemma run_lookup s : HashOk s -> Fresh s -> forall x,
  wA (wfinal s) !! x = expected s x /\ wB (wfinal s) !! x = expected s x /\
  wC (wfinal s) !! x = Hh <$> expected s x.
Proof.
  intros Hok F x. destruct (final_inv s Hok F) as [_ _ In Id _ Io].
  destruct (conflict_name_dec s x) as [[[p l] E]|N].
  - cbn in E. rewrite (expected_name _ _ _ _ F E). apply (In p); [|exact E]. eapply conflict_key, E.
  - rewrite expected_other by exact N. destruct (decide (x ∈ keys s)) as [Hx|Hx].
    + apply Id, Hx.
    + rewrite (fin_out _ _ Hx). apply Io; [exact Hx|]. intros p l _. apply N.
Qed.

Lemma run_result s : HashOk s -> Fresh s ->
  bisync_run s = ({| tA := wA (wfinal s); tB := wB (wfinal s); arch := Some (wC (wfinal s)) |},
                  (if decide (wConf (wfinal s) = 0) then ExitOk else ExitConflicts),
                  plan (scan (tA s)) (scan (tB s)) (arch s)).
Proof. intros Hok F. rewrite run_unfold. rewrite (inv_err _ _ _ (final_inv s Hok F)). reflexivity. Qed.

(** Under [Fresh] a run never ends in an I/O error (every copy finds its source) *)
Lemma run_no_io_error s s' e pl :
  HashOk s -> Fresh s -> bisync_run s = (s', e, pl) -> e <> ExitIoError.
Proof.
  intros Hok F R. rewrite (run_result s Hok F) in R. injection R as _ <- _.
  destruct (decide (wConf (wfinal s) = 0)); discriminate.
Qed.

(** The central lemma *)
Lemma run_per_path s s' e pl :
  HashOk s -> Fresh s -> bisync_run s = (s', e, pl) ->
  is_Some (arch s') /\
  forall x,
    (forall p l, conflict s p = Some (x, l) ->
       tA s' !! x = Some l /\ tB s' !! x = Some l /\ base_at (arch s') x = Some (Hh l)) /\
    ((forall p l, conflict s p <> Some (x, l)) ->
       (tA s' !! x, tB s' !! x, base_at (arch s') x)
       = per_path_result (tA s !! x) (tB s !! x) (base_at (arch s) x)).
Proof.
  intros Hok F R. rewrite (run_result s Hok F) in R. injection R as <- _ _. cbn.
  split; [eauto|]. intros x. destruct (run_lookup s Hok F x) as (-> & -> & ->). split.
  - intros p l E. rewrite (expected_name _ _ _ _ F E). auto.
  - intros N. rewrite (expected_other _ _ N). reflexivity.
Qed.

(** ** C06 corollaries *)

Lemma run_converges s s' e pl :
  HashOk s -> Fresh s -> bisync_run s = (s', e, pl) -> tA s' = tB s'.
Proof.
  intros Hok F R. rewrite (run_result s Hok F) in R. injection R as <- _ _. cbn.
  apply map_eq. intros x. destruct (run_lookup s Hok F x) as (-> & -> & _). reflexivity.
Qed.

Lemma run_records_tree s s' e pl :
  HashOk s -> Fresh s -> bisync_run s = (s', e, pl) -> arch s' = Some (Hh <$> tA s').
Proof.
  intros Hok F R. rewrite (run_result s Hok F) in R. injection R as <- _ _. cbn. f_equal.
  apply map_eq. intros x. rewrite lookup_fmap. destruct (run_lookup s Hok F x) as (-> & _ & ->). reflexivity.
Qed.

Lemma omap_all_None {A B} (f : A -> option B) (l : list A) : (forall x, f x = None) -> omap f l = [].
Proof. intros Hf. induction l as [|x l IH]; [reflexivity|]. cbn. rewrite Hf. exact IH. Qed.

Lemma rpath_synced (v : option D) : rpath v v v = None.
Proof. destruct v as [d|]; [|reflexivity]. cbn. rewrite !decide_True by reflexivity. reflexivity. Qed.

(** a run from a converged, exactly recorded state plans nothing and changes nothing *)
Lemma synced_run_noop (s : state) :
  tA s = tB s -> arch s = Some (Hh <$> tA s) ->
  plan (scan (tA s)) (scan (tB s)) (arch s) = [] /\ bisync_run s = (s, ExitOk, []).
Proof.
  intros Eab Ez.
  assert (P : plan (scan (tA s)) (scan (tB s)) (arch s) = []).
  { unfold Bisync.plan. apply omap_all_None. intros p. rewrite <- Eab, Ez. cbn. unfold Bisync.scan.
    rewrite rpath_synced. reflexivity. }
  split; [exact P|]. unfold Bisync.bisync_run. cbv zeta. rewrite P. cbn.
  destruct s as [A B z]. cbn in *. subst B z. do 4 f_equal. unfold prune.
  apply map_filter_id. intros i x Hi. cbn. left. unfold Bisync.scan. eauto.
Qed.

Lemma run_idempotent s s' e pl :
  HashOk s -> Fresh s -> bisync_run s = (s', e, pl) ->
  plan (scan (tA s')) (scan (tB s')) (arch s') = [] /\ bisync_run s' = (s', ExitOk, []).
Proof.
  intros Hok F R. apply synced_run_noop.
  - eapply run_converges; eauto.
  - eapply run_records_tree; eauto.
Qed.

Lemma conflict_in_plan s p :
  (p, ConfBoth) ∈ plan (scan (tA s)) (scan (tB s)) (arch s) <-> conflict s p <> None.
Proof.
  rewrite elem_of_plan_state, <- conflict_iff_act. split.
  - intros [x E]. congruence.
  - destruct (conflict s p); [eauto|congruence].
Qed.

Lemma exit_status_spec s s' e pl :
  HashOk s -> Fresh s -> bisync_run s = (s', e, pl) ->
  (e = ExitConflicts <-> exists p, (p, ConfBoth) ∈ pl) /\
  (e = ExitOk <-> forall p, (p, ConfBoth) ∉ pl).
Proof.
  intros Hok F R. rewrite (run_result s Hok F) in R. injection R as _ <- <-.
  pose proof (inv_conf _ _ _ (final_inv s Hok F)) as Ic.
  assert (X : wConf (wfinal s) <> 0 <-> exists p, (p, ConfBoth) ∈ plan (scan (tA s)) (scan (tB s)) (arch s)).
  { rewrite Ic. split.
    - intros (p & _ & Hp). exists p. apply conflict_in_plan, Hp.
    - intros (p & Hp). exists p. apply conflict_in_plan in Hp. split; [|exact Hp].
      destruct (conflict s p) as [[q l]|] eqn:E; [eapply conflict_key, E|congruence]. }
  destruct (decide (wConf (wfinal s) = 0)) as [Z|NZ].
  - split; split; try discriminate.
    + intros Y. apply X in Y. contradiction.
    + intros _ p Hp. apply (proj2 X); eauto.
    + reflexivity.
  - split; split; try discriminate.
    + intros _. apply X, NZ.
    + reflexivity.
    + intros Y. exfalso. apply X in NZ as (p & Hp). exact (Y p Hp).
Qed.

(** the both-changed decision, spelled out *)
Lemma rpath_both_changed (dx dy : D) (z : option D) :
  rpath (Some dx) (Some dy) z = Some ConfBoth <-> dx <> dy /\ z <> Some dx /\ z <> Some dy.
Proof.
  cbn. destruct (decide (dx = dy)) as [E|N].
  - destruct (decide (z = Some dx)); split; try discriminate; intros (? & _); contradiction.
  - destruct (decide (z = Some dx)) as [Ex|Nx], (decide (z = Some dy)) as [Ey|Ny].
    + congruence.
    + rewrite (bool_decide_eq_false_2 (z <> Some dx)) by tauto.
      rewrite (bool_decide_eq_true_2 (z <> Some dy)) by tauto. split; [discriminate|tauto].
    + rewrite (bool_decide_eq_true_2 (z <> Some dx)) by tauto.
      rewrite (bool_decide_eq_false_2 (z <> Some dy)) by tauto. split; [discriminate|tauto].
    + rewrite (bool_decide_eq_true_2 (z <> Some dx)) by tauto.
      rewrite (bool_decide_eq_true_2 (z <> Some dy)) by tauto. tauto.
Qed.

Lemma conflict_changed s p q l :
  conflict s p = Some (q, l) <->
  exists x y, tA s !! p = Some x /\ tB s !! p = Some y /\
    Hh x <> Hh y /\ base_at (arch s) p <> Some (Hh x) /\ base_at (arch s) p <> Some (Hh y) /\
    l = loser x y /\ q = cname p (Hh l).
Proof.
  rewrite conflict_spec. split.
  - intros (x & y & Ea & Eb & R & El & Eq). exists x, y. unfold act_at in R. rewrite Ea, Eb in R.
    apply rpath_both_changed in R. tauto.
  - intros (x & y & Ea & Eb & N1 & N2 & N3 & El & Eq). exists x, y. unfold act_at. rewrite Ea, Eb.
    rewrite (proj2 (rpath_both_changed (Hh x) (Hh y) _)); tauto.
Qed.

Lemma fin_both_changed s p x y :
  tA s !! p = Some x -> tB s !! p = Some y ->
  Hh x <> Hh y -> base_at (arch s) p <> Some (Hh x) -> base_at (arch s) p <> Some (Hh y) ->
  fin s p = Some (winner x y).
Proof.
  intros Ea Eb N1 N2 N3. unfold fin, final_content. rewrite Ea, Eb. rewrite !decide_False by assumption. reflexivity.
Qed.

Lemma conflict_resolution s s' e pl p :
  HashOk s -> Fresh s -> bisync_run s = (s', e, pl) -> (p, ConfBoth) ∈ pl ->
  exists x y, tA s !! p = Some x /\ tB s !! p = Some y /\ Hh x <> Hh y /\
    let w := if dge (Hh x) (Hh y) then x else y in
    let l := if dge (Hh x) (Hh y) then y else x in
    tA s' !! p = Some w /\ tB s' !! p = Some w /\
    tA s' !! cname p (Hh l) = Some l /\ tB s' !! cname p (Hh l) = Some l.
Proof.
  intros Hok F R Hp. pose proof (run_per_path s s' e pl Hok F R) as [_ PP].
  rewrite (run_result s Hok F) in R. injection R as _ _ <-.
  apply conflict_in_plan in Hp. destruct (conflict s p) as [[q l]|] eqn:E; [clear Hp|congruence].
  pose proof E as E'. apply conflict_changed in E' as (x & y & Ea & Eb & N1 & N2 & N3 & -> & ->).
  exists x, y. split; [exact Ea|]. split; [exact Eb|]. split; [exact N1|]. cbv zeta.
  fold (winner x y) (loser x y).
  destruct (proj1 (PP _) _ _ E) as (Q1 & Q2 & _).
  assert (Np : forall p' l', conflict s p' <> Some (p, l')).
  { intros p' l' E'. rewrite (fresh_name_not_conflict _ _ _ _ F E') in E. discriminate. }
  pose proof (proj2 (PP p) Np) as Q. unfold per_path_result in Q.
  fold (fin s p) in Q. rewrite (fin_both_changed s p x y Ea Eb N1 N2 N3) in Q. injection Q as -> -> _. auto.
Qed.

(** ** Naming the directories in the other order *)

Definition swap_state (s : state) : state := {| tA := tB s; tB := tA s; arch := arch s |}.

(** [dge] is a comparison of a total order: on DIFFERENT digests exactly one of the
    two directions holds (true of the byte-wise [>=] on 32-byte arrays).  Ties need
    no premise: a both-changed conflict always has two different digests. *)
Definition dge_asym : Prop := forall d d' : D, d <> d' -> dge d' d = negb (dge d d').

Lemma loser_swap x y : dge_asym -> Hh x <> Hh y -> loser y x = loser x y.
Proof. intros As N. unfold loser. rewrite (As (Hh x) (Hh y) N). destruct (dge (Hh x) (Hh y)); reflexivity. Qed.

Lemma winner_swap x y : dge_asym -> Hh x <> Hh y -> winner y x = winner x y.
Proof. intros As N. unfold winner. rewrite (As (Hh x) (Hh y) N). destruct (dge (Hh x) (Hh y)); reflexivity. Qed.

Lemma conflict_swap s p : dge_asym -> conflict (swap_state s) p = conflict s p.
Proof.
  intros As.
  assert (X : forall s0 q l, conflict s0 p = Some (q, l) -> conflict (swap_state s0) p = Some (q, l)).
  { intros s0 q l E. apply conflict_changed in E as (x & y & Ea & Eb & N1 & N2 & N3 & -> & ->).
    apply conflict_changed. exists y, x. cbn. rewrite (loser_swap x y As N1). auto 10. }
  destruct (conflict s p) as [[q l]|] eqn:E; [apply X, E|].
  destruct (conflict (swap_state s) p) as [[q l]|] eqn:E'; [|reflexivity].
  apply X in E'. destruct s. unfold swap_state in E'. cbn in E'. congruence.
Qed.

Lemma fin_swap s p : dge_asym -> HashOk s -> fin (swap_state s) p = fin s p.
Proof.
  intros As Hok. unfold fin, final_content. cbn.
  destruct (tA s !! p) as [x|] eqn:Ea, (tB s !! p) as [y|] eqn:Eb; try reflexivity.
  destruct (decide (Hh x = Hh y)) as [E|N].
  - rewrite decide_True by congruence. f_equal. symmetry. eapply Hok; eauto.
  - rewrite (decide_False (P := Hh y = Hh x)) by congruence.
    destruct (decide (base_at (arch s) p = Some (Hh x))) as [Ex|Nx],
             (decide (base_at (arch s) p = Some (Hh y))) as [Ey|Ny]; try reflexivity; [congruence|].
    rewrite (winner_swap x y As N). reflexivity.
Qed.

Lemma HashOk_swap s : HashOk s -> HashOk (swap_state s).
Proof. intros Hok p x y Ea Eb E. cbn in *. symmetry. eapply Hok; eauto. Qed.

Lemma Fresh_swap s : dge_asym -> Fresh s -> Fresh (swap_state s).
Proof.
  intros As [F1 F2]. split.
  - intros p q l E. rewrite conflict_swap in E by exact As. destruct (F1 p q l E) as (Ha & Hb & Hz).
    unfold name_ok. cbn. split; [exact Hb|]. split; [exact Ha|]. destruct Hz; auto.
  - intros p1 p2 q l1 l2 E1 E2. rewrite conflict_swap in E1, E2 by exact As. eauto.
Qed.

Lemma expected_swap s x : dge_asym -> HashOk s -> Fresh s -> expected (swap_state s) x = expected s x.
Proof.
  intros As Hok F. destruct (conflict_name_dec s x) as [[[p l] E]|N].
  - cbn in E. rewrite (expected_name s p x l F E). apply (expected_name _ p); [apply Fresh_swap; assumption|].
    rewrite conflict_swap by exact As. exact E.
  - rewrite (expected_other s x N), expected_other; [apply fin_swap; assumption|].
    intros p l. rewrite conflict_swap by exact As. apply N.
Qed.

Lemma swap_symmetric s s' e pl :
  dge_asym -> HashOk s -> Fresh s -> bisync_run s = (s', e, pl) ->
  exists pl', bisync_run (swap_state s) = (swap_state s', e, pl').
Proof.
  intros As Hok F R. rewrite (run_result s Hok F) in R. injection R as <- <- _.
  pose proof (HashOk_swap s Hok) as Hok'. pose proof (Fresh_swap s As F) as F'.
  rewrite (run_result _ Hok' F'). eexists. f_equal. f_equal.
  - change (swap_state {| tA := wA (wfinal s); tB := wB (wfinal s); arch := Some (wC (wfinal s)) |})
      with ({| tA := wB (wfinal s); tB := wA (wfinal s); arch := Some (wC (wfinal s)) |} : state).
    f_equal.
    + apply map_eq. intros x. destruct (run_lookup _ Hok' F' x) as (-> & _ & _).
      destruct (run_lookup _ Hok F x) as (_ & -> & _). apply expected_swap; assumption.
    + apply map_eq. intros x. destruct (run_lookup _ Hok' F' x) as (_ & -> & _).
      destruct (run_lookup _ Hok F x) as (-> & _ & _). apply expected_swap; assumption.
    + f_equal. apply map_eq. intros x. destruct (run_lookup _ Hok' F' x) as (_ & _ & ->).
      destruct (run_lookup _ Hok F x) as (_ & _ & ->). f_equal. apply expected_swap; assumption.
  - pose proof (inv_conf _ _ _ (final_inv s Hok F)) as Ic.
    pose proof (inv_conf _ _ _ (final_inv _ Hok' F')) as Ic'.
    assert (X : wConf (wfinal (swap_state s)) <> 0 <-> wConf (wfinal s) <> 0).
    { rewrite Ic, Ic'. unfold keys. cbn. split; intros (p & Hp & Hc); exists p.
      - rewrite conflict_swap in Hc by exact As. split; [set_solver|exact Hc].
      - rewrite conflict_swap by exact As. split; [set_solver|exact Hc]. }
    destruct (decide (wConf (wfinal (swap_state s)) = 0)), (decide (wConf (wfinal s) = 0)); tauto.
Qed.

(** ** C02: no version is lost *)

Definition side_tree (sd : side) (s : state) : gmap K content :=
  match sd with SA => tA s | SB => tB s end.
Definition other (sd : side) : side := match sd with SA => SB | SB => SA end.

(** [c], held at [p] before the run from [s], is on BOTH sides after it: at [p], or
    at the conflict name this run generated for [p] with loser [c] *)
Definition kept (s s' : state) (p : K) (c : content) : Prop :=
  exists x, (x = p \/ conflict s p = Some (x, c)) /\ tA s' !! x = Some c /\ tB s' !! x = Some c.

(** [c] at [p] on side [sd] is the recorded version and the other side has since
    changed or deleted the path *)
Definition superseded (s : state) (sd : side) (p : K) (c : content) : Prop :=
  exists z, arch s = Some z /\ z !! p = Some (Hh c) /\ side_tree (other sd) s !! p <> Some c.

Lemma base_at_Some (base : option (gmap K D)) p d :
  base_at base p = Some d -> exists z, base = Some z /\ z !! p = Some d.
Proof. destruct base as [z|]; cbn; [eauto|discriminate]. Qed.

Lemma run_no_loss s s' e pl :
  HashOk s -> Fresh s -> bisync_run s = (s', e, pl) ->
  forall sd p c, side_tree sd s !! p = Some c -> kept s s' p c \/ superseded s sd p c.
Proof.
  intros Hok F R sd p c Hc. rewrite (run_result s Hok F) in R. injection R as <- _ _.
  unfold kept, superseded. cbn.
  assert (Hk : p ∈ keys s) by (apply elem_of_keys; destruct sd; cbn in Hc; eauto).
  assert (L : forall x, (x = p \/ conflict s p = Some (x, c)) -> expected s x = Some c ->
              exists x, (x = p \/ conflict s p = Some (x, c)) /\
                        wA (wfinal s) !! x = Some c /\ wB (wfinal s) !! x = Some c).
  { intros x Hx Ex. exists x. destruct (run_lookup s Hok F x) as (-> & -> & _). auto. }
  destruct (conflict_name_dec s p) as [[[p' l] E]|N].
  - (* [p] is itself a conflict name of this run: it held the loser on both sides *)
    cbn in E. destruct (proj1 F _ _ _ E) as (Ha & Hb & _).
    assert (c = l) as -> by (destruct sd; cbn in Hc; [destruct Ha|destruct Hb]; congruence).
    left. apply (L p); [auto|]. apply (expected_name _ _ _ _ F E).
  - pose proof (expected_other s p N) as Ep. unfold fin, final_content in Ep.
    destruct sd; cbn in Hc |- *.
    + rewrite Hc in Ep. destruct (tB s !! p) as [y|] eqn:Eb.
      * destruct (decide (Hh c = Hh y)) as [E1|N1]; [left; apply (L p); auto|].
        destruct (decide (base_at (arch s) p = Some (Hh y))) as [E2|N2]; [left; apply (L p); auto|].
        destruct (decide (base_at (arch s) p = Some (Hh c))) as [E3|N3].
        { right. apply base_at_Some in E3 as (z & -> & Ez). exists z. split; [reflexivity|]. split; [exact Ez|]. congruence. }
        assert (Ec : conflict s p = Some (cname p (Hh (loser c y)), loser c y)).
        { apply conflict_changed. exists c, y. auto 10. }
        left. unfold winner in Ep. unfold loser in Ec. destruct (dge (Hh c) (Hh y)).
        -- apply (L p); auto.
        -- apply (L (cname p (Hh c))); [auto|]. apply (expected_name _ _ _ _ F Ec).
      * destruct (decide (base_at (arch s) p = Some (Hh c))) as [E3|N3]; [|left; apply (L p); auto].
        right. apply base_at_Some in E3 as (z & -> & Ez). exists z. split; [reflexivity|]. split; [exact Ez|]. congruence.
    + rewrite Hc in Ep. destruct (tA s !! p) as [x|] eqn:Ea.
      * destruct (decide (Hh x = Hh c)) as [E1|N1].
        { left. apply (L p); [auto|]. rewrite Ep. f_equal. eapply Hok; eauto. }
        destruct (decide (base_at (arch s) p = Some (Hh c))) as [E2|N2].
        { right. apply base_at_Some in E2 as (z & -> & Ez). exists z. split; [reflexivity|]. split; [exact Ez|]. congruence. }
        destruct (decide (base_at (arch s) p = Some (Hh x))) as [E3|N3]; [left; apply (L p); auto|].
        assert (Ec : conflict s p = Some (cname p (Hh (loser x c)), loser x c)).
        { apply conflict_changed. exists x, c. auto 10. }
        left. unfold winner in Ep. unfold loser in Ec. destruct (dge (Hh x) (Hh c)).
        -- apply (L (cname p (Hh c))); [auto|]. apply (expected_name _ _ _ _ F Ec).
        -- apply (L p); auto.
      * destruct (decide (base_at (arch s) p = Some (Hh c))) as [E3|N3]; [|left; apply (L p); auto].
        right. apply base_at_Some in E3 as (z & -> & Ez). exists z. split; [reflexivity|]. split; [exact Ez|]. congruence.
Qed.

(** ** Histories *)

Notation hop := (@hop K).
Notation hstep := (hstep Hh dge cname kle).
Notation hrun := (hrun Hh dge cname kle).

(** every run of the history starts in a state of the "no name clash" class *)
Fixpoint fresh_hist (s : state) (ops : list hop) : Prop :=
  match ops with
  | [] => True
  | o :: r => (o = HRun -> Fresh s) /\ fresh_hist (hstep s o) r
  end.

Definition is_user_op (o : hop) : Prop :=
  match o with HWrite _ _ _ | HDelete _ _ => True | HRun | HFault => False end.

Lemma hrun_app s l1 l2 : hrun s (l1 ++ l2) = hrun (hrun s l1) l2.
Proof. apply foldl_app. Qed.

Lemma hrun_snoc s l o : hrun s (l ++ [o]) = hstep (hrun s l) o.
Proof. rewrite hrun_app. reflexivity. Qed.

Lemma fresh_hist_app s l1 l2 : fresh_hist s (l1 ++ l2) <-> fresh_hist s l1 /\ fresh_hist (hrun s l1) l2.
Proof.
  revert s. induction l1 as [|o l1 IH]; intros s; cbn.
  - tauto.
  - rewrite IH. tauto.
Qed.

Lemma user_op_arch s o : is_user_op o -> arch (hstep s o) = arch s.
Proof. destruct o as [[] ? ?|[] ?| |]; cbn; tauto. Qed.

Definition Hinj : Prop := forall c c' : content, Hh c = Hh c' -> c = c'.

Lemma Hinj_HashOk s : Hinj -> HashOk s.
Proof. intros Hi p x y _ _ E. apply Hi, E. Qed.

(** after a completed run the record is exactly the (common) tree *)
Lemma run_arch_truthful s :
  HashOk s -> Fresh s ->
  tA (hstep s HRun) = tB (hstep s HRun) /\ arch (hstep s HRun) = Some (Hh <$> tA (hstep s HRun)).
Proof.
  intros Hok F. cbn. destruct (bisync_run s) as [[s' e] pl] eqn:R. cbn. split.
  - eapply run_converges; eauto.
  - eapply run_records_tree; eauto.
Qed.

(** whenever the record is trusted it is the tree both sides held at the end of
    the most recent run, and nothing but user writes / deletes happened since *)
Lemma arch_origin s0 ops z :
  Hinj -> arch s0 = None -> fresh_hist s0 ops -> arch (hrun s0 ops) = Some z ->
  exists pre post, ops = pre ++ HRun :: post /\ Forall is_user_op post /\
    tA (hrun s0 (pre ++ [HRun])) = tB (hrun s0 (pre ++ [HRun])) /\
    z = Hh <$> tA (hrun s0 (pre ++ [HRun])).
Proof.
  intros Hi H0. revert z. induction ops as [|o ops IH] using rev_ind; intros z FH Hz.
  - cbn in Hz. congruence.
  - apply fresh_hist_app in FH as [FH1 FH2]. cbn in FH2. rewrite hrun_snoc in Hz.
    destruct o as [sd p c|sd p| |].
    + rewrite user_op_arch in Hz by exact I. destruct (IH z FH1 Hz) as (pre & post & -> & Hp & Q).
      exists pre, (post ++ [HWrite sd p c]). rewrite <- app_assoc. split; [reflexivity|].
      split; [|exact Q]. apply Forall_app. split; [exact Hp|]. repeat constructor.
    + rewrite user_op_arch in Hz by exact I. destruct (IH z FH1 Hz) as (pre & post & -> & Hp & Q).
      exists pre, (post ++ [HDelete sd p]). rewrite <- app_assoc. split; [reflexivity|].
      split; [|exact Q]. apply Forall_app. split; [exact Hp|]. repeat constructor.
    + exists ops, []. split; [reflexivity|]. split; [constructor|]. rewrite hrun_snoc.
      destruct (run_arch_truthful (hrun s0 ops) (Hinj_HashOk _ Hi) (proj1 FH2 eq_refl)) as [Q1 Q2].
      split; [exact Q1|]. rewrite Q2 in Hz. congruence.
    + cbn in Hz. discriminate.
Qed.

(** user operations between two runs do not touch the record *)
Lemma user_ops_keep_arch s ops : Forall is_user_op ops -> arch (hrun s ops) = arch s.
Proof.
  induction ops as [|o ops IH] using rev_ind; intros Hf; [reflexivity|].
  apply Forall_app in Hf as [Hf Ho]. rewrite hrun_snoc, user_op_arch; [apply IH, Hf|].
  inversion Ho; assumption.
Qed.

(** [c] at [p] on side [sd] is what BOTH sides held at [p] at the end of the
    previous completed run, only user writes / deletes happened since, and the other
    side has changed or deleted the path *)
Definition superseded_hist (s0 : state) (pre : list hop) (sd : side) (p : K) (c : content) : Prop :=
  exists pre1 pre2, pre = pre1 ++ HRun :: pre2 /\ Forall is_user_op pre2 /\
    tA (hrun s0 (pre1 ++ [HRun])) !! p = Some c /\ tB (hrun s0 (pre1 ++ [HRun])) !! p = Some c /\
    side_tree (other sd) (hrun s0 pre) !! p <> Some c.

Lemma history_no_loss s0 pre :
  Hinj -> arch s0 = None -> fresh_hist s0 (pre ++ [HRun]) ->
  forall sd p c, side_tree sd (hrun s0 pre) !! p = Some c ->
    kept (hrun s0 pre) (hrun s0 (pre ++ [HRun])) p c \/ superseded_hist s0 pre sd p c.
Proof.
  intros Hi H0 FH sd p c Hc. apply fresh_hist_app in FH as [FH1 FH2]. cbn in FH2.
  rewrite hrun_snoc. cbn [Bisync.hstep]. destruct (bisync_run (hrun s0 pre)) as [[s' e] pl] eqn:R. cbn.
  destruct (run_no_loss _ _ _ _ (Hinj_HashOk _ Hi) (proj1 FH2 eq_refl) R sd p c Hc) as [Kp|(z & Ez & Ezp & Ho)];
    [left; exact Kp|right].
  destruct (arch_origin s0 pre z Hi H0 FH1 Ez) as (pre1 & pre2 & -> & Hu & Eab & ->).
  exists pre1, pre2. split; [reflexivity|]. split; [exact Hu|].
  rewrite lookup_fmap in Ezp. rewrite <- Eab.
  destruct (tA (hrun s0 (pre1 ++ [HRun])) !! p) as [c'|]; [|discriminate]. cbn in Ezp. injection Ezp as Ezp.
  apply Hi in Ezp. subst c'. auto.
Qed.

(** ** C07: no trusted record *)

Lemma untrusted_plan_no_delete (a b : gmap K D) p :
  (p, DelA) ∉ plan a b None /\ (p, DelB) ∉ plan a b None.
Proof.
  split; intros [_ R]%elem_of_plan; cbn in R; destruct (a !! p), (b !! p); cbn in R; try discriminate;
    repeat (case_decide || case_bool_decide || discriminate).
Qed.

Lemma fin_untrusted s p : arch s = None -> p ∈ keys s -> is_Some (fin s p).
Proof.
  intros Hz Hp. apply elem_of_keys in Hp. unfold fin, final_content. rewrite Hz. cbn.
  destruct (tA s !! p), (tB s !! p); repeat case_decide; eauto; try discriminate.
  destruct Hp as [[? ?]|[? ?]]; discriminate.
Qed.

Lemma untrusted_run_preserves_all s s' e pl :
  HashOk s -> Fresh s -> arch s = None -> bisync_run s = (s', e, pl) ->
  (forall sd p c, side_tree sd s !! p = Some c -> kept s s' p c) /\
  dom (tA s) ∪ dom (tB s) ⊆ dom (tA s') /\ dom (tA s') = dom (tB s').
Proof.
  intros Hok F Hz R. split; [|split].
  - intros sd p c Hc. destruct (run_no_loss s s' e pl Hok F R sd p c Hc) as [Kp|(z & Ez & _)]; [exact Kp|congruence].
  - rewrite (run_result s Hok F) in R. injection R as <- _ _. cbn. intros x Hx. fold (keys s) in Hx.
    apply elem_of_dom. destruct (run_lookup s Hok F x) as (-> & _ & _).
    destruct (conflict_name_dec s x) as [[[p l] E]|N].
    + cbn in E. rewrite (expected_name _ _ _ _ F E). eauto.
    + rewrite (expected_other _ _ N). apply fin_untrusted; assumption.
  - rewrite (run_converges s s' e pl Hok F R). reflexivity.
Qed.

(** a fault before the run (with only user operations in between): every version
    present when the run starts is on both sides when it ends *)
Lemma fault_then_history_no_loss s0 pre1 pre2 :
  Hinj -> Forall is_user_op pre2 -> fresh_hist s0 (pre1 ++ HFault :: pre2 ++ [HRun]) ->
  let s := hrun s0 (pre1 ++ HFault :: pre2) in
  let s' := hrun s0 (pre1 ++ HFault :: pre2 ++ [HRun]) in
  (forall sd p c, side_tree sd s !! p = Some c -> kept s s' p c) /\
  dom (tA s) ∪ dom (tB s) ⊆ dom (tA s') /\ dom (tA s') = dom (tB s').
Proof.
  intros Hi Hu FH. cbv zeta.
  replace (pre1 ++ HFault :: pre2 ++ [HRun]) with ((pre1 ++ HFault :: pre2) ++ [HRun]) in *
    by (rewrite <- app_assoc; reflexivity).
  apply fresh_hist_app in FH as [_ FH2]. cbn in FH2. rewrite hrun_snoc. cbn [Bisync.hstep].
  destruct (bisync_run (hrun s0 (pre1 ++ HFault :: pre2))) as [[s' e] pl] eqn:R. cbn.
  apply (untrusted_run_preserves_all _ s' e pl (Hinj_HashOk _ Hi) (proj1 FH2 eq_refl)); [|exact R].
  rewrite hrun_app. cbn [Bisync.hrun foldl]. fold (hrun (hstep (hrun s0 pre1) HFault) pre2).
  rewrite user_ops_keep_arch by exact Hu. reflexivity.
Qed.

(** ** An executable sufficient check for [Fresh] (used by the non-vacuity examples) *)

Definition conflicts (s : state) : list (K * (K * content)) :=
  omap (fun p => (fun ql => (p, ql)) <$> conflict s p) (elements (dom (tA s))).

Definition fresh_check (s : state) : bool :=
  forallb (fun e : K * (K * content) =>
             bool_decide ((tA s !! e.2.1 = None \/ tA s !! e.2.1 = Some e.2.2) /\
                          (tB s !! e.2.1 = None \/ tB s !! e.2.1 = Some e.2.2) /\
                          (tA s !! e.2.1 = tB s !! e.2.1 \/ base_at (arch s) e.2.1 <> Some (Hh e.2.2)))) (conflicts s)
  && bool_decide (NoDup ((fun e : K * (K * content) => e.2.1) <$> conflicts s)).

Lemma elem_of_conflicts s p q l : conflict s p = Some (q, l) -> (p, (q, l)) ∈ conflicts s.
Proof.
  intros E. unfold conflicts. apply elem_of_list_omap. exists p. split.
  - apply elem_of_elements, elem_of_dom. apply conflict_spec in E as (x & _ & -> & _). eauto.
  - rewrite E. reflexivity.
Qed.

Lemma NoDup_fmap_elem_inj {A B} (g : A -> B) (l : list A) x y :
  NoDup (g <$> l) -> x ∈ l -> y ∈ l -> g x = g y -> x = y.
Proof.
  induction l as [|a l IH]; intros Hnd Hx Hy E; [inversion Hx|].
  rewrite fmap_cons in Hnd. apply NoDup_cons in Hnd as [Ha Hnd].
  apply elem_of_cons in Hx as [->|Hx]; apply elem_of_cons in Hy as [->|Hy].
  - reflexivity.
  - exfalso. apply Ha. rewrite E. apply elem_of_list_fmap_1, Hy.
  - exfalso. apply Ha. rewrite <- E. apply elem_of_list_fmap_1, Hx.
  - apply IH; assumption.
Qed.

Lemma fresh_check_sound s : fresh_check s = true -> Fresh s.
Proof.
  unfold fresh_check. intros [C1 C2]%andb_prop. apply bool_decide_eq_true in C2.
  rewrite forallb_forall in C1. split.
  - intros p q l E. apply elem_of_conflicts, elem_of_list_In in E. specialize (C1 _ E).
    apply bool_decide_eq_true in C1. exact C1.
  - intros p1 p2 q l1 l2 E1 E2. apply elem_of_conflicts in E1, E2.
    pose proof (NoDup_fmap_elem_inj _ _ _ _ C2 E1 E2 eq_refl) as X. congruence.
Qed.

End BisyncProofs.

(** ** The real conflict-name format is injective in the path

    [<p>.conflict-<host>-<12 hex digits>]: for one host the suffix has a fixed length
    (digests have at least 6 bytes), so equal names have equal paths - clause (2)
    of [Fresh] always holds for the executed instance. *)
From Copia Require Import Model.BisyncExec.

Lemma hex12_length (d : list Z) : (6 <= length d)%nat -> length (hex12 d) = 12%nat.
Proof.
  intros Hd. unfold hex12.
  assert (L : forall l : list Z,
            length (flat_map (fun b => [hexdigit (b / 16); hexdigit (b mod 16)]%Z) l) = (2 * length l)%nat).
  { induction l as [|b l IH]; [reflexivity|]. cbn [flat_map]. rewrite app_length, IH. cbn [length]. lia. }
  rewrite L, firstn_length_le by exact Hd. reflexivity.
Qed.

Lemma bi_cname_inj (host p1 d1 p2 d2 : list Z) :
  (6 <= length d1)%nat -> (6 <= length d2)%nat ->
  bi_cname host p1 d1 = bi_cname host p2 d2 -> p1 = p2.
Proof.
  intros H1 H2 E. unfold bi_cname in E. apply app_inj_2 in E as [E _]; [exact E|].
  rewrite !app_length, !hex12_length by assumption. reflexivity.
Qed.
