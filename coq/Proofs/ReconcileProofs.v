(** Proofs about Model/Reconcile.v. *)
From Coq Require Import List Bool Sorted Permutation.
From Copia Require Import Model.Path Model.Reconcile Proofs.PathProofs.
Import ListNotations.

(** The mirror image of an action (sides A and B exchanged). *)
Definition swap (x : action) : action :=
  match x with
  | PropagateAtoB => PropagateBtoA
  | PropagateBtoA => PropagateAtoB
  | DeleteA => DeleteB
  | DeleteB => DeleteA
  | other => other
  end.

Definition is_delete (x : action) : bool := match x with DeleteA | DeleteB => true | _ => false end.

Section Path.
Variable digest : Type.
Variable deq : forall x y : digest, {x = y} + {x <> y}.
Notation fp := (fingerprint digest).
Notation same := (same digest deq).
Notation reconcile_path := (reconcile_path digest deq).
Notation table := (table digest deq).

Lemma ftype_eqb_eq x y : ftype_eqb x y = true <-> x = y.
Proof. destruct x, y; cbn; split; congruence. Qed.

Lemma same_eq (x y : fp) : same x y = true <-> x = y.
Proof. unfold Reconcile.same. destruct x as [dx tx], y as [dy ty]. cbn [blake3 ftype].
  destruct (deq dx dy) as [E|N]; cbn [andb].
  - rewrite ftype_eqb_eq. split; [intros ->; now subst|intros H; now inversion H].
  - split; [discriminate|]. intros H. inversion H. contradiction. Qed.
Lemma same_refl (x : fp) : same x x = true.
Proof. now apply same_eq. Qed.
Lemma same_neq (x y : fp) : same x y = false <-> x <> y.
Proof. rewrite <- same_eq. destruct (same x y); split; congruence. Qed.

Ltac same_cases :=
  repeat match goal with
  | |- context [Reconcile.same digest deq ?x ?y] =>
      let E := fresh "E" in destruct (Reconcile.same digest deq x y) eqn:E;
      [apply same_eq in E; subst|]
  end.
Ltac same_contra :=
  repeat match goal with
  | H : Reconcile.same digest deq ?x ?x = false |- _ => rewrite same_refl in H; discriminate H
  end.

Lemma reconcile_path_table a b z : reconcile_path a b z = table a b z.
Proof. destruct a as [av|], b as [bv|], z as [zv|];
  unfold Reconcile.reconcile_path, Reconcile.table, st_eq, present; cbn [negb andb];
  same_cases; cbn [negb andb]; same_contra; try reflexivity;
  repeat match goal with H : Reconcile.same digest deq _ _ = false |- _ => rewrite ?H; clear H end;
  try reflexivity. Qed.

Lemma reconcile_path_swap a b z : reconcile_path b a z = swap (reconcile_path a b z).
Proof. destruct a as [av|], b as [bv|], z as [zv|];
  unfold Reconcile.reconcile_path; cbn [swap];
  same_cases; cbn [negb swap]; same_contra; try reflexivity;
  repeat match goal with
  | H : Reconcile.same digest deq ?x ?y = false |- context [Reconcile.same digest deq ?y ?x] =>
      let E := fresh "E" in destruct (Reconcile.same digest deq y x) eqn:E;
      [apply same_eq in E; subst; same_contra|]
  end; cbn [negb swap]; try reflexivity. Qed.

Lemma no_delete_without_base a b : is_delete (reconcile_path a b None) = false.
Proof. destruct a as [av|], b as [bv|]; unfold Reconcile.reconcile_path; cbn [is_delete]; try reflexivity.
  destruct (same av bv); reflexivity. Qed.

Lemma no_delete_without_base_neq a b : reconcile_path a b None <> DeleteA /\ reconcile_path a b None <> DeleteB.
Proof. pose proof (no_delete_without_base a b) as H. split; intros E; rewrite E in H; discriminate H. Qed.

Lemma deleteA_inv a b z : reconcile_path a b z = DeleteA -> b = None /\ a <> None /\ a = z.
Proof. destruct a as [av|], b as [bv|], z as [zv|]; unfold Reconcile.reconcile_path;
  same_cases; cbn [negb]; try discriminate; same_cases; try discriminate.
  intros _. repeat split; congruence. Qed.
Lemma deleteB_inv a b z : reconcile_path a b z = DeleteB -> a = None /\ b <> None /\ b = z.
Proof. destruct a as [av|], b as [bv|], z as [zv|]; unfold Reconcile.reconcile_path;
  same_cases; cbn [negb]; try discriminate; same_cases; try discriminate.
  intros _. repeat split; congruence. Qed.
End Path.

(** ** Data independence: only the equalities between fingerprints matter *)
Section Independence.
Variables (d1 d2 : Type).
Variable deq1 : forall x y : d1, {x = y} + {x <> y}.
Variable deq2 : forall x y : d2, {x = y} + {x <> y}.
Variable f : fingerprint d1 -> fingerprint d2.
Hypothesis f_inj : forall x y, f x = f y -> x = y.

Lemma same_renamed x y : same d2 deq2 (f x) (f y) = same d1 deq1 x y.
Proof. destruct (same d1 deq1 x y) eqn:E.
  - apply same_eq in E. subst. apply same_refl.
  - apply same_neq. apply same_neq in E. intros H. apply E. now apply f_inj. Qed.

Lemma reconcile_path_renamed a b z :
  reconcile_path d2 deq2 (option_map f a) (option_map f b) (option_map f z) = reconcile_path d1 deq1 a b z.
Proof. destruct a as [av|], b as [bv|], z as [zv|]; cbn [option_map]; unfold reconcile_path;
  rewrite ?same_renamed; reflexivity. Qed.
End Independence.

(** ** Whole trees *)
Section Tree.
Variable digest : Type.
Variable deq : forall x y : digest, {x = y} + {x <> y}.
Variable K : Type.
Variable cmp : K -> K -> comparison.
Hypothesis L : lawful cmp.
Notation fpmap := (fpmap digest K).

(** The per-path decision at path [p]. *)
Definition decide (a b base : fpmap) (trust : bool) (p : K) : option (K * action) :=
  let act := reconcile_path digest deq (al_get cmp p a) (al_get cmp p b)
               (if trust then al_get cmp p base else None) in
  if is_noop act then None else Some (p, act).

Lemma reconcile_over_eq paths a b base trust :
  reconcile_over digest deq K cmp paths a b base trust = filter_map (decide a b base trust) paths.
Proof. induction paths as [|p r IH]; [reflexivity|]. cbn [reconcile_over filter_map]. rewrite IH.
  assert (E : decide a b base trust p =
    if is_noop (reconcile_path digest deq (al_get cmp p a) (al_get cmp p b) (if trust then al_get cmp p base else None))
    then None else Some (p, reconcile_path digest deq (al_get cmp p a) (al_get cmp p b) (if trust then al_get cmp p base else None)))
    by reflexivity.
  rewrite E. destruct (is_noop _); reflexivity. Qed.

Lemma reconcile_eq a b base trust :
  reconcile digest deq K cmp a b base trust = filter_map (decide a b base trust) (union_keys digest K cmp a b).
Proof. apply reconcile_over_eq. Qed.

Lemma union_keys_sorted (a b : fpmap) : StronglySorted (klt cmp) (union_keys digest K cmp a b).
Proof. unfold union_keys. apply (dedup_keys_sorted cmp L). apply (sort_keys_sorted cmp L). Qed.

Lemma union_keys_sound (a b : fpmap) p :
  In p (union_keys digest K cmp a b) -> In p (map fst a) \/ In p (map fst b).
Proof. unfold union_keys. intros H. apply dedup_keys_in in H. rewrite (sort_keys_in cmp) in H.
  apply in_app_or in H. exact H. Qed.

Lemma union_keys_complete (a b : fpmap) p :
  In p (map fst a) \/ In p (map fst b) -> exists q, In q (union_keys digest K cmp a b) /\ cmp p q = Eq.
Proof. intros H. unfold union_keys. apply (dedup_keys_covers cmp L). rewrite (sort_keys_in cmp).
  apply in_or_app. exact H. Qed.

Lemma union_keys_nodup (a b : fpmap) : NoDup (union_keys digest K cmp a b).
Proof. apply (klt_sorted_nodup cmp L). apply union_keys_sorted. Qed.

(** With an untrusted base no delete is ever produced. *)
Lemma untrusted_never_deletes a b base p x :
  In (p, x) (reconcile digest deq K cmp a b base false) -> is_delete x = false.
Proof. rewrite reconcile_eq. intros H.
  assert (G : forall l, In (p, x) (filter_map (decide a b base false) l) -> is_delete x = false).
  { induction l as [|q l IH]; cbn [filter_map]; [intros []|].
    unfold decide at 1. destruct (is_noop _) eqn:E; [exact IH|].
    intros [Hh|Ht]; [|now apply IH]. inversion Hh; subst. apply no_delete_without_base. }
  now apply (G _ H). Qed.
Lemma untrusted_never_deletes_neq a b base p x :
  In (p, x) (reconcile digest deq K cmp a b base false) -> x <> DeleteA /\ x <> DeleteB.
Proof. intros H. pose proof (untrusted_never_deletes a b base p x H) as E. split; intros ->; discriminate E. Qed.
End Tree.
