(** What the hub-sync client puts on the wire IS the translated source of hub.rs `HubClient::put` / `HubClient::list`,
    and it closes the chain hub_sync -> put -> wire -> serve -> handle_put -> the CAS specification:

    * `put(rel, expected, file, hash)` sends ONE request `Put { path: rel, expected, len: <length of the file>, hash }`,
      then streams the file's bytes, flushes, and reads one reply; it returns `committed` of a PutResult and fails on any
      other reply;
    * `list()` sends `List` and returns the map of a `Fingerprints` reply;
    * served by the sequential handler of Model/HubSeq.v (tied to the source of `handle_put` by Proofs/TieHubDelete.v),
      that request with that content is - for a path safe_join accepts in canonical form, with the file's real hash -
      exactly the step [cput] that Gen/HubSyncGen.v uses for `client.put(..)`. *)
From stdpp Require Import gmap.
From Copia Require Import Model.LoopLib Model.Hub Model.SafeJoin Model.HubSeq Gen.HubWireClientGen Gen.HubSyncGen.

Section Tie.
Context {D : Type} `{EqDecision D}.
Variable Hh : list Z -> D.
Variable cname : list Z -> D -> list Z.

Lemma tie_client_put (rel : list Z) (expected : option D) (content : list Z) (hash : D) (reply : @sreply D) :
  g_client_put rel expected content hash reply
  = ([CSend (SPut rel expected (lenZ content) hash); CStream content; CFlush; CRecv],
     match reply with RPut committed _ => Some committed | _ => None end).
Proof. unfold g_client_put. destruct reply; reflexivity. Qed.

Lemma tie_client_list (reply : @sreply D) :
  g_client_list reply = ([CSend SList; CRecv], match reply with RFingerprints m => Some m | _ => None end).
Proof. unfold g_client_list. destruct reply; reflexivity. Qed.

(** the request `put` sends, answered by the sequential handler, is the step hub_sync's translation takes *)
Lemma put_on_the_wire_is_cput (t : gmap (list Z) (list Z)) (rel : list Z) (expected : option D) (content : list Z) :
  refused rel = false -> canon rel = rel ->
  let '(t', rp) := seq_handle Hh cname t (SPut rel expected (lenZ content) (Hh content)) content in
  (t', match rp with RPut committed _ => Some committed | _ => None end)
  = (let '(t2, c) := cput Hh cname t rel expected content (Hh content) in (t2, Some c)).
Proof.
  intros Hr Hc. unfold seq_handle, cput. rewrite Hr, Hc. unfold verified, lenZ.
  rewrite !bool_decide_eq_true_2 by reflexivity. cbn [andb negb].
  unfold spec, body. cbn [concat]. rewrite app_nil_r.
  destruct (decide (cur_of Hh t rel = expected)); reflexivity.
Qed.
End Tie.

Definition hub_wire_client_is_translation : Prop :=
  forall (D : Type) (EqD : EqDecision D) (Hh : list Z -> D) (cname : list Z -> D -> list Z),
    (forall rel expected content hash (reply : @sreply D),
       g_client_put rel expected content hash reply
       = ([CSend (SPut rel expected (lenZ content) hash); CStream content; CFlush; CRecv],
          match reply with RPut committed _ => Some committed | _ => None end)) /\
    (forall reply : @sreply D, g_client_list reply = ([CSend SList; CRecv], match reply with RFingerprints m => Some m | _ => None end)) /\
    (forall (t : gmap (list Z) (list Z)) rel expected content, refused rel = false -> canon rel = rel ->
       let '(t', rp) := seq_handle Hh cname t (SPut rel expected (lenZ content) (Hh content)) content in
       (t', match rp with RPut committed _ => Some committed | _ => None end)
       = (let '(t2, c) := cput Hh cname t rel expected content (Hh content) in (t2, Some c))).
Lemma hub_wire_client_is_translation_holds : hub_wire_client_is_translation.
Proof. intros D EqD Hh cname. split; [apply tie_client_put|]. split; [apply tie_client_list|apply put_on_the_wire_is_cput]. Qed.
