(** What the bisync scan and the hub's `current_hash` read of ONE path IS the translated source of meta.rs
    `fingerprint_path`: an entry that cannot be lstat-ed (or opened, or whose link cannot be read) has no fingerprint; a
    symbolic link is fingerprinted by the BLAKE3 of its target string, type Symlink; anything else by the BLAKE3 of
    exactly its bytes, type File - for a regular file, [Hh] of its content: the `scan` of Model/Bisync.v and the
    `cur_of` of Model/Hub.v. *)
From Coq Require Import ZArith List Bool.
From Copia Require Import Gen.Constants Model.LoopLib Model.Reconcile Gen.FingerprintGen.
Import ListNotations.
Open Scope Z_scope.

Section Tie.
Variable D : Type.
Variable Hh : list Z -> D.

Lemma tie_fingerprint_regular (c : list Z) :
  g_fingerprint_path D Hh (Some false) None (Some c) = Some {| blake3 := Hh c; ftype := File |}.
Proof. reflexivity. Qed.

Lemma tie_fingerprint_symlink (target : list Z) (c : option (list Z)) :
  g_fingerprint_path D Hh (Some true) (Some target) c = Some {| blake3 := Hh target; ftype := Symlink |}.
Proof. reflexivity. Qed.

Lemma tie_fingerprint_absent (l c : option (list Z)) : g_fingerprint_path D Hh None l c = None.
Proof. reflexivity. Qed.

Lemma tie_fingerprint_unreadable (l : option (list Z)) : g_fingerprint_path D Hh (Some false) l None = None.
Proof. reflexivity. Qed.

(** `current_hash(dst)` = `fingerprint_path(dst).ok().map(|f| f.blake3)`: on a tree of regular files, the digest of the
    content the path names, or nothing *)
Lemma current_hash_of_regular (file : option (list Z)) :
  option_map (@blake3 D) (g_fingerprint_path D Hh (match file with Some _ => Some false | None => None end) None file) = option_map Hh file.
Proof. destruct file; reflexivity. Qed.
End Tie.

Definition fingerprint_is_translation : Prop :=
  forall (D : Type) (Hh : list Z -> D),
    (forall c, g_fingerprint_path D Hh (Some false) None (Some c) = Some {| blake3 := Hh c; ftype := File |}) /\
    (forall target c, g_fingerprint_path D Hh (Some true) (Some target) c = Some {| blake3 := Hh target; ftype := Symlink |}) /\
    (forall l c, g_fingerprint_path D Hh None l c = None) /\
    (forall file, option_map (@blake3 D) (g_fingerprint_path D Hh (match file with Some _ => Some false | None => None end) None file) = option_map Hh file).
Lemma fingerprint_is_translation_holds : fingerprint_is_translation.
Proof. intros D Hh. split; [apply tie_fingerprint_regular|]. split; [apply tie_fingerprint_symlink|]. split; [apply tie_fingerprint_absent|apply current_hash_of_regular]. Qed.
