(** What the bisync scan and the hub's `current_hash` read of ONE path IS the translated source of meta.rs
    `fingerprint_path`: an entry that cannot be lstat-ed (or opened, or whose link cannot be read) has no fingerprint; a
    symbolic link is fingerprinted by the BLAKE3 of its target string, type Symlink; anything else by the BLAKE3 of
    exactly its bytes, type File - for a regular file, [Hh] of its content: the `scan` of Model/Bisync.v and the
    `cur_of` of Model/Hub.v. *)
From Coq Require Import ZArith List Bool Sorted.
From Copia Require Import Gen.Constants Model.LoopLib Model.Path Model.Reconcile Proofs.PathProofs Proofs.TieLocalScan Gen.FingerprintGen.
Import ListNotations.
Open Scope Z_scope.

Section Tie.
Variable D : Type.
Variable Hh : list Z -> D.

Lemma tie_fingerprint_regular (c : list Z) :
  g_fingerprint_path D Hh (Some false) None (Some c) = Some {| blake3 := Hh c; ftype := File |}.
Proof. reflexivity. Qed.

Lemma tie_fingerprint_symlink (target : list Z) (c : option (list Z)) :
  g_fingerprint_path D Hh (Some true) (Some target) c = Some {| blake3 := Hh target; ftype := Symlink |}.
Proof. reflexivity. Qed.

Lemma tie_fingerprint_absent (l c : option (list Z)) : g_fingerprint_path D Hh None l c = None.
Proof. reflexivity. Qed.

Lemma tie_fingerprint_unreadable (l : option (list Z)) : g_fingerprint_path D Hh (Some false) l None = None.
Proof. reflexivity. Qed.

(** `current_hash(dst)` = `fingerprint_path(dst).ok().map(|f| f.blake3)`: on a tree of regular files, the digest of the
    content the path names, or nothing *)
Lemma current_hash_of_regular (file : option (list Z)) :
  option_map (@blake3 D) (g_fingerprint_path D Hh (match file with Some _ => Some false | None => None end) None file) = option_map Hh file.
Proof. destruct file; reflexivity. Qed.

(** ** the scan of a tree (meta.rs `discover_local_fingerprints`): every listed path that HAS a fingerprint enters the map
    with exactly that fingerprint; a path whose fingerprint cannot be read is skipped, never guessed; nothing else enters *)
Fixpoint fps_of (fp_of : list Z -> option (fingerprint D)) (ks : list (list Z)) : list (list Z * fingerprint D) :=
  match ks with
  | [] => []
  | k :: r => match fp_of k with Some f => (k, f) :: fps_of fp_of r | None => fps_of fp_of r end
  end.

Lemma fps_of_app fp_of k1 k2 : fps_of fp_of (k1 ++ k2) = fps_of fp_of k1 ++ fps_of fp_of k2.
Proof. induction k1 as [|k r IH]; cbn [fps_of app]; [reflexivity|]. destruct (fp_of k); rewrite IH; reflexivity. Qed.

Lemma fps_of_keys_below fp_of (ks : list (list Z)) (k : list Z) :
  Forall (fun a => klt path_cmp a k) ks -> Forall (fun a => klt path_cmp (fst a) k) (fps_of fp_of ks).
Proof.
  induction ks as [|a r IH]; intros HF; cbn [fps_of]; [constructor|]. inversion HF as [|x l Ha Hr]; subst.
  destruct (fp_of a); [constructor; [exact Ha|exact (IH Hr)]|exact (IH Hr)].
Qed.

Lemma keys_sorted_snoc (k1 : list (list Z)) (k : list Z) (k2 : list (list Z)) :
  StronglySorted (klt path_cmp) (k1 ++ k :: k2) -> Forall (fun a => klt path_cmp a k) k1.
Proof.
  induction k1 as [|a r IH]; intros Hs; [constructor|]. cbn [app] in Hs. inversion Hs as [|x l Hs' HF]; subst. constructor.
  - rewrite Forall_app in HF. destruct HF as [_ HF2]. inversion HF2; subst. assumption.
  - exact (IH Hs').
Qed.

Theorem tie_discover_local_fingerprints (fp_of : list Z -> option (fingerprint D)) (ks : list (list Z)) :
  StronglySorted (klt path_cmp) ks ->
  g_discover_local_fingerprints D ks fp_of = fps_of fp_of ks.
Proof.
  intros Hs. unfold g_discover_local_fingerprints. cbv zeta.
  assert (Hgen : forall k1 k2, ks = k1 ++ k2 ->
            match for_loop k2 (fun rel => fun out =>
                    match fp_of rel with
                    | Some fp => let out := al_insert path_cmp rel fp out in (inl out : list (list Z * fingerprint D) + list (list Z * fingerprint D))
                    | _ => inl out
                    end) (fps_of fp_of k1) with
            | inl out => out | inr r => r end = fps_of fp_of ks).
  { intros k1 k2; revert k1; induction k2 as [|k k2 IH]; intros k1 Ek.
    - cbn. rewrite Ek, app_nil_r. reflexivity.
    - cbn [for_loop]. specialize (IH (k1 ++ [k])). rewrite <- app_assoc in IH. cbn [app] in IH. specialize (IH Ek).
      rewrite fps_of_app in IH. cbn [fps_of] in IH.
      destruct (fp_of k) as [f|] eqn:Ef.
      + cbv zeta. rewrite al_insert_last; [exact IH|]. apply fps_of_keys_below. rewrite Ek in Hs. exact (keys_sorted_snoc k1 k k2 Hs).
      + rewrite app_nil_r in IH. exact IH. }
  exact (Hgen [] ks eq_refl).
Qed.

(** on a tree of readable regular files [t] (sorted path -> content), the scan is the digest of every file's content:
    the `scan` of Model/Bisync.v, `Hh <$> t` *)
Definition fp_of_tree (t : list (list Z * list Z)) (p : list Z) : option (fingerprint D) :=
  g_fingerprint_path D Hh (match al_get path_cmp p t with Some _ => Some false | None => None end) None (al_get path_cmp p t).

Theorem discover_local_fingerprints_is_scan (t : list (list Z * list Z)) :
  al_sorted path_cmp t ->
  g_discover_local_fingerprints D (map fst t) (fp_of_tree t) = map (fun pc => (fst pc, {| blake3 := Hh (snd pc); ftype := File |})) t.
Proof.
  intros Hs. rewrite tie_discover_local_fingerprints by (apply al_sorted_keys; exact Hs).
  assert (Hgen : forall t2, (forall p c, In (p, c) t2 -> In (p, c) t) ->
            fps_of (fp_of_tree t) (map fst t2) = map (fun pc => (fst pc, {| blake3 := Hh (snd pc); ftype := File |})) t2).
  { induction t2 as [|[p c] r IH]; intros Hin; cbn [map fst snd fps_of]; [reflexivity|].
    assert (Hg : al_get path_cmp p t = Some c) by (apply (al_get_in path_cmp path_cmp_lawful); [exact Hs|apply Hin; left; reflexivity]).
    unfold fp_of_tree at 1. rewrite Hg. rewrite tie_fingerprint_regular. f_equal. apply IH. intros q d Hq. apply Hin. right. exact Hq. }
  apply Hgen. intros p c H; exact H.
Qed.
End Tie.

Definition fingerprint_is_translation : Prop :=
  forall (D : Type) (Hh : list Z -> D),
    (forall c, g_fingerprint_path D Hh (Some false) None (Some c) = Some {| blake3 := Hh c; ftype := File |}) /\
    (forall target c, g_fingerprint_path D Hh (Some true) (Some target) c = Some {| blake3 := Hh target; ftype := Symlink |}) /\
    (forall l c, g_fingerprint_path D Hh None l c = None) /\
    (forall file, option_map (@blake3 D) (g_fingerprint_path D Hh (match file with Some _ => Some false | None => None end) None file) = option_map Hh file) /\
    (forall fp_of ks, StronglySorted (klt path_cmp) ks -> g_discover_local_fingerprints D ks fp_of = fps_of D fp_of ks) /\
    (forall t, al_sorted path_cmp t ->
       g_discover_local_fingerprints D (map fst t) (fp_of_tree D Hh t) = map (fun pc => (fst pc, {| blake3 := Hh (snd pc); ftype := File |})) t).
Lemma fingerprint_is_translation_holds : fingerprint_is_translation.
Proof. intros D Hh. split; [apply tie_fingerprint_regular|]. split; [apply tie_fingerprint_symlink|]. split; [apply tie_fingerprint_absent|]. split; [apply current_hash_of_regular|]. split; [apply tie_discover_local_fingerprints|apply discover_local_fingerprints_is_scan]. Qed.
