(** The single-file `copia sync SRC DST` (local to local) IS the translated source of async_sync.rs `sync_files`, and
    it leaves the source's bytes at the destination - end to end.

    Gen/SyncFilesGen.v (regenerated on every run): no destination -> the source is written there; identical bytes ->
    nothing is touched; otherwise signature of the destination, delta of the source against it (the translated scan,
    Proofs/TieScan.v), patch of the destination with it (the translated patch, Proofs/TiePatch.v), the output written
    to a temporary sibling and renamed over the destination; a failing patch leaves the destination as it was.
    With the round-trip theorem of C01 the destination holds exactly the source afterwards, in every case. *)
From Coq Require Import ZArith List Bool Lia.
From Copia Require Import Gen.Constants Model.LoopLib Model.Checksum Model.Delta Proofs.DeltaProofs Gen.SigTableGen Proofs.TieSigTable Gen.SyncFilesGen.
Import ListNotations.
Open Scope Z_scope.

Lemma list_eqb_Z_spec (x y : list Z) : list_eqb Z.eqb x y = true <-> x = y.
Proof.
  revert y; induction x as [|a x IH]; intros [|b y]; cbn [list_eqb]; split; intros Hx; try reflexivity; try discriminate.
  - apply andb_true_iff in Hx. destruct Hx as [Hab Hr]. apply Z.eqb_eq in Hab. apply IH in Hr. subst. reflexivity.
  - inversion Hx; subst. rewrite Z.eqb_refl. apply IH. reflexivity.
Qed.

Section Tie.
Variable digest : Type.
Variable H : list Z -> digest.
Variable deq : forall x y : digest, {x = y} + {x <> y}.
Variable bs : nat.
Notation fstate := SyncFilesGen.fstate.
Notation g_sync_files := (SyncFilesGen.g_sync_files digest H deq bs).

(** the destination afterwards, stated outright *)
Definition sync_files_dest (checked verify : bool) (source : list Z) (dest : option (list Z)) : option (list Z) :=
  match dest with
  | None => Some source
  | Some b =>
      if list_eqb Z.eqb source b then Some b
      else match patch digest H deq checked verify b (compute_delta digest H deq bs (gen_signature digest H bs b) source) with
           | POk o => Some o
           | _ => Some b
           end
  end.

Theorem tie_sync_files (checked verify : bool) (source : list Z) (dest : option (list Z)) :
  let r := g_sync_files checked verify source {| f_dest := dest; f_tmp := None |} in
  f_dest (fst r) = sync_files_dest checked verify source dest /\ f_tmp (fst r) = None /\
  (snd r = None <-> exists b, dest = Some b /\ list_eqb Z.eqb source b = false /\
                   forall o, patch digest H deq checked verify b (compute_delta digest H deq bs (gen_signature digest H bs b) source) <> POk o).
Proof.
  cbv zeta. unfold g_sync_files, sync_files_dest, exists_file, read_file, write_file, rename_file, patch_out. cbv zeta.
  unfold SyncFilesGen.bsz.
  cbn [f_dest f_tmp]. destruct dest as [b|]; [rewrite (tie_sig_generate digest H bs b)|].
  - cbn [negb]. destruct (list_eqb Z.eqb source b) eqn:Ee.
    + cbn [fst snd f_dest f_tmp]. split; [reflexivity|]. split; [reflexivity|]. split; [discriminate|].
      intros (b' & Hb & Hne & _). inversion Hb; subst. congruence.
    + destruct (patch digest H deq checked verify b (compute_delta digest H deq bs (gen_signature digest H bs b) source)) eqn:Ep;
        cbn [fst snd f_dest f_tmp]; (split; [reflexivity|]); (split; [reflexivity|]).
      * split; [discriminate|]. intros (b' & Hb & _ & Hno). inversion Hb; subst. exfalso. eapply Hno. exact Ep.
      * split; [intros _|reflexivity]. exists b. repeat split; try assumption. intros o Ho. rewrite Ep in Ho. discriminate.
      * split; [intros _|reflexivity]. exists b. repeat split; try assumption. intros o Ho. rewrite Ep in Ho. discriminate.
      * split; [intros _|reflexivity]. exists b. repeat split; try assumption. intros o Ho. rewrite Ep in Ho. discriminate.
      * split; [intros _|reflexivity]. exists b. repeat split; try assumption. intros o Ho. rewrite Ep in Ho. discriminate.
  - cbn [negb fst snd f_dest f_tmp]. split; [reflexivity|]. split; [reflexivity|]. split; [discriminate|].
    intros (b' & Hb & _). discriminate.
Qed.

(** end to end: under the premises of the round-trip theorem the destination holds the source, and the call succeeds *)
Theorem sync_files_delivers_source (checked : bool) (source : list Z) (dest : option (list Z)) :
  (0 < bs)%nat -> Z.of_nat bs < 2^32 ->
  (forall b, dest = Some b ->
     Z.of_nat (length (blocks bs b)) <= 2^32 /\
     (forall c win, In c (blocks bs b) -> window source win -> length win = bs -> H c = H win -> c = win) /\
     Z.of_nat (length b) < 2^64) ->
  Z.of_nat (length source) < 2^64 ->
  let r := g_sync_files checked true source {| f_dest := dest; f_tmp := None |} in
  f_dest (fst r) = Some source /\ snd r <> None.
Proof.
  intros Hp Hu Hd Hs. cbv zeta.
  destruct (tie_sync_files checked true source dest) as (Hdest & _ & Hres). cbv zeta in Hdest, Hres.
  rewrite Hdest. unfold sync_files_dest. destruct dest as [b|].
  - destruct (Hd b eq_refl) as (Hn & Hcf & Hb).
    pose proof (roundtrip digest H deq bs Hp Hu b source Hn Hcf checked Hb Hs) as Hrt.
    destruct (list_eqb Z.eqb source b) eqn:Ee.
    + apply list_eqb_Z_spec in Ee. subst. split; [reflexivity|]. intros Hx. apply Hres in Hx. destruct Hx as (b' & Hb' & Hne & _).
      inversion Hb'; subst. assert (list_eqb Z.eqb b' b' = true) by (apply list_eqb_Z_spec; reflexivity). congruence.
    + rewrite Hrt. split; [reflexivity|]. intros Hx. apply Hres in Hx. destruct Hx as (b' & Hb' & _ & Hno). inversion Hb'; subst.
      eapply Hno. exact Hrt.
  - split; [reflexivity|]. intros Hx. apply Hres in Hx. destruct Hx as (b' & Hb' & _). discriminate.
Qed.
End Tie.

Definition sync_files_is_translation : Prop :=
  forall (digest : Type) (H : list Z -> digest) (deq : forall x y : digest, {x = y} + {x <> y}) (bs : nat)
         (checked : bool) (source : list Z) (dest : option (list Z)),
    (forall verify,
       let r := SyncFilesGen.g_sync_files digest H deq bs checked verify source {| f_dest := dest; f_tmp := None |} in
       f_dest (fst r) = sync_files_dest digest H deq bs checked verify source dest /\ f_tmp (fst r) = None) /\
    ((0 < bs)%nat -> Z.of_nat bs < 2^32 ->
     (forall b, dest = Some b ->
        Z.of_nat (length (blocks bs b)) <= 2^32 /\
        (forall c win, In c (blocks bs b) -> window source win -> length win = bs -> H c = H win -> c = win) /\
        Z.of_nat (length b) < 2^64) ->
     Z.of_nat (length source) < 2^64 ->
     let r := SyncFilesGen.g_sync_files digest H deq bs checked true source {| f_dest := dest; f_tmp := None |} in
     f_dest (fst r) = Some source /\ snd r <> None).
Lemma sync_files_is_translation_holds : sync_files_is_translation.
Proof.
  intros digest H deq bs checked source dest. split.
  - intros verify. destruct (tie_sync_files digest H deq bs checked verify source dest) as (A & B & _). split; assumption.
  - apply sync_files_delivers_source.
Qed.

(** it computes: block size 2, destination "abab", source "xabab" *)
Example sync_files_nonvacuous :
  let r := SyncFilesGen.g_sync_files (list Z) (fun x => x) (list_eq_dec Z.eq_dec) 2 true true [120; 97; 98; 97; 98]
             {| f_dest := Some [97; 98; 97; 98]; f_tmp := None |} in
  (f_dest (fst r), option_map (fun s => (bytes_matched s, bytes_literal s)) (snd r)) = (Some [120; 97; 98; 97; 98], Some (4, 1)).
Proof. vm_compute. reflexivity. Qed.
