(** The sequential Delete handler of Model/HubSeq.v IS the translated source of serve.rs `handle_delete`.

    Gen/HubDeleteGen.v (regenerated on every run) is `handle_delete` read as a function of the served tree: refuse via
    safe_join, read the current hash, decide with (the generated) cas_decide, remove the file only on Commit, reply.
    [seq_handle] - the handler the C11 / C12 / C13 theorems use, itself defined through the CAS specification [spec] of
    Model/Hub.v - computes the same tree and the same reply for every tree, path and expectation. *)
From stdpp Require Import gmap.
From Copia Require Import Model.LoopLib Model.Hub Model.SafeJoin Model.HubSeq Gen.CasGen Proofs.TieCas Gen.HubDeleteGen.

Section Tie.
Context {D : Type} `{EqDecision D}.
Variable Hh : list Z -> D.
Variable cname : list Z -> D -> list Z.

Lemma tie_handle_delete (t : gmap (list Z) (list Z)) (path : list Z) (expected : option D) :
  g_handle_delete Hh t path expected = seq_handle Hh cname t (SDel path expected) [].
Proof.
  unfold g_handle_delete, seq_handle, safe_key. destruct (refused path); [reflexivity|].
  unfold spec. cbv zeta.
  destruct (g_cas_decide D deqD (cur_of Hh t (canon path)) expected) eqn:Ec.
  - apply (proj1 (tie_cas_decide D deqD _ _)) in Ec. rewrite decide_True by exact Ec. reflexivity.
  - apply (proj1 (tie_cas_decide_conflict D deqD _ _)) in Ec. rewrite decide_False by exact Ec. reflexivity.
Qed.

(** handle_put, sequential reading: the reviewed streaming block leaves [content] (the bytes that arrived, at most
    [len]) in the staging file; a length or hash mismatch removes the staging file and commits nothing; otherwise the
    staging file is renamed onto the path (Commit) or onto the conflict name (Conflict). *)
Lemma tie_handle_put (t : gmap (list Z) (list Z)) (path : list Z) (expected : option D) (len : Z) (hash : D) (content : list Z) :
  g_handle_put Hh cname t path expected len hash content = seq_handle Hh cname t (SPut path expected len hash) content.
Proof.
  unfold g_handle_put, seq_handle, safe_key. destruct (refused path); [reflexivity|].
  unfold verified, rm_staging, mv_staging, deq_b, LoopLib.lenZ. cbv zeta. cbn match.
  destruct (Z.eqb_spec (Z.of_nat (length content)) len) as [El|El]; cbn [negb].
  2:{ rewrite (bool_decide_eq_false_2 (Z.of_nat (length content) = len)) by exact El. rewrite andb_false_r. reflexivity. }
  rewrite (bool_decide_eq_true_2 (Z.of_nat (length content) = len)) by exact El. rewrite andb_true_r.
  destruct (bool_decide (Hh content = hash)) eqn:Eh; cbn [negb]; [|reflexivity].
  unfold spec, body. cbn [concat]. rewrite app_nil_r.
  destruct (g_cas_decide D deqD (cur_of Hh t (canon path)) expected) eqn:Ec.
  - apply (proj1 (tie_cas_decide D deqD _ _)) in Ec. rewrite decide_True by exact Ec. reflexivity.
  - apply (proj1 (tie_cas_decide_conflict D deqD _ _)) in Ec. rewrite decide_False by exact Ec. reflexivity.
Qed.

(** handle_get: refusal, then the content the path names at the moment of the ONE open (the reviewed block: length, hash
    and bytes all come from that descriptor), or "not found" *)
Lemma tie_handle_get (t : gmap (list Z) (list Z)) (path : list Z) :
  g_handle_get t path = seq_handle Hh cname t (SGet path) [].
Proof.
  unfold g_handle_get, seq_handle, safe_key. destruct (refused path); [reflexivity|].
  cbv zeta. unfold file_at. destruct (t !! canon path); reflexivity.
Qed.
End Tie.

Definition hub_delete_is_translation : Prop :=
  forall (D : Type) (EqD : EqDecision D) (Hh : list Z -> D) (cname : list Z -> D -> list Z)
         (t : gmap (list Z) (list Z)) (path : list Z) (expected : option D),
    g_handle_delete Hh t path expected = seq_handle Hh cname t (SDel path expected) [] /\
    (forall (len : Z) (hash : D) (content : list Z),
       g_handle_put Hh cname t path expected len hash content = seq_handle Hh cname t (SPut path expected len hash) content) /\
    g_handle_get (D := D) t path = seq_handle Hh cname t (SGet path) [].
Lemma hub_delete_is_translation_holds : hub_delete_is_translation.
Proof. unfold hub_delete_is_translation. intros. split; [apply tie_handle_delete|]. split; [intros; apply tie_handle_put|apply tie_handle_get]. Qed.
