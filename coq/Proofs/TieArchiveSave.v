(** The archive steps of the crash model ARE the translated source of archive.rs `Archive::save`.

    Gen/ArchiveSaveGen.v lists the file-system calls `save` makes in program order (regenerated on every run): create
    and fill `<archive>.tmp`, fsync it, rename the current archive to `.bak` iff one exists, rename the `.tmp` file
    into place, fsync the directory.  Read as steps of Model/BisyncSteps.v they are [arch_steps]: the new record
    reaches its name only after it was written and fsynced under another name. *)
From stdpp Require Import gmap.
From Copia Require Import Model.Bisync Model.BisyncSteps Model.ArchiveSys Gen.ArchiveSaveGen.

Section Tie.
Context `{Countable K} {D : Type} `{EqDecision D}.

Fixpoint asteps_of (z : gmap K D) (l : list asys) : option (list (@fstep K _ _ D)) :=
  match l with
  | [] => Some []
  | AMkdirAll _ :: r => asteps_of z r
  | ACreate ATmp :: r => option_map (cons FArchStage) (asteps_of z r)
  | AWrite ATmp :: r => option_map (cons (FArchWrite z)) (asteps_of z r)
  | AFsync ATmp :: r => option_map (cons FArchSync) (asteps_of z r)
  | ARename APath ABak :: r => option_map (cons FArchBak) (asteps_of z r)
  | ARename ATmp APath :: r => option_map (cons FArchRename) (asteps_of z r)
  | AFsync AParent :: r => option_map (cons FArchDirSync) (asteps_of z r)
  | _ :: _ => None
  end.

Lemma tie_archive_save (exists_ : apath -> bool) (z : gmap K D) :
  asteps_of z (g_archive_save exists_ APath) = Some (arch_steps (exists_ APath) z).
Proof. unfold g_archive_save, arch_steps. cbn [a_parent a_with_suffix]. destruct (exists_ APath); reflexivity. Qed.
End Tie.

Definition archive_save_is_translation : Prop :=
  forall (K : Type) (EqK : EqDecision K) (CK : Countable K) (D : Type) (exists_ : apath -> bool) (z : gmap K D),
    @asteps_of K EqK CK D z (g_archive_save exists_ APath) = Some (@arch_steps K EqK CK D (exists_ APath) z).
Lemma archive_save_is_translation_holds : archive_save_is_translation.
Proof. unfold archive_save_is_translation. intros. apply tie_archive_save. Qed.
