(** How a hub-sync client reaches its hub IS the translated source of hub.rs `HubClient::connect`: a `host:root` target
    (split by the translated `split_target`) runs `ssh -T host copia serve root` - the root as ONE argument of ssh,
    unquoted (ssh joins its arguments with blanks and the remote shell parses the result: see the observation in DESIGN
    11.5) - any other target runs this executable with `serve target`; then the magic, a Hello with the client's
    version, one reply; the session is accepted exactly when the reply is a Hello with version >= 1. *)
From Coq Require Import ZArith List Bool.
From Copia Require Import Gen.Constants Model.LoopLib Model.Targets Gen.TargetsGen Proofs.TargetsProofs Gen.HubConnectGen.
Import ListNotations.
Open Scope Z_scope.

Definition argv_of (target exe : list Z) : list (list Z) :=
  match split_target target with
  | Some (host, root) => [[115; 115; 104]; [45; 84]; host; [99; 111; 112; 105; 97]; [115; 101; 114; 118; 101]; root]   (* ssh -T host copia serve root *)
  | None => [exe; [115; 101; 114; 118; 101]; target]                                                              (* exe serve target *)
  end.

Theorem tie_connect (target exe : list Z) (reply : hreply) :
  g_connect target exe reply
  = ([HSpawn (argv_of target exe); HWriteMagic; HSend (SHello WIRE_VERSION); HRecv],
     match reply with RHelloV v => 1 <=? v | ROther => false end).
Proof.
  unfold g_connect, argv_of. cbv zeta.
  destruct (targets_model_is_translation_holds) as [Hs _]. rewrite Hs.
  destruct (split_target target) as [[host root]|]; cbn [app]; destruct reply as [v|]; try reflexivity;
    rewrite Z.geb_leb; destruct (1 <=? v); reflexivity.
Qed.

Definition hub_connect_is_translation : Prop :=
  forall target exe reply,
    g_connect target exe reply
    = ([HSpawn (argv_of target exe); HWriteMagic; HSend (SHello WIRE_VERSION); HRecv],
       match reply with RHelloV v => 1 <=? v | ROther => false end).
Lemma hub_connect_is_translation_holds : hub_connect_is_translation.
Proof. exact tie_connect. Qed.
