(** The hand-written model of src/checksum.rs IS the translation of the current source.

    Gen/ChecksumGen.v is regenerated from /repo's src/checksum.rs on every run by tools/gen_checksum.py
    (statement by statement, in the shipped/wrapping and the checked/trapping integer semantics).  Every
    lemma below states that a generated function equals the corresponding function of Model/Checksum.v,
    about which the C17 / C16 / C01 theorems are proved.  The proofs are [reflexivity] (or a case split on
    the trapping operations for the loops): they go through exactly when the source arithmetic is, up to
    definitional unfolding, the arithmetic of the model. *)
From Coq Require Import ZArith List Bool.
From Copia Require Import Gen.Constants Model.Checksum Gen.ChecksumGen.
Import ListNotations.
Open Scope Z_scope.

Lemma tie_rc_roll s o n : g_rc_roll s o n = rc_roll s o n.            Proof. reflexivity. Qed.
Lemma tie_rc_roll_ck s o n : g_rc_roll_ck s o n = rc_roll_ck s o n.   Proof. reflexivity. Qed.
Lemma tie_rc_push s x : g_rc_push s x = rc_push s x.                  Proof. reflexivity. Qed.
Lemma tie_rc_push_ck s x : g_rc_push_ck s x = rc_push_ck s x.         Proof. reflexivity. Qed.
Lemma tie_rc_digest s : g_rc_digest s = rc_digest s.                  Proof. reflexivity. Qed.
Lemma tie_frc_roll s o n : g_frc_roll s o n = frc_roll s o n.          Proof. reflexivity. Qed.
Lemma tie_frc_roll_ck s o n : g_frc_roll_ck s o n = frc_roll_ck s o n. Proof. reflexivity. Qed.
Lemma tie_frc_push s x : g_frc_push s x = frc_push s x.                Proof. reflexivity. Qed.
Lemma tie_frc_push_ck s x : g_frc_push_ck s x = frc_push_ck s x.       Proof. reflexivity. Qed.
Lemma tie_frc_digest s : g_frc_digest s = frc_digest s.                Proof. reflexivity. Qed.

(** [new]: one iteration of the accumulation loop, and the final struct literal. *)
Lemma tie_rc_new_step len x r a b :
  new_loop len (x :: r) a b = let '(a', b') := g_rc_new_step len x a b in new_loop (len - 1) r a' b'.
Proof. reflexivity. Qed.
Lemma tie_frc_new_step len x r a b :
  new_loop len (x :: r) a b = let '(a', b') := g_frc_new_step len x a b in new_loop (len - 1) r a' b'.
Proof. reflexivity. Qed.
Lemma tie_rc_new_step_ck len x r a b :
  new_loop_ck len (x :: r) a b =
  match g_rc_new_step_ck len x a b with Some ab => new_loop_ck (len - 1) r (fst ab) (snd ab) | None => None end.
Proof.
  cbn [new_loop_ck]. unfold g_rc_new_step_ck.
  destruct (ck 64 (a + x)); [|reflexivity].
  destruct (ck 64 (len * x)); [|reflexivity].
  destruct (ck 64 (b + z0)); reflexivity.
Qed.
Lemma tie_frc_new_step_ck len x r a b :
  new_loop_ck len (x :: r) a b =
  match g_frc_new_step_ck len x a b with Some ab => new_loop_ck (len - 1) r (fst ab) (snd ab) | None => None end.
Proof.
  cbn [new_loop_ck]. unfold g_frc_new_step_ck.
  destruct (ck 64 (a + x)); [|reflexivity].
  destruct (ck 64 (len * x)); [|reflexivity].
  destruct (ck 64 (b + z0)); reflexivity.
Qed.
Lemma tie_new_loop_nil len a b : new_loop len [] a b = (a, b) /\ new_loop_ck len [] a b = Some (a, b).
Proof. split; reflexivity. Qed.
Lemma tie_rc_new data :
  rc_new data = let n := Z.of_nat (length data) in let '(a, b) := new_loop n data 0 0 in g_rc_new_fin n a b.
Proof. reflexivity. Qed.
Lemma tie_frc_new data :
  frc_new data = let n := Z.of_nat (length data) in let '(a, b) := new_loop n data 0 0 in g_frc_new_fin n a b.
Proof. reflexivity. Qed.
Lemma tie_rc_new_ck data :
  rc_new_ck data = let n := Z.of_nat (length data) in
                   match new_loop_ck n data 0 0 with Some ab => Some (g_rc_new_fin n (fst ab) (snd ab)) | None => None end.
Proof. reflexivity. Qed.
Lemma tie_frc_new_ck data :
  frc_new_ck data = let n := Z.of_nat (length data) in
                    match new_loop_ck n data 0 0 with Some ab => Some (g_frc_new_fin n (fst ab) (snd ab)) | None => None end.
Proof. reflexivity. Qed.

(** Everything at once (used by Props/C17.v). *)
Definition model_is_translation : Prop :=
  (forall s o n, g_rc_roll s o n = rc_roll s o n) /\ (forall s o n, g_rc_roll_ck s o n = rc_roll_ck s o n) /\
  (forall s x, g_rc_push s x = rc_push s x) /\ (forall s x, g_rc_push_ck s x = rc_push_ck s x) /\
  (forall s, g_rc_digest s = rc_digest s) /\
  (forall s o n, g_frc_roll s o n = frc_roll s o n) /\ (forall s o n, g_frc_roll_ck s o n = frc_roll_ck s o n) /\
  (forall s x, g_frc_push s x = frc_push s x) /\ (forall s x, g_frc_push_ck s x = frc_push_ck s x) /\
  (forall s, g_frc_digest s = frc_digest s) /\
  (forall len x r a b, new_loop len (x :: r) a b = let '(a', b') := g_rc_new_step len x a b in new_loop (len - 1) r a' b') /\
  (forall len x r a b, new_loop len (x :: r) a b = let '(a', b') := g_frc_new_step len x a b in new_loop (len - 1) r a' b') /\
  (forall len x r a b, new_loop_ck len (x :: r) a b =
     match g_rc_new_step_ck len x a b with Some ab => new_loop_ck (len - 1) r (fst ab) (snd ab) | None => None end) /\
  (forall len x r a b, new_loop_ck len (x :: r) a b =
     match g_frc_new_step_ck len x a b with Some ab => new_loop_ck (len - 1) r (fst ab) (snd ab) | None => None end) /\
  (forall len a b, new_loop len [] a b = (a, b) /\ new_loop_ck len [] a b = Some (a, b)) /\
  (forall data, rc_new data = let n := Z.of_nat (length data) in let '(a, b) := new_loop n data 0 0 in g_rc_new_fin n a b) /\
  (forall data, frc_new data = let n := Z.of_nat (length data) in let '(a, b) := new_loop n data 0 0 in g_frc_new_fin n a b) /\
  (forall data, rc_new_ck data = let n := Z.of_nat (length data) in
     match new_loop_ck n data 0 0 with Some ab => Some (g_rc_new_fin n (fst ab) (snd ab)) | None => None end) /\
  (forall data, frc_new_ck data = let n := Z.of_nat (length data) in
     match new_loop_ck n data 0 0 with Some ab => Some (g_frc_new_fin n (fst ab) (snd ab)) | None => None end).

Lemma model_is_translation_holds : model_is_translation.
Proof.
  unfold model_is_translation.
  repeat split;
    first [ exact tie_rc_roll | exact tie_rc_roll_ck | exact tie_rc_push | exact tie_rc_push_ck | exact tie_rc_digest
          | exact tie_frc_roll | exact tie_frc_roll_ck | exact tie_frc_push | exact tie_frc_push_ck | exact tie_frc_digest
          | exact tie_rc_new_step | exact tie_frc_new_step | exact tie_rc_new_step_ck | exact tie_frc_new_step_ck
          | exact tie_rc_new | exact tie_frc_new | exact tie_rc_new_ck | exact tie_frc_new_ck ].
Qed.
