(** The recursive one-way run of Model/OneWay.v IS the translated source of incremental.rs `run_local`, as a PROGRAM.

    Gen/OneWayRunGen.v (regenerated on every run) is `run_local` read as the list of things it does, in order: the
    "no files" exit, the plan from `build_plan` on the two scans, printing it, the dry-run exit BEFORE anything is
    touched, the "already up to date" exit, creating the destination directories, ONE spawned `deliver_local` per path of
    `plan.transfer` (source `src/rel`, destination `dst/rel`, the source's mtime from the scan), the join of all of them,
    and only then the removal of every path of `plan.delete` at the destination, then the report.
    [ow_program] below states that shape outright; [run_oneway] - the function C04 / C14 / C15 are about - is its
    meaning: same exit kind, same plan, deliveries = plan.transfer (in any completion order), deletes = plan.delete after
    the deliveries. *)
From Coq Require Import ZArith List Bool Lia.
From Copia Require Import Gen.Constants Model.LoopLib Model.Path Model.Glob Model.Plan Model.OneWay Gen.OneWayRunGen.
Import ListNotations.
Open Scope Z_scope.

Section Tie.
Variable src_meta dst_meta : metamap.
Variable collect_dirs : list (list Z) -> list (list Z).
Notation leff := (OneWayRunGen.leff).

Definition spawn_of (rel : list Z) : leff :=
  ESpawn rel (match mm_get rel src_meta with Some m => Some (fm_mtime m) | None => None end).

(** the program, stated outright *)
Definition ow_program (o : opts) : list leff :=
  match src_meta, o_delete o with
  | [], false => [ENoFiles]
  | _, _ =>
    let plan := build_plan src_meta dst_meta (o_excludes o) (o_delete o) in
    if o_dry_run o then [EPrintPlan plan true]
    else match transfer plan, sp_delete plan with
    | [], [] => [EPrintPlan plan false; EUpToDate]
    | _, _ => [EPrintPlan plan false; ECreateDirs DST (collect_dirs (transfer plan))]
              ++ map spawn_of (transfer plan) ++ [EJoin]
              ++ map (fun rel => ERemove (DST, rel)) (sp_delete plan) ++ [EReport]
    end
  end.

Lemma spawn_loop (l : list (list Z)) (effs : list leff) :
  for_loop l (fun rel => fun effs =>
                let mtime := match mm_get rel src_meta with Some m => Some (fm_mtime m) | None => None end in
                let effs := effs ++ [ESpawn rel mtime] in (inl effs : list leff + list leff)) effs
  = inl (effs ++ map spawn_of l).
Proof.
  revert effs; induction l as [|x l IH]; intros effs; cbn [for_loop map]; [rewrite app_nil_r; reflexivity|].
  cbv zeta. rewrite IH. unfold spawn_of at 2. rewrite <- app_assoc. reflexivity.
Qed.

Lemma remove_loop (l : list (list Z)) (effs : list leff) :
  for_loop l (fun rel => fun effs => let effs := effs ++ [ERemove (DST, rel)] in (inl effs : list leff + list leff)) effs
  = inl (effs ++ map (fun rel => ERemove (DST, rel)) l).
Proof.
  revert effs; induction l as [|x l IH]; intros effs; cbn [for_loop map]; [rewrite app_nil_r; reflexivity|].
  cbv zeta. rewrite IH. rewrite <- app_assoc. reflexivity.
Qed.

Lemma lenZ_nil {A} (l : list A) : (lenZ l =? 0) = match l with [] => true | _ => false end.
Proof. destruct l; [reflexivity|]. unfold lenZ. cbn [length]. apply Z.eqb_neq. lia. Qed.

Theorem tie_run_local (o : opts) (jobs : Z) (verbose : bool) :
  g_run_local src_meta dst_meta collect_dirs o jobs verbose = ow_program o.
Proof.
  unfold g_run_local, ow_program, scan_meta. cbv zeta. rewrite !lenZ_nil.
  destruct src_meta as [|m0 ms] eqn:Es.
  - destruct (o_delete o); cbn [andb negb app]; [|reflexivity].
    rewrite <- Es. destruct (o_dry_run o); [reflexivity|].
    set (plan := build_plan src_meta dst_meta (o_excludes o) true).
    pose proof (spawn_loop (transfer plan)) as HS. pose proof (remove_loop (sp_delete plan)) as HR.
    cbv zeta in HS, HR. rewrite HS.
    destruct (transfer plan) as [|t ts] eqn:Et; destruct (sp_delete plan) as [|d ds] eqn:Ed; cbn [andb negb]; try reflexivity;
      try (rewrite HR); cbn [map app]; rewrite <- ?app_assoc; reflexivity.
  - cbn [andb]. rewrite <- Es. destruct (o_dry_run o); [reflexivity|].
    set (plan := build_plan src_meta dst_meta (o_excludes o) (o_delete o)).
    pose proof (spawn_loop (transfer plan)) as HS. pose proof (remove_loop (sp_delete plan)) as HR.
    cbv zeta in HS, HR. rewrite HS.
    destruct (transfer plan) as [|t ts] eqn:Et; destruct (sp_delete plan) as [|d ds] eqn:Ed; cbn [andb negb]; try reflexivity;
      try (rewrite HR); cbn [map app]; rewrite <- ?app_assoc; reflexivity.
Qed.
End Tie.

(** ** what the program means: Model/OneWay.v *)
Definition spawned (l : list leff) : list (list Z) := flat_map (fun e => match e with ESpawn rel _ => [rel] | _ => [] end) l.
Definition removed (l : list leff) : list (list Z) := flat_map (fun e => match e with ERemove (DST, rel) => [rel] | _ => [] end) l.
Definition prog_kind (l : list leff) : kind :=
  match l with
  | [ENoFiles] => NoFiles
  | [EPrintPlan _ true] => DryRun
  | [EPrintPlan _ false; EUpToDate] => UpToDate
  | _ => Ran
  end.
(** every removal comes after the join, every spawn before it *)
Fixpoint ordered (l : list leff) (joined : bool) : bool :=
  match l with
  | [] => true
  | ESpawn _ _ :: r => negb joined && ordered r joined
  | EJoin :: r => ordered r true
  | ERemove _ :: r => joined && ordered r joined
  | _ :: r => ordered r joined
  end.

Lemma spawned_map sm l : spawned (map (spawn_of sm) l) = l.
Proof. induction l as [|x l IH]; [reflexivity|]. change (spawned (map (spawn_of sm) (x :: l))) with (x :: spawned (map (spawn_of sm) l)). rewrite IH. reflexivity. Qed.
Lemma spawned_removes l : spawned (map (fun rel => ERemove (DST, rel)) l) = [].
Proof. induction l as [|x l IH]; [reflexivity|]. change (spawned (map (fun rel => ERemove (DST, rel)) (x :: l))) with (spawned (map (fun rel => ERemove (DST, rel)) l)). exact IH. Qed.
Lemma removed_map l : removed (map (fun rel => ERemove (DST, rel)) l) = l.
Proof. induction l as [|x l IH]; [reflexivity|]. change (removed (map (fun rel => ERemove (DST, rel)) (x :: l))) with (x :: removed (map (fun rel => ERemove (DST, rel)) l)). rewrite IH. reflexivity. Qed.
Lemma removed_spawns sm l : removed (map (spawn_of sm) l) = [].
Proof. induction l as [|x l IH]; [reflexivity|]. change (removed (map (spawn_of sm) (x :: l))) with (removed (map (spawn_of sm) l)). exact IH. Qed.
Lemma spawned_app a b : spawned (a ++ b) = spawned a ++ spawned b. Proof. apply flat_map_app. Qed.
Lemma removed_app a b : removed (a ++ b) = removed a ++ removed b. Proof. apply flat_map_app. Qed.
Lemma ordered_spawns sm l r : ordered (map (spawn_of sm) l ++ r) false = ordered r false.
Proof. induction l as [|x l IH]; [reflexivity|]. change (ordered (map (spawn_of sm) (x :: l) ++ r) false) with (ordered (map (spawn_of sm) l ++ r) false). exact IH. Qed.
Lemma ordered_removes l r : ordered (map (fun rel => ERemove (DST, rel)) l ++ r) true = ordered r true.
Proof. induction l as [|x l IH]; [reflexivity|]. change (ordered (map (fun rel => ERemove (DST, rel)) (x :: l) ++ r) true) with (ordered (map (fun rel => ERemove (DST, rel)) l ++ r) true). exact IH. Qed.

Definition ran_program (sm : metamap) (cd : list (list Z) -> list (list Z)) (plan : sync_plan) : list leff :=
  [EPrintPlan plan false; ECreateDirs DST (cd (transfer plan))] ++ map (spawn_of sm) (transfer plan) ++ [EJoin]
  ++ map (fun rel => ERemove (DST, rel)) (sp_delete plan) ++ [EReport].

Lemma ran_shape sm cd plan :
  prog_kind (ran_program sm cd plan) = Ran /\ spawned (ran_program sm cd plan) = transfer plan /\
  removed (ran_program sm cd plan) = sp_delete plan /\ ordered (ran_program sm cd plan) false = true.
Proof.
  unfold ran_program. split; [reflexivity|]. split; [|split].
  - change (spawned (map (spawn_of sm) (transfer plan) ++ [EJoin] ++ map (fun rel => ERemove (DST, rel)) (sp_delete plan) ++ [EReport]) = transfer plan).
    rewrite !spawned_app, spawned_map, spawned_removes. cbn [spawned flat_map app]. rewrite app_nil_r. reflexivity.
  - change (removed (map (spawn_of sm) (transfer plan) ++ [EJoin] ++ map (fun rel => ERemove (DST, rel)) (sp_delete plan) ++ [EReport]) = sp_delete plan).
    rewrite !removed_app, removed_spawns, removed_map. cbn [removed flat_map app]. rewrite app_nil_r. reflexivity.
  - change (ordered (map (spawn_of sm) (transfer plan) ++ [EJoin] ++ map (fun rel => ERemove (DST, rel)) (sp_delete plan) ++ [EReport]) false = true).
    rewrite ordered_spawns. cbn [app ordered]. rewrite ordered_removes. reflexivity.
Qed.

(** the program in the four shapes of [run_oneway] *)
Lemma ow_program_cases sm dm cd (o : opts) :
  ow_program sm dm cd o =
  if match sm with [] => negb (o_delete o) | _ => false end then [ENoFiles]
  else let plan := build_plan sm dm (o_excludes o) (o_delete o) in
       if o_dry_run o then [EPrintPlan plan true]
       else if match transfer plan, sp_delete plan with [], [] => true | _, _ => false end then [EPrintPlan plan false; EUpToDate]
       else ran_program sm cd plan.
Proof.
  unfold ow_program, ran_program. destruct sm as [|m0 ms]; [destruct (o_delete o)|]; cbn [negb]; try reflexivity;
    cbv zeta; destruct (o_dry_run o); try reflexivity;
    destruct (transfer (build_plan _ dm (o_excludes o) _)); destruct (sp_delete (build_plan _ dm (o_excludes o) _)); reflexivity.
Qed.

Theorem program_meaning (src dst : tree) (cd : list (list Z) -> list (list Z)) (o : opts) (order : list (list Z)) (fail : list Z -> bool) :
  let P := ow_program (meta_of src) (meta_of dst) cd o in
  let r := run_oneway src dst o order fail in
  prog_kind P = r_kind r /\
  (r_kind r = Ran -> spawned P = transfer (r_plan r) /\ removed P = sp_delete (r_plan r)) /\
  (r_kind r <> Ran -> spawned P = [] /\ removed P = []) /\
  ordered P false = true.
Proof.
  cbv zeta. rewrite ow_program_cases. unfold run_oneway, plan_of. cbv zeta.
  assert (Hs : match meta_of src with [] => negb (o_delete o) | _ => false end = match src, o_delete o with [], false => true | _, _ => false end).
  { destruct src; [destruct (o_delete o)|]; reflexivity. }
  rewrite Hs. clear Hs.
  destruct src as [|s0 ss] eqn:Es; [destruct (o_delete o) eqn:Ed|]; rewrite <- ?Es.
  2:{ cbn. repeat split; try discriminate; intros Hx; try reflexivity; contradiction. }
  all: destruct (o_dry_run o);
    [cbn; repeat split; try discriminate; intros Hx; try reflexivity; contradiction|].
  all: match goal with |- context [ran_program ?sm ?c ?pl] => set (plan := pl); destruct (ran_shape sm c plan) as (Hk & Hsp & Hrm & Hor) end.
  all: destruct (transfer plan) as [|t ts] eqn:Et; destruct (sp_delete plan) as [|d ds] eqn:Edl;
    [cbn; repeat split; try discriminate; intros Hx; try reflexivity; contradiction| | |].
  all: cbn [r_kind r_plan]; rewrite Hk, Hsp, Hrm, Hor, ?Et, ?Edl.
  all: split; [reflexivity|]; split; [intros _; split; reflexivity|]; split; [intros Hx; exfalso; apply Hx; reflexivity|reflexivity].
Qed.

Definition oneway_run_is_translation : Prop :=
  (forall (src_meta dst_meta : metamap) (collect_dirs : list (list Z) -> list (list Z)) (o : opts) (jobs : Z) (verbose : bool),
     g_run_local src_meta dst_meta collect_dirs o jobs verbose = ow_program src_meta dst_meta collect_dirs o) /\
  (forall (src dst : tree) (cd : list (list Z) -> list (list Z)) (o : opts) (order : list (list Z)) (fail : list Z -> bool),
     let P := ow_program (meta_of src) (meta_of dst) cd o in
     let r := run_oneway src dst o order fail in
     prog_kind P = r_kind r /\
     (r_kind r = Ran -> spawned P = transfer (r_plan r) /\ removed P = sp_delete (r_plan r)) /\
     (r_kind r <> Ran -> spawned P = [] /\ removed P = []) /\
     ordered P false = true).
Lemma oneway_run_is_translation_holds : oneway_run_is_translation.
Proof. split; [exact tie_run_local|exact program_meaning]. Qed.

(** both sides compute: one file to send (with the source's mtime), one to delete *)
Example oneway_run_nonvacuous :
  let sm : metamap := [([97], {| fm_size := 3; fm_mtime := 1700000000 |})] in
  let dm : metamap := [([98], {| fm_size := 1; fm_mtime := 5 |})] in
  g_run_local sm dm (fun x => x) {| o_delete := true; o_excludes := []; o_dry_run := false |} 4 false
  = [EPrintPlan {| transfer := [[97]]; skipped := 0; sp_delete := [[98]] |} false; ECreateDirs DST [[97]];
     ESpawn [97] (Some 1700000000); EJoin; ERemove (DST, [98]); EReport].
Proof. vm_compute. reflexivity. Qed.
