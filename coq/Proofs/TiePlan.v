(** The models of plan.rs needs_transfer and glob_match ARE the translation of the current source.

    Gen/PlanGen.v is regenerated from /repo's Rust source on every run by tools/gen_logic.py (construct by construct:
    match, if, let, early return, loops as LoopLib combinators).  Every lemma below states that a generated function
    equals, on ALL inputs, the function of the hand-written model about which the property theorems are proved.
    They are proved by case analysis / induction: when the source changes, the generated term changes and the
    lemma is re-checked against it. *)
From Coq Require Import ZArith List Bool Arith Lia.
From Copia Require Import Gen.Constants Model.LoopLib Model.Path Model.Glob Model.Plan Gen.PlanGen Proofs.GlobProofs.
Import ListNotations.
Open Scope Z_scope.

(** ** plan.rs: needs_transfer *)
Lemma tie_needs_transfer src dst : g_needs_transfer src dst = needs_transfer src dst.
Proof. reflexivity. Qed.


(** ** plan.rs: glob_match - the index-based loop of the source is the suffix-based loop of Model/Glob.v *)
Lemma skipn_nth_cons (p : list Z) (i : nat) : (i < length p)%nat -> skipn i p = nth i p 0 :: skipn (S i) p.
Proof.
  revert i; induction p as [|x p IH]; intros i Hi; [cbn in Hi; lia|].
  destruct i as [|i]; [reflexivity|]. cbn [skipn nth]. cbn in Hi. rewrite IH by lia. reflexivity.
Qed.
Lemma skipn_all_nil (p : list Z) (i : nat) : (length p <= i)%nat -> skipn i p = [].
Proof. intros Hi. apply skipn_all2. exact Hi. Qed.
Lemma tl_skipn (p : list Z) (i : nat) : tl (skipn i p) = skipn (S i) p.
Proof.
  destruct (Nat.lt_ge_cases i (length p)) as [Hi|Hi].
  - rewrite (skipn_nth_cons p i Hi). reflexivity.
  - rewrite !skipn_all_nil by lia. reflexivity.
Qed.

Section GlobTie.
Variables p t : list Z.

Definition sk (l : list Z) (i : Z) : list Z := skipn (Z.to_nat i) l.

Lemma sk_succ l i : 0 <= i -> tl (sk l i) = sk l (i + 1).
Proof. intros Hi. unfold sk. rewrite tl_skipn. f_equal. lia. Qed.

Lemma star_here_sk i : 0 <= i ->
  star_here (sk p i) = (i <? lenZ p) && (nthZ p i =? 42).
Proof.
  intros Hi. unfold sk, lenZ, nthZ, star_here.
  destruct (Z.ltb_spec i (Z.of_nat (length p))) as [Hlt|Hge].
  - rewrite (skipn_nth_cons p (Z.to_nat i)) by lia. reflexivity.
  - rewrite skipn_all_nil by lia. reflexivity.
Qed.

Lemma lit_here_sk i c : 0 <= i ->
  lit_here (sk p i) c = (i <? lenZ p) && ((nthZ p i =? 63) || (nthZ p i =? c)).
Proof.
  intros Hi. unfold sk, lenZ, nthZ, lit_here.
  destruct (Z.ltb_spec i (Z.of_nat (length p))) as [Hlt|Hge].
  - rewrite (skipn_nth_cons p (Z.to_nat i)) by lia. reflexivity.
  - rewrite skipn_all_nil by lia. reflexivity.
Qed.

Definition cond1 := (fun '(star, mark, pi, ti) => (ti <? lenZ t) : bool) : option Z * Z * Z * Z -> bool.
Definition body1 : option Z * Z * Z * Z -> (option Z * Z * Z * Z) + bool :=
  fun '(star, mark, pi, ti) =>
    if (pi <? lenZ p) && (nthZ p pi =? 42)
    then let star := Some pi in let mark := ti in let pi := pi + 1 in inl (star, mark, pi, ti)
    else if (pi <? lenZ p) && ((nthZ p pi =? 63) || (nthZ p pi =? nthZ t ti))
         then let pi := pi + 1 in let ti := ti + 1 in inl (star, mark, pi, ti)
         else match star with
              | Some s => let pi := s + 1 in let mark := mark + 1 in let ti := mark in inl (star, mark, pi, ti)
              | _ => inr false
              end.

Definition abs_star (star : option Z) : option (list Z) :=
  match star with Some s => Some (sk p (s + 1)) | None => None end.

Definition ok_state (star : option Z) (mark pi ti : Z) : Prop :=
  0 <= pi <= lenZ p /\ 0 <= mark <= ti /\ ti <= lenZ t /\ match star with Some s => 0 <= s < lenZ p | None => True end.

Lemma star_here_lt i : 0 <= i -> star_here (sk p i) = true -> i < lenZ p.
Proof. intros Hi Hs. rewrite (star_here_sk i Hi) in Hs. apply andb_true_iff in Hs. destruct Hs as [E _]. apply Z.ltb_lt. exact E. Qed.
Lemma lit_here_lt i c : 0 <= i -> lit_here (sk p i) c = true -> i < lenZ p.
Proof. intros Hi Hs. rewrite (lit_here_sk i c Hi) in Hs. apply andb_true_iff in Hs. destruct Hs as [E _]. apply Z.ltb_lt. exact E. Qed.

Lemma first_loop : forall f star mark pi ti b, ok_state star mark pi ti ->
  glob_loop f (sk p pi) (sk t ti) (abs_star star) (sk t mark) = Some b ->
  exists fin, while_loop f cond1 body1 (star, mark, pi, ti) = Some fin /\
    match fin with
    | inr r => r = b
    | inl (_, _, pi2, _) => 0 <= pi2 <= lenZ p /\ only_stars (sk p pi2) = b
    end.
Proof.
  induction f as [|f IH]; intros star mark pi ti b Hok Hrun; [discriminate|].
  destruct Hok as ((Hpi & Hpi') & Hmark & Hti & Hstar).
  cbn [glob_loop while_loop] in *. unfold cond1 at 1.
  destruct (Z.ltb_spec ti (lenZ t)) as [Hlt|Hge].
  - (* inside the loop *)
    unfold lenZ in Hlt.
    assert (Et : sk t ti = nthZ t ti :: sk t (ti + 1)).
    { unfold sk, nthZ. rewrite (skipn_nth_cons t (Z.to_nat ti)) by lia. do 2 f_equal. lia. }
    rewrite Et in Hrun.
    unfold body1 at 1.
    rewrite <- (star_here_sk pi Hpi), <- (lit_here_sk pi (nthZ t ti) Hpi).
    destruct (star_here (sk p pi)) eqn:Es.
    + cbv zeta. rewrite (sk_succ p pi Hpi) in Hrun. pose proof (star_here_lt pi Hpi Es) as Hlt'.
      apply (IH (Some pi) ti (pi + 1) ti b).
      * unfold ok_state. unfold lenZ in *. repeat split; lia.
      * unfold abs_star. rewrite Et. exact Hrun.
    + destruct (lit_here (sk p pi) (nthZ t ti)) eqn:El.
      * cbv zeta. rewrite (sk_succ p pi Hpi) in Hrun. pose proof (lit_here_lt pi _ Hpi El) as Hlt'.
        apply (IH star mark (pi + 1) (ti + 1) b).
        -- unfold ok_state. unfold lenZ in *. repeat split; try lia. exact Hstar.
        -- exact Hrun.
      * destruct star as [s|]; cbn [abs_star] in Hrun.
        -- cbv zeta. rewrite (sk_succ t mark) in Hrun by lia.
           apply (IH (Some s) (mark + 1) (s + 1) (mark + 1) b).
           ++ unfold ok_state. unfold lenZ in *. repeat split; try lia.
           ++ exact Hrun.
        -- inversion Hrun; subst b. exists (inr false). split; reflexivity.
  - (* ti = |t| : the loop is left *)
    assert (Et : sk t ti = []).
    { unfold sk. apply skipn_all_nil. unfold lenZ in *. lia. }
    rewrite Et in Hrun. inversion Hrun; subst b.
    exists (inl (star, mark, pi, ti)). split; [reflexivity|]. split; [split; assumption|reflexivity].
Qed.

Definition cond2 := fun pi : Z => (pi <? lenZ p) && (nthZ p pi =? 42).
Definition body2 : Z -> Z + bool := fun pi => let pi := pi + 1 in inl pi.

Lemma second_loop : forall f pi, 0 <= pi <= lenZ p -> (length p - Z.to_nat pi < f)%nat ->
  exists pi2, while_loop f cond2 body2 pi = Some (inl pi2) /\ (pi2 =? lenZ p) = only_stars (sk p pi).
Proof.
  induction f as [|f IH]; intros pi [Hpi Hpi'] Hf; [lia|].
  cbn [while_loop]. unfold cond2 at 1. rewrite <- (star_here_sk pi Hpi).
  destruct (star_here (sk p pi)) eqn:Es.
  - unfold body2 at 1. cbv zeta.
    pose proof (star_here_lt pi Hpi Es) as Hlt. unfold lenZ in Hlt.
    destruct (IH (pi + 1)) as (pi2 & Hrun & Hres); [unfold lenZ; lia|lia|].
    exists pi2. split; [exact Hrun|]. rewrite Hres.
    unfold sk, star_here in *. rewrite (skipn_nth_cons p (Z.to_nat pi)) in * by lia.
    cbn [only_stars]. rewrite Es. cbn [andb]. do 2 f_equal. lia.
  - exists pi. split; [reflexivity|].
    unfold sk, star_here, lenZ in *.
    destruct (Nat.lt_ge_cases (Z.to_nat pi) (length p)) as [Hi|Hi].
    + rewrite (skipn_nth_cons p (Z.to_nat pi) Hi) in *. cbn [only_stars]. rewrite Es. cbn [andb].
      apply Z.eqb_neq. lia.
    + rewrite skipn_all_nil by lia. cbn [only_stars]. apply Z.eqb_eq. lia.
Qed.

Lemma tie_glob_match_aux fuel : (glob_fuel p t <= fuel)%nat ->
  g_glob_match fuel p t = Some (glob_match p t).
Proof.
  intros Hf. unfold g_glob_match. cbv zeta.
  change (fun '(star, mark, pi, ti) => ti <? lenZ t) with cond1.
  fold body1. fold cond2. fold body2.
  assert (Hrun : glob_loop fuel (sk p 0) (sk t 0) (abs_star None) (sk t 0) = Some (gm p t)).
  { unfold sk. cbn [Z.to_nat skipn abs_star]. apply (loop_correct fuel p t None t).
    unfold mu. unfold glob_fuel in Hf. nia. }
  destruct (first_loop fuel None 0 0 0 (gm p t)) as (fin & Hw & Hfin).
  { unfold ok_state, lenZ. repeat split; lia. }
  { exact Hrun. }
  rewrite Hw. rewrite glob_match_gm.
  destruct fin as [[[[star mark] pi] ti]|r].
  - destruct Hfin as [Hpi Hb].
    destruct (second_loop fuel pi Hpi) as (pi2 & Hw2 & Hres).
    { unfold glob_fuel in Hf. nia. }
    rewrite Hw2, Hres, Hb. reflexivity.
  - rewrite Hfin. reflexivity.
Qed.
End GlobTie.

Lemma tie_glob_match p t fuel : (glob_fuel p t <= fuel)%nat -> g_glob_match fuel p t = Some (glob_match p t).
Proof. apply tie_glob_match_aux. Qed.


(** ** plan.rs: is_excluded *)
Lemma trim_end_matches_slash s : trim_end_matches s 47 = trim_end_slash s.
Proof. induction s as [|x r IH]; [reflexivity|]. cbn [trim_end_matches trim_end_slash]. rewrite IH. reflexivity. Qed.

Lemma tie_is_excluded rel excludes : g_is_excluded rel excludes = is_excluded rel excludes.
Proof.
  unfold g_is_excluded, is_excluded.
  match goal with |- context [for_loop excludes ?bd tt] => set (body := bd) end.
  assert (Hin : forall pat cs,
            for_loop cs (fun (comp0 : comp) (_ : unit) =>
                           match comp0 with CNormal c => if glob_match pat c then inr true else inl tt | _ => inl tt end) tt
            = if any_normal glob_match pat cs then inr true else @inl unit bool tt).
  { intros pat cs. induction cs as [|c cs IH]; [reflexivity|]. cbn [for_loop any_normal].
    destruct c as [| | |c0]; try exact IH. destruct (glob_match pat c0); [reflexivity|exact IH]. }
  assert (Hloop : forall l, for_loop l body tt = if is_excluded_with glob_match rel l then inr true else inl tt).
  { induction l as [|pat0 l IH]; [reflexivity|]. cbn [for_loop is_excluded_with]. unfold body at 1. cbv zeta.
    rewrite trim_end_matches_slash.
    destruct (trim_end_slash pat0) as [|x r] eqn:Et.
    - cbn [lenZ length Z.of_nat Z.eqb]. exact IH.
    - assert (Hne : (lenZ (x :: r) =? 0) = false) by (unfold lenZ; apply Z.eqb_neq; cbn [length]; lia).
      rewrite Hne. change (containsZ (x :: r) 47) with (has_slash (x :: r)).
      destruct (has_slash (x :: r)).
      + destruct (glob_match (x :: r) rel); [reflexivity|exact IH].
      + rewrite Hin. destruct (any_normal glob_match (x :: r) (components rel)); [reflexivity|exact IH]. }
  rewrite Hloop. destruct (is_excluded_with glob_match rel excludes); reflexivity.
Qed.

(** ** plan.rs: build_plan - the two `for` loops that push onto the plan are [plan_source] / [plan_delete] *)
Lemma tie_build_plan src dst excludes with_delete :
  g_build_plan src dst excludes with_delete = build_plan src dst excludes with_delete.
Proof.
  unfold g_build_plan, build_plan. cbv zeta.
  match goal with |- context [for_loop src ?bd _] => set (body1 := bd) end.
  assert (H1 : forall l tr sk del,
            for_loop l body1 (Build_sync_plan tr sk del)
            = inl (Build_sync_plan (tr ++ fst (plan_source l dst excludes)) (sk + snd (plan_source l dst excludes)) del)).
  { induction l as [|[path smeta] l IH]; intros tr sk del; cbn [for_loop plan_source].
    - cbn [fst snd]. rewrite app_nil_r, Z.add_0_r. reflexivity.
    - unfold body1 at 1. cbv beta iota. destruct (plan_source l dst excludes) as [tr' sk'] eqn:Eps.
      destruct (is_excluded path excludes); cbv beta iota.
      + rewrite IH. reflexivity.
      + destruct (needs_transfer smeta (mm_get path dst)); cbv beta iota zeta; cbn [transfer skipped sp_delete]; rewrite IH; cbn [fst snd].
        * rewrite <- app_assoc. reflexivity.
        * f_equal. f_equal. lia. }
  rewrite H1. destruct (plan_source src dst excludes) as [tr sk]. cbn [fst snd app Z.add].
  destruct with_delete; [|reflexivity].
  match goal with |- context [for_loop (map fst dst) ?bd _] => set (body2 := bd) end.
  assert (H2 : forall l tr0 sk0 del,
            for_loop (map fst l) body2 (Build_sync_plan tr0 sk0 del)
            = inl (Build_sync_plan tr0 sk0 (del ++ plan_delete src l excludes))).
  { induction l as [|[path m] l IH]; intros tr0 sk0 del; cbn [map fst for_loop plan_delete].
    - rewrite app_nil_r. reflexivity.
    - unfold body2 at 1. cbv beta iota.
      destruct (negb (mm_mem path src) && negb (is_excluded path excludes)); cbv beta iota zeta; cbn [transfer skipped sp_delete]; rewrite IH.
      + rewrite <- app_assoc. reflexivity.
      + reflexivity. }
  rewrite H2. reflexivity.
Qed.

Definition plan_model_is_translation : Prop :=
  (forall src dst, g_needs_transfer src dst = needs_transfer src dst) /\
  (forall (p t : list Z) (fuel : nat), (glob_fuel p t <= fuel)%nat -> g_glob_match fuel p t = Some (glob_match p t)) /\
  (forall rel excludes, g_is_excluded rel excludes = is_excluded rel excludes) /\
  (forall src dst excludes with_delete, g_build_plan src dst excludes with_delete = build_plan src dst excludes with_delete).
Lemma plan_model_is_translation_holds : plan_model_is_translation.
Proof. split; [exact tie_needs_transfer|]. split; [exact tie_glob_match|]. split; [exact tie_is_excluded|exact tie_build_plan]. Qed.
