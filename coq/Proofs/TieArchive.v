(** The model of Archive::load IS the translation of the current source.

    Gen/ArchiveGen.v is regenerated from /repo's src/bin/copia/archive.rs on every run by tools/gen_logic.py:
    `std::fs::read(path).ok()?` is the model's optional file content, `serde_json::from_slice(..).ok()?` the
    section variable [parse] (serde_json is not modelled), and the trust decision - format version AND pair
    hash - is translated as written.  The lemma states that the generated function returns an archive exactly
    when Model/Archive.v's [load_file] does, with the same entries. *)
From Coq Require Import ZArith List Bool.
From Copia Require Import Gen.Constants Model.LoopLib Model.Archive Gen.ArchiveGen.
Import ListNotations.
Open Scope Z_scope.

Lemma tie_archive_load (E : Type) (parse : list Z -> option (Z * list Z * E)) (file : list Z -> option (list Z))
      (path expected_pair : list Z) :
  option_map snd (g_archive_load E parse file path expected_pair) = load_file E parse (file path) expected_pair.
Proof.
  unfold g_archive_load, load_file, load.
  destruct (file path) as [bytes|]; [|reflexivity].
  destruct (parse bytes) as [[[v ph] e]|]; [|reflexivity].
  cbn [fst snd]. destruct ((v =? ARCHIVE_FORMAT_VERSION) && bytes_eqb ph expected_pair); reflexivity.
Qed.

Definition archive_model_is_translation : Prop :=
  forall (E : Type) (parse : list Z -> option (Z * list Z * E)) (file : list Z -> option (list Z)) (path expected_pair : list Z),
    option_map snd (g_archive_load E parse file path expected_pair) = load_file E parse (file path) expected_pair.
Lemma archive_model_is_translation_holds : archive_model_is_translation.
Proof. exact tie_archive_load. Qed.
