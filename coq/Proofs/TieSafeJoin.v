(** The model of serve.rs safe_join IS the translation of the current source.

    Gen/SafeJoinGen.v is regenerated from /repo's Rust source on every run by tools/gen_logic.py (construct by construct:
    match, if, let, early return, loops as LoopLib combinators).  Every lemma below states that a generated function
    equals, on ALL inputs, the function of the hand-written model about which the property theorems are proved.
    They are proved by case analysis / induction: when the source changes, the generated term changes and the
    lemma is re-checked against it. *)
From Coq Require Import ZArith List Bool Arith Lia.
From Copia Require Import Gen.Constants Model.LoopLib Model.Path Model.SafeJoin Gen.SafeJoinGen.
Import ListNotations.
Open Scope Z_scope.

(** ** serve.rs: safe_join *)
Lemma safe_join_loop cs :
  for_loop cs (fun (c : comp) (_ : unit) =>
                 if match c with CParent | CRoot => true | _ => false end
                 then inr (@None (list Z)) else inl tt) tt
  = if existsb bad_comp cs then inr None else inl tt.
Proof.
  induction cs as [|c cs IH]; [reflexivity|].
  cbn [for_loop existsb]. unfold bad_comp at 1.
  destruct c; cbn [orb]; try reflexivity; exact IH.
Qed.

Lemma tie_safe_join root rel : g_safe_join root rel = safe_join root rel.
Proof.
  unfold g_safe_join, safe_join.
  destruct (is_absolute rel); [reflexivity|].
  rewrite safe_join_loop. destruct (existsb bad_comp (components rel)); reflexivity.
Qed.


Definition safe_join_model_is_translation : Prop := forall root rel, g_safe_join root rel = safe_join root rel.
Lemma safe_join_model_is_translation_holds : safe_join_model_is_translation.
Proof. exact tie_safe_join. Qed.
