(** The recursive push / pull run IS the translated source of incremental.rs `run_remote`, as a PROGRAM.

    Gen/RemoteRunGen.v (regenerated on every run) is `run_remote` read as the ordered list of what it does: which scan
    is the source and which the destination (push: local -> remote; pull: remote -> local), the "no files" exit, the
    plan from `build_plan`, printing it, the dry-run exit BEFORE anything is touched, the "up to date" exit, creating the
    directories on the receiving side, ONE spawned transfer per path of `plan.transfer` (`transfer_file_to_remote` for a
    push, `deliver_pull` for a pull, with the source's scanned mtime), the join, and only then
    `apply_remote_deletes(dir, .., &plan.delete)` when there is something to delete, then the report.
    [rw_program] states that shape outright; its meaning is [run_oneway] with the scans in those roles (the proof for
    the local program, Proofs/TieOneWayRun.v, applies word for word). *)
From Coq Require Import ZArith List Bool Lia.
From Copia Require Import Gen.Constants Model.LoopLib Model.Path Model.Glob Model.Plan Model.OneWay Gen.RemoteRunGen.
Import ListNotations.
Open Scope Z_scope.

Section Tie.
Variable local_meta remote_meta : metamap.
Variable collect_dirs : list (list Z) -> list (list Z).

Definition src_of (d : rdir) : metamap := match d with Push => local_meta | Pull => remote_meta end.
Definition dst_of (d : rdir) : metamap := match d with Push => remote_meta | Pull => local_meta end.

Definition rspawn_of (d : rdir) (rel : list Z) : reff :=
  RSpawn d rel (match mm_get rel (src_of d) with Some m => Some (fm_mtime m) | None => None end).

Definition rw_program (d : rdir) (o : opts) : list reff :=
  match src_of d, o_delete o with
  | [], false => [ENoFiles]
  | _, _ =>
    let plan := build_plan (src_of d) (dst_of d) (o_excludes o) (o_delete o) in
    if o_dry_run o then [RPrintPlan plan true]
    else match transfer plan, sp_delete plan with
    | [], [] => [RPrintPlan plan false; EUpToDate]
    | _, _ => [RPrintPlan plan false; RCreateDirs d (collect_dirs (transfer plan))]
              ++ map (rspawn_of d) (transfer plan) ++ [RJoin]
              ++ (match sp_delete plan with [] => [] | dl => [RDeletes d dl] end) ++ [RReport]
    end
  end.

Lemma rspawn_loop (d : rdir) (sm : metamap) (l : list (list Z)) (effs : list reff) :
  for_loop l (fun rel => fun effs =>
                let mtime := match mm_get rel sm with Some m => Some (fm_mtime m) | None => None end in
                let effs := effs ++ [RSpawn d rel mtime] in (inl effs : list reff + list reff)) effs
  = inl (effs ++ map (fun rel => RSpawn d rel (match mm_get rel sm with Some m => Some (fm_mtime m) | None => None end)) l).
Proof.
  revert effs; induction l as [|x l IH]; intros effs; cbn [for_loop map]; [rewrite app_nil_r; reflexivity|].
  cbv zeta. rewrite IH. rewrite <- app_assoc. reflexivity.
Qed.

Lemma lenZ_nil {A} (l : list A) : (lenZ l =? 0) = match l with [] => true | _ => false end.
Proof. destruct l; [reflexivity|]. unfold lenZ. cbn [length]. apply Z.eqb_neq. lia. Qed.

Theorem tie_run_remote (d : rdir) (o : opts) (jobs : Z) (verbose : bool) :
  g_run_remote local_meta remote_meta collect_dirs d o jobs verbose = rw_program d o.
Proof.
  unfold g_run_remote, rw_program, rspawn_of. cbv zeta.
  assert (Hsd : (match d with Push => (local_meta, remote_meta) | Pull => (remote_meta, local_meta) end) = (src_of d, dst_of d)) by (destruct d; reflexivity).
  rewrite Hsd. clear Hsd. rewrite !lenZ_nil.
  set (sm := src_of d). set (dm := dst_of d).
  assert (Hcase : forall (X : list reff),
            (if match sm with [] => true | _ => false end && negb (o_delete o) then [ENoFiles] else X)
            = match sm, o_delete o with [], false => [ENoFiles] | _, _ => X end).
  { intros X. destruct sm; [destruct (o_delete o)|]; reflexivity. }
  cbn [app]. rewrite Hcase. clear Hcase.
  assert (Hbody : forall plan : sync_plan,
    (if o_dry_run o then [RPrintPlan plan (o_dry_run o)]
     else if match transfer plan with [] => true | _ => false end && match sp_delete plan with [] => true | _ => false end
          then [RPrintPlan plan (o_dry_run o); EUpToDate]
          else match d with
               | Push =>
                   match for_loop (transfer plan) (fun rel effs => inl (effs ++ [RSpawn d rel match mm_get rel sm with Some m => Some (fm_mtime m) | None => None end]))
                           [RPrintPlan plan (o_dry_run o); RCreateDirs Push (collect_dirs (transfer plan))] with
                   | inl effs => if negb match sp_delete plan with [] => true | _ => false end
                                 then ((effs ++ [RJoin]) ++ [RDeletes d (sp_delete plan)]) ++ [RReport] else (effs ++ [RJoin]) ++ [RReport]
                   | inr r_1 => r_1
                   end
               | Pull =>
                   match for_loop (transfer plan) (fun rel effs => inl (effs ++ [RSpawn d rel match mm_get rel sm with Some m => Some (fm_mtime m) | None => None end]))
                           [RPrintPlan plan (o_dry_run o); RCreateDirs Pull (collect_dirs (transfer plan))] with
                   | inl effs => if negb match sp_delete plan with [] => true | _ => false end
                                 then ((effs ++ [RJoin]) ++ [RDeletes d (sp_delete plan)]) ++ [RReport] else (effs ++ [RJoin]) ++ [RReport]
                   | inr r_2 => r_2
                   end
               end)
    = (if o_dry_run o then [RPrintPlan plan true]
       else match transfer plan, sp_delete plan with
            | [], [] => [RPrintPlan plan false; EUpToDate]
            | _, _ => [RPrintPlan plan false; RCreateDirs d (collect_dirs (transfer plan))]
                      ++ map (fun rel => RSpawn d rel match mm_get rel sm with Some m => Some (fm_mtime m) | None => None end) (transfer plan) ++ [RJoin]
                      ++ (match sp_delete plan with [] => [] | dl => [RDeletes d dl] end) ++ [RReport]
            end)).
  { intros plan. destruct (o_dry_run o); [reflexivity|].
    pose proof (rspawn_loop d sm (transfer plan)) as HS. cbv zeta in HS.
    destruct d; rewrite HS;
      destruct (transfer plan) as [|t ts]; destruct (sp_delete plan) as [|dl dls]; cbn [andb negb map app]; rewrite <- ?app_assoc; reflexivity. }
  destruct sm as [|m0 ms]; [destruct (o_delete o); [|reflexivity]|]; apply Hbody.
Qed.
End Tie.

Definition remote_run_is_translation : Prop :=
  forall (local_meta remote_meta : metamap) (collect_dirs : list (list Z) -> list (list Z)) (d : rdir) (o : opts) (jobs : Z) (verbose : bool),
    g_run_remote local_meta remote_meta collect_dirs d o jobs verbose = rw_program local_meta remote_meta collect_dirs d o.
Lemma remote_run_is_translation_holds : remote_run_is_translation.
Proof. exact tie_run_remote. Qed.

(** both sides compute: a push with one file to send and one to delete; the same scans in a pull swap their roles *)
Example remote_run_nonvacuous :
  let lm : metamap := [([97], {| fm_size := 3; fm_mtime := 1700000000 |})] in
  let rm : metamap := [([98], {| fm_size := 1; fm_mtime := 5 |})] in
  let o := {| o_delete := true; o_excludes := []; o_dry_run := false |} in
  g_run_remote lm rm (fun x => x) Push o 4 false
  = [RPrintPlan {| transfer := [[97]]; skipped := 0; sp_delete := [[98]] |} false; RCreateDirs Push [[97]];
     RSpawn Push [97] (Some 1700000000); RJoin; RDeletes Push [[98]]; RReport] /\
  g_run_remote lm rm (fun x => x) Pull o 4 false
  = [RPrintPlan {| transfer := [[98]]; skipped := 0; sp_delete := [[97]] |} false; RCreateDirs Pull [[98]];
     RSpawn Pull [98] (Some 5); RJoin; RDeletes Pull [[97]]; RReport].
Proof. vm_compute. split; reflexivity. Qed.
