(** [Archive::load] trusts a record only for the right format version and pair. *)
From Coq Require Import ZArith List Bool.
From Copia Require Import Gen.Constants Model.Archive.
Import ListNotations.
Open Scope Z_scope.

Lemma bytes_eqb_eq a b : bytes_eqb a b = true <-> a = b.
Proof. unfold bytes_eqb. destruct (list_eq_dec Z.eq_dec a b); split; congruence. Qed.

Lemma load_checks (E : Type) (parse : list Z -> option (Z * list Z * E)) file expected e :
  load_file E parse file expected = Some e <->
  exists bytes, file = Some bytes /\ parse bytes = Some (ARCHIVE_FORMAT_VERSION, expected, e).
Proof.
  unfold load_file, load. split.
  - destruct file as [bytes|]; [|discriminate]. destruct (parse bytes) as [[[v pair] e']|] eqn:P; [|discriminate].
    destruct (v =? ARCHIVE_FORMAT_VERSION) eqn:V; [|discriminate]. cbn [andb].
    destruct (bytes_eqb pair expected) eqn:B; [|discriminate]. intros [= ->].
    apply Z.eqb_eq in V. apply bytes_eqb_eq in B. subst. eauto.
  - intros (bytes & -> & ->). rewrite Z.eqb_refl. cbn [andb].
    rewrite (proj2 (bytes_eqb_eq expected expected) eq_refl). reflexivity.
Qed.
