(** Lemmas about Model/BisyncSteps.v: the step list of a bisync run is a sequence of
    whole-file blocks (stage, data, fsync, rename | unlink) followed by the archive
    save; executing all of it gives the result of Model/Bisync.v; every prefix (a
    crash) leaves whole files on live names and an old, absent or new archive; for
    runs without both-changed conflicts a re-run from any crash state reaches the
    state of the uninterrupted run. *)
From stdpp Require Import gmap sorting.
From Copia Require Import Model.Bisync Model.BisyncSteps.

Local Instance side_eq_dec : EqDecision side.
Proof. solve_decision. Defined.

Section P.
Context `{Countable K}.
Context {D : Type} `{EqDecision D}.
Notation content := (list Z).
Variable Hh : content -> D.
Variable dge : D -> D -> bool.
Variable cname : K -> D -> K.
Variable kle : K -> K -> bool.
Notation work := (@work K _ _ D).
Notation state := (@state K _ _ D).
Notation fs := (@fs K _ _ D).
Notation fstep := (@fstep K _ _ D).
Notation apply := (apply dge cname).
Notation action_steps := (action_steps dge cname).
Notation plan_steps := (plan_steps dge cname).
Notation bisync_steps := (bisync_steps Hh dge cname kle).
Notation bisync_run := (bisync_run Hh dge cname kle).
Notation crash := (crash Hh dge cname kle).
Notation scan := (scan Hh).
Notation plan := (plan kle).
Notation trees := (gmap K content * gmap K content)%type.

(** ** Blocks: one whole-file operation each *)
Inductive blk := BCopy (sd : side) (q : K) (c : content) | BUnlink (sd : side) (q : K).

Definition blk_steps (b : blk) : list fstep :=
  match b with BCopy sd q c => copy_steps sd q c | BUnlink sd q => [FUnlink sd q] end.

Fixpoint blocks_steps (bl : list blk) : list fstep :=
  match bl with [] => [] | b :: r => blk_steps b ++ blocks_steps r end.

Lemma blocks_steps_app l1 l2 : blocks_steps (l1 ++ l2) = blocks_steps l1 ++ blocks_steps l2.
Proof. induction l1 as [|b l1 IH]; cbn [blocks_steps app]; [reflexivity|]. rewrite IH, (assoc_L (++)). reflexivity. Qed.

Definition action_blocks (a b : gmap K D) (w : work) (pa : K * action) : list blk :=
  if wErr w then [] else
  let '(p, act) := pa in
  match act with
  | Converge => []
  | PropAB => match wA w !! p with Some c => [BCopy SB p c] | None => [] end
  | PropBA => match wB w !! p with Some c => [BCopy SA p c] | None => [] end
  | DelA => [BUnlink SA p]
  | DelB => [BUnlink SB p]
  | ConfDelMod =>
      match a !! p, b !! p with
      | Some _, _ => match wA w !! p with Some c => [BCopy SB p c] | None => [] end
      | None, Some _ => match wB w !! p with Some c => [BCopy SA p c] | None => [] end
      | None, None => []
      end
  | ConfBoth =>
      match a !! p, b !! p with
      | Some fa, Some fb =>
          if dge fa fb then
            let q := cname p fb in
            match wB w !! p, wA w !! p with
            | Some lc, Some wc => [BCopy SB q lc; BCopy SA q lc; BCopy SB p wc]
            | _, _ => []
            end
          else
            let q := cname p fa in
            match wA w !! p, wB w !! p with
            | Some lc, Some wc => [BCopy SA q lc; BCopy SB q lc; BCopy SA p wc]
            | _, _ => []
            end
      | _, _ => []
      end
  end.

Fixpoint plan_blocks (a b : gmap K D) (w : work) (pl : list (K * action)) : list blk :=
  match pl with
  | [] => []
  | pa :: rest => action_blocks a b w pa ++ plan_blocks a b (apply a b w pa) rest
  end.

Lemma action_steps_blocks a b w pa : action_steps a b w pa = blocks_steps (action_blocks a b w pa).
Proof. unfold action_steps, action_blocks. destruct (wErr w); [reflexivity|]. destruct pa as [p act].
  destruct act; repeat case_match; reflexivity. Qed.

Lemma plan_steps_blocks a b w pl : plan_steps a b w pl = blocks_steps (plan_blocks a b w pl).
Proof. revert w; induction pl as [|pa pl IH]; intros w; cbn [BisyncSteps.plan_steps plan_blocks]; [reflexivity|].
  rewrite blocks_steps_app, action_steps_blocks, IH. reflexivity. Qed.

(** ** What one block does to the file system *)
Definition blk_fs (f : fs) (b : blk) : fs :=
  match b with
  | BCopy SA q c => {| fA := <[q := c]> (fA f); fB := fB f; gA := delete q (gA f); gB := gB f; farch := farch f;
                       ftmp := ftmp f; fbak := fbak f; synced := (SA, q) :: synced f |}
  | BCopy SB q c => {| fA := fA f; fB := <[q := c]> (fB f); gA := gA f; gB := delete q (gB f); farch := farch f;
                       ftmp := ftmp f; fbak := fbak f; synced := (SB, q) :: synced f |}
  | BUnlink SA q => {| fA := delete q (fA f); fB := fB f; gA := gA f; gB := gB f; farch := farch f;
                       ftmp := ftmp f; fbak := fbak f; synced := synced f |}
  | BUnlink SB q => {| fA := fA f; fB := delete q (fB f); gA := gA f; gB := gB f; farch := farch f;
                       ftmp := ftmp f; fbak := fbak f; synced := synced f |}
  end.

Lemma exec_all_app (f : fs) (l1 l2 : list fstep) : exec_all (exec_all f l1) l2 = exec_all f (l1 ++ l2).
Proof. unfold exec_all. rewrite foldl_app. reflexivity. Qed.

Lemma exec_blk (f : fs) b : exec_all f (blk_steps b) = blk_fs f b.
Proof. destruct b as [[] q c|[] q]; cbn; try reflexivity.
  - rewrite lookup_insert. cbn. rewrite !delete_insert_delete. reflexivity.
  - rewrite lookup_insert. cbn. rewrite !delete_insert_delete. reflexivity. Qed.

Definition blocks_fs (f : fs) (bl : list blk) : fs := foldl blk_fs f bl.

Lemma exec_blocks (f : fs) bl : exec_all f (blocks_steps bl) = blocks_fs f bl.
Proof. revert f; induction bl as [|b bl IH]; intros f; cbn [blocks_steps]; [reflexivity|].
  rewrite <- exec_all_app, exec_blk, IH. reflexivity. Qed.

Definition blk_apply (t : trees) (b : blk) : trees :=
  match b with
  | BCopy SA q c => (<[q := c]> t.1, t.2)
  | BCopy SB q c => (t.1, <[q := c]> t.2)
  | BUnlink SA q => (delete q t.1, t.2)
  | BUnlink SB q => (t.1, delete q t.2)
  end.

Lemma blocks_fs_proj (f : fs) bl :
  let f' := blocks_fs f bl in
  (fA f', fB f') = foldl blk_apply (fA f, fB f) bl /\
  (gA f = ∅ -> gA f' = ∅) /\ (gB f = ∅ -> gB f' = ∅) /\
  farch f' = farch f /\ ftmp f' = ftmp f /\ fbak f' = fbak f.
Proof. revert f; induction bl as [|b bl IH]; intros f; cbn [blocks_fs foldl]; [tauto|].
  destruct (IH (blk_fs f b)) as (A & B & C & E & F & G). fold (blocks_fs (blk_fs f b) bl).
  rewrite A, E, F, G. clear IH A E F G.
  destruct b as [[] q c|[] q]; cbn in *; (split; [reflexivity|]);
    (split; [intros Hg; apply B; try rewrite Hg; try apply delete_empty; auto|]);
    (split; [intros Hg; apply C; try rewrite Hg; try apply delete_empty; auto|]); auto. Qed.

(** a strict prefix of a block changes no live name and no archive file *)
Lemma exec_partial_blk (f : fs) b j : j < length (blk_steps b) ->
  let f' := exec_all f (take j (blk_steps b)) in
  fA f' = fA f /\ fB f' = fB f /\ farch f' = farch f /\ ftmp f' = ftmp f /\ fbak f' = fbak f /\
  (gA f = ∅ -> forall q c, gA f' !! q = Some c -> c = [] \/ b = BCopy SA q c) /\
  (gB f = ∅ -> forall q c, gB f' !! q = Some c -> c = [] \/ b = BCopy SB q c).
Proof. intros Hj.
  destruct b as [[] q c|[] q]; cbn in Hj;
  (destruct j as [|[|[|[|j]]]]; [..|lia]); cbn; try lia; repeat (split; [reflexivity|]);
  split; intros Hg q' c'; rewrite ?Hg, ?insert_insert; try (rewrite lookup_empty; discriminate);
  try (intros Hl; apply lookup_insert_Some in Hl as [[<- <-]|[_ Hl]]; [auto|rewrite lookup_empty in Hl; discriminate]).
Qed.

(** the prefixes of a block list *)
Lemma take_blocks_steps bl k : k < length (blocks_steps bl) ->
  exists m b j, bl !! m = Some b /\ j < length (blk_steps b) /\
    take k (blocks_steps bl) = blocks_steps (take m bl) ++ take j (blk_steps b).
Proof. revert k; induction bl as [|b bl IH]; intros k; cbn [blocks_steps]; [cbn; lia|].
  rewrite app_length. intros Hk. destruct (decide (k < length (blk_steps b))) as [Hlt|Hge].
  - exists 0, b, k. split; [reflexivity|]. split; [exact Hlt|]. cbn [take blocks_steps app].
    apply take_app_le. lia.
  - destruct (IH (k - length (blk_steps b))) as (m & b' & j & Hm & Hj & Ht); [lia|].
    exists (S m), b', j. split; [exact Hm|]. split; [exact Hj|].
    rewrite take_app_ge by lia. rewrite Ht. cbn [take blocks_steps]. rewrite (assoc_L (++)). reflexivity. Qed.


(** ** Blocks against the apply loop of Model/Bisync.v *)
Definition wtrees (w : work) : trees := (wA w, wB w).

(** the only premise: a conflict name differs from the path it is derived from
    (the real name is the path with a non-empty suffix appended) *)
Lemma action_blocks_apply a b w pa : (pa.2 <> ConfBoth \/ forall d, cname pa.1 d <> pa.1) ->
  foldl blk_apply (wtrees w) (action_blocks a b w pa) = wtrees (apply a b w pa).
Proof. intros Hcn. unfold action_blocks, Bisync.apply, wtrees. destruct (wErr w) eqn:He; [reflexivity|].
  destruct pa as [p act]. cbn [fst snd] in Hcn. destruct act; unfold copy; cbn [foldl blk_apply fst snd].
  - destruct (wA w !! p); reflexivity.
  - destruct (wB w !! p); reflexivity.
  - reflexivity.
  - reflexivity.
  - reflexivity.
  - destruct Hcn as [Hcn|Hcn]; [exfalso; apply Hcn; reflexivity|].
    destruct (a !! p) as [fa|], (b !! p) as [fb|]; try reflexivity.
    destruct (dge fa fb).
    + destruct (wB w !! p) as [lc|] eqn:E1; [|reflexivity].
      rewrite lookup_insert_ne by apply Hcn. rewrite E1.
      rewrite lookup_insert_ne by apply Hcn.
      destruct (wA w !! p) as [wc|] eqn:E2; reflexivity.
    + destruct (wA w !! p) as [lc|] eqn:E1; [|reflexivity].
      rewrite lookup_insert_ne by apply Hcn. rewrite E1.
      rewrite lookup_insert_ne by apply Hcn.
      destruct (wB w !! p) as [wc|] eqn:E2; reflexivity.
  - destruct (a !! p) as [fa|], (b !! p) as [fb|]; try reflexivity.
    + destruct (wA w !! p); reflexivity.
    + destruct (wA w !! p); reflexivity.
    + destruct (wB w !! p); reflexivity.
Qed.

Lemma plan_blocks_apply_gen a b w pl :
  Forall (fun pa : K * action => pa.2 <> ConfBoth \/ forall d, cname pa.1 d <> pa.1) pl ->
  foldl blk_apply (wtrees w) (plan_blocks a b w pl) = wtrees (foldl (apply a b) w pl).
Proof. intros Hpl. revert w; induction Hpl as [|pa pl Hpa Hpl IH]; intros w; cbn [plan_blocks foldl]; [reflexivity|].
  rewrite foldl_app, action_blocks_apply by exact Hpa. apply IH. Qed.

Lemma plan_blocks_apply a b w pl : (forall p d, cname p d <> p) ->
  foldl blk_apply (wtrees w) (plan_blocks a b w pl) = wtrees (foldl (apply a b) w pl).
Proof. intros Hcn. apply plan_blocks_apply_gen, Forall_forall. intros pa _. right. intros d. apply Hcn. Qed.

Lemma plan_blocks_apply_nc a b w pl : Forall (fun pa : K * action => pa.2 <> ConfBoth) pl ->
  foldl blk_apply (wtrees w) (plan_blocks a b w pl) = wtrees (foldl (apply a b) w pl).
Proof. intros Hnc. apply plan_blocks_apply_gen. eapply Forall_impl; [exact Hnc|]. intros pa Hpa. left. exact Hpa. Qed.

(** ** Names for the parts of a run *)
Definition w0_of (s : state) : work :=
  {| wA := tA s; wB := tB s;
     wC := match arch s with Some z => prune z (scan (tA s)) (scan (tB s)) | None => ∅ end;
     wConf := 0; wErr := false |}.
Definition plan_of (s : state) := plan (scan (tA s)) (scan (tB s)) (arch s).
Definition wfin (s : state) : work := foldl (apply (scan (tA s)) (scan (tB s))) (w0_of s) (plan_of s).
Definition data_blocks (s : state) := plan_blocks (scan (tA s)) (scan (tB s)) (w0_of s) (plan_of s).
Definition data_steps (s : state) := plan_steps (scan (tA s)) (scan (tB s)) (w0_of s) (plan_of s).
Definition arch_part (s : state) (ae : bool) : list fstep :=
  if wErr (wfin s) then [] else arch_steps ae (wC (wfin s)).
(** the result state of the run *)
Definition run_state (s : state) : state := (bisync_run s).1.1.

Lemma bisync_steps_eq s ae : bisync_steps s ae = data_steps s ++ arch_part s ae.
Proof. reflexivity. Qed.
Lemma data_steps_blocks s : data_steps s = blocks_steps (data_blocks s).
Proof. apply plan_steps_blocks. Qed.
Lemma run_state_eq s :
  run_state s = {| tA := wA (wfin s); tB := wB (wfin s);
                   arch := if wErr (wfin s) then arch s else Some (wC (wfin s)) |}.
Proof. unfold run_state, Bisync.bisync_run. fold (w0_of s). fold (plan_of s). fold (wfin s).
  destruct (wErr (wfin s)); reflexivity. Qed.
Lemma run_exit_eq s :
  (bisync_run s).1.2 = if wErr (wfin s) then ExitIoError
                       else if decide (wConf (wfin s) = 0) then ExitOk else ExitConflicts.
Proof. unfold Bisync.bisync_run. fold (w0_of s). fold (plan_of s). fold (wfin s).
  destruct (wErr (wfin s)); reflexivity. Qed.

(** number of archive steps up to and including the rename that publishes it *)
Definition n_ren (ae : bool) : nat := if ae then 5 else 4.

Lemma exec_arch_prefix (f : fs) ae z j :
  let f' := exec_all f (take j (arch_steps ae z)) in
  fA f' = fA f /\ fB f' = fB f /\ gA f' = gA f /\ gB f' = gB f /\
  ((farch f' = farch f /\ j < n_ren ae) \/ (farch f' = None /\ j < n_ren ae) \/
   (farch f' = Some z /\ ftmp f' = None /\ n_ren ae <= j)).
Proof. destruct ae; (destruct j as [|[|[|[|[|[|j]]]]]]); cbn; rewrite ?take_nil; cbn; auto 10 with lia. Qed.

Lemma exec_arch_all (f : fs) ae z :
  let f' := exec_all f (arch_steps ae z) in
  fA f' = fA f /\ fB f' = fB f /\ gA f' = gA f /\ gB f' = gB f /\ farch f' = Some z /\ ftmp f' = None.
Proof. destruct ae; cbn; auto 10. Qed.

Lemma crash_shape s ae k :
  let f := crash s ae k in
  let n := length (data_steps s) in
  (k < n /\ exists m b j, data_blocks s !! m = Some b /\ j < length (blk_steps b) /\
     f = exec_all (blocks_fs (fs_of s) (take m (data_blocks s))) (take j (blk_steps b))) \/
  (n <= k /\ f = exec_all (blocks_fs (fs_of s) (data_blocks s)) (take (k - n) (arch_part s ae))).
Proof. cbn zeta. unfold BisyncSteps.crash. rewrite bisync_steps_eq.
  destruct (decide (k < length (data_steps s))) as [Hlt|Hge].
  - left. split; [exact Hlt|]. rewrite take_app_le by lia. rewrite data_steps_blocks in *.
    destruct (take_blocks_steps _ _ Hlt) as (m & b & j & Hm & Hj & Ht).
    exists m, b, j. split; [exact Hm|]. split; [exact Hj|].
    rewrite Ht, <- exec_all_app, exec_blocks. reflexivity.
  - right. split; [lia|]. rewrite take_app_ge by lia. rewrite <- exec_all_app.
    rewrite data_steps_blocks at 1. rewrite exec_blocks. reflexivity. Qed.

Lemma data_blocks_trees s : (forall p d, cname p d <> p) ->
  foldl blk_apply (tA s, tB s) (data_blocks s) = (wA (wfin s), wB (wfin s)).
Proof. intros Hcn. exact (plan_blocks_apply _ _ (w0_of s) (plan_of s) Hcn). Qed.

(** ** 1. executing every step gives the result of the run *)
Lemma steps_agree_lemma s ae : (forall p d, cname p d <> p) ->
  let f := exec_all (fs_of s) (bisync_steps s ae) in
  fA f = tA (run_state s) /\ fB f = tB (run_state s) /\ farch f = arch (run_state s) /\
  gA f = ∅ /\ gB f = ∅ /\ ftmp f = None.
Proof. intros Hcn. cbn zeta. rewrite bisync_steps_eq, <- exec_all_app, data_steps_blocks, exec_blocks, run_state_eq.
  destruct (blocks_fs_proj (fs_of s) (data_blocks s)) as (A & B & C & E & F & G).
  cbn [fs_of fA fB] in A. rewrite data_blocks_trees in A by exact Hcn.
  injection A as A1 A2. specialize (B eq_refl). specialize (C eq_refl).
  unfold arch_part. cbn [tA tB arch]. destruct (wErr (wfin s)).
  - cbn [exec_all foldl]. rewrite A1, A2, B, C, E, F. cbn. auto 10.
  - destruct (exec_arch_all (blocks_fs (fs_of s) (data_blocks s)) ae (wC (wfin s))) as (P1 & P2 & P3 & P4 & P5 & P6).
    rewrite P1, P2, P3, P4, P5, P6, A1, A2, B, C. auto 10. Qed.


(** ** 3. the archive in a crash state *)
Lemma crash_archive_lemma s ae k :
  let f := crash s ae k in
  farch f = arch s \/ farch f = None \/ farch f = arch (run_state s).
Proof. cbn zeta. destruct (crash_shape s ae k) as [(Hk & m & b & j & Hm & Hj & ->)|(Hk & ->)].
  - left. destruct (exec_partial_blk (blocks_fs (fs_of s) (take m (data_blocks s))) b j Hj) as (_ & _ & A & _).
    rewrite A. destruct (blocks_fs_proj (fs_of s) (take m (data_blocks s))) as (_ & _ & _ & E & _). rewrite E. reflexivity.
  - destruct (blocks_fs_proj (fs_of s) (data_blocks s)) as (_ & _ & _ & E & _).
    rewrite run_state_eq. unfold arch_part. cbn [arch]. destruct (wErr (wfin s)).
    + left. rewrite take_nil. cbn [exec_all foldl]. rewrite E. reflexivity.
    + destruct (exec_arch_prefix (blocks_fs (fs_of s) (data_blocks s)) ae (wC (wfin s)) (k - length (data_steps s)))
        as (_ & _ & _ & _ & [[A _]|[[A _]|[A _]]]); rewrite A; auto. Qed.

Lemma archive_after_data_lemma s ae k :
  let f := crash s ae k in
  farch f = arch (run_state s) -> arch (run_state s) <> arch s ->
  length (data_steps s) + n_ren ae <= k /\
  fA f = fA (exec_all (fs_of s) (data_steps s)) /\ fB f = fB (exec_all (fs_of s) (data_steps s)) /\
  gA f = ∅ /\ gB f = ∅.
Proof. cbn zeta. intros Hnew Hne. destruct (crash_shape s ae k) as [(Hk & m & b & j & Hm & Hj & Hf)|(Hk & Hf)].
  - exfalso. apply Hne. rewrite <- Hnew, Hf.
    destruct (exec_partial_blk (blocks_fs (fs_of s) (take m (data_blocks s))) b j Hj) as (_ & _ & A & _).
    rewrite A. destruct (blocks_fs_proj (fs_of s) (take m (data_blocks s))) as (_ & _ & _ & E & _). rewrite E. reflexivity.
  - destruct (blocks_fs_proj (fs_of s) (data_blocks s)) as (_ & B & C & E & _).
    specialize (B eq_refl). specialize (C eq_refl).
    rewrite data_steps_blocks at 2 3. rewrite exec_blocks.
    rewrite run_state_eq in Hnew, Hne. cbn [arch] in Hnew, Hne. revert Hf. unfold arch_part.
    destruct (wErr (wfin s)); [congruence|]. intros Hf.
    destruct (exec_arch_prefix (blocks_fs (fs_of s) (data_blocks s)) ae (wC (wfin s)) (k - length (data_steps s)))
      as (P1 & P2 & P3 & P4 & P5). rewrite <- Hf in P1, P2, P3, P4, P5.
    rewrite P1, P2, P3, P4, B, C. split; [|auto].
    destruct P5 as [[A _]|[[A _]|(_ & _ & A)]].
    + exfalso. apply Hne. rewrite <- Hnew, A, E. reflexivity.
    + rewrite A in Hnew. discriminate.
    + lia. Qed.

(** ** 2. the order of the steps *)
Definition is_data_step (st : fstep) : bool :=
  match st with FStage _ _ | FData _ _ _ | FSync _ _ | FRename _ _ | FUnlink _ _ => true | _ => false end.
Definition is_arch_step (st : fstep) : bool := negb (is_data_step st).

(** a list of whole-file blocks: each copy is stage, data, fsync, rename of ONE
    destination, in this order and with nothing in between *)
Inductive blocked : list fstep -> Prop :=
| blocked_nil : blocked []
| blocked_copy sd q c l : blocked l -> blocked (copy_steps sd q c ++ l)
| blocked_unlink sd q l : blocked l -> blocked (FUnlink sd q :: l).

Lemma blocks_steps_blocked bl : blocked (blocks_steps bl).
Proof. induction bl as [|[sd q c|sd q] bl IH]; cbn [blocks_steps blk_steps]; constructor; exact IH. Qed.

Lemma blocked_data l : blocked l -> Forall (fun st => is_data_step st = true) l.
Proof. induction 1; cbn; repeat constructor; assumption. Qed.

Lemma blocked_rename l i sd q : blocked l -> l !! i = Some (FRename sd q) ->
  exists j c, i = j + 3 /\ l !! (j + 2) = Some (FSync sd q) /\ l !! (j + 1) = Some (FData sd q c) /\
              l !! j = Some (FStage sd q).
Proof. intros Hb; revert i; induction Hb as [|sd' q' c' l Hb IH|sd' q' l Hb IH]; intros i Hi.
  - rewrite lookup_nil in Hi. discriminate.
  - destruct i as [|[|[|[|i]]]]; cbn in Hi; try discriminate.
    + injection Hi as -> ->. exists 0, c'. cbn. auto.
    + destruct (IH i Hi) as (j & c & -> & A & B & C). exists (S (S (S (S j)))), c. cbn. auto.
  - destruct i as [|i]; cbn in Hi; [discriminate|].
    destruct (IH i Hi) as (j & c & -> & A & B & C). exists (S j), c. cbn. auto. Qed.

Lemma arch_part_arch s ae : Forall (fun st => is_arch_step st = true) (arch_part s ae).
Proof. unfold arch_part. destruct (wErr (wfin s)); [constructor|]. destruct ae; repeat constructor. Qed.

Lemma steps_structure s ae :
  bisync_steps s ae = data_steps s ++ arch_part s ae /\ blocked (data_steps s) /\
  Forall (fun st => is_data_step st = true) (data_steps s) /\
  Forall (fun st => is_arch_step st = true) (arch_part s ae) /\
  (arch_part s ae = [] \/ arch_part s ae = arch_steps ae (wC (wfin s))).
Proof. split; [reflexivity|]. split; [rewrite data_steps_blocks; apply blocks_steps_blocked|].
  split; [rewrite data_steps_blocks; apply blocked_data, blocks_steps_blocked|].
  split; [apply arch_part_arch|]. unfold arch_part. destruct (wErr (wfin s)); auto. Qed.

Lemma renames_follow_fsync_lemma s ae i sd q :
  bisync_steps s ae !! i = Some (FRename sd q) ->
  exists j c, i = j + 3 /\ bisync_steps s ae !! (j + 2) = Some (FSync sd q) /\
              bisync_steps s ae !! (j + 1) = Some (FData sd q c) /\
              bisync_steps s ae !! j = Some (FStage sd q).
Proof. rewrite bisync_steps_eq. intros Hi.
  destruct (decide (i < length (data_steps s))) as [Hlt|Hge].
  - rewrite lookup_app_l in Hi by exact Hlt.
    destruct (blocked_rename _ _ _ _ (proj1 (proj2 (steps_structure s ae))) Hi) as (j & c & -> & A & B & C).
    exists j, c. rewrite !lookup_app_l by lia. auto.
  - exfalso. rewrite lookup_app_r in Hi by lia.
    pose proof (arch_part_arch s ae) as Ha. rewrite Forall_forall in Ha.
    specialize (Ha _ (elem_of_list_lookup_2 _ _ _ Hi)). discriminate. Qed.

(** every archive step comes after every data step *)
Lemma archive_steps_last_lemma s ae i j st1 st2 :
  bisync_steps s ae !! i = Some st1 -> bisync_steps s ae !! j = Some st2 ->
  is_arch_step st1 = true -> is_data_step st2 = true -> j < i.
Proof. rewrite bisync_steps_eq. intros Hi Hj H1 H2.
  pose proof (arch_part_arch s ae) as Ha. rewrite Forall_forall in Ha.
  pose proof (proj1 (proj2 (proj2 (steps_structure s ae)))) as Hd. rewrite Forall_forall in Hd.
  destruct (decide (i < length (data_steps s))) as [Hlt|Hge].
  - rewrite lookup_app_l in Hi by exact Hlt. specialize (Hd _ (elem_of_list_lookup_2 _ _ _ Hi)).
    unfold is_arch_step in H1. rewrite Hd in H1. discriminate.
  - destruct (decide (j < length (data_steps s))) as [Hlt'|Hge']; [lia|].
    rewrite lookup_app_r in Hj by lia. specialize (Ha _ (elem_of_list_lookup_2 _ _ _ Hj)).
    unfold is_arch_step in Ha. rewrite H2 in Ha. discriminate. Qed.


(** ** 4. live names hold whole versions that existed before the run *)
Definition all_in (P : content -> Prop) (m : gmap K content) : Prop := forall q c, m !! q = Some c -> P c.
Definition trees_in (P : content -> Prop) (t : trees) : Prop := all_in P t.1 /\ all_in P t.2.
Definition blk_in (P : content -> Prop) (b : blk) : Prop :=
  match b with BCopy _ _ c => P c | BUnlink _ _ => True end.

Lemma all_in_insert (P : content -> Prop) (m : gmap K content) q c : P c -> all_in P m -> all_in P (<[q := c]> m).
Proof. intros Hc Hm q' c' Hl. apply lookup_insert_Some in Hl as [[_ <-]|[_ Hl]]; [exact Hc|exact (Hm _ _ Hl)]. Qed.
Lemma all_in_delete (P : content -> Prop) (m : gmap K content) q : all_in P m -> all_in P (delete q m).
Proof. intros Hm q' c' Hl. apply lookup_delete_Some in Hl as [_ Hl]. exact (Hm _ _ Hl). Qed.

Lemma blk_apply_in (P : content -> Prop) t b : blk_in P b -> trees_in P t -> trees_in P (blk_apply t b).
Proof. intros Hb [H1 H2]. destruct b as [[] q c|[] q]; split; cbn;
  auto using all_in_insert, all_in_delete. Qed.
Lemma foldl_blk_apply_in (P : content -> Prop) t bl : Forall (blk_in P) bl -> trees_in P t -> trees_in P (foldl blk_apply t bl).
Proof. intros Hbl; revert t; induction Hbl as [|b bl Hb Hbl IH]; intros t Ht; cbn [foldl]; [exact Ht|].
  apply IH, blk_apply_in; assumption. Qed.

Lemma copy_in (P : content -> Prop) (from : gmap K content) p (to : gmap K content) q t' :
  copy from p to q = Some t' -> all_in P from -> all_in P to -> all_in P t'.
Proof. unfold copy. destruct (from !! p) as [c|] eqn:E; [|discriminate]. intros [= <-] Hf Ht.
  apply all_in_insert; [exact (Hf _ _ E)|exact Ht]. Qed.

Ltac copy_facts P := repeat match goal with
  | Hc : copy ?f _ ?t _ = Some ?x |- _ =>
      let Hn := fresh in assert (Hn : all_in P x) by (eapply copy_in; eassumption); clear Hc end.

Lemma apply_in (P : content -> Prop) a b w pa : trees_in P (wtrees w) -> trees_in P (wtrees (apply a b w pa)).
Proof. intros [H1 H2]. cbn [wtrees fst snd] in H1, H2. unfold Bisync.apply, wtrees, trees_in.
  destruct (wErr w); [auto|]. destruct pa as [p act].
  destruct act; repeat case_match; cbn [wA wB fail fst snd]; copy_facts P; auto using all_in_delete. Qed.

Lemma action_blocks_in (P : content -> Prop) a b w pa : trees_in P (wtrees w) -> Forall (blk_in P) (action_blocks a b w pa).
Proof. intros [H1 H2]. cbn [wtrees fst snd] in H1, H2. unfold action_blocks.
  destruct (wErr w); [constructor|]. destruct pa as [p act].
  destruct act; repeat case_match; repeat constructor; cbn [blk_in]; eauto. Qed.

Lemma plan_blocks_in (P : content -> Prop) a b w pl : trees_in P (wtrees w) -> Forall (blk_in P) (plan_blocks a b w pl).
Proof. revert w; induction pl as [|pa pl IH]; intros w Hw; cbn [plan_blocks]; [constructor|].
  apply Forall_app. split; [apply action_blocks_in; exact Hw|]. apply IH, apply_in, Hw. Qed.

Definition pre_existing (s : state) (c : content) : Prop :=
  exists p, tA s !! p = Some c \/ tB s !! p = Some c.

Lemma crash_paths_whole_lemma s ae k :
  let f := crash s ae k in
  all_in (pre_existing s) (fA f) /\ all_in (pre_existing s) (fB f) /\
  (forall q c, gA f !! q = Some c -> c = [] \/ pre_existing s c) /\
  (forall q c, gB f !! q = Some c -> c = [] \/ pre_existing s c).
Proof. cbn zeta.
  assert (Hw0 : trees_in (pre_existing s) (wtrees (w0_of s))).
  { split; intros q c Hl; exists q; cbn in Hl; auto. }
  pose proof (plan_blocks_in _ (scan (tA s)) (scan (tB s)) _ (plan_of s) Hw0) as Hbl. fold (data_blocks s) in Hbl.
  destruct (crash_shape s ae k) as [(Hk & m & b & j & Hm & Hj & ->)|(Hk & ->)].
  - destruct (exec_partial_blk (blocks_fs (fs_of s) (take m (data_blocks s))) b j Hj) as (A1 & A2 & _ & _ & _ & A3 & A4).
    destruct (blocks_fs_proj (fs_of s) (take m (data_blocks s))) as (E & B & C & _).
    specialize (A3 (B eq_refl)). specialize (A4 (C eq_refl)). rewrite A1, A2.
    pose proof (foldl_blk_apply_in _ _ _ (Forall_take _ m _ Hbl) Hw0) as Ht.
    unfold wtrees in Ht. cbn [w0_of wA wB] in Ht. cbn [fs_of fA fB] in E. rewrite <- E in Ht. destruct Ht as [Ht1 Ht2].
    rewrite Forall_forall in Hbl. specialize (Hbl _ (elem_of_list_lookup_2 _ _ _ Hm)).
    split; [exact Ht1|]. split; [exact Ht2|].
    split; intros q c Hl; [destruct (A3 _ _ Hl) as [->| ->]|destruct (A4 _ _ Hl) as [->| ->]]; auto.
  - destruct (blocks_fs_proj (fs_of s) (data_blocks s)) as (E & B & C & _).
    specialize (B eq_refl). specialize (C eq_refl).
    pose proof (foldl_blk_apply_in _ _ _ Hbl Hw0) as Ht.
    unfold wtrees in Ht. cbn [w0_of wA wB] in Ht. cbn [fs_of fA fB] in E. rewrite <- E in Ht. destruct Ht as [Ht1 Ht2].
    assert (Hsame : forall g : fs, fA g = fA (blocks_fs (fs_of s) (data_blocks s)) ->
                     fB g = fB (blocks_fs (fs_of s) (data_blocks s)) -> gA g = ∅ -> gB g = ∅ ->
      all_in (pre_existing s) (fA g) /\ all_in (pre_existing s) (fB g) /\
      (forall q c, gA g !! q = Some c -> c = [] \/ pre_existing s c) /\
      (forall q c, gB g !! q = Some c -> c = [] \/ pre_existing s c)).
    { intros g -> -> -> ->. split; [exact Ht1|]. split; [exact Ht2|].
      split; intros q c Hl; rewrite lookup_empty in Hl; discriminate. }
    unfold arch_part. destruct (wErr (wfin s)).
    + rewrite take_nil. cbn [exec_all foldl]. apply Hsame; auto.
    + destruct (exec_arch_prefix (blocks_fs (fs_of s) (data_blocks s)) ae (wC (wfin s)) (k - length (data_steps s)))
        as (P1 & P2 & P3 & P4 & _). apply Hsame; congruence. Qed.


(** ** 5. recovery: per-path analysis for runs without both-changed conflicts *)

(** what the decision for one path does to the two sides of that path *)
Definition pres (ca cb : option content) (zx : option D) : option content * option content :=
  match rpath (Hh <$> ca) (Hh <$> cb) zx with
  | None => (ca, cb)
  | Some Converge => (ca, cb)
  | Some PropAB => (ca, ca)
  | Some PropBA => (cb, cb)
  | Some DelA => (None, cb)
  | Some DelB => (ca, None)
  | Some ConfDelMod => match ca with Some _ => (ca, ca) | None => (cb, cb) end
  | Some ConfBoth => (ca, cb)
  end.

Lemma rpath_src (x y z : option D) act : rpath x y z = Some act ->
  match act with
  | PropAB => is_Some x
  | PropBA => is_Some y
  | Converge => is_Some x /\ x = y
  | DelA => is_Some x /\ y = None
  | DelB => x = None /\ is_Some y
  | ConfDelMod => (is_Some x /\ y = None) \/ (x = None /\ is_Some y)
  | ConfBoth => is_Some x /\ is_Some y
  end.
Proof. unfold rpath. intros Hr. destruct x as [xv|], y as [yv|], z as [zv|];
  repeat (case_decide || case_match); simplify_eq; cbn; eauto. Qed.

Lemma rpath_none (x y z : option D) : rpath x y z = None ->
  (x = None /\ y = None) \/ (exists v, x = Some v /\ y = Some v /\ z = Some v).
Proof. unfold rpath. intros Hr. destruct x as [xv|], y as [yv|], z as [zv|];
  repeat (case_decide || case_match); simplify_eq; eauto. Qed.

Lemma rpath_same (x z : option D) : rpath x x z = None \/ rpath x x z = Some Converge.
Proof. unfold rpath. destruct x as [xv|]; [|auto]. rewrite decide_True by reflexivity. case_decide; auto. Qed.

Lemma pres_same ca cb z : Hh <$> ca = Hh <$> cb ->
  rpath (Hh <$> ca) (Hh <$> cb) z <> Some ConfBoth /\ pres ca cb z = (ca, cb).
Proof. intros He. unfold pres. rewrite He. destruct (rpath_same (Hh <$> cb) z) as [-> | ->]; split; congruence. Qed.

Lemma apply_at a b (w : work) p act zx :
  wErr w = false -> act <> ConfBoth ->
  a !! p = Hh <$> wA w !! p -> b !! p = Hh <$> wB w !! p ->
  rpath (a !! p) (b !! p) zx = Some act ->
  let w' := apply a b w (p, act) in
  wErr w' = false /\ wConf w' = wConf w /\
  (wA w' !! p, wB w' !! p) = pres (wA w !! p) (wB w !! p) zx /\
  wC w' !! p = Hh <$> wA w' !! p /\ Hh <$> wA w' !! p = Hh <$> wB w' !! p.
Proof. intros He Hnc Ha Hb Hr. cbn zeta. pose proof (rpath_src _ _ _ _ Hr) as Hs. unfold pres. rewrite <- Ha, <- Hb, Hr.
  unfold Bisync.apply, copy. rewrite He.
  destruct (wA w !! p) as [ca|] eqn:EA, (wB w !! p) as [cb|] eqn:EB; cbn in Ha, Hb; rewrite ?Ha, ?Hb in *;
  destruct act; try congruence; cbn in Hs;
  (try (destruct Hs as [Hs|Hs])); destruct_and?;
  try (match goal with H : is_Some None |- _ => destruct H; discriminate end); simplify_eq;
  cbn; unfold set_opt; rewrite ?lookup_insert, ?lookup_delete, ?EA, ?EB; cbn; auto 10 with f_equal.
Qed.

Lemma apply_other a b (w : work) p act x : act <> ConfBoth -> x <> p ->
  let w' := apply a b w (p, act) in
  wA w' !! x = wA w !! x /\ wB w' !! x = wB w !! x /\ wC w' !! x = wC w !! x.
Proof. intros Hnc Hx. cbn zeta. unfold Bisync.apply, copy, set_opt. destruct (wErr w); [auto|].
  destruct act; try congruence; repeat case_match; simplify_eq; cbn;
  rewrite ?lookup_insert_ne, ?lookup_delete_ne by congruence; auto. Qed.

Definition plan_ok (a b : gmap K D) (base : option (gmap K D)) (pl : list (K * action)) : Prop :=
  NoDup pl.*1 /\ forall p act, (p, act) ∈ pl -> act <> ConfBoth /\ rpath (a !! p) (b !! p) (base_at base p) = Some act.

Lemma foldl_apply_perpath a b base pl (w : work) :
  plan_ok a b base pl -> wErr w = false ->
  (forall p, p ∈ pl.*1 -> a !! p = Hh <$> wA w !! p /\ b !! p = Hh <$> wB w !! p) ->
  let w' := foldl (apply a b) w pl in
  wErr w' = false /\ wConf w' = wConf w /\
  forall x,
    (x ∈ pl.*1 -> (wA w' !! x, wB w' !! x) = pres (wA w !! x) (wB w !! x) (base_at base x) /\
                  wC w' !! x = Hh <$> wA w' !! x /\ Hh <$> wA w' !! x = Hh <$> wB w' !! x) /\
    (x ∉ pl.*1 -> wA w' !! x = wA w !! x /\ wB w' !! x = wB w !! x /\ wC w' !! x = wC w !! x).
Proof. revert w; induction pl as [|[p act] pl IH]; intros w [Hnd Hpl] He Hab; cbn [foldl].
  { split; [exact He|]. split; [reflexivity|]. intros x. split; [intros Hx; cbn in Hx; set_solver|auto]. }
  cbn [fmap list_fmap fst] in Hnd, Hab. apply NoDup_cons in Hnd as [Hp Hnd].
  destruct (Hpl p act) as [Hnc Hr]; [left|].
  destruct (Hab p) as [Ha Hb]; [left|].
  destruct (apply_at a b w p act _ He Hnc Ha Hb Hr) as (He1 & Hc1 & Hp1 & Hp2 & Hp3).
  set (w1 := apply a b w (p, act)) in *.
  assert (Hoth : forall x, x <> p -> wA w1 !! x = wA w !! x /\ wB w1 !! x = wB w !! x /\ wC w1 !! x = wC w !! x).
  { intros x Hx. exact (apply_other a b w p act x Hnc Hx). }
  destruct (IH w1) as (He2 & Hc2 & Hx2).
  { split; [exact Hnd|]. intros p' act' Hin. apply Hpl. right. exact Hin. }
  { exact He1. }
  { intros p' Hin. assert (p' <> p) by (intros ->; contradiction).
    destruct (Hoth p') as (-> & -> & _); [assumption|]. apply Hab. right. exact Hin. }
  split; [exact He2|]. split; [congruence|]. intros x. destruct (Hx2 x) as [Hin Hout].
  cbn [fmap list_fmap fst]. split.
  - intros Hx. apply elem_of_cons in Hx as [->|Hx].
    + destruct (Hout Hp) as (-> & -> & ->). auto.
    + assert (x <> p) by (intros ->; contradiction).
      destruct (Hoth x) as (E1 & E2 & _); [assumption|]. rewrite <- E1, <- E2. exact (Hin Hx).
  - intros Hx. apply not_elem_of_cons in Hx as [Hxp Hx].
    destruct (Hout Hx) as (-> & -> & ->). apply Hoth. exact Hxp. Qed.

(** facts about the plan *)
Lemma plan_elem (a b : gmap K D) base p act :
  (p, act) ∈ plan a b base -> rpath (a !! p) (b !! p) (base_at base p) = Some act.
Proof. unfold Bisync.plan. intros Hin. apply elem_of_list_omap in Hin as (p' & _ & Hf).
  destruct (rpath (a !! p') (b !! p') (base_at base p')) eqn:E; [|discriminate]. simplify_eq. exact E. Qed.

Lemma omap_fst_sublist {X} (f : K -> option X) (l : list K) :
  (omap (fun p => match f p with Some v => Some (p, v) | None => None end) l).*1 `sublist_of` l.
Proof. induction l as [|p l IH]; cbn; [constructor|]. destruct (f p); cbn; constructor; exact IH. Qed.

Lemma sublist_NoDup_1 {X} (l k : list X) : l `sublist_of` k -> NoDup k -> NoDup l.
Proof. intros Hs Hk. apply sublist_submseteq, submseteq_Permutation in Hs as [k' Hp].
  rewrite Hp in Hk. apply NoDup_app in Hk. tauto. Qed.

Lemma plan_fst_NoDup (a b : gmap K D) base : NoDup (plan a b base).*1.
Proof. unfold Bisync.plan. eapply sublist_NoDup_1; [apply omap_fst_sublist|].
  unfold plan_keys. rewrite merge_sort_Permutation. apply NoDup_elements. Qed.

Lemma plan_fst_elem (a b : gmap K D) base p :
  p ∈ (plan a b base).*1 <-> rpath (a !! p) (b !! p) (base_at base p) <> None.
Proof. split.
  - intros Hin. apply elem_of_list_fmap in Hin as ([p' act] & -> & Hin). cbn. rewrite (plan_elem _ _ _ _ _ Hin). discriminate.
  - intros Hr. destruct (rpath (a !! p) (b !! p) (base_at base p)) as [act|] eqn:E; [|congruence].
    apply elem_of_list_fmap. exists (p, act). split; [reflexivity|].
    unfold Bisync.plan. apply elem_of_list_omap. exists p. split; [|rewrite E; reflexivity].
    unfold plan_keys. rewrite merge_sort_Permutation. apply elem_of_elements, elem_of_union.
    rewrite !elem_of_dom. destruct (a !! p) eqn:Ea; [left; eauto|]. destruct (b !! p) eqn:Eb; [right; eauto|].
    cbn in E. discriminate. Qed.


(** no path of the run is a both-changed conflict *)
Definition conflict_free (s : state) : Prop :=
  forall x, rpath (scan (tA s) !! x) (scan (tB s) !! x) (base_at (arch s) x) <> Some ConfBoth.

Lemma plan_ok_of s : conflict_free s -> plan_ok (scan (tA s)) (scan (tB s)) (arch s) (plan_of s).
Proof. intros Hcf. split; [apply plan_fst_NoDup|]. intros p act Hin. apply plan_elem in Hin.
  split; [|exact Hin]. intros ->. exact (Hcf p Hin). Qed.

Lemma plan_ok_take a b base pl j : plan_ok a b base pl -> plan_ok a b base (take j pl).
Proof. intros [Hnd Hpl]. split.
  - rewrite fmap_take. eapply sublist_NoDup_1; [apply sublist_take|exact Hnd].
  - intros p act Hin. apply Hpl. apply elem_of_take in Hin as (i & Hi & _). eapply elem_of_list_lookup_2; eauto. Qed.

Lemma plan_ok_nc a b base pl : plan_ok a b base pl -> Forall (fun pa : K * action => pa.2 <> ConfBoth) pl.
Proof. intros [_ Hpl]. apply Forall_forall. intros [p act] Hin. exact (proj1 (Hpl p act Hin)). Qed.

Lemma run_per_path s : conflict_free s ->
  wErr (wfin s) = false /\ wConf (wfin s) = 0 /\
  forall x, (wA (wfin s) !! x, wB (wfin s) !! x) = pres (tA s !! x) (tB s !! x) (base_at (arch s) x) /\
            wC (wfin s) !! x = Hh <$> wA (wfin s) !! x /\
            Hh <$> wA (wfin s) !! x = Hh <$> wB (wfin s) !! x.
Proof. intros Hcf.
  destruct (foldl_apply_perpath _ _ _ _ (w0_of s) (plan_ok_of s Hcf) eq_refl) as (He & Hc & Hx).
  { intros p _. cbn [w0_of wA wB]. unfold Bisync.scan. rewrite !lookup_fmap. auto. }
  fold (wfin s) in He, Hc, Hx. split; [exact He|]. split; [exact Hc|]. intros x.
  destruct (Hx x) as [Hin Hout]. destruct (decide (x ∈ (plan_of s).*1)) as [Hi|Hn]; [exact (Hin Hi)|].
  destruct (Hout Hn) as (-> & -> & ->). cbn [w0_of wA wB wC].
  assert (Hr : rpath (scan (tA s) !! x) (scan (tB s) !! x) (base_at (arch s) x) = None).
  { destruct (rpath (scan (tA s) !! x) (scan (tB s) !! x) (base_at (arch s) x)) eqn:E; [|reflexivity].
    exfalso. apply Hn. apply plan_fst_elem. unfold plan_of in *. rewrite E. discriminate. }
  unfold pres. unfold Bisync.scan in Hr. rewrite !lookup_fmap in Hr. rewrite Hr. split; [reflexivity|].
  apply rpath_none in Hr as [[Ha Hb]|(v & Ha & Hb & Hz)].
  - rewrite Ha, Hb. split; [|reflexivity]. destruct (arch s) as [z|]; [|apply lookup_empty].
    unfold prune. apply map_filter_lookup_None. right. intros d _ [Hs|Hs]; cbn in Hs;
      unfold Bisync.scan in Hs; rewrite lookup_fmap in Hs; rewrite ?Ha, ?Hb in Hs; destruct Hs; discriminate.
  - rewrite Ha, Hb. split; [|reflexivity]. destruct (arch s) as [z|]; [|discriminate]. cbn in Hz.
    unfold prune. apply map_filter_lookup_Some. split; [exact Hz|]. left. cbn.
    unfold Bisync.scan. rewrite lookup_fmap, Ha. eauto. Qed.

(** the working state after the first j actions *)
Definition wpre (s : state) (j : nat) : work :=
  foldl (apply (scan (tA s)) (scan (tB s))) (w0_of s) (take j (plan_of s)).

Lemma prefix_perpath s j : conflict_free s ->
  forall x, (wA (wpre s j) !! x, wB (wpre s j) !! x) = (tA s !! x, tB s !! x) \/
            (wA (wpre s j) !! x, wB (wpre s j) !! x) = (wA (wfin s) !! x, wB (wfin s) !! x).
Proof. intros Hcf x. destruct (run_per_path s Hcf) as (_ & _ & Hfin). destruct (Hfin x) as (Hf & _).
  destruct (foldl_apply_perpath _ _ _ _ (w0_of s) (plan_ok_take _ _ _ _ j (plan_ok_of s Hcf)) eq_refl) as (_ & _ & Hx).
  { intros p _. cbn [w0_of wA wB]. unfold Bisync.scan. rewrite !lookup_fmap. auto. }
  fold (wpre s j) in Hx. destruct (Hx x) as [Hin Hout].
  destruct (decide (x ∈ (take j (plan_of s)).*1)) as [Hi|Hn].
  - right. destruct (Hin Hi) as (-> & _). cbn [w0_of wA wB]. symmetry. exact Hf.
  - left. destruct (Hout Hn) as (-> & -> & _). reflexivity. Qed.

Lemma action_blocks_nc_len a b w pa : pa.2 <> ConfBoth -> length (action_blocks a b w pa) <= 1.
Proof. unfold action_blocks. destruct (wErr w); [cbn; lia|]. destruct pa as [p act]. cbn [snd].
  destruct act; try congruence; intros _; repeat case_match; cbn; lia. Qed.

Lemma take_plan_blocks a b w pl m : Forall (fun pa : K * action => pa.2 <> ConfBoth) pl ->
  exists j, take m (plan_blocks a b w pl) = plan_blocks a b w (take j pl).
Proof. intros Hpl. revert w m; induction Hpl as [|pa pl Hpa Hpl IH]; intros w m.
  { exists 0. cbn. apply take_nil. }
  destruct m as [|m]; [exists 0; reflexivity|].
  pose proof (action_blocks_nc_len a b w pa Hpa) as Hlen.
  destruct (action_blocks a b w pa) as [|b1 [|b2 l]] eqn:E; cbn in Hlen; try lia.
  - destruct (IH (apply a b w pa) (S m)) as (j & Hj). exists (S j). cbn [take plan_blocks]. rewrite E. exact Hj.
  - destruct (IH (apply a b w pa) m) as (j & Hj). exists (S j). cbn [take plan_blocks]. rewrite E. cbn. rewrite Hj. reflexivity. Qed.

Lemma crash_cases_nc s ae k : conflict_free s ->
  let f := crash s ae k in
  (exists j, fA f = wA (wpre s j) /\ fB f = wB (wpre s j) /\ farch f = arch s) \/
  (fA f = wA (wfin s) /\ fB f = wB (wfin s) /\
   (farch f = arch s \/ farch f = None \/ farch f = Some (wC (wfin s)))).
Proof. intros Hcf. cbn zeta. pose proof (plan_ok_of s Hcf) as Hok. pose proof (plan_ok_nc _ _ _ _ Hok) as Hnc.
  destruct (crash_shape s ae k) as [(Hk & m & b & j & Hm & Hj & ->)|(Hk & ->)].
  - left. destruct (exec_partial_blk (blocks_fs (fs_of s) (take m (data_blocks s))) b j Hj) as (-> & -> & -> & _).
    destruct (blocks_fs_proj (fs_of s) (take m (data_blocks s))) as (E & _ & _ & -> & _).
    cbn [fs_of fA fB farch] in *. destruct (take_plan_blocks (scan (tA s)) (scan (tB s)) (w0_of s) _ m Hnc) as (j' & Hj').
    fold (data_blocks s) in Hj'. rewrite Hj' in E |- *. exists j'.
    pose proof (plan_blocks_apply_nc (scan (tA s)) (scan (tB s)) (w0_of s) (take j' (plan_of s)) (Forall_take _ j' _ Hnc)) as Hp.
    unfold wtrees in Hp at 1. cbn [w0_of wA wB] in Hp. rewrite Hp in E. fold (wpre s j') in E. unfold wtrees in E.
    injection E as -> ->. auto.
  - right. destruct (blocks_fs_proj (fs_of s) (data_blocks s)) as (E & _ & _ & Ea & _).
    cbn [fs_of fA fB farch] in *.
    pose proof (plan_blocks_apply_nc (scan (tA s)) (scan (tB s)) (w0_of s) (plan_of s) Hnc) as Hp.
    unfold wtrees in Hp at 1. cbn [w0_of wA wB] in Hp. fold (data_blocks s) in Hp. rewrite Hp in E.
    fold (wfin s) in E. unfold wtrees in E. injection E as E1 E2.
    unfold arch_part. destruct (wErr (wfin s)).
    + rewrite take_nil. cbn [exec_all foldl]. rewrite E1, E2, Ea. auto.
    + destruct (exec_arch_prefix (blocks_fs (fs_of s) (data_blocks s)) ae (wC (wfin s)) (k - length (data_steps s)))
        as (-> & -> & _ & _ & [[A _]|[[A _]|[A _]]]); rewrite A, E1, E2, ?Ea; auto. Qed.

(** the state a re-run starts from (staging files are not part of it) *)
Definition recover (f : fs) : state := {| tA := fA f; tB := fB f; arch := farch f |}.

Lemma recovery_nc s ae k : conflict_free s ->
  let r := recover (crash s ae k) in
  conflict_free r /\ run_state r = run_state s /\
  (bisync_run r).1.2 = ExitOk /\ (bisync_run s).1.2 = ExitOk.
Proof. intros Hcf. cbn zeta. set (r := recover (crash s ae k)).
  destruct (run_per_path s Hcf) as (He & Hc & Hfin).
  assert (Hx : forall x, rpath (Hh <$> tA r !! x) (Hh <$> tB r !! x) (base_at (arch r) x) <> Some ConfBoth /\
                         pres (tA r !! x) (tB r !! x) (base_at (arch r) x) = (wA (wfin s) !! x, wB (wfin s) !! x)).
  { intros x. destruct (Hfin x) as (Hf1 & _ & Hf3). unfold r, recover. cbn [tA tB arch].
    destruct (crash_cases_nc s ae k Hcf) as [(j & -> & -> & ->)|(-> & -> & _)].
    - destruct (prefix_perpath s j Hcf x) as [E|E]; injection E as -> ->.
      + split; [|symmetry; exact Hf1]. specialize (Hcf x). unfold Bisync.scan in Hcf. rewrite !lookup_fmap in Hcf. exact Hcf.
      + apply pres_same. exact Hf3.
    - apply pres_same. exact Hf3. }
  assert (Hcf' : conflict_free r).
  { intros x. unfold Bisync.scan. rewrite !lookup_fmap. exact (proj1 (Hx x)). }
  destruct (run_per_path r Hcf') as (He' & Hc' & Hfin').
  assert (EA : wA (wfin r) = wA (wfin s)).
  { apply map_eq. intros x. destruct (Hfin' x) as (Hf & _). rewrite (proj2 (Hx x)) in Hf. congruence. }
  assert (EB : wB (wfin r) = wB (wfin s)).
  { apply map_eq. intros x. destruct (Hfin' x) as (Hf & _). rewrite (proj2 (Hx x)) in Hf. congruence. }
  assert (EC : wC (wfin r) = wC (wfin s)).
  { apply map_eq. intros x. destruct (Hfin' x) as (_ & -> & _). destruct (Hfin x) as (_ & -> & _). rewrite EA. reflexivity. }
  split; [exact Hcf'|]. split.
  - rewrite !run_state_eq, He, He', EA, EB, EC. reflexivity.
  - rewrite !run_exit_eq, He, He', Hc, Hc'. auto. Qed.

(** for a conflict-free run each path is, in every crash state, as before the run
    or as after it - on both sides together *)
Lemma crash_paths_old_or_new_nc s ae k x : conflict_free s ->
  let f := crash s ae k in
  (fA f !! x, fB f !! x) = (tA s !! x, tB s !! x) \/
  (fA f !! x, fB f !! x) = (tA (run_state s) !! x, tB (run_state s) !! x).
Proof. intros Hcf. cbn zeta. rewrite run_state_eq. cbn [tA tB].
  destruct (crash_cases_nc s ae k Hcf) as [(j & -> & -> & _)|(-> & -> & _)]; [|auto].
  exact (prefix_perpath s j Hcf x). Qed.


Lemma data_steps_trees s : (forall p d, cname p d <> p) ->
  fA (exec_all (fs_of s) (data_steps s)) = tA (run_state s) /\
  fB (exec_all (fs_of s) (data_steps s)) = tB (run_state s).
Proof. intros Hcn. rewrite data_steps_blocks, exec_blocks, run_state_eq. cbn [tA tB].
  destruct (blocks_fs_proj (fs_of s) (data_blocks s)) as (E & _). cbn [fs_of fA fB] in E.
  rewrite data_blocks_trees in E by exact Hcn. injection E as -> ->. auto. Qed.


Lemma archive_after_data_full s ae k :
  let f := crash s ae k in
  farch f = arch (run_state s) -> arch (run_state s) <> arch s ->
  length (data_steps s) + (if ae then 5 else 4) <= k /\
  take (length (data_steps s)) (bisync_steps s ae) = data_steps s /\
  gA f = ∅ /\ gB f = ∅ /\
  ((forall p d, cname p d <> p) -> fA f = tA (run_state s) /\ fB f = tB (run_state s)).
Proof. cbn zeta. intros Hnew Hne.
  destruct (archive_after_data_lemma s ae k Hnew Hne) as (A & B & C & E & F).
  split; [exact A|]. split; [rewrite bisync_steps_eq; apply take_app|]. split; [exact E|]. split; [exact F|].
  intros Hcn. destruct (data_steps_trees s Hcn) as [<- <-]. auto. Qed.


(** ** the run never stops on an I/O error: every source of a copy exists *)
Lemma copy_some (from : gmap K content) p (to : gmap K content) q : is_Some (from !! p) ->
  exists c, copy from p to q = Some (<[q := c]> to).
Proof. intros [c Hc]. exists c. unfold copy. rewrite Hc. reflexivity. Qed.

Lemma apply_no_err a b (w : work) p act zx :
  wErr w = false -> rpath (a !! p) (b !! p) zx = Some act ->
  (is_Some (a !! p) -> is_Some (wA w !! p)) -> (is_Some (b !! p) -> is_Some (wB w !! p)) ->
  wErr (apply a b w (p, act)) = false.
Proof. intros He Hr HA HB. pose proof (rpath_src _ _ _ _ Hr) as Hs. unfold Bisync.apply. rewrite He.
  destruct act; cbn in Hs; try reflexivity.
  - destruct (copy_some (wA w) p (wB w) p (HA Hs)) as (c & ->). reflexivity.
  - destruct (copy_some (wB w) p (wA w) p (HB Hs)) as (c & ->). reflexivity.
  - destruct Hs as [Ha Hb]. specialize (HA Ha). specialize (HB Hb).
    destruct Ha as [fa ->], Hb as [fb ->]. destruct (dge fa fb).
    + destruct (copy_some (wB w) p (wB w) (cname p fb) HB) as (c1 & ->).
      destruct (copy_some (<[cname p fb := c1]> (wB w)) p (wA w) (cname p fb)) as (c2 & ->);
        [apply lookup_insert_is_Some'; right; exact HB|].
      destruct (copy_some (<[cname p fb := c2]> (wA w)) p (<[cname p fb := c1]> (wB w)) p) as (c3 & ->);
        [apply lookup_insert_is_Some'; right; exact HA|]. reflexivity.
    + destruct (copy_some (wA w) p (wA w) (cname p fa) HA) as (c1 & ->).
      destruct (copy_some (<[cname p fa := c1]> (wA w)) p (wB w) (cname p fa)) as (c2 & ->);
        [apply lookup_insert_is_Some'; right; exact HA|].
      destruct (copy_some (<[cname p fa := c2]> (wB w)) p (<[cname p fa := c1]> (wA w)) p) as (c3 & ->);
        [apply lookup_insert_is_Some'; right; exact HB|]. reflexivity.
  - destruct Hs as [[Ha Hb]|[Ha Hb]].
    + specialize (HA Ha). destruct Ha as [fa ->].
      destruct (copy_some (wA w) p (wB w) p HA) as (c & ->). reflexivity.
    + rewrite Ha. specialize (HB Hb). destruct Hb as [fb ->].
      destruct (copy_some (wB w) p (wA w) p HB) as (c & ->). reflexivity.
Qed.

(** an action removes nothing at other paths *)
Lemma apply_dom_mono a b (w : work) p act x : x <> p ->
  (is_Some (wA w !! x) -> is_Some (wA (apply a b w (p, act)) !! x)) /\
  (is_Some (wB w !! x) -> is_Some (wB (apply a b w (p, act)) !! x)).
Proof. intros Hx. unfold Bisync.apply, copy. destruct (wErr w); [auto|].
  destruct act; repeat case_match; simplify_eq; cbn [wA wB fail];
  rewrite ?lookup_insert_is_Some', ?lookup_delete_ne by congruence; auto. Qed.

Lemma foldl_apply_no_err a b base pl (w : work) :
  NoDup pl.*1 ->
  (forall p act, (p, act) ∈ pl -> rpath (a !! p) (b !! p) (base_at base p) = Some act) ->
  wErr w = false ->
  (forall p, p ∈ pl.*1 -> (is_Some (a !! p) -> is_Some (wA w !! p)) /\ (is_Some (b !! p) -> is_Some (wB w !! p))) ->
  wErr (foldl (apply a b) w pl) = false.
Proof. revert w; induction pl as [|[p act] pl IH]; intros w Hnd Hpl He Hab; cbn [foldl]; [exact He|].
  cbn [fmap list_fmap fst] in Hnd, Hab. apply NoDup_cons in Hnd as [Hp Hnd].
  destruct (Hab p) as [HA HB]; [left|].
  apply IH.
  - exact Hnd.
  - intros p' act' Hin. apply Hpl. right. exact Hin.
  - eapply apply_no_err; [exact He|apply Hpl; left|exact HA|exact HB].
  - intros p' Hin. assert (p' <> p) by (intros ->; contradiction).
    destruct (apply_dom_mono a b w p act p') as [M1 M2]; [assumption|].
    destruct (Hab p') as [HA' HB']; [right; exact Hin|]. split; auto. Qed.

Lemma no_io_error s : wErr (wfin s) = false.
Proof. unfold wfin. eapply foldl_apply_no_err with (base := arch s).
  - apply plan_fst_NoDup.
  - intros p act Hin. exact (plan_elem _ _ _ _ _ Hin).
  - reflexivity.
  - intros p _. cbn [w0_of wA wB]. unfold Bisync.scan. rewrite !lookup_fmap, !fmap_is_Some. auto. Qed.

Lemma run_never_io_error s :
  (bisync_run s).1.2 <> ExitIoError /\ arch (run_state s) = Some (wC (wfin s)) /\
  forall ae, arch_part s ae = arch_steps ae (wC (wfin s)).
Proof. rewrite run_exit_eq, run_state_eq. unfold arch_part. rewrite no_io_error. cbn [arch].
  split; [case_decide; discriminate|]. auto. Qed.


(** ** with fresh conflict names every cell (side, path) is written at most once *)
Definition cell_of (b : blk) : side * K :=
  match b with BCopy sd q _ => (sd, q) | BUnlink sd q => (sd, q) end.
Definition val (t : trees) (c : side * K) : option content :=
  match c.1 with SA => t.1 !! c.2 | SB => t.2 !! c.2 end.

Lemma blk_apply_other t b c : c <> cell_of b -> val (blk_apply t b) c = val t c.
Proof. destruct c as [sd x], b as [[] q cc|[] q], sd; cbn; intros Hne; try reflexivity;
  first [rewrite lookup_insert_ne by congruence | rewrite lookup_delete_ne by congruence]; reflexivity. Qed.

Lemma foldl_blk_apply_other t bl c : c ∉ cell_of <$> bl -> val (foldl blk_apply t bl) c = val t c.
Proof. revert t; induction bl as [|b bl IH]; intros t Hc; cbn [foldl]; [reflexivity|].
  cbn [fmap list_fmap] in Hc. apply not_elem_of_cons in Hc as [Hb Hc].
  rewrite IH by exact Hc. apply blk_apply_other. exact Hb. Qed.

Lemma write_once t bl m c : NoDup (cell_of <$> bl) ->
  val (foldl blk_apply t (take m bl)) c = val t c \/
  val (foldl blk_apply t (take m bl)) c = val (foldl blk_apply t bl) c.
Proof. intros Hnd. rewrite <- (take_drop m bl), fmap_app in Hnd. apply NoDup_app in Hnd as (_ & Hdis & _).
  destruct (decide (c ∈ cell_of <$> take m bl)) as [Hin|Hout].
  - right. rewrite <- (take_drop m bl) at 2. rewrite foldl_app.
    symmetry. apply foldl_blk_apply_other. exact (Hdis c Hin).
  - left. apply foldl_blk_apply_other. exact Hout. Qed.

Lemma action_cells a b w p act blk : blk ∈ action_blocks a b w (p, act) ->
  (cell_of blk).2 = p \/ exists d, (cell_of blk).2 = cname p d.
Proof. unfold action_blocks. destruct (wErr w); [intros Hin; set_solver|].
  destruct act; repeat case_match; rewrite ?elem_of_cons, elem_of_nil; intros Hin;
  destruct_or?; simplify_eq; cbn; eauto. Qed.

Lemma action_cells_NoDup a b w p act : (forall d, cname p d <> p) ->
  NoDup (cell_of <$> action_blocks a b w (p, act)).
Proof. intros Hcn. unfold action_blocks. destruct (wErr w); [constructor|].
  destruct act; repeat case_match; cbn;
  repeat (apply NoDup_cons; split; [rewrite ?elem_of_cons, elem_of_nil; intros Hin; destruct_or?; simplify_eq;
                                    eapply Hcn; eauto|]); apply NoDup_nil; exact I. Qed.

Lemma plan_cells a b w pl blk : blk ∈ plan_blocks a b w pl ->
  exists p, p ∈ pl.*1 /\ ((cell_of blk).2 = p \/ exists d, (cell_of blk).2 = cname p d).
Proof. revert w; induction pl as [|[p act] pl IH]; intros w; cbn [plan_blocks]; [intros Hin; set_solver|].
  rewrite elem_of_app. intros [Hin|Hin].
  - exists p. split; [left|]. exact (action_cells _ _ _ _ _ _ Hin).
  - destruct (IH _ Hin) as (p' & Hp' & Hc). exists p'. split; [right; exact Hp'|exact Hc]. Qed.

Lemma plan_cells_NoDup a b w pl :
  NoDup pl.*1 -> (forall p d p', p' ∈ pl.*1 -> cname p d <> p') ->
  (forall p d p' d', cname p d = cname p' d' -> p = p') ->
  NoDup (cell_of <$> plan_blocks a b w pl).
Proof. intros Hnd Hfresh Hinj. revert w Hnd Hfresh; induction pl as [|[p act] pl IH]; intros w Hnd Hfresh;
  cbn [plan_blocks]; [constructor|].
  cbn [fmap list_fmap fst] in Hnd, Hfresh. apply NoDup_cons in Hnd as [Hp Hnd].
  rewrite fmap_app. apply NoDup_app. split; [|split].
  - apply action_cells_NoDup. intros d. apply Hfresh. left.
  - intros c Hc1 Hc2. apply elem_of_list_fmap in Hc1 as (b1 & -> & Hb1). apply elem_of_list_fmap in Hc2 as (b2 & Hc & Hb2).
    apply action_cells in Hb1. apply plan_cells in Hb2 as (p' & Hp' & Hb2). rewrite <- Hc in Hb2.
    assert (p <> p') by (intros ->; contradiction).
    destruct Hb1 as [E1|[d1 E1]], Hb2 as [E2|[d2 E2]]; rewrite E1 in E2.
    + congruence.
    + symmetry in E2. eapply Hfresh; [left|exact E2].
    + eapply Hfresh; [right; exact Hp'|exact E2].
    + apply Hinj in E2. congruence.
  - apply IH; [exact Hnd|]. intros q d p' Hp'. apply Hfresh. right. exact Hp'. Qed.

(** no path of either tree is a conflict name; a conflict name determines its path *)
Definition names_fresh (s : state) : Prop :=
  forall p d, tA s !! cname p d = None /\ tB s !! cname p d = None.
Definition names_inj : Prop := forall p d p' d', cname p d = cname p' d' -> p = p'.

Lemma plan_paths_not_names s : names_fresh s -> forall p d p', p' ∈ (plan_of s).*1 -> cname p d <> p'.
Proof. intros Hf p d p' Hin Hc. apply plan_fst_elem in Hin. apply Hin. destruct (Hf p d) as [HA HB].
  rewrite Hc in HA, HB. unfold Bisync.scan. rewrite !lookup_fmap, HA, HB. reflexivity. Qed.

Lemma crash_cells_old_or_new s ae k x : names_fresh s -> names_inj ->
  let f := crash s ae k in
  (fA f !! x = tA s !! x \/ fA f !! x = tA (run_state s) !! x) /\
  (fB f !! x = tB s !! x \/ fB f !! x = tB (run_state s) !! x).
Proof. intros Hf Hinj. cbn zeta. pose proof (plan_paths_not_names s Hf) as Hpn.
  assert (Hnd : NoDup (cell_of <$> data_blocks s)).
  { apply plan_cells_NoDup; [apply plan_fst_NoDup|exact Hpn|exact Hinj]. }
  assert (Hfin : foldl blk_apply (tA s, tB s) (data_blocks s) = (wA (wfin s), wB (wfin s))).
  { apply (plan_blocks_apply_gen _ _ (w0_of s)). apply Forall_forall. intros [p act] Hin. right. cbn [fst].
    intros d. apply Hpn. apply elem_of_list_fmap. exists (p, act). auto. }
  rewrite run_state_eq. cbn [tA tB].
  destruct (crash_shape s ae k) as [(Hk & m & b & j & Hm & Hj & ->)|(Hk & ->)].
  - destruct (exec_partial_blk (blocks_fs (fs_of s) (take m (data_blocks s))) b j Hj) as (-> & -> & _).
    destruct (blocks_fs_proj (fs_of s) (take m (data_blocks s))) as (E & _).
    cbn [fs_of fA fB] in E.
    pose proof (write_once (tA s, tB s) (data_blocks s) m (SA, x) Hnd) as WA.
    pose proof (write_once (tA s, tB s) (data_blocks s) m (SB, x) Hnd) as WB.
    rewrite Hfin, <- E in WA, WB. cbn in WA, WB. auto.
  - destruct (blocks_fs_proj (fs_of s) (data_blocks s)) as (E & _).
    cbn [fs_of fA fB] in E. rewrite Hfin in E. injection E as E1 E2.
    unfold arch_part. destruct (wErr (wfin s)).
    + rewrite take_nil. cbn [exec_all foldl]. rewrite E1, E2. auto.
    + destruct (exec_arch_prefix (blocks_fs (fs_of s) (data_blocks s)) ae (wC (wfin s)) (k - length (data_steps s)))
        as (-> & -> & _). rewrite E1, E2. auto. Qed.

End P.
