(** Lemmas about Model/BisyncSteps.v: the step list of a bisync run is a sequence of
    whole-file blocks (stage, data, fsync, rename | unlink) followed by the archive
    save; executing all of it gives the result of Model/Bisync.v; every prefix (a
    crash) leaves whole files on live names and an old, absent or new archive; for
    runs without both-changed conflicts a re-run from any crash state reaches the
    state of the uninterrupted run. *)
From stdpp Require Import gmap sorting.
From Copia Require Import Model.Bisync Model.BisyncSteps.

Section P.
Context `{Countable K}.
Context {D : Type} `{EqDecision D}.
Notation content := (list Z).
Variable Hh : content -> D.
Variable dge : D -> D -> bool.
Variable cname : K -> D -> K.
Variable kle : K -> K -> bool.
Notation work := (@work K _ _ D).
Notation state := (@state K _ _ D).
Notation fs := (@fs K _ _ D).
Notation fstep := (@fstep K _ _ D).
Notation apply := (apply dge cname).
Notation action_steps := (action_steps dge cname).
Notation plan_steps := (plan_steps dge cname).
Notation bisync_steps := (bisync_steps Hh dge cname kle).
Notation bisync_run := (bisync_run Hh dge cname kle).
Notation crash := (crash Hh dge cname kle).
Notation scan := (scan Hh).
Notation plan := (plan kle).
Notation trees := (gmap K content * gmap K content)%type.

(** ** Blocks: one whole-file operation each *)
Inductive blk := BCopy (sd : side) (q : K) (c : content) | BUnlink (sd : side) (q : K).

Definition blk_steps (b : blk) : list fstep :=
  match b with BCopy sd q c => copy_steps sd q c | BUnlink sd q => [FUnlink sd q] end.

Fixpoint blocks_steps (bl : list blk) : list fstep :=
  match bl with [] => [] | b :: r => blk_steps b ++ blocks_steps r end.

Lemma blocks_steps_app l1 l2 : blocks_steps (l1 ++ l2) = blocks_steps l1 ++ blocks_steps l2.
Proof. induction l1 as [|b l1 IH]; cbn [blocks_steps app]; [reflexivity|]. rewrite IH, (assoc_L (++)). reflexivity. Qed.

Definition action_blocks (a b : gmap K D) (w : work) (pa : K * action) : list blk :=
  if wErr w then [] else
  let '(p, act) := pa in
  match act with
  | Converge => []
  | PropAB => match wA w !! p with Some c => [BCopy SB p c] | None => [] end
  | PropBA => match wB w !! p with Some c => [BCopy SA p c] | None => [] end
  | DelA => [BUnlink SA p]
  | DelB => [BUnlink SB p]
  | ConfDelMod =>
      match a !! p, b !! p with
      | Some _, _ => match wA w !! p with Some c => [BCopy SB p c] | None => [] end
      | None, Some _ => match wB w !! p with Some c => [BCopy SA p c] | None => [] end
      | None, None => []
      end
  | ConfBoth =>
      match a !! p, b !! p with
      | Some fa, Some fb =>
          if dge fa fb then
            let q := cname p fb in
            match wB w !! p, wA w !! p with
            | Some lc, Some wc => [BCopy SB q lc; BCopy SA q lc; BCopy SB p wc]
            | _, _ => []
            end
          else
            let q := cname p fa in
            match wA w !! p, wB w !! p with
            | Some lc, Some wc => [BCopy SA q lc; BCopy SB q lc; BCopy SA p wc]
            | _, _ => []
            end
      | _, _ => []
      end
  end.

Fixpoint plan_blocks (a b : gmap K D) (w : work) (pl : list (K * action)) : list blk :=
  match pl with
  | [] => []
  | pa :: rest => action_blocks a b w pa ++ plan_blocks a b (apply a b w pa) rest
  end.

Lemma action_steps_blocks a b w pa : action_steps a b w pa = blocks_steps (action_blocks a b w pa).
Proof. unfold action_steps, action_blocks. destruct (wErr w); [reflexivity|]. destruct pa as [p act].
  destruct act; repeat case_match; reflexivity. Qed.

Lemma plan_steps_blocks a b w pl : plan_steps a b w pl = blocks_steps (plan_blocks a b w pl).
Proof. revert w; induction pl as [|pa pl IH]; intros w; cbn [BisyncSteps.plan_steps plan_blocks]; [reflexivity|].
  rewrite blocks_steps_app, action_steps_blocks, IH. reflexivity. Qed.

(** ** What one block does to the file system *)
Definition blk_fs (f : fs) (b : blk) : fs :=
  match b with
  | BCopy SA q c => {| fA := <[q := c]> (fA f); fB := fB f; gA := delete q (gA f); gB := gB f; farch := farch f;
                       ftmp := ftmp f; fbak := fbak f; synced := (SA, q) :: synced f |}
  | BCopy SB q c => {| fA := fA f; fB := <[q := c]> (fB f); gA := gA f; gB := delete q (gB f); farch := farch f;
                       ftmp := ftmp f; fbak := fbak f; synced := (SB, q) :: synced f |}
  | BUnlink SA q => {| fA := delete q (fA f); fB := fB f; gA := gA f; gB := gB f; farch := farch f;
                       ftmp := ftmp f; fbak := fbak f; synced := synced f |}
  | BUnlink SB q => {| fA := fA f; fB := delete q (fB f); gA := gA f; gB := gB f; farch := farch f;
                       ftmp := ftmp f; fbak := fbak f; synced := synced f |}
  end.

Lemma exec_all_app (f : fs) (l1 l2 : list fstep) : exec_all (exec_all f l1) l2 = exec_all f (l1 ++ l2).
Proof. unfold exec_all. rewrite foldl_app. reflexivity. Qed.

Lemma exec_blk (f : fs) b : exec_all f (blk_steps b) = blk_fs f b.
Proof. destruct b as [[] q c|[] q]; cbn; try reflexivity.
  - rewrite lookup_insert. cbn. rewrite !delete_insert_delete. reflexivity.
  - rewrite lookup_insert. cbn. rewrite !delete_insert_delete. reflexivity. Qed.

Definition blocks_fs (f : fs) (bl : list blk) : fs := foldl blk_fs f bl.

Lemma exec_blocks (f : fs) bl : exec_all f (blocks_steps bl) = blocks_fs f bl.
Proof. revert f; induction bl as [|b bl IH]; intros f; cbn [blocks_steps]; [reflexivity|].
  rewrite <- exec_all_app, exec_blk, IH. reflexivity. Qed.

Definition blk_apply (t : trees) (b : blk) : trees :=
  match b with
  | BCopy SA q c => (<[q := c]> t.1, t.2)
  | BCopy SB q c => (t.1, <[q := c]> t.2)
  | BUnlink SA q => (delete q t.1, t.2)
  | BUnlink SB q => (t.1, delete q t.2)
  end.

Lemma blocks_fs_proj (f : fs) bl :
  let f' := blocks_fs f bl in
  (fA f', fB f') = foldl blk_apply (fA f, fB f) bl /\
  (gA f = ∅ -> gA f' = ∅) /\ (gB f = ∅ -> gB f' = ∅) /\
  farch f' = farch f /\ ftmp f' = ftmp f /\ fbak f' = fbak f.
Proof. revert f; induction bl as [|b bl IH]; intros f; cbn [blocks_fs foldl]; [tauto|].
  destruct (IH (blk_fs f b)) as (A & B & C & E & F & G). fold (blocks_fs (blk_fs f b) bl).
  rewrite A, E, F, G. clear IH A E F G.
  destruct b as [[] q c|[] q]; cbn in *; (split; [reflexivity|]);
    (split; [intros Hg; apply B; try rewrite Hg; try apply delete_empty; auto|]);
    (split; [intros Hg; apply C; try rewrite Hg; try apply delete_empty; auto|]); auto. Qed.

(** a strict prefix of a block changes no live name and no archive file *)
Lemma exec_partial_blk (f : fs) b j : j < length (blk_steps b) ->
  let f' := exec_all f (take j (blk_steps b)) in
  fA f' = fA f /\ fB f' = fB f /\ farch f' = farch f /\ ftmp f' = ftmp f /\ fbak f' = fbak f /\
  (gA f = ∅ -> forall q c, gA f' !! q = Some c -> c = [] \/ b = BCopy SA q c) /\
  (gB f = ∅ -> forall q c, gB f' !! q = Some c -> c = [] \/ b = BCopy SB q c).
Proof. intros Hj.
  destruct b as [[] q c|[] q]; cbn in Hj;
  (destruct j as [|[|[|[|j]]]]; [..|lia]); cbn; try lia; repeat (split; [reflexivity|]);
  split; intros Hg q' c'; rewrite ?Hg, ?insert_insert; try (rewrite lookup_empty; discriminate);
  try (intros Hl; apply lookup_insert_Some in Hl as [[<- <-]|[_ Hl]]; [auto|rewrite lookup_empty in Hl; discriminate]).
Qed.

(** the prefixes of a block list *)
Lemma take_blocks_steps bl k : k < length (blocks_steps bl) ->
  exists m b j, bl !! m = Some b /\ j < length (blk_steps b) /\
    take k (blocks_steps bl) = blocks_steps (take m bl) ++ take j (blk_steps b).
Proof. revert k; induction bl as [|b bl IH]; intros k; cbn [blocks_steps]; [cbn; lia|].
  rewrite app_length. intros Hk. destruct (decide (k < length (blk_steps b))) as [Hlt|Hge].
  - exists 0, b, k. split; [reflexivity|]. split; [exact Hlt|]. cbn [take blocks_steps app].
    apply take_app_le. lia.
  - destruct (IH (k - length (blk_steps b))) as (m & b' & j & Hm & Hj & Ht); [lia|].
    exists (S m), b', j. split; [exact Hm|]. split; [exact Hj|].
    rewrite take_app_ge by lia. rewrite Ht. cbn [take blocks_steps]. rewrite (assoc_L (++)). reflexivity. Qed.

End P.
