(** Recovery after a crash of a bisync run WITH both-changed conflicts (C08).

    Model/BisyncSteps.v gives the crash states of a run ([crash s ae k]);
    Proofs/BisyncProofs.v gives the per-path result of a run from a state of the
    "no name clash" class ([Fresh], [run_lookup]).  This file connects the two:

    - every crash state is described, path by path, by the invariant [Inv] of the
      apply loop at some prefix of the plan, plus at most one half-delivered
      conflict (its conflict name holds the loser on one or both sides) - [Mid];
    - such a state is again in [HashOk] and - except for ONE window - in [Fresh],
      and a run from it has the same per-path result as the uninterrupted run;
    - the window: the crash falls between the two deliveries of the conflict copy
      of a both-changed path whose conflict name is absent from both trees but
      still recorded with the loser's digest (a stale record entry: the copy of an
      earlier identical conflict was deleted on both sides).  The re-run then plans
      "propagate the delete" for the half-delivered copy; if the conflict name
      comes after its path in plan order the copy just re-created is removed on one
      side.  The next run propagates it back: TWO re-runs always suffice. *)
From stdpp Require Import gmap sorting.
From Copia Require Import Model.Bisync Model.BisyncSteps Proofs.BisyncStepsProofs Proofs.BisyncProofs.

Section R.
Context {K : Type} {HeqK : EqDecision K} {HcntK : Countable K}.
Context {D : Type} {HeqD : EqDecision D}.
Notation content := (list Z).
Variable Hh : content -> D.
Variable dge : D -> D -> bool.
Variable cname : K -> D -> K.
Variable kle : K -> K -> bool.

Notation state := (@state K _ _ D).
Notation work := (@work K _ _ D).
Notation fs := (@fs K _ _ D).
Notation apply := (apply dge cname).
Notation scan := (scan Hh).
Notation bisync_run := (bisync_run Hh dge cname kle).
Notation crash := (crash Hh dge cname kle).
Notation action_blocks := (action_blocks dge cname).
Notation plan_blocks := (plan_blocks dge cname).
Notation plan_of := (plan_of Hh kle).
Notation data_blocks := (data_blocks Hh dge cname kle).
Notation data_steps := (data_steps Hh dge cname kle).
Notation arch_part := (arch_part Hh dge cname kle).
Notation wfin := (wfin Hh dge cname kle).
Notation w0_of := (w0_of Hh).
Notation run_state := (run_state Hh dge cname kle).
Notation conflict := (conflict Hh dge cname).
Notation Fresh := (Fresh Hh dge cname).
Notation HashOk := (HashOk Hh).
Notation name_ok := (name_ok Hh).
Notation expected := (expected Hh dge cname).
Notation fin := (fin Hh dge).
Notation final_content := (final_content Hh dge).
Notation act_at := (act_at Hh).
Notation loser := (loser Hh dge).
Notation winner := (winner Hh dge).
Notation kstep := (kstep Hh dge cname).
Notation Inv := (Inv Hh dge cname).
Notation wfinal := (wfinal Hh dge cname kle).
Notation w0 := (w0 Hh).

(** ** Lists *)

Lemma omap_lookup_split {A B} (f : A -> option B) (l : list A) j y :
  omap f l !! j = Some y ->
  exists l1 x l2, l = l1 ++ x :: l2 /\ f x = Some y /\ take j (omap f l) = omap f l1.
Proof.
  revert j. induction l as [|a l IH]; intros j Hj; [destruct j; discriminate Hj|].
  cbn [omap list_omap] in *. destruct (f a) as [b|] eqn:E.
  - destruct j as [|j]; cbn in Hj.
    + injection Hj as ->. exists [], a, l. cbn. auto.
    + destruct (IH j Hj) as (l1 & x & l2 & -> & Hx & Ht). exists (a :: l1), x, l2.
      cbn [omap list_omap]. rewrite E. cbn. rewrite Ht. auto.
  - destruct (IH j Hj) as (l1 & x & l2 & -> & Hx & Ht). exists (a :: l1), x, l2.
    cbn [omap list_omap]. rewrite E. auto.
Qed.

(** ** A prefix of the block list = whole actions + a strict prefix of the next one *)

Lemma take_plan_blocks_mid a b (w : work) pl m blk :
  plan_blocks a b w pl !! m = Some blk ->
  exists j pa i, pl !! j = Some pa /\
    i < length (action_blocks a b (foldl (apply a b) w (take j pl)) pa) /\
    take m (plan_blocks a b w pl) =
      plan_blocks a b w (take j pl) ++ take i (action_blocks a b (foldl (apply a b) w (take j pl)) pa).
Proof.
  revert w m. induction pl as [|pa pl IH]; intros w m Hm; cbn [BisyncStepsProofs.plan_blocks] in *.
  { rewrite lookup_nil in Hm. discriminate. }
  destruct (decide (m < length (action_blocks a b w pa))) as [Hlt|Hge].
  - exists 0, pa, m. cbn [take foldl BisyncStepsProofs.plan_blocks app]. split; [reflexivity|]. split; [exact Hlt|].
    apply take_app_le. lia.
  - rewrite lookup_app_r in Hm by lia. destruct (IH _ _ Hm) as (j & pa' & i & Hj & Hi & Ht).
    exists (S j), pa', i. cbn [take foldl BisyncStepsProofs.plan_blocks]. split; [exact Hj|]. split; [exact Hi|].
    rewrite take_app_ge by lia. rewrite Ht, (assoc_L (++)). reflexivity.
Qed.

(** the conflict name of a both-changed path of the plan differs from the path
    (under [Fresh]; BisyncStepsProofs assumes it of every name) *)
Definition name_ne (a b : gmap K D) (pa : K * action) : Prop :=
  pa.2 = ConfBoth -> forall fa fb, a !! pa.1 = Some fa -> b !! pa.1 = Some fb ->
    cname pa.1 (if dge fa fb then fb else fa) <> pa.1.

Lemma action_blocks_apply' a b (w : work) pa : name_ne a b pa ->
  foldl blk_apply (wtrees w) (action_blocks a b w pa) = wtrees (apply a b w pa).
Proof. intros Hcn. unfold BisyncStepsProofs.action_blocks, Bisync.apply, wtrees. destruct (wErr w) eqn:He; [reflexivity|].
  destruct pa as [p act]. unfold name_ne in Hcn. cbn [fst snd] in Hcn.
  destruct act; unfold copy; cbn [foldl blk_apply fst snd].
  - destruct (wA w !! p); reflexivity.
  - destruct (wB w !! p); reflexivity.
  - reflexivity.
  - reflexivity.
  - reflexivity.
  - specialize (Hcn eq_refl).
    destruct (a !! p) as [fa|], (b !! p) as [fb|]; try reflexivity.
    specialize (Hcn fa fb eq_refl eq_refl).
    destruct (dge fa fb).
    + destruct (wB w !! p) as [lc|] eqn:E1; [|reflexivity].
      rewrite lookup_insert_ne by exact Hcn. rewrite E1.
      rewrite lookup_insert_ne by exact Hcn.
      destruct (wA w !! p) as [wc|] eqn:E2; reflexivity.
    + destruct (wA w !! p) as [lc|] eqn:E1; [|reflexivity].
      rewrite lookup_insert_ne by exact Hcn. rewrite E1.
      rewrite lookup_insert_ne by exact Hcn.
      destruct (wB w !! p) as [wc|] eqn:E2; reflexivity.
  - destruct (a !! p) as [fa|], (b !! p) as [fb|]; try reflexivity.
    + destruct (wA w !! p); reflexivity.
    + destruct (wA w !! p); reflexivity.
    + destruct (wB w !! p); reflexivity.
Qed.

Lemma plan_blocks_apply' a b (w : work) pl : Forall (name_ne a b) pl ->
  foldl blk_apply (wtrees w) (plan_blocks a b w pl) = wtrees (foldl (apply a b) w pl).
Proof. intros Hpl. revert w; induction Hpl as [|pa pl Hpa Hpl IH]; intros w;
    cbn [BisyncStepsProofs.plan_blocks foldl]; [reflexivity|].
  rewrite foldl_app, action_blocks_apply' by exact Hpa. apply IH. Qed.

Lemma plan_name_ne (s : state) : Fresh s -> Forall (name_ne (scan (tA s)) (scan (tB s))) (plan_of s).
Proof.
  intros F. apply Forall_forall. intros [p act] Hin Hact fa fb Ha Hb. cbn [fst snd] in *. subst act.
  unfold BisyncStepsProofs.plan_of in Hin. apply (elem_of_plan_state Hh cname kle) in Hin.
  unfold Bisync.scan in Ha, Hb. rewrite lookup_fmap in Ha, Hb.
  destruct (tA s !! p) as [x|] eqn:Ea; [|discriminate]. destruct (tB s !! p) as [y|] eqn:Eb; [|discriminate].
  cbn in Ha, Hb. injection Ha as <-. injection Hb as <-.
  assert (Ec : conflict s p = Some (cname p (Hh (loser x y)), loser x y)).
  { unfold BisyncProofs.conflict. rewrite Hin, Ea, Eb. reflexivity. }
  pose proof (fresh_name_ne Hh dge cname _ _ _ _ F Ec) as N. unfold BisyncProofs.loser in N.
  destruct (dge (Hh x) (Hh y)); exact N.
Qed.

(** a strict prefix of the blocks of one action: nothing yet, or - for a
    both-changed conflict - the loser delivered to the conflict name on one or
    both sides, the path itself still untouched *)
Lemma action_prefix a b (w : work) p act i :
  i < length (action_blocks a b w (p, act)) ->
  let t' := foldl blk_apply (wtrees w) (take i (action_blocks a b w (p, act))) in
  t' = wtrees w \/
  (act = ConfBoth /\ exists fa fb lc, a !! p = Some fa /\ b !! p = Some fb /\
     (if dge fa fb then wB w else wA w) !! p = Some lc /\
     let q := cname p (if dge fa fb then fb else fa) in
     (forall x, x <> q -> t'.1 !! x = wA w !! x /\ t'.2 !! x = wB w !! x) /\
     (t'.1 !! q = wA w !! q \/ t'.1 !! q = Some lc) /\
     (t'.2 !! q = wB w !! q \/ t'.2 !! q = Some lc)).
Proof.
  intros Hi. cbn zeta. destruct i as [|i]; [left; reflexivity|]. right.
  unfold BisyncStepsProofs.action_blocks in *. destruct (wErr w); [cbn in Hi; lia|].
  destruct act; repeat case_match; cbn [length] in Hi; try lia.
  - split; [reflexivity|]. eexists _, _, _. split; [reflexivity|]. split; [reflexivity|].
    rewrite H1. split; [eassumption|]. cbn zeta.
    destruct i as [|[|i]]; [| |lia]; cbn [take foldl blk_apply wtrees fst snd].
    + split; [intros x Hx; rewrite lookup_insert_ne by congruence; auto|].
      rewrite lookup_insert. auto.
    + split; [intros x Hx; rewrite !lookup_insert_ne by congruence; auto|].
      rewrite !lookup_insert. auto.
  - split; [reflexivity|]. eexists _, _, _. split; [reflexivity|]. split; [reflexivity|].
    rewrite H1. split; [eassumption|]. cbn zeta.
    destruct i as [|[|i]]; [| |lia]; cbn [take foldl blk_apply wtrees fst snd].
    + split; [intros x Hx; rewrite lookup_insert_ne by congruence; auto|].
      rewrite lookup_insert. auto.
    + split; [intros x Hx; rewrite !lookup_insert_ne by congruence; auto|].
      rewrite !lookup_insert. auto.
Qed.

(** ** Small facts about the specification-side functions *)

Lemma final_content_same (v : option content) z : final_content v v z = v.
Proof. destruct v as [c|]; [|reflexivity]. unfold BisyncProofs.final_content. rewrite decide_True by reflexivity. reflexivity. Qed.

Lemma conflict_ext (s r : state) p :
  tA r !! p = tA s !! p -> tB r !! p = tB s !! p -> base_at (arch r) p = base_at (arch s) p ->
  conflict r p = conflict s p.
Proof. intros Ea Eb Ez. unfold BisyncProofs.conflict, BisyncProofs.act_at. rewrite Ea, Eb, Ez. reflexivity. Qed.

Lemma conflict_equal_none (r : state) p : tA r !! p = tB r !! p -> conflict r p = None.
Proof.
  intros E. destruct (conflict r p) as [[q l]|] eqn:Ec; [|reflexivity]. exfalso.
  pose proof Ec as Ec'. apply (conflict_spec Hh dge cname) in Ec' as (x & y & Ea & Eb & _).
  apply (conflict_digests_differ Hh dge cname _ _ _ _ _ _ Ec Ea Eb). congruence.
Qed.

Lemma expected_key (s : state) x : Fresh s -> x ∈ keys s -> expected s x = fin s x.
Proof.
  intros F Hx. destruct (conflict_name_dec Hh dge cname s x) as [[[p l] E]|N].
  - cbn in E. rewrite (expected_name Hh dge cname _ _ _ _ F E). symmetry.
    exact (fresh_name_fin Hh dge cname _ _ _ _ F E Hx).
  - apply expected_other, N.
Qed.

(** ** The trees in the middle of a run, path by path

    [Mid s r done pend]: [r] has the record of [s]; the paths in [done] and the
    conflict names of the both-changed paths in [done] hold what the completed run
    leaves there ([newat]); a both-changed path not in [done] is untouched; every
    other path is one or the other - except the conflict name [q0] of ONE
    both-changed path [p0] not in [done] ([pend]), which may already hold the loser
    [l0] on one or on both sides. *)
Definition newat (s r : state) (x : K) : Prop := tA r !! x = expected s x /\ tB r !! x = expected s x.
Definition sameat (s r : state) (x : K) : Prop := tA r !! x = tA s !! x /\ tB r !! x = tB s !! x.
Definition pendat (s r : state) (pend : option (K * K * content)) (x : K) : Prop :=
  match pend with
  | Some (p0, q0, l0) =>
      x = q0 /\ (tA r !! x = tA s !! x \/ tA r !! x = Some l0) /\ (tB r !! x = tB s !! x \/ tB r !! x = Some l0)
  | None => False
  end.

Record Mid (s r : state) (done : gset K) (pend : option (K * K * content)) : Prop := {
  mid_arch : arch r = arch s;
  mid_done : forall x, x ∈ done -> newat s r x;
  mid_name : forall p x l, p ∈ done -> conflict s p = Some (x, l) -> newat s r x;
  mid_conf : forall p q l, conflict s p = Some (q, l) -> p ∉ done -> sameat s r p;
  mid_cls : forall x, newat s r x \/ sameat s r x \/ pendat s r pend x;
  mid_pend : match pend with Some (p0, q0, l0) => p0 ∉ done /\ conflict s p0 = Some (q0, l0) | None => True end;
}.

(** the invariant of the apply loop, read path by path *)
Lemma inv_cls (s : state) done (w : work) :
  HashOk s -> Fresh s -> done ⊆ keys s -> Inv s done w ->
  (forall x, x ∈ done -> wA w !! x = expected s x /\ wB w !! x = expected s x) /\
  (forall p x l, p ∈ done -> conflict s p = Some (x, l) -> wA w !! x = expected s x /\ wB w !! x = expected s x) /\
  (forall p q l, conflict s p = Some (q, l) -> p ∉ done -> wA w !! p = tA s !! p /\ wB w !! p = tB s !! p) /\
  (forall x, (wA w !! x = expected s x /\ wB w !! x = expected s x) \/
             (wA w !! x = tA s !! x /\ wB w !! x = tB s !! x)).
Proof.
  intros Hok F Hsub [Ie Ic In Id It Io].
  assert (P1 : forall x, x ∈ done -> wA w !! x = expected s x /\ wB w !! x = expected s x).
  { intros x Hx. rewrite (expected_key s x F (Hsub x Hx)). destruct (Id x Hx) as (-> & -> & _). auto. }
  assert (P2 : forall p x l, p ∈ done -> conflict s p = Some (x, l) ->
                 wA w !! x = expected s x /\ wB w !! x = expected s x).
  { intros p x l Hp E. rewrite (expected_name Hh dge cname _ _ _ _ F E). destruct (In p x l Hp E) as (-> & -> & _). auto. }
  split; [exact P1|]. split; [exact P2|]. split.
  - intros p q l E Hp. pose proof (conflict_key Hh dge cname _ _ _ _ E) as Hk.
    destruct (It p Hk Hp) as [(HA & HB & _)|(l0 & Hn & _)]; [auto|].
    rewrite (name_ok_not_conflict Hh dge cname _ _ _ Hn) in E. discriminate.
  - intros x. destruct (decide (x ∈ done)) as [Hd|Hd]; [left; apply P1, Hd|].
    destruct (decide (x ∈ keys s)) as [Hk|Hk].
    + destruct (It x Hk Hd) as [(HA & HB & _)|(l0 & Hn & HA & HB & _)]; [right; auto|left].
      rewrite (expected_key s x F Hk), (name_ok_fin Hh dge _ _ _ Hn Hk). auto.
    + destruct (conflict_name_dec Hh dge cname s x) as [[[p l] E]|N]; [cbn in E|].
      * destruct (decide (p ∈ done)) as [Hp|Hp]; [left; eapply P2; eauto|right].
        apply (not_elem_of_keys cname kle) in Hk as Hk'. destruct Hk' as [-> ->].
        destruct (Io x Hk) as (-> & -> & _); [|auto].
        intros p' l' Hp' E'. assert (p' = p) by (eapply (proj2 F); eauto). congruence.
      * right. apply (not_elem_of_keys cname kle) in Hk as Hk'. destruct Hk' as [-> ->].
        destruct (Io x Hk) as (-> & -> & _); [|auto]. intros p' l' _. apply N.
Qed.

(** the trees of a work state, with the conflict name [q0] possibly already
    holding [l0] on either side *)
Definition near (w : work) (r : state) (q0 : K) (l0 : content) : Prop :=
  (forall x, x <> q0 -> tA r !! x = wA w !! x /\ tB r !! x = wB w !! x) /\
  (tA r !! q0 = wA w !! q0 \/ tA r !! q0 = Some l0) /\
  (tB r !! q0 = wB w !! q0 \/ tB r !! q0 = Some l0).

Lemma mid_of_inv (s r : state) done (w : work) :
  HashOk s -> Fresh s -> done ⊆ keys s -> Inv s done w ->
  arch r = arch s -> tA r = wA w -> tB r = wB w -> Mid s r done None.
Proof.
  intros Hok F Hsub Iv Ez Ea Eb. destruct (inv_cls s done w Hok F Hsub Iv) as (P1 & P2 & P3 & P4).
  split; unfold newat, sameat; rewrite ?Ea, ?Eb.
  - exact Ez.
  - exact P1.
  - exact P2.
  - exact P3.
  - intros x. destruct (P4 x); auto.
  - exact I.
Qed.

Lemma mid_of_inv_pend (s r : state) done (w : work) p0 q0 l0 :
  HashOk s -> Fresh s -> done ⊆ keys s -> Inv s done w ->
  arch r = arch s -> p0 ∉ done -> conflict s p0 = Some (q0, l0) -> near w r q0 l0 ->
  Mid s r done (Some (p0, q0, l0)).
Proof.
  intros Hok F Hsub Iv Ez Hp0 E0 (Nx & Na & Nb). destruct (inv_cls s done w Hok F Hsub Iv) as (P1 & P2 & P3 & P4).
  assert (Q : (wA w !! q0 = expected s q0 /\ wB w !! q0 = expected s q0) -> newat s r q0).
  { intros [Qa Qb]. rewrite (expected_name Hh dge cname _ _ _ _ F E0) in Qa, Qb. unfold newat.
    rewrite (expected_name Hh dge cname _ _ _ _ F E0). destruct Na as [-> | ->], Nb as [-> | ->]; auto. }
  assert (R : forall x, (wA w !! x = expected s x /\ wB w !! x = expected s x) -> newat s r x).
  { intros x Hx. destruct (decide (x = q0)) as [->|Nq]; [apply Q, Hx|].
    unfold newat. destruct (Nx x Nq) as [-> ->]. exact Hx. }
  split.
  - exact Ez.
  - intros x Hx. apply R, P1, Hx.
  - intros p x l Hp E. apply R. eapply P2; eauto.
  - intros p q l E Hp. assert (p <> q0).
    { intros ->. rewrite (fresh_name_not_conflict Hh dge cname _ _ _ _ F E0) in E. discriminate. }
    unfold sameat. destruct (Nx p ltac:(assumption)) as [-> ->]. eapply P3; eauto.
  - intros x. destruct (P4 x) as [Hx|[Sa Sb]]; [left; apply R, Hx|right].
    destruct (decide (x = q0)) as [->|Nq].
    + right. cbn. rewrite <- Sa, <- Sb. auto.
    + left. unfold sameat. destruct (Nx x Nq) as [-> ->]. auto.
  - auto.
Qed.

(** ** A state in the middle of a run is again in the class, with the same result *)

(** clause (1c) of [Fresh] for the half-delivered conflict name *)
Definition pend_ok (s r : state) (pend : option (K * K * content)) : Prop :=
  match pend with
  | Some (_, q0, l0) => tA r !! q0 = tB r !! q0 \/ base_at (arch s) q0 <> Some (Hh l0)
  | None => True
  end.

Lemma mid_good (s r : state) done pend :
  HashOk s -> Fresh s -> Mid s r done pend -> pend_ok s r pend ->
  HashOk r /\ Fresh r /\ forall x, expected r x = expected s x.
Proof.
  intros Hok F [Mz Md Mn Mc Mx Mp] Hpo.
  assert (Pn : forall x, pendat s r pend x ->
            exists p0 l0, pend = Some (p0, x, l0) /\ conflict s p0 = Some (x, l0) /\ p0 ∉ done /\
              (tA r !! x = None \/ tA r !! x = Some l0) /\ (tB r !! x = None \/ tB r !! x = Some l0)).
  { intros x P. destruct pend as [[[p0 q0] l0]|]; [|contradiction]. destruct P as (-> & Pa & Pb).
    destruct Mp as [Hp0 E0]. exists p0, l0. split; [reflexivity|]. split; [exact E0|]. split; [exact Hp0|].
    destruct (proj1 F _ _ _ E0) as (Ha & Hb & _).
    split; [destruct Pa as [Pa|Pa], Ha as [Ha|Ha]|destruct Pb as [Pb|Pb], Hb as [Hb|Hb]]; rewrite ?Pa, ?Pb; auto. }
  assert (Hok' : HashOk r).
  { intros p x y Ea Eb E. destruct (Mx p) as [[Na Nb]|[[Sa Sb]|P]].
    - congruence.
    - apply (Hok p); congruence.
    - destruct (Pn p P) as (p0 & l0 & _ & _ & _ & [Pa|Pa] & [Pb|Pb]); congruence. }
  assert (Ci : forall p q l, conflict r p = Some (q, l) -> sameat s r p /\ conflict s p = Some (q, l)).
  { intros p q l Ec. destruct (Mx p) as [[Na Nb]|[[Sa Sb]|P]].
    - rewrite conflict_equal_none in Ec by congruence. discriminate.
    - split; [split; assumption|]. rewrite <- Ec. symmetry. apply conflict_ext; [assumption..|]. rewrite Mz. reflexivity.
    - exfalso. destruct (Pn p P) as (p0 & l0 & _ & _ & _ & Pa & Pb).
      pose proof Ec as Ec'. apply (conflict_spec Hh dge cname) in Ec' as (x & y & Ea & Eb & _).
      apply (conflict_digests_differ Hh dge cname _ _ _ _ _ _ Ec Ea Eb).
      destruct Pa as [Pa|Pa], Pb as [Pb|Pb]; congruence. }
  assert (Fr : Fresh r).
  { split.
    - intros p q l Ec. destruct (Ci _ _ _ Ec) as [_ Ec']. destruct (proj1 F _ _ _ Ec') as (Ha & Hb & Hz).
      unfold BisyncProofs.name_ok. destruct (Mx q) as [[Na Nb]|[[Sa Sb]|P]].
      + rewrite (expected_name Hh dge cname _ _ _ _ F Ec') in Na, Nb. rewrite Na, Nb. auto.
      + rewrite Sa, Sb, Mz. auto.
      + destruct (Pn q P) as (p0 & l0 & -> & E0 & _ & Pa & Pb).
        assert (p0 = p) by (eapply (proj2 F); eauto). subst p0. rewrite E0 in Ec'. injection Ec' as ->.
        split; [exact Pa|]. split; [exact Pb|]. rewrite Mz. exact Hpo.
    - intros p1 p2 q l1 l2 E1 E2. apply Ci in E1 as [_ E1]. apply Ci in E2 as [_ E2]. eapply (proj2 F); eauto. }
  split; [exact Hok'|]. split; [exact Fr|]. intros x.
  destruct (conflict_name_dec Hh dge cname s x) as [[[p l] E]|N]; [cbn in E|].
  - rewrite (expected_name Hh dge cname s p x l F E). destruct (decide (p ∈ done)) as [Hd|Hd].
    + destruct (Mn _ _ _ Hd E) as [Na Nb]. rewrite (expected_name Hh dge cname _ _ _ _ F E) in Na, Nb.
      rewrite expected_other.
      * unfold BisyncProofs.fin. rewrite Na, Nb. apply final_content_same.
      * intros p' l' Ec. pose proof Ec as Ec'. apply Ci in Ec' as [_ Ec'].
        assert (p' = p) by (eapply (proj2 F); eauto). subst p'.
        destruct (Md p Hd) as [Ma Mb]. rewrite conflict_equal_none in Ec by congruence. discriminate.
    + destruct (Mc _ _ _ E Hd) as [Sa Sb]. apply (expected_name Hh dge cname r p); [exact Fr|].
      rewrite <- E. apply conflict_ext; [assumption..|]. rewrite Mz. reflexivity.
  - rewrite (expected_other Hh dge cname s x N).
    rewrite expected_other by (intros p l Ec; apply Ci in Ec as [_ Ec]; exact (N _ _ Ec)).
    destruct (Mx x) as [[Na Nb]|[[Sa Sb]|P]].
    + rewrite (expected_other Hh dge cname s x N) in Na, Nb. unfold BisyncProofs.fin at 1. rewrite Na, Nb.
      apply final_content_same.
    + unfold BisyncProofs.fin. rewrite Sa, Sb, Mz. reflexivity.
    + exfalso. destruct (Pn x P) as (p0 & l0 & _ & E0 & _). exact (N _ _ E0).
Qed.

(** equal per-path expectations give equal runs *)
Lemma same_expected_same_run (s r : state) :
  HashOk s -> Fresh s -> HashOk r -> Fresh r -> (forall x, expected r x = expected s x) ->
  run_state r = run_state s /\ (bisync_run r).1.2 <> ExitIoError.
Proof.
  intros Hok F Hok' F' E. unfold BisyncStepsProofs.run_state.
  rewrite (run_result Hh dge cname kle r Hok' F'), (run_result Hh dge cname kle s Hok F). cbn [fst snd].
  split; [|case_decide; discriminate].
  f_equal; [| |f_equal]; apply map_eq; intros x;
    destruct (run_lookup Hh dge cname kle r Hok' F' x) as (Ra & Rb & Rc);
    destruct (run_lookup Hh dge cname kle s Hok F x) as (Sa & Sb & Sc);
    rewrite ?Ra, ?Rb, ?Rc, ?Sa, ?Sb, ?Sc, E; reflexivity.
Qed.

(** ** Every crash state is such a state, or has the final trees *)

Lemma wfin_wfinal (s : state) : wfin s = wfinal s.
Proof.
  unfold BisyncStepsProofs.wfin, BisyncProofs.wfinal, BisyncStepsProofs.plan_of, Bisync.plan.
  apply (foldl_plan Hh dge cname s).
Qed.

Lemma crash_mid (s : state) ae k : HashOk s -> Fresh s ->
  let r := recover (crash s ae k) in
  (exists done pend, Mid s r done pend) \/
  (tA r = wA (wfinal s) /\ tB r = wB (wfinal s) /\
   (arch r = arch s \/ arch r = None \/ arch r = Some (wC (wfinal s)))).
Proof.
  intros Hok F. cbn zeta. pose proof (plan_name_ne s F) as Hne.
  destruct (crash_shape Hh dge cname kle s ae k) as [(Hk & m & b & j & Hm & Hj & ->)|(Hk & ->)].
  - left.
    destruct (exec_partial_blk (blocks_fs (fs_of s) (take m (data_blocks s))) b j Hj) as (EA & EB & EZ & _).
    destruct (blocks_fs_proj (fs_of s) (take m (data_blocks s))) as (E & _ & _ & Ez & _).
    cbn [fs_of fA fB farch] in E, Ez.
    set (f := exec_all (blocks_fs (fs_of s) (take m (data_blocks s))) (take j (blk_steps b))) in *.
    rewrite <- EA, <- EB in E. rewrite <- EZ in Ez. clearbody f. clear EA EB EZ Hj Hk.
    unfold BisyncStepsProofs.data_blocks in Hm, E.
    destruct (take_plan_blocks_mid _ _ _ _ _ _ Hm) as (jj & [p0 act] & i & Hjj & Hi & Ht).
    rewrite Ht, foldl_app in E.
    pose proof (plan_blocks_apply' (scan (tA s)) (scan (tB s)) (w0_of s) (take jj (plan_of s))
                  (Forall_take _ jj _ Hne)) as Hp.
    unfold wtrees in Hp at 1. cbn [BisyncStepsProofs.w0_of wA wB] in Hp. rewrite Hp in E. clear Hp Ht Hm.
    (* the same prefix on the side of the keys *)
    unfold BisyncStepsProofs.plan_of in Hjj. unfold Bisync.plan in Hjj.
    apply omap_lookup_split in Hjj as (l1 & x & l2 & Hl & Hx & Htk).
    destruct (rpath (scan (tA s) !! x) (scan (tB s) !! x) (base_at (arch s) x)) as [act'|] eqn:Hr; [|discriminate].
    injection Hx as -> ->. rewrite act_at_scan in Hr.
    assert (Ew : foldl (apply (scan (tA s)) (scan (tB s))) (w0_of s) (take jj (plan_of s)) = foldl (kstep s) (w0 s) l1).
    { unfold BisyncStepsProofs.plan_of, Bisync.plan. rewrite Htk. apply (foldl_plan Hh dge cname s). }
    rewrite Ew in E, Hi. clear Ew Htk. set (wj := foldl (kstep s) (w0 s) l1) in *.
    pose proof (NoDup_plan_keys kle (scan (tA s)) (scan (tB s))) as Hnd. rewrite Hl in Hnd.
    apply NoDup_app in Hnd as (Hnd1 & Hdis & _).
    assert (Hkeys : forall y, y ∈ l1 ++ p0 :: l2 -> y ∈ keys s).
    { intros y Hy. rewrite <- Hl in Hy. rewrite <- (plan_keys_scan Hh kle s). apply elem_of_list_to_set, Hy. }
    set (done := list_to_set l1 ∪ ∅ : gset K).
    assert (Iv : Inv s done wj).
    { apply (fold_inv Hh dge cname kle s Hok F l1 ∅ (w0 s)); [exact Hnd1| | |apply (inv_init Hh dge cname kle)].
      - intros y Hy. split; [apply Hkeys; set_solver|set_solver].
      - set_solver. }
    assert (Hsub : done ⊆ keys s). { intros y Hy. apply Hkeys. set_solver. }
    assert (Hp0 : p0 ∉ done). { intros Hy. apply (Hdis p0); set_solver. }
    destruct (action_prefix (scan (tA s)) (scan (tB s)) wj p0 act i Hi)
      as [Et|(-> & fa & fb & lc & Ha & Hb & Hlc & Nx & Na & Nb)]; cbv zeta in *.
    + exists done, None. rewrite Et in E. unfold wtrees in E. injection E as E1 E2.
      apply (mid_of_inv s _ done wj Hok F Hsub Iv); assumption.
    + unfold Bisync.scan in Ha, Hb. rewrite lookup_fmap in Ha, Hb.
      destruct (tA s !! p0) as [x|] eqn:Ea; [|discriminate]. destruct (tB s !! p0) as [y|] eqn:Eb; [|discriminate].
      cbn in Ha, Hb. injection Ha as <-. injection Hb as <-.
      assert (Ec : conflict s p0 = Some (cname p0 (Hh (loser x y)), loser x y)).
      { unfold BisyncProofs.conflict. rewrite Hr, Ea, Eb. reflexivity. }
      destruct (inv_cls s done wj Hok F Hsub Iv) as (_ & _ & P3 & _).
      destruct (P3 _ _ _ Ec Hp0) as [Wa Wb]. rewrite Ea in Wa. rewrite Eb in Wb.
      assert (Q : lc = loser x y /\
                  cname p0 (if dge (Hh x) (Hh y) then Hh y else Hh x) = cname p0 (Hh (loser x y))).
      { unfold BisyncProofs.loser. destruct (dge (Hh x) (Hh y)); split; congruence. }
      destruct Q as [-> Q]. rewrite Q in Nx, Na, Nb. rewrite <- E in Nx, Na, Nb. cbn [fst snd] in Nx, Na, Nb.
      exists done, (Some (p0, cname p0 (Hh (loser x y)), loser x y)).
      apply (mid_of_inv_pend s _ done wj _ _ _ Hok F Hsub Iv); [exact Ez|exact Hp0|exact Ec|].
      split; [exact Nx|]. split; [exact Na|exact Nb].
  - right.
    destruct (blocks_fs_proj (fs_of s) (data_blocks s)) as (E & _ & _ & Ea & _).
    cbn [fs_of fA fB farch] in *.
    pose proof (plan_blocks_apply' (scan (tA s)) (scan (tB s)) (w0_of s) (plan_of s) Hne) as Hp.
    unfold wtrees in Hp at 1. cbn [BisyncStepsProofs.w0_of wA wB] in Hp.
    fold (data_blocks s) in Hp. rewrite Hp in E.
    fold (wfin s) in E. unfold wtrees in E. injection E as E1 E2. rewrite wfin_wfinal in E1, E2.
    unfold BisyncStepsProofs.arch_part. rewrite (no_io_error Hh dge cname kle s).
    destruct (exec_arch_prefix (blocks_fs (fs_of s) (data_blocks s)) ae (wC (wfin s)) (k - length (data_steps s)))
      as (P1 & P2 & _ & _ & P5).
    unfold recover. cbn [tA tB arch]. rewrite P1, P2, E1, E2. split; [reflexivity|]. split; [reflexivity|].
    rewrite <- wfin_wfinal. destruct P5 as [[A _]|[[A _]|[A _]]]; rewrite A, ?Ea; auto.
Qed.

(** ** Runs from states without both-changed conflicts *)

Lemma inv_final_lookup (s : state) (W : work) : HashOk s -> Fresh s -> Inv s (keys s) W ->
  forall x, wA W !! x = expected s x /\ wB W !! x = expected s x /\ wC W !! x = Hh <$> expected s x.
Proof.
  intros Hok F [_ _ In Id _ Io] x.
  destruct (conflict_name_dec Hh dge cname s x) as [[[p l] E]|N].
  - cbn in E. rewrite (expected_name Hh dge cname _ _ _ _ F E). apply (In p); [|exact E].
    eapply (conflict_key Hh dge cname), E.
  - rewrite (expected_other Hh dge cname) by exact N. destruct (decide (x ∈ keys s)) as [Hx|Hx].
    + apply Id, Hx.
    + rewrite (fin_out Hh dge cname kle _ _ Hx). apply Io; [exact Hx|]. intros p l _. apply N.
Qed.

Lemma no_conflict_fresh (r : state) : (forall p, conflict r p = None) -> Fresh r.
Proof. intros Hnc. split; intros *; rewrite Hnc; discriminate. Qed.

(** no both-changed path: the run ends with exit status 0 and both trees equal to
    the per-path results, recorded *)
Lemma run_no_conflicts (r : state) (T : gmap K content) :
  HashOk r -> (forall p, conflict r p = None) -> (forall x, fin r x = T !! x) ->
  (bisync_run r).1.1 = {| tA := T; tB := T; arch := Some (Hh <$> T) |} /\ (bisync_run r).1.2 = ExitOk.
Proof.
  intros Hok Hnc HT. pose proof (no_conflict_fresh r Hnc) as F.
  rewrite (run_result Hh dge cname kle r Hok F). cbn [fst snd].
  assert (L : forall x, expected r x = T !! x).
  { intros x. rewrite (expected_other Hh dge cname); [apply HT|]. intros p l. rewrite Hnc. discriminate. }
  split.
  - f_equal; [| |f_equal]; apply map_eq; intros x; rewrite ?lookup_fmap;
      destruct (run_lookup Hh dge cname kle r Hok F x) as (Ra & Rb & Rc); rewrite ?Ra, ?Rb, ?Rc, L; reflexivity.
  - destruct (final_inv Hh dge cname kle r Hok F) as [_ Ic _ _ _ _].
    destruct (decide (wConf (wfinal r) = 0)) as [Z|NZ]; [reflexivity|].
    apply Ic in NZ as (p & _ & Hp). rewrite Hnc in Hp. congruence.
Qed.

(** the result of a completed run, as one tree *)
Lemma run_state_final (s : state) : HashOk s -> Fresh s ->
  run_state s = {| tA := wA (wfinal s); tB := wA (wfinal s); arch := Some (Hh <$> wA (wfinal s)) |}.
Proof.
  intros Hok F. unfold BisyncStepsProofs.run_state. rewrite (run_result Hh dge cname kle s Hok F). cbn [fst].
  f_equal; [|f_equal]; apply map_eq; intros x; rewrite ?lookup_fmap;
    destruct (run_lookup Hh dge cname kle s Hok F x) as (Ra & Rb & Rc); rewrite ?Ra, ?Rb, ?Rc; reflexivity.
Qed.

(** both trees already final (a crash inside the archive save): whatever the
    record is - the old one, none, the new one - the re-run only records the tree *)
Lemma run_equal_trees (r : state) (T : gmap K content) : tA r = T -> tB r = T ->
  (bisync_run r).1.1 = {| tA := T; tB := T; arch := Some (Hh <$> T) |} /\ (bisync_run r).1.2 = ExitOk.
Proof.
  intros Ea Eb. apply run_no_conflicts.
  - intros p x y Ha Hb _. congruence.
  - intros p. apply conflict_equal_none. congruence.
  - intros x. unfold BisyncProofs.fin. rewrite Ea, Eb. apply final_content_same.
Qed.

(** a second run after a completed one *)
Lemma rerun_final (s : state) : HashOk s -> Fresh s ->
  run_state (run_state s) = run_state s /\ (bisync_run (run_state s)).1.2 = ExitOk.
Proof.
  intros Hok F. unfold BisyncStepsProofs.run_state. destruct (bisync_run s) as [[s' e] pl] eqn:R. cbn [fst].
  destruct (run_idempotent Hh dge cname kle s s' e pl Hok F R) as [_ ->]. auto.
Qed.

(** ** The stale window: a one-sided, recorded leftover of the loser

    [leftover s r sd q l]: [r] is [s] plus the content [l] at path [q] on side [sd]
    only.  With [q] absent from both trees of [s] but recorded with [l]'s digest the
    plan of [r] holds "propagate the delete of [q]" for side [sd]. *)
Definition leftover (s r : state) (sd : side) (q : K) (l : content) : Prop :=
  arch r = arch s /\
  (forall x, x <> q -> tA r !! x = tA s !! x /\ tB r !! x = tB s !! x) /\
  side_tree sd r !! q = Some l /\ side_tree (other sd) r !! q = None.

Definition delw (sd : side) (q : K) (w : work) : work :=
  match sd with
  | SA => {| wA := delete q (wA w); wB := wB w; wC := delete q (wC w); wConf := wConf w; wErr := false |}
  | SB => {| wA := wA w; wB := delete q (wB w); wC := delete q (wC w); wConf := wConf w; wErr := false |}
  end.

(** two work states that differ at most at path [q] *)
Definition agree_off (q : K) (w w' : work) : Prop :=
  wErr w' = wErr w /\ wConf w' = wConf w /\
  forall x, x <> q -> wA w' !! x = wA w !! x /\ wB w' !! x = wB w !! x /\ wC w' !! x = wC w !! x.

Definition at_q (q : K) (w : work) : option content * option content * option D :=
  (wA w !! q, wB w !! q, wC w !! q).

Lemma work_eq (w w' : work) : wErr w' = wErr w -> wConf w' = wConf w ->
  (forall x, wA w' !! x = wA w !! x /\ wB w' !! x = wB w !! x /\ wC w' !! x = wC w !! x) -> w' = w.
Proof. destruct w, w'; cbn. intros -> -> L. f_equal; apply map_eq; intros x; apply L. Qed.

Lemma apply_ext (a b a' b' : gmap K D) (w : work) p act :
  a !! p = a' !! p -> b !! p = b' !! p -> apply a b w (p, act) = apply a' b' w (p, act).
Proof. intros Ea Eb. unfold Bisync.apply. destruct (wErr w); [reflexivity|]. destruct act; rewrite ?Ea, ?Eb; reflexivity. Qed.

Lemma kstep_lo (s r : state) sd q l (w : work) x : leftover s r sd q l -> x <> q -> kstep r w x = kstep s w x.
Proof.
  intros (Ez & Ex & _) N. destruct (Ex x N) as [Ea Eb].
  unfold BisyncProofs.kstep, BisyncProofs.act_at. rewrite Ea, Eb, Ez.
  destruct (rpath _ _ _) as [act|]; [|reflexivity].
  apply apply_ext; unfold Bisync.scan; rewrite !lookup_fmap; congruence.
Qed.

Lemma foldl_kstep_lo (s r : state) sd q l (w : work) lst : leftover s r sd q l -> q ∉ lst ->
  foldl (kstep r) w lst = foldl (kstep s) w lst.
Proof. intros Lo. revert w; induction lst as [|x lst IH]; intros w Hq; cbn [foldl]; [reflexivity|].
  apply not_elem_of_cons in Hq as [Hx Hq]. rewrite (kstep_lo s r sd q l) by (assumption || congruence). apply IH, Hq. Qed.

Lemma kstep_lo_q (s r : state) sd q l (w : work) :
  leftover s r sd q l -> base_at (arch s) q = Some (Hh l) -> wErr w = false ->
  kstep r w q = delw sd q w.
Proof.
  intros (Ez & _ & E1 & E2) Hz He.
  unfold BisyncProofs.kstep, BisyncProofs.act_at. rewrite Ez, Hz.
  destruct sd; cbn [side_tree other] in E1, E2; rewrite E1, E2; cbn [fmap option_fmap option_map rpath];
    rewrite decide_True by reflexivity; unfold Bisync.apply; rewrite He; reflexivity.
Qed.

Lemma agree_refl q (w : work) : agree_off q w w.
Proof. split; [reflexivity|]. split; [reflexivity|]. auto. Qed.

(** a step for a key other than [q] whose conflict name is not [q] neither reads
    nor writes [q] *)
Lemma kstep_frame (s : state) dn (w w' : work) x q :
  HashOk s -> Fresh s -> Inv s dn w -> x ∈ keys s -> x ∉ dn -> agree_off q w w' ->
  x <> q -> (forall l, conflict s x <> Some (q, l)) ->
  agree_off q (kstep s w x) (kstep s w' x) /\ at_q q (kstep s w' x) = at_q q w'.
Proof.
  intros Hok F [Ie _ _ _ It _] Hk Hd (Ae & Ac & Ax) Nq Nc.
  destruct (Ax x Nq) as (XA & XB & XC).
  assert (Hq : forall q' l, conflict s x = Some (q', l) -> q' <> x)
    by (intros q' l E; exact (fresh_name_ne Hh dge cname _ _ _ _ F E)).
  destruct (It x Hk Hd) as [(HA & HB & HC)|(l & Hn & HA & HB & HC)].
  - destruct (kstep_effect Hh dge cname s w x Hok Hq Hk Ie HA HB (or_introl HC)) as (E1 & E2 & E3).
    destruct (kstep_effect Hh dge cname s w' x Hok Hq Hk) as (E1' & E2' & E3'); [congruence..|left; congruence|].
    split.
    + split; [congruence|]. split; [rewrite E2, E2', Ac; reflexivity|]. intros y Ny.
      destruct (E3 y) as (-> & -> & ->). destruct (E3' y) as (-> & -> & ->).
      destruct (Ax y Ny) as (YA & YB & YC). unfold upd.
      destruct (conflict s x) as [[q' l']|]; cbn; repeat case_decide; auto.
    + unfold at_q. destruct (E3' q) as (-> & -> & ->). unfold upd.
      destruct (conflict s x) as [[q' l']|] eqn:Ec; cbn.
      * assert (q <> q') by (intros ->; exact (Nc _ eq_refl)). rewrite !decide_False by congruence. reflexivity.
      * rewrite !decide_False by congruence. reflexivity.
  - destruct (kstep_named Hh dge cname s w x l Hn Hk Ie HA HB HC) as (E1 & E2 & E3).
    destruct (kstep_named Hh dge cname s w' x l Hn Hk) as (E1' & E2' & E3'); [congruence..|].
    split.
    + split; [congruence|]. split; [congruence|]. intros y Ny.
      destruct (E3 y) as (-> & -> & ->). destruct (E3' y) as (-> & -> & ->). apply Ax, Ny.
    + unfold at_q. destruct (E3' q) as (-> & -> & ->). reflexivity.
Qed.

(** the conflict step of the path whose conflict name is [q] overwrites [q] *)
Lemma kstep_merge (s : state) dn (w w' : work) p q l :
  HashOk s -> Fresh s -> Inv s dn w -> p ∈ keys s -> p ∉ dn -> agree_off q w w' ->
  conflict s p = Some (q, l) -> kstep s w' p = kstep s w p.
Proof.
  intros Hok F [Ie _ _ _ It _] Hk Hd (Ae & Ac & Ax) Ec.
  pose proof (fresh_name_ne Hh dge cname _ _ _ _ F Ec) as Np.
  destruct (Ax p ltac:(congruence)) as (XA & XB & XC).
  assert (Hq : forall q' l', conflict s p = Some (q', l') -> q' <> p)
    by (intros q' l' E; exact (fresh_name_ne Hh dge cname _ _ _ _ F E)).
  destruct (It p Hk Hd) as [(HA & HB & HC)|(l1 & Hn & _)].
  2: { rewrite (name_ok_not_conflict Hh dge cname _ _ _ Hn) in Ec. discriminate. }
  destruct (kstep_effect Hh dge cname s w p Hok Hq Hk Ie HA HB (or_introl HC)) as (E1 & E2 & E3).
  destruct (kstep_effect Hh dge cname s w' p Hok Hq Hk) as (E1' & E2' & E3'); [congruence..|left; congruence|].
  apply work_eq; [congruence|rewrite E2, E2', Ac; reflexivity|]. intros y.
  destruct (E3 y) as (-> & -> & ->). destruct (E3' y) as (-> & -> & ->). unfold upd. rewrite Ec. cbn.
  destruct (decide (y = q)) as [->|Ny]; [auto|]. destruct (decide (y = p)); [auto|]. apply Ax, Ny.
Qed.

Lemma fold_frame (s : state) q p0 : HashOk s -> Fresh s -> (exists l0, conflict s p0 = Some (q, l0)) ->
  forall todo dn (w w' : work), NoDup todo ->
  (forall x, x ∈ todo -> x ∈ keys s /\ x ∉ dn /\ x <> q /\ x <> p0) -> dn ⊆ keys s ->
  Inv s dn w -> agree_off q w w' ->
  Inv s (list_to_set todo ∪ dn) (foldl (kstep s) w todo) /\
  agree_off q (foldl (kstep s) w todo) (foldl (kstep s) w' todo) /\
  at_q q (foldl (kstep s) w' todo) = at_q q w'.
Proof.
  intros Hok F (l0 & E0) todo. induction todo as [|x todo IH]; intros dn w w' Hnd Hin Hsub Iv Ag; cbn [foldl list_to_set].
  - rewrite (left_id_L ∅ (∪)). auto.
  - apply NoDup_cons in Hnd as [Hx Hnd]. destruct (Hin x ltac:(left)) as (Hxk & Hxd & Hxq & Hxp).
    assert (Nc : forall l, conflict s x <> Some (q, l)).
    { intros l E. apply Hxp. eapply (proj2 F); eauto. }
    destruct (kstep_frame s dn w w' x q Hok F Iv Hxk Hxd Ag Hxq Nc) as [Ag1 Aq1].
    replace ({[x]} ∪ list_to_set todo ∪ dn) with (list_to_set todo ∪ ({[x]} ∪ dn)) by set_solver.
    destruct (IH ({[x]} ∪ dn) (kstep s w x) (kstep s w' x)) as (I2 & Ag2 & Aq2).
    + exact Hnd.
    + intros y Hy. destruct (Hin y ltac:(right; exact Hy)) as (Hyk & Hyd & Hyq & Hyp).
      split; [exact Hyk|]. split; [|auto].
      intros [Hy'|Hy']%elem_of_union; [|contradiction]. apply elem_of_singleton in Hy'. subst y. contradiction.
    + intros y [Hy|Hy]%elem_of_union; [apply elem_of_singleton in Hy; subst y; exact Hxk|apply Hsub, Hy].
    + apply (inv_step Hh dge cname kle); assumption.
    + exact Ag1.
    + split; [exact I2|]. split; [exact Ag2|]. rewrite Aq2. exact Aq1.
Qed.

(** The run from a state with a stale, recorded, one-sided leftover [l] at the
    conflict name [q] of the both-changed path [p0]: every path but [q] ends as in
    the run without the leftover; [q] itself ends as there (the loser on both sides,
    recorded) if [q] comes before [p0] in plan order, and otherwise holds the loser
    on the OTHER side only, unrecorded. *)
Lemma stale_rerun (s r : state) sd p0 q l :
  HashOk s -> Fresh s -> conflict s p0 = Some (q, l) -> q ∉ keys s -> base_at (arch s) q = Some (Hh l) ->
  leftover s r sd q l ->
  wErr (wfinal r) = false /\
  (forall x, x <> q -> wA (wfinal r) !! x = expected s x /\ wB (wfinal r) !! x = expected s x /\
                        wC (wfinal r) !! x = Hh <$> expected s x) /\
  (at_q q (wfinal r) = (Some l, Some l, Some (Hh l)) \/
   at_q q (wfinal r) = match sd with SA => (None, Some l, None) | SB => (Some l, None, None) end).
Proof.
  intros Hok F E0 Hq Hz Lo.
  pose proof Lo as (Ez & Ex & Es1 & Es2).
  pose proof (conflict_key Hh dge cname _ _ _ _ E0) as Hp0k.
  assert (Kr : forall x, x ∈ keys r <-> x = q \/ x ∈ keys s).
  { intros x. rewrite !elem_of_keys. destruct (decide (x = q)) as [->|N].
    - split; [auto|]. intros _. destruct sd; cbn in Es1; rewrite Es1; eauto.
    - destruct (Ex x N) as [-> ->]. split; [auto|]. intros [?|?]; [contradiction|assumption]. }
  set (L := plan_keys kle (scan (tA r)) (scan (tB r))).
  assert (HL : forall x, x ∈ L <-> x = q \/ x ∈ keys s).
  { intros x. rewrite <- Kr, <- (plan_keys_scan Hh kle r), elem_of_list_to_set. reflexivity. }
  pose proof (NoDup_plan_keys kle (scan (tA r)) (scan (tB r))) as HndL. fold L in HndL.
  destruct (elem_of_list_split L q) as (L1 & L2 & EL); [apply HL; auto|].
  rewrite EL in HndL. apply NoDup_app in HndL as (Hnd1 & Hdis & Hnd2). apply NoDup_cons in Hnd2 as [HqL2 Hnd2].
  assert (HqL1 : q ∉ L1). { intros Hin. apply (Hdis q Hin). left. }
  assert (H1q : forall x, x ∈ L1 -> x <> q) by (intros x Hx ->; contradiction).
  assert (H2q : forall x, x ∈ L2 -> x <> q) by (intros x Hx ->; contradiction).
  assert (H1k : forall x, x ∈ L1 -> x ∈ keys s).
  { intros x Hx. destruct (proj1 (HL x)) as [?|?]; [rewrite EL; set_solver|exfalso; eapply H1q; eauto|assumption]. }
  assert (H2k : forall x, x ∈ L2 -> x ∈ keys s).
  { intros x Hx. destruct (proj1 (HL x)) as [?|?]; [rewrite EL; set_solver|exfalso; eapply H2q; eauto|assumption]. }
  assert (H12 : forall x, x ∈ L1 -> x ∉ L2).
  { intros x Hx Hx2. apply (Hdis x Hx). right. exact Hx2. }
  assert (H3 : forall x, x ∈ keys s -> x ∈ L1 \/ x ∈ L2).
  { intros x Hx. assert (x <> q) by (intros ->; contradiction). assert (Hin : x ∈ L) by (apply HL; auto).
    rewrite EL in Hin. set_solver. }
  assert (EW : wfinal r = foldl (kstep s) (kstep r (foldl (kstep s) (w0 r) L1) q) L2).
  { unfold BisyncProofs.wfinal. fold L. rewrite EL, foldl_app. cbn [foldl].
    rewrite (foldl_kstep_lo s r sd q l _ L1 Lo HqL1). apply (foldl_kstep_lo s r sd q l _ L2 Lo HqL2). }
  assert (A0 : agree_off q (w0 s) (w0 r)).
  { split; [reflexivity|]. split; [reflexivity|]. intros x N. cbn [BisyncProofs.w0 wA wB wC].
    destruct (Ex x N) as [-> ->]. split; [reflexivity|]. split; [reflexivity|].
    destruct (decide (x ∈ keys s)) as [Hk|Hk].
    - rewrite (c0_lookup_in Hh r x) by (apply Kr; auto). rewrite (c0_lookup_in Hh s x Hk), Ez. reflexivity.
    - rewrite (c0_lookup_out Hh cname kle r x), (c0_lookup_out Hh cname kle s x Hk); [reflexivity|].
      intros [?|?]%Kr; contradiction. }
  assert (Q0 : at_q q (w0 r) = match sd with SA => (Some l, None, Some (Hh l)) | SB => (None, Some l, Some (Hh l)) end).
  { unfold at_q. cbn [BisyncProofs.w0 wA wB wC]. rewrite (c0_lookup_in Hh r q) by (apply Kr; auto). rewrite Ez, Hz.
    destruct sd; cbn [side_tree other] in Es1, Es2; rewrite Es1, Es2; reflexivity. }
  set (dn := list_to_set L1 ∪ ∅ : gset K).
  assert (Edn : list_to_set L2 ∪ dn = keys s).
  { apply set_eq. intros x. split.
    - intros [Hx|Hx]%elem_of_union; [apply elem_of_list_to_set in Hx; apply H2k, Hx|]. apply H1k. unfold dn in Hx. set_solver.
    - intros Hx. destruct (H3 x Hx); unfold dn; set_solver. }
  destruct (decide (p0 ∈ L1)) as [Hp1|Hp1].
  - (* the conflict name comes after its path *)
    assert (Ew1 : foldl (kstep s) (w0 r) L1 = foldl (kstep s) (w0 s) L1).
    { destruct (elem_of_list_split L1 p0 Hp1) as (La & Lb & ELa).
      assert (HLa : forall x, x ∈ La -> x ∈ L1) by (intros x Hx; rewrite ELa; set_solver).
      pose proof Hnd1 as Hnd1'. rewrite ELa in Hnd1' |- *.
      apply NoDup_app in Hnd1' as (Hnda & Hdisa & _).
      rewrite !foldl_app. cbn [foldl].
      destruct (fold_frame s q p0 Hok F (ex_intro _ l E0) La ∅ (w0 s) (w0 r)) as (Ia & Aa & _).
      + exact Hnda.
      + intros x Hx. split; [apply H1k, HLa, Hx|]. split; [set_solver|]. split; [apply H1q, HLa, Hx|].
        intros ->. apply (Hdisa p0 Hx). left.
      + set_solver.
      + apply (inv_init Hh dge cname kle).
      + exact A0.
      + rewrite (kstep_merge s (list_to_set La ∪ ∅) _ _ p0 q l Hok F Ia Hp0k); [reflexivity| |exact Aa|exact E0].
        intros Hin. apply (Hdisa p0); [set_solver|left]. }
    rewrite Ew1 in EW. set (wc := foldl (kstep s) (w0 s) L1) in *.
    assert (Ic : Inv s dn wc).
    { apply (fold_inv Hh dge cname kle s Hok F L1 ∅ (w0 s)); [exact Hnd1| |set_solver|apply (inv_init Hh dge cname kle)].
      intros x Hx. split; [apply H1k, Hx|set_solver]. }
    pose proof Ic as [Ec _ Inm _ _ _].
    rewrite (kstep_lo_q s r sd q l wc Lo Hz Ec) in EW.
    assert (Ad : agree_off q wc (delw sd q wc)).
    { split; [destruct sd; cbn; congruence|]. split; [destruct sd; reflexivity|].
      intros x N. destruct sd; cbn; rewrite ?lookup_delete_ne by congruence; auto. }
    assert (Qd : at_q q (delw sd q wc) = match sd with SA => (None, Some l, None) | SB => (Some l, None, None) end).
    { destruct (Inm p0 q l) as (Qa & Qb & _); [unfold dn; set_solver|exact E0|].
      unfold at_q. destruct sd; cbn; rewrite !lookup_delete, ?Qa, ?Qb; reflexivity. }
    destruct (fold_frame s q p0 Hok F (ex_intro _ l E0) L2 dn wc (delw sd q wc)) as (If & Af & Qf).
    + exact Hnd2.
    + intros x Hx. split; [apply H2k, Hx|]. split; [|split; [apply H2q, Hx|]].
      * intros Hin. apply (H12 x); [unfold dn in Hin; set_solver|exact Hx].
      * intros ->. exact (H12 p0 Hp1 Hx).
    + intros x Hx. apply H1k. unfold dn in Hx. set_solver.
    + exact Ic.
    + exact Ad.
    + rewrite <- EW in Af, Qf. rewrite Edn in If. pose proof If as [Ef _ _ _ _ _].
      destruct Af as (Ae & _ & Ax).
      split; [congruence|]. split.
      * intros x N. destruct (Ax x N) as (-> & -> & ->). apply (inv_final_lookup s _ Hok F If).
      * right. rewrite Qf. exact Qd.
  - (* the conflict name comes before its path: the planned delete removes the
       leftover, the conflict re-creates the copy on both sides *)
    destruct (fold_frame s q p0 Hok F (ex_intro _ l E0) L1 ∅ (w0 s) (w0 r)) as (I1 & A1 & Q1).
    + exact Hnd1.
    + intros x Hx. split; [apply H1k, Hx|]. split; [set_solver|]. split; [apply H1q, Hx|]. intros ->. contradiction.
    + set_solver.
    + apply (inv_init Hh dge cname kle).
    + exact A0.
    + fold dn in I1. set (w1 := foldl (kstep s) (w0 s) L1) in *. set (w1' := foldl (kstep s) (w0 r) L1) in *.
      pose proof I1 as [E1 _ _ _ _ Io1].
      destruct A1 as (Ae1 & Ac1 & Ax1).
      rewrite (kstep_lo_q s r sd q l w1' Lo Hz) in EW by congruence.
      assert (Em : delw sd q w1' = w1).
      { rewrite Q0 in Q1. unfold at_q in Q1.
        destruct (Io1 q Hq) as (Oa & Ob & Oc).
        { intros p l' Hp E. assert (p = p0) by (eapply (proj2 F); eauto). subst p. apply Hp1.
          unfold dn in Hp. set_solver. }
        apply work_eq.
        - destruct sd; cbn; congruence.
        - destruct sd; cbn; congruence.
        - intros x. destruct (decide (x = q)) as [->|N].
          + rewrite Oa, Ob, Oc. destruct sd; injection Q1 as Q1a Q1b Q1c; cbn; rewrite !lookup_delete, ?Q1a, ?Q1b; auto.
          + destruct (Ax1 x N) as (Xa & Xb & Xc). destruct sd; cbn; rewrite ?lookup_delete_ne by congruence; auto. }
      rewrite Em in EW.
      assert (If : Inv s (list_to_set L2 ∪ dn) (wfinal r)).
      { rewrite EW. apply (fold_inv Hh dge cname kle s Hok F L2 dn w1); [exact Hnd2| | |exact I1].
        - intros x Hx. split; [apply H2k, Hx|]. intros Hin. apply (H12 x); [unfold dn in Hin; set_solver|exact Hx].
        - intros x Hx. apply H1k. unfold dn in Hx. set_solver. }
      rewrite Edn in If. pose proof If as [Ef _ _ _ _ _].
      split; [exact Ef|]. split; [intros x _; apply (inv_final_lookup s _ Hok F If)|]. left.
      unfold at_q. destruct (inv_final_lookup s _ Hok F If q) as (-> & -> & ->).
      rewrite (expected_name Hh dge cname _ _ _ _ F E0). reflexivity.
Qed.

(** [r1] is the completed state [t] except that the conflict copy [l] at [q] is
    missing on side [sd] and in the record *)
Definition one_sided_copy (t r1 : state) (sd : side) (q : K) (l : content) : Prop :=
  (forall x, x <> q -> tA r1 !! x = tA t !! x /\ tB r1 !! x = tB t !! x /\
                      base_at (arch r1) x = base_at (arch t) x) /\
  tA t !! q = Some l /\ tB t !! q = Some l /\
  side_tree sd r1 !! q = None /\ side_tree (other sd) r1 !! q = Some l /\ base_at (arch r1) q = None.

(** the next run propagates the copy back and records it: exit status 0 *)
Lemma one_sided_copy_rerun (t r1 : state) sd q l :
  tB t = tA t -> arch t = Some (Hh <$> tA t) -> one_sided_copy t r1 sd q l ->
  (bisync_run r1).1.1 = t /\ (bisync_run r1).1.2 = ExitOk.
Proof.
  intros Eb Ez (Ox & Ta & Tb & O1 & O2 & O3).
  assert (Et : t = {| tA := tA t; tB := tA t; arch := Some (Hh <$> tA t) |}).
  { destruct t as [A B z]. cbn in *. subst. reflexivity. }
  rewrite Et at 1. apply run_no_conflicts.
  - intros p x y Ea Eb' _. destruct (decide (p = q)) as [->|N].
    + destruct sd; cbn in O1, O2; congruence.
    + destruct (Ox p N) as (Xa & Xb & _). rewrite Eb in Xb. congruence.
  - intros p. destruct (decide (p = q)) as [->|N].
    + destruct (conflict r1 q) as [[q' l']|] eqn:Ec; [|reflexivity]. exfalso.
      apply (conflict_spec Hh dge cname) in Ec as (x & y & Ea & Eb' & _).
      destruct sd; cbn in O1, O2; congruence.
    + apply conflict_equal_none. destruct (Ox p N) as (Xa & Xb & _). rewrite Eb in Xb. congruence.
  - intros x. unfold BisyncProofs.fin. destruct (decide (x = q)) as [->|N].
    + rewrite O3, Ta. destruct sd; cbn in O1, O2; rewrite O1, O2; cbn;
        rewrite decide_False by discriminate; reflexivity.
    + destruct (Ox x N) as (-> & -> & _). rewrite Eb. apply final_content_same.
Qed.

Lemma stale_run (s r : state) sd p0 q l :
  HashOk s -> Fresh s -> conflict s p0 = Some (q, l) -> q ∉ keys s -> base_at (arch s) q = Some (Hh l) ->
  leftover s r sd q l ->
  (bisync_run r).1.2 <> ExitIoError /\
  (run_state r = run_state s \/ one_sided_copy (run_state s) (run_state r) sd q l).
Proof.
  intros Hok F E0 Hq Hz Lo.
  destruct (stale_rerun s r sd p0 q l Hok F E0 Hq Hz Lo) as (Ee & Lx & Q).
  assert (Er : run_state r = {| tA := wA (wfinal r); tB := wB (wfinal r); arch := Some (wC (wfinal r)) |}).
  { unfold BisyncStepsProofs.run_state. rewrite (run_unfold Hh dge cname kle r), Ee. reflexivity. }
  split.
  { rewrite (run_unfold Hh dge cname kle r), Ee. cbn [fst snd]. case_decide; discriminate. }
  rewrite Er, (run_state_final s Hok F).
  assert (T : forall x, wA (wfinal s) !! x = expected s x).
  { intros x. apply (run_lookup Hh dge cname kle s Hok F x). }
  pose proof (expected_name Hh dge cname _ _ _ _ F E0) as Eq.
  destruct Q as [Q|Q]; unfold at_q in Q.
  - left. injection Q as Qa Qb Qc.
    f_equal; [| |f_equal]; apply map_eq; intros x; rewrite ?lookup_fmap, T;
      (destruct (decide (x = q)) as [->|N]; [rewrite Eq; assumption|apply Lx, N]).
  - right. split; [|cbn [tA tB arch base_at]; rewrite ?lookup_fmap, !T, Eq].
    + intros x N. cbn [tA tB arch base_at]. rewrite ?lookup_fmap, T. apply Lx, N.
    + split; [reflexivity|]. split; [reflexivity|].
      destruct sd; injection Q as Qa Qb Qc; cbn [side_tree other tA tB]; auto.
Qed.

(** the stale window, read off a [Mid] state whose half-delivered conflict name
    violates clause (1c) of [Fresh] *)
Lemma mid_stale (s r : state) done p0 q0 l0 :
  HashOk s -> Fresh s -> Mid s r done (Some (p0, q0, l0)) ->
  tA r !! q0 <> tB r !! q0 -> base_at (arch s) q0 = Some (Hh l0) ->
  tA s !! q0 = None /\ tB s !! q0 = None /\
  exists sd, let s' := {| tA := delete q0 (tA r); tB := delete q0 (tB r); arch := arch r |} in
    Mid s s' done None /\ leftover s' r sd q0 l0.
Proof.
  intros Hok F [Mz Md Mn Mc Mx [Hp0 E0]] Hne Hz.
  destruct (proj1 F _ _ _ E0) as (Ha & Hb & Hzz). destruct Hzz as [Hzz|Hzz]; [|contradiction].
  destruct (Mx q0) as [[Na Nb]|[[Sa Sb]|(_ & Pa & Pb)]]; [exfalso; congruence|exfalso; apply Hne; congruence|].
  assert (Ea0 : tA s !! q0 = None).
  { destruct Ha as [Ha|Ha]; [exact Ha|]. exfalso. apply Hne. destruct Pa as [Pa|Pa], Pb as [Pb|Pb]; congruence. }
  assert (Eb0 : tB s !! q0 = None) by congruence.
  split; [exact Ea0|]. split; [exact Eb0|].
  rewrite Ea0 in Pa. rewrite Eb0 in Pb.
  assert (Hsd : (tA r !! q0 = Some l0 /\ tB r !! q0 = None) \/ (tA r !! q0 = None /\ tB r !! q0 = Some l0)).
  { destruct Pa as [Pa|Pa], Pb as [Pb|Pb]; auto; exfalso; apply Hne; congruence. }
  assert (Nq : forall x, newat s r x -> x <> q0) by (intros x [Xa Xb] ->; apply Hne; congruence).
  assert (M' : Mid s {| tA := delete q0 (tA r); tB := delete q0 (tB r); arch := arch r |} done None).
  { split; cbn [tA tB arch].
    + exact Mz.
    + intros x Hx. pose proof (Md x Hx) as Nx. pose proof (Nq x Nx). unfold newat in *. cbn [tA tB].
      rewrite !lookup_delete_ne by congruence. exact Nx.
    + intros p x l Hp E. pose proof (Mn p x l Hp E) as Nx. pose proof (Nq x Nx). unfold newat in *. cbn [tA tB].
      rewrite !lookup_delete_ne by congruence. exact Nx.
    + intros p q l E Hp. assert (p <> q0).
      { intros ->. rewrite (fresh_name_not_conflict Hh dge cname _ _ _ _ F E0) in E. discriminate. }
      pose proof (Mc p q l E Hp) as Sx. unfold sameat in *. cbn [tA tB].
      rewrite !lookup_delete_ne by congruence. exact Sx.
    + intros x. destruct (decide (x = q0)) as [->|N].
      * right. left. unfold sameat. cbn [tA tB]. rewrite !lookup_delete. auto.
      * unfold newat, sameat. cbn [tA tB]. rewrite !lookup_delete_ne by congruence.
        destruct (Mx x) as [?|[?|(? & _)]]; [auto|auto|contradiction].
    + exact I. }
  destruct Hsd as [[Xa Xb]|[Xa Xb]]; [exists SA|exists SB]; cbn zeta; (split; [exact M'|]);
    (split; [reflexivity|]);
    (split; [intros x N; cbn [tA tB]; rewrite !lookup_delete_ne by congruence; auto|]);
    cbn [side_tree other tA tB]; auto.
Qed.

(** ** Recovery *)

(** the stale record entries that open the window: a both-changed path whose
    conflict name is absent from both trees but recorded with the loser's digest *)
Definition stale_name (s : state) (p q : K) (l : content) : Prop :=
  conflict s p = Some (q, l) /\ tA s !! q = None /\ tB s !! q = None /\ base_at (arch s) q = Some (Hh l).

Theorem recovery_conflicts (s : state) ae k : HashOk s -> Fresh s ->
  let r := recover (crash s ae k) in
  let r1 := run_state r in
  (bisync_run r).1.2 <> ExitIoError /\
  (r1 = run_state s \/
   exists sd p q l, stale_name s p q l /\ one_sided_copy (run_state s) r1 sd q l) /\
  run_state r1 = run_state s /\ (bisync_run r1).1.2 = ExitOk.
Proof.
  intros Hok F. cbn zeta. set (r := recover (crash s ae k)).
  destruct (rerun_final s Hok F) as [Rf1 Rf2].
  assert (Good : forall done pend, Mid s r done pend -> pend_ok s r pend ->
            (bisync_run r).1.2 <> ExitIoError /\
            (run_state r = run_state s \/
             exists sd p q l, stale_name s p q l /\ one_sided_copy (run_state s) (run_state r) sd q l) /\
            run_state (run_state r) = run_state s /\ (bisync_run (run_state r)).1.2 = ExitOk).
  { intros done pend M Po. destruct (mid_good s r done pend Hok F M Po) as (Hok' & F' & Ex).
    destruct (same_expected_same_run s r Hok F Hok' F' Ex) as [-> Hne]. auto. }
  destruct (crash_mid s ae k Hok F) as [(done & pend & M)|(Ea & Eb & _)]; fold r in M || fold r in Ea, Eb.
  - destruct pend as [[[p0 q0] l0]|]; [|apply (Good done None M I)].
    destruct (decide (tA r !! q0 = tB r !! q0)) as [Eq|Nq]; [apply (Good _ _ M); left; exact Eq|].
    destruct (decide (base_at (arch s) q0 = Some (Hh l0))) as [Ez|Nz]; [|apply (Good _ _ M); right; exact Nz].
    destruct (mid_stale s r done p0 q0 l0 Hok F M Nq Ez) as (Ea0 & Eb0 & sd & M' & Lo). cbn zeta in M', Lo.
    set (s' := {| tA := delete q0 (tA r); tB := delete q0 (tB r); arch := arch r |}) in *.
    destruct (mid_good s s' done None Hok F M' I) as (Hok' & F' & Ex).
    destruct (same_expected_same_run s s' Hok F Hok' F' Ex) as [Rs _].
    destruct M as [_ _ _ _ _ [Hp0 E0]].
    assert (E0' : conflict s' p0 = Some (q0, l0)).
    { rewrite <- E0. destruct (mid_conf _ _ _ _ M' _ _ _ E0 Hp0) as [Sa Sb].
      apply conflict_ext; [assumption..|]. rewrite (mid_arch _ _ _ _ M'). reflexivity. }
    assert (Hq' : q0 ∉ keys s').
    { apply (not_elem_of_keys cname kle). cbn. rewrite !lookup_delete. auto. }
    assert (Hz' : base_at (arch s') q0 = Some (Hh l0)) by (rewrite (mid_arch _ _ _ _ M'); exact Ez).
    destruct (stale_run s' r sd p0 q0 l0 Hok' F' E0' Hq' Hz' Lo) as (Hne & Hr).
    rewrite Rs in Hr. split; [exact Hne|]. destruct Hr as [->|Ho].
    + auto.
    + split; [right; exists sd, p0, q0, l0; split; [split; auto|exact Ho]|].
      rewrite (run_state_final s Hok F) in Ho |- *.
      exact (one_sided_copy_rerun {| tA := wA (wfinal s); tB := wA (wfinal s); arch := Some (Hh <$> wA (wfinal s)) |}
               _ sd q0 l0 eq_refl eq_refl Ho).
  - assert (Eb' : tB r = wA (wfinal s)).
    { rewrite Eb. apply map_eq. intros x. destruct (run_lookup Hh dge cname kle s Hok F x) as (-> & -> & _). reflexivity. }
    destruct (run_equal_trees r _ Ea Eb') as [R1 R2].
    assert (E1 : run_state r = run_state s) by (rewrite (run_state_final s Hok F); exact R1).
    rewrite E1. split; [rewrite R2; discriminate|]. auto.
Qed.

(** without stale record entries at conflict names ONE re-run reaches the state of
    the uninterrupted run *)
Corollary recovery_conflicts_one (s : state) ae k : HashOk s -> Fresh s ->
  (forall p q l, conflict s p = Some (q, l) -> tA s !! q = None -> tB s !! q = None ->
                 base_at (arch s) q <> Some (Hh l)) ->
  run_state (recover (crash s ae k)) = run_state s.
Proof.
  intros Hok F Hns. destruct (recovery_conflicts s ae k Hok F) as (_ & [E|(sd & p & q & l & (E0 & Ea & Eb & Ez) & _)] & _).
  - exact E.
  - exfalso. exact (Hns p q l E0 Ea Eb Ez).
Qed.

(** no version present before the interrupted run is lost: after the two re-runs it
    is on both sides (C02's statement for the uninterrupted run carries over since
    the states are equal); after the first re-run already it is on at least one side *)
Lemma recovery_no_loss (s : state) ae k : HashOk s -> Fresh s ->
  let r1 := run_state (recover (crash s ae k)) in
  let r2 := run_state r1 in
  forall sd p c, side_tree sd s !! p = Some c ->
    (kept Hh dge cname s r2 p c \/ superseded Hh s sd p c) /\
    ((exists x, (x = p \/ conflict s p = Some (x, c)) /\ (tA r1 !! x = Some c \/ tB r1 !! x = Some c)) \/
     superseded Hh s sd p c).
Proof.
  intros Hok F. cbn zeta. intros sd p c Hc.
  destruct (recovery_conflicts s ae k Hok F) as (_ & H1 & -> & _).
  assert (NL : kept Hh dge cname s (run_state s) p c \/ superseded Hh s sd p c).
  { unfold BisyncStepsProofs.run_state. destruct (bisync_run s) as [[s' e] pl] eqn:R. cbn [fst].
    exact (run_no_loss Hh dge cname kle s s' e pl Hok F R sd p c Hc). }
  split; [exact NL|]. destruct NL as [(x & Hx & Ka & Kb)|Sup]; [left|right; exact Sup].
  exists x. split; [exact Hx|]. destruct H1 as [->|(sd' & p' & q & l & _ & (Ox & Ta & Tb & O1 & O2 & _))]; [auto|].
  destruct (decide (x = q)) as [->|N].
  - assert (c = l) by congruence. subst c. destruct sd'; cbn in O2; auto.
  - destruct (Ox x N) as (-> & _). auto.
Qed.

End R.
