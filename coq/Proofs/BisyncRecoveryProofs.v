(** Recovery after a crash of a bisync run WITH both-changed conflicts (C08).

    Model/BisyncSteps.v gives the crash states of a run ([crash s ae k]);
    Proofs/BisyncProofs.v gives the per-path result of a run from a state of the
    "no name clash" class ([Fresh], [run_lookup]).  This file connects the two:

    - every crash state is described, path by path, by the invariant [Inv] of the
      apply loop at some prefix of the plan, plus at most one half-delivered
      conflict (its conflict name holds the loser on one or both sides) - [Mid];
    - such a state is again in [HashOk] and - except for ONE window - in [Fresh],
      and a run from it has the same per-path result as the uninterrupted run;
    - the window: the crash falls between the two deliveries of the conflict copy
      of a both-changed path whose conflict name is absent from both trees but
      still recorded with the loser's digest (a stale record entry: the copy of an
      earlier identical conflict was deleted on both sides).  The re-run then plans
      "propagate the delete" for the half-delivered copy; if the conflict name
      comes after its path in plan order the copy just re-created is removed on one
      side.  The next run propagates it back: TWO re-runs always suffice. *)
From stdpp Require Import gmap sorting.
From Copia Require Import Model.Bisync Model.BisyncSteps Proofs.BisyncStepsProofs Proofs.BisyncProofs.

Section R.
Context {K : Type} {HeqK : EqDecision K} {HcntK : Countable K}.
Context {D : Type} {HeqD : EqDecision D}.
Notation content := (list Z).
Variable Hh : content -> D.
Variable dge : D -> D -> bool.
Variable cname : K -> D -> K.
Variable kle : K -> K -> bool.

Notation state := (@state K _ _ D).
Notation work := (@work K _ _ D).
Notation fs := (@fs K _ _ D).
Notation apply := (apply dge cname).
Notation scan := (scan Hh).
Notation bisync_run := (bisync_run Hh dge cname kle).
Notation crash := (crash Hh dge cname kle).
Notation action_blocks := (action_blocks dge cname).
Notation plan_blocks := (plan_blocks dge cname).
Notation plan_of := (plan_of Hh kle).
Notation data_blocks := (data_blocks Hh dge cname kle).
Notation data_steps := (data_steps Hh dge cname kle).
Notation arch_part := (arch_part Hh dge cname kle).
Notation wfin := (wfin Hh dge cname kle).
Notation w0_of := (w0_of Hh).
Notation run_state := (run_state Hh dge cname kle).
Notation conflict := (conflict Hh dge cname).
Notation Fresh := (Fresh Hh dge cname).
Notation HashOk := (HashOk Hh).
Notation name_ok := (name_ok Hh).
Notation expected := (expected Hh dge cname).
Notation fin := (fin Hh dge).
Notation final_content := (final_content Hh dge).
Notation act_at := (act_at Hh).
Notation loser := (loser Hh dge).
Notation winner := (winner Hh dge).
Notation kstep := (kstep Hh dge cname).
Notation Inv := (Inv Hh dge cname).
Notation wfinal := (wfinal Hh dge cname kle).
Notation w0 := (w0 Hh).

(** ** Lists *)

Lemma omap_lookup_split {A B} (f : A -> option B) (l : list A) j y :
  omap f l !! j = Some y ->
  exists l1 x l2, l = l1 ++ x :: l2 /\ f x = Some y /\ take j (omap f l) = omap f l1.
Proof.
  revert j. induction l as [|a l IH]; intros j Hj; [destruct j; discriminate Hj|].
  cbn [omap list_omap] in *. destruct (f a) as [b|] eqn:E.
  - destruct j as [|j]; cbn in Hj.
    + injection Hj as ->. exists [], a, l. cbn. auto.
    + destruct (IH j Hj) as (l1 & x & l2 & -> & Hx & Ht). exists (a :: l1), x, l2.
      cbn [omap list_omap]. rewrite E. cbn. rewrite Ht. auto.
  - destruct (IH j Hj) as (l1 & x & l2 & -> & Hx & Ht). exists (a :: l1), x, l2.
    cbn [omap list_omap]. rewrite E. auto.
Qed.

(** ** A prefix of the block list = whole actions + a strict prefix of the next one *)

Lemma take_plan_blocks_mid a b (w : work) pl m blk :
  plan_blocks a b w pl !! m = Some blk ->
  exists j pa i, pl !! j = Some pa /\
    i < length (action_blocks a b (foldl (apply a b) w (take j pl)) pa) /\
    take m (plan_blocks a b w pl) =
      plan_blocks a b w (take j pl) ++ take i (action_blocks a b (foldl (apply a b) w (take j pl)) pa).
Proof.
  revert w m. induction pl as [|pa pl IH]; intros w m Hm; cbn [BisyncStepsProofs.plan_blocks] in *.
  { rewrite lookup_nil in Hm. discriminate. }
  destruct (decide (m < length (action_blocks a b w pa))) as [Hlt|Hge].
  - exists 0, pa, m. cbn [take foldl BisyncStepsProofs.plan_blocks app]. split; [reflexivity|]. split; [exact Hlt|].
    apply take_app_le. lia.
  - rewrite lookup_app_r in Hm by lia. destruct (IH _ _ Hm) as (j & pa' & i & Hj & Hi & Ht).
    exists (S j), pa', i. cbn [take foldl BisyncStepsProofs.plan_blocks]. split; [exact Hj|]. split; [exact Hi|].
    rewrite take_app_ge by lia. rewrite Ht, (assoc_L (++)). reflexivity.
Qed.

(** the conflict name of a both-changed path of the plan differs from the path
    (under [Fresh]; BisyncStepsProofs assumes it of every name) *)
Definition name_ne (a b : gmap K D) (pa : K * action) : Prop :=
  pa.2 = ConfBoth -> forall fa fb, a !! pa.1 = Some fa -> b !! pa.1 = Some fb ->
    cname pa.1 (if dge fa fb then fb else fa) <> pa.1.

Lemma action_blocks_apply' a b (w : work) pa : name_ne a b pa ->
  foldl blk_apply (wtrees w) (action_blocks a b w pa) = wtrees (apply a b w pa).
Proof. intros Hcn. unfold BisyncStepsProofs.action_blocks, Bisync.apply, wtrees. destruct (wErr w) eqn:He; [reflexivity|].
  destruct pa as [p act]. unfold name_ne in Hcn. cbn [fst snd] in Hcn.
  destruct act; unfold copy; cbn [foldl blk_apply fst snd].
  - destruct (wA w !! p); reflexivity.
  - destruct (wB w !! p); reflexivity.
  - reflexivity.
  - reflexivity.
  - reflexivity.
  - specialize (Hcn eq_refl).
    destruct (a !! p) as [fa|], (b !! p) as [fb|]; try reflexivity.
    specialize (Hcn fa fb eq_refl eq_refl).
    destruct (dge fa fb).
    + destruct (wB w !! p) as [lc|] eqn:E1; [|reflexivity].
      rewrite lookup_insert_ne by exact Hcn. rewrite E1.
      rewrite lookup_insert_ne by exact Hcn.
      destruct (wA w !! p) as [wc|] eqn:E2; reflexivity.
    + destruct (wA w !! p) as [lc|] eqn:E1; [|reflexivity].
      rewrite lookup_insert_ne by exact Hcn. rewrite E1.
      rewrite lookup_insert_ne by exact Hcn.
      destruct (wB w !! p) as [wc|] eqn:E2; reflexivity.
  - destruct (a !! p) as [fa|], (b !! p) as [fb|]; try reflexivity.
    + destruct (wA w !! p); reflexivity.
    + destruct (wA w !! p); reflexivity.
    + destruct (wB w !! p); reflexivity.
Qed.

Lemma plan_blocks_apply' a b (w : work) pl : Forall (name_ne a b) pl ->
  foldl blk_apply (wtrees w) (plan_blocks a b w pl) = wtrees (foldl (apply a b) w pl).
Proof. intros Hpl. revert w; induction Hpl as [|pa pl Hpa Hpl IH]; intros w;
    cbn [BisyncStepsProofs.plan_blocks foldl]; [reflexivity|].
  rewrite foldl_app, action_blocks_apply' by exact Hpa. apply IH. Qed.

Lemma plan_name_ne (s : state) : Fresh s -> Forall (name_ne (scan (tA s)) (scan (tB s))) (plan_of s).
Proof.
  intros F. apply Forall_forall. intros [p act] Hin Hact fa fb Ha Hb. cbn [fst snd] in *. subst act.
  unfold BisyncStepsProofs.plan_of in Hin. apply (elem_of_plan_state Hh cname kle) in Hin.
  unfold Bisync.scan in Ha, Hb. rewrite lookup_fmap in Ha, Hb.
  destruct (tA s !! p) as [x|] eqn:Ea; [|discriminate]. destruct (tB s !! p) as [y|] eqn:Eb; [|discriminate].
  cbn in Ha, Hb. injection Ha as <-. injection Hb as <-.
  assert (Ec : conflict s p = Some (cname p (Hh (loser x y)), loser x y)).
  { unfold BisyncProofs.conflict. rewrite Hin, Ea, Eb. reflexivity. }
  pose proof (fresh_name_ne Hh dge cname _ _ _ _ F Ec) as N. unfold BisyncProofs.loser in N.
  destruct (dge (Hh x) (Hh y)); exact N.
Qed.

(** a strict prefix of the blocks of one action: nothing yet, or - for a
    both-changed conflict - the loser delivered to the conflict name on one or
    both sides, the path itself still untouched *)
Lemma action_prefix a b (w : work) p act i :
  i < length (action_blocks a b w (p, act)) ->
  let t' := foldl blk_apply (wtrees w) (take i (action_blocks a b w (p, act))) in
  t' = wtrees w \/
  (act = ConfBoth /\ exists fa fb lc, a !! p = Some fa /\ b !! p = Some fb /\
     (if dge fa fb then wB w else wA w) !! p = Some lc /\
     let q := cname p (if dge fa fb then fb else fa) in
     (forall x, x <> q -> t'.1 !! x = wA w !! x /\ t'.2 !! x = wB w !! x) /\
     (t'.1 !! q = wA w !! q \/ t'.1 !! q = Some lc) /\
     (t'.2 !! q = wB w !! q \/ t'.2 !! q = Some lc)).
Proof.
  intros Hi. cbn zeta. destruct i as [|i]; [left; reflexivity|]. right.
  unfold BisyncStepsProofs.action_blocks in *. destruct (wErr w); [cbn in Hi; lia|].
  destruct act; repeat case_match; cbn [length] in Hi; try lia.
  - split; [reflexivity|]. eexists _, _, _. split; [reflexivity|]. split; [reflexivity|].
    rewrite H1. split; [eassumption|]. cbn zeta.
    destruct i as [|[|i]]; [| |lia]; cbn [take foldl blk_apply wtrees fst snd].
    + split; [intros x Hx; rewrite lookup_insert_ne by congruence; auto|].
      rewrite lookup_insert. auto.
    + split; [intros x Hx; rewrite !lookup_insert_ne by congruence; auto|].
      rewrite !lookup_insert. auto.
  - split; [reflexivity|]. eexists _, _, _. split; [reflexivity|]. split; [reflexivity|].
    rewrite H1. split; [eassumption|]. cbn zeta.
    destruct i as [|[|i]]; [| |lia]; cbn [take foldl blk_apply wtrees fst snd].
    + split; [intros x Hx; rewrite lookup_insert_ne by congruence; auto|].
      rewrite lookup_insert. auto.
    + split; [intros x Hx; rewrite !lookup_insert_ne by congruence; auto|].
      rewrite !lookup_insert. auto.
Qed.

(** ** Small facts about the specification-side functions *)

Lemma final_content_same (v : option content) z : final_content v v z = v.
Proof. destruct v as [c|]; [|reflexivity]. unfold BisyncProofs.final_content. rewrite decide_True by reflexivity. reflexivity. Qed.

Lemma conflict_ext (s r : state) p :
  tA r !! p = tA s !! p -> tB r !! p = tB s !! p -> base_at (arch r) p = base_at (arch s) p ->
  conflict r p = conflict s p.
Proof. intros Ea Eb Ez. unfold BisyncProofs.conflict, BisyncProofs.act_at. rewrite Ea, Eb, Ez. reflexivity. Qed.

Lemma conflict_equal_none (r : state) p : tA r !! p = tB r !! p -> conflict r p = None.
Proof.
  intros E. destruct (conflict r p) as [[q l]|] eqn:Ec; [|reflexivity]. exfalso.
  pose proof Ec as Ec'. apply (conflict_spec Hh dge cname) in Ec' as (x & y & Ea & Eb & _).
  apply (conflict_digests_differ Hh dge cname _ _ _ _ _ _ Ec Ea Eb). congruence.
Qed.

Lemma expected_key (s : state) x : Fresh s -> x ∈ keys s -> expected s x = fin s x.
Proof.
  intros F Hx. destruct (conflict_name_dec Hh dge cname s x) as [[[p l] E]|N].
  - cbn in E. rewrite (expected_name Hh dge cname _ _ _ _ F E). symmetry.
    exact (fresh_name_fin Hh dge cname _ _ _ _ F E Hx).
  - apply expected_other, N.
Qed.

(** ** The trees in the middle of a run, path by path

    [Mid s r done pend]: [r] has the record of [s]; the paths in [done] and the
    conflict names of the both-changed paths in [done] hold what the completed run
    leaves there ([newat]); a both-changed path not in [done] is untouched; every
    other path is one or the other - except the conflict name [q0] of ONE
    both-changed path [p0] not in [done] ([pend]), which may already hold the loser
    [l0] on one or on both sides. *)
Definition newat (s r : state) (x : K) : Prop := tA r !! x = expected s x /\ tB r !! x = expected s x.
Definition sameat (s r : state) (x : K) : Prop := tA r !! x = tA s !! x /\ tB r !! x = tB s !! x.
Definition pendat (s r : state) (pend : option (K * K * content)) (x : K) : Prop :=
  match pend with
  | Some (p0, q0, l0) =>
      x = q0 /\ (tA r !! x = tA s !! x \/ tA r !! x = Some l0) /\ (tB r !! x = tB s !! x \/ tB r !! x = Some l0)
  | None => False
  end.

Record Mid (s r : state) (done : gset K) (pend : option (K * K * content)) : Prop := {
  mid_arch : arch r = arch s;
  mid_done : forall x, x ∈ done -> newat s r x;
  mid_name : forall p x l, p ∈ done -> conflict s p = Some (x, l) -> newat s r x;
  mid_conf : forall p q l, conflict s p = Some (q, l) -> p ∉ done -> sameat s r p;
  mid_cls : forall x, newat s r x \/ sameat s r x \/ pendat s r pend x;
  mid_pend : match pend with Some (p0, q0, l0) => p0 ∉ done /\ conflict s p0 = Some (q0, l0) | None => True end;
}.

(** the invariant of the apply loop, read path by path *)
Lemma inv_cls (s : state) done (w : work) :
  HashOk s -> Fresh s -> done ⊆ keys s -> Inv s done w ->
  (forall x, x ∈ done -> wA w !! x = expected s x /\ wB w !! x = expected s x) /\
  (forall p x l, p ∈ done -> conflict s p = Some (x, l) -> wA w !! x = expected s x /\ wB w !! x = expected s x) /\
  (forall p q l, conflict s p = Some (q, l) -> p ∉ done -> wA w !! p = tA s !! p /\ wB w !! p = tB s !! p) /\
  (forall x, (wA w !! x = expected s x /\ wB w !! x = expected s x) \/
             (wA w !! x = tA s !! x /\ wB w !! x = tB s !! x)).
Proof.
  intros Hok F Hsub [Ie Ic In Id It Io].
  assert (P1 : forall x, x ∈ done -> wA w !! x = expected s x /\ wB w !! x = expected s x).
  { intros x Hx. rewrite (expected_key s x F (Hsub x Hx)). destruct (Id x Hx) as (-> & -> & _). auto. }
  assert (P2 : forall p x l, p ∈ done -> conflict s p = Some (x, l) ->
                 wA w !! x = expected s x /\ wB w !! x = expected s x).
  { intros p x l Hp E. rewrite (expected_name Hh dge cname _ _ _ _ F E). destruct (In p x l Hp E) as (-> & -> & _). auto. }
  split; [exact P1|]. split; [exact P2|]. split.
  - intros p q l E Hp. pose proof (conflict_key Hh dge cname _ _ _ _ E) as Hk.
    destruct (It p Hk Hp) as [(HA & HB & _)|(l0 & Hn & _)]; [auto|].
    rewrite (name_ok_not_conflict Hh dge cname _ _ _ Hn) in E. discriminate.
  - intros x. destruct (decide (x ∈ done)) as [Hd|Hd]; [left; apply P1, Hd|].
    destruct (decide (x ∈ keys s)) as [Hk|Hk].
    + destruct (It x Hk Hd) as [(HA & HB & _)|(l0 & Hn & HA & HB & _)]; [right; auto|left].
      rewrite (expected_key s x F Hk), (name_ok_fin Hh dge _ _ _ Hn Hk). auto.
    + destruct (conflict_name_dec Hh dge cname s x) as [[[p l] E]|N]; [cbn in E|].
      * destruct (decide (p ∈ done)) as [Hp|Hp]; [left; eapply P2; eauto|right].
        apply (not_elem_of_keys cname kle) in Hk as Hk'. destruct Hk' as [-> ->].
        destruct (Io x Hk) as (-> & -> & _); [|auto].
        intros p' l' Hp' E'. assert (p' = p) by (eapply (proj2 F); eauto). congruence.
      * right. apply (not_elem_of_keys cname kle) in Hk as Hk'. destruct Hk' as [-> ->].
        destruct (Io x Hk) as (-> & -> & _); [|auto]. intros p' l' _. apply N.
Qed.

(** the trees of a work state, with the conflict name [q0] possibly already
    holding [l0] on either side *)
Definition near (w : work) (r : state) (q0 : K) (l0 : content) : Prop :=
  (forall x, x <> q0 -> tA r !! x = wA w !! x /\ tB r !! x = wB w !! x) /\
  (tA r !! q0 = wA w !! q0 \/ tA r !! q0 = Some l0) /\
  (tB r !! q0 = wB w !! q0 \/ tB r !! q0 = Some l0).

Lemma mid_of_inv (s r : state) done (w : work) :
  HashOk s -> Fresh s -> done ⊆ keys s -> Inv s done w ->
  arch r = arch s -> tA r = wA w -> tB r = wB w -> Mid s r done None.
Proof.
  intros Hok F Hsub Iv Ez Ea Eb. destruct (inv_cls s done w Hok F Hsub Iv) as (P1 & P2 & P3 & P4).
  split; unfold newat, sameat; rewrite ?Ea, ?Eb.
  - exact Ez.
  - exact P1.
  - exact P2.
  - exact P3.
  - intros x. destruct (P4 x); auto.
  - exact I.
Qed.

Lemma mid_of_inv_pend (s r : state) done (w : work) p0 q0 l0 :
  HashOk s -> Fresh s -> done ⊆ keys s -> Inv s done w ->
  arch r = arch s -> p0 ∉ done -> conflict s p0 = Some (q0, l0) -> near w r q0 l0 ->
  Mid s r done (Some (p0, q0, l0)).
Proof.
  intros Hok F Hsub Iv Ez Hp0 E0 (Nx & Na & Nb). destruct (inv_cls s done w Hok F Hsub Iv) as (P1 & P2 & P3 & P4).
  assert (Q : (wA w !! q0 = expected s q0 /\ wB w !! q0 = expected s q0) -> newat s r q0).
  { intros [Qa Qb]. rewrite (expected_name Hh dge cname _ _ _ _ F E0) in Qa, Qb. unfold newat.
    rewrite (expected_name Hh dge cname _ _ _ _ F E0). destruct Na as [-> | ->], Nb as [-> | ->]; auto. }
  assert (R : forall x, (wA w !! x = expected s x /\ wB w !! x = expected s x) -> newat s r x).
  { intros x Hx. destruct (decide (x = q0)) as [->|Nq]; [apply Q, Hx|].
    unfold newat. destruct (Nx x Nq) as [-> ->]. exact Hx. }
  split.
  - exact Ez.
  - intros x Hx. apply R, P1, Hx.
  - intros p x l Hp E. apply R. eapply P2; eauto.
  - intros p q l E Hp. assert (p <> q0).
    { intros ->. rewrite (fresh_name_not_conflict Hh dge cname _ _ _ _ F E0) in E. discriminate. }
    unfold sameat. destruct (Nx p ltac:(assumption)) as [-> ->]. eapply P3; eauto.
  - intros x. destruct (P4 x) as [Hx|[Sa Sb]]; [left; apply R, Hx|right].
    destruct (decide (x = q0)) as [->|Nq].
    + right. cbn. rewrite <- Sa, <- Sb. auto.
    + left. unfold sameat. destruct (Nx x Nq) as [-> ->]. auto.
  - auto.
Qed.

(** ** A state in the middle of a run is again in the class, with the same result *)

(** clause (1c) of [Fresh] for the half-delivered conflict name *)
Definition pend_ok (s r : state) (pend : option (K * K * content)) : Prop :=
  match pend with
  | Some (_, q0, l0) => tA r !! q0 = tB r !! q0 \/ base_at (arch s) q0 <> Some (Hh l0)
  | None => True
  end.

Lemma mid_good (s r : state) done pend :
  HashOk s -> Fresh s -> Mid s r done pend -> pend_ok s r pend ->
  HashOk r /\ Fresh r /\ forall x, expected r x = expected s x.
Proof.
  intros Hok F [Mz Md Mn Mc Mx Mp] Hpo.
  assert (Pn : forall x, pendat s r pend x ->
            exists p0 l0, pend = Some (p0, x, l0) /\ conflict s p0 = Some (x, l0) /\ p0 ∉ done /\
              (tA r !! x = None \/ tA r !! x = Some l0) /\ (tB r !! x = None \/ tB r !! x = Some l0)).
  { intros x P. destruct pend as [[[p0 q0] l0]|]; [|contradiction]. destruct P as (-> & Pa & Pb).
    destruct Mp as [Hp0 E0]. exists p0, l0. split; [reflexivity|]. split; [exact E0|]. split; [exact Hp0|].
    destruct (proj1 F _ _ _ E0) as (Ha & Hb & _).
    split; [destruct Pa as [Pa|Pa], Ha as [Ha|Ha]|destruct Pb as [Pb|Pb], Hb as [Hb|Hb]]; rewrite ?Pa, ?Pb; auto. }
  assert (Hok' : HashOk r).
  { intros p x y Ea Eb E. destruct (Mx p) as [[Na Nb]|[[Sa Sb]|P]].
    - congruence.
    - apply (Hok p); congruence.
    - destruct (Pn p P) as (p0 & l0 & _ & _ & _ & [Pa|Pa] & [Pb|Pb]); congruence. }
  assert (Ci : forall p q l, conflict r p = Some (q, l) -> sameat s r p /\ conflict s p = Some (q, l)).
  { intros p q l Ec. destruct (Mx p) as [[Na Nb]|[[Sa Sb]|P]].
    - rewrite conflict_equal_none in Ec by congruence. discriminate.
    - split; [split; assumption|]. rewrite <- Ec. symmetry. apply conflict_ext; [assumption..|]. rewrite Mz. reflexivity.
    - exfalso. destruct (Pn p P) as (p0 & l0 & _ & _ & _ & Pa & Pb).
      pose proof Ec as Ec'. apply (conflict_spec Hh dge cname) in Ec' as (x & y & Ea & Eb & _).
      apply (conflict_digests_differ Hh dge cname _ _ _ _ _ _ Ec Ea Eb).
      destruct Pa as [Pa|Pa], Pb as [Pb|Pb]; congruence. }
  assert (Fr : Fresh r).
  { split.
    - intros p q l Ec. destruct (Ci _ _ _ Ec) as [_ Ec']. destruct (proj1 F _ _ _ Ec') as (Ha & Hb & Hz).
      unfold BisyncProofs.name_ok. destruct (Mx q) as [[Na Nb]|[[Sa Sb]|P]].
      + rewrite (expected_name Hh dge cname _ _ _ _ F Ec') in Na, Nb. rewrite Na, Nb. auto.
      + rewrite Sa, Sb, Mz. auto.
      + destruct (Pn q P) as (p0 & l0 & -> & E0 & _ & Pa & Pb).
        assert (p0 = p) by (eapply (proj2 F); eauto). subst p0. rewrite E0 in Ec'. injection Ec' as ->.
        split; [exact Pa|]. split; [exact Pb|]. rewrite Mz. exact Hpo.
    - intros p1 p2 q l1 l2 E1 E2. apply Ci in E1 as [_ E1]. apply Ci in E2 as [_ E2]. eapply (proj2 F); eauto. }
  split; [exact Hok'|]. split; [exact Fr|]. intros x.
  destruct (conflict_name_dec Hh dge cname s x) as [[[p l] E]|N]; [cbn in E|].
  - rewrite (expected_name Hh dge cname s p x l F E). destruct (decide (p ∈ done)) as [Hd|Hd].
    + destruct (Mn _ _ _ Hd E) as [Na Nb]. rewrite (expected_name Hh dge cname _ _ _ _ F E) in Na, Nb.
      rewrite expected_other.
      * unfold BisyncProofs.fin. rewrite Na, Nb. apply final_content_same.
      * intros p' l' Ec. pose proof Ec as Ec'. apply Ci in Ec' as [_ Ec'].
        assert (p' = p) by (eapply (proj2 F); eauto). subst p'.
        destruct (Md p Hd) as [Ma Mb]. rewrite conflict_equal_none in Ec by congruence. discriminate.
    + destruct (Mc _ _ _ E Hd) as [Sa Sb]. apply (expected_name Hh dge cname r p); [exact Fr|].
      rewrite <- E. apply conflict_ext; [assumption..|]. rewrite Mz. reflexivity.
  - rewrite (expected_other Hh dge cname s x N).
    rewrite expected_other by (intros p l Ec; apply Ci in Ec as [_ Ec]; exact (N _ _ Ec)).
    destruct (Mx x) as [[Na Nb]|[[Sa Sb]|P]].
    + rewrite (expected_other Hh dge cname s x N) in Na, Nb. unfold BisyncProofs.fin at 1. rewrite Na, Nb.
      apply final_content_same.
    + unfold BisyncProofs.fin. rewrite Sa, Sb, Mz. reflexivity.
    + exfalso. destruct (Pn x P) as (p0 & l0 & _ & E0 & _). exact (N _ _ E0).
Qed.

(** equal per-path expectations give equal runs *)
Lemma same_expected_same_run (s r : state) :
  HashOk s -> Fresh s -> HashOk r -> Fresh r -> (forall x, expected r x = expected s x) ->
  run_state r = run_state s /\ (bisync_run r).1.2 <> ExitIoError.
Proof.
  intros Hok F Hok' F' E. unfold BisyncStepsProofs.run_state.
  rewrite (run_result Hh dge cname kle r Hok' F'), (run_result Hh dge cname kle s Hok F). cbn [fst snd].
  split; [|case_decide; discriminate].
  f_equal; [| |f_equal]; apply map_eq; intros x;
    destruct (run_lookup Hh dge cname kle r Hok' F' x) as (Ra & Rb & Rc);
    destruct (run_lookup Hh dge cname kle s Hok F x) as (Sa & Sb & Sc);
    rewrite ?Ra, ?Rb, ?Rc, ?Sa, ?Sb, ?Sc, E; reflexivity.
Qed.

(** ** Every crash state is such a state, or has the final trees *)

Lemma wfin_wfinal (s : state) : wfin s = wfinal s.
Proof.
  unfold BisyncStepsProofs.wfin, BisyncProofs.wfinal, BisyncStepsProofs.plan_of, Bisync.plan.
  apply (foldl_plan Hh dge cname s).
Qed.

Lemma crash_mid (s : state) ae k : HashOk s -> Fresh s ->
  let r := recover (crash s ae k) in
  (exists done pend, Mid s r done pend) \/
  (tA r = wA (wfinal s) /\ tB r = wB (wfinal s) /\
   (arch r = arch s \/ arch r = None \/ arch r = Some (wC (wfinal s)))).
Proof.
  intros Hok F. cbn zeta. pose proof (plan_name_ne s F) as Hne.
  destruct (crash_shape Hh dge cname kle s ae k) as [(Hk & m & b & j & Hm & Hj & ->)|(Hk & ->)].
  - left.
    destruct (exec_partial_blk (blocks_fs (fs_of s) (take m (data_blocks s))) b j Hj) as (EA & EB & EZ & _).
    destruct (blocks_fs_proj (fs_of s) (take m (data_blocks s))) as (E & _ & _ & Ez & _).
    cbn [fs_of fA fB farch] in E, Ez.
    set (f := exec_all (blocks_fs (fs_of s) (take m (data_blocks s))) (take j (blk_steps b))) in *.
    rewrite <- EA, <- EB in E. rewrite <- EZ in Ez. clearbody f. clear EA EB EZ Hj Hk.
    unfold BisyncStepsProofs.data_blocks in Hm, E.
    destruct (take_plan_blocks_mid _ _ _ _ _ _ Hm) as (jj & [p0 act] & i & Hjj & Hi & Ht).
    rewrite Ht, foldl_app in E.
    pose proof (plan_blocks_apply' (scan (tA s)) (scan (tB s)) (w0_of s) (take jj (plan_of s))
                  (Forall_take _ jj _ Hne)) as Hp.
    unfold wtrees in Hp at 1. cbn [BisyncStepsProofs.w0_of wA wB] in Hp. rewrite Hp in E. clear Hp Ht Hm.
    (* the same prefix on the side of the keys *)
    unfold BisyncStepsProofs.plan_of in Hjj. unfold Bisync.plan in Hjj.
    apply omap_lookup_split in Hjj as (l1 & x & l2 & Hl & Hx & Htk).
    destruct (rpath (scan (tA s) !! x) (scan (tB s) !! x) (base_at (arch s) x)) as [act'|] eqn:Hr; [|discriminate].
    injection Hx as -> ->. rewrite act_at_scan in Hr.
    assert (Ew : foldl (apply (scan (tA s)) (scan (tB s))) (w0_of s) (take jj (plan_of s)) = foldl (kstep s) (w0 s) l1).
    { unfold BisyncStepsProofs.plan_of, Bisync.plan. rewrite Htk. apply (foldl_plan Hh dge cname s). }
    rewrite Ew in E, Hi. clear Ew Htk. set (wj := foldl (kstep s) (w0 s) l1) in *.
    pose proof (NoDup_plan_keys kle (scan (tA s)) (scan (tB s))) as Hnd. rewrite Hl in Hnd.
    apply NoDup_app in Hnd as (Hnd1 & Hdis & _).
    assert (Hkeys : forall y, y ∈ l1 ++ p0 :: l2 -> y ∈ keys s).
    { intros y Hy. rewrite <- Hl in Hy. rewrite <- (plan_keys_scan Hh kle s). apply elem_of_list_to_set, Hy. }
    set (done := list_to_set l1 ∪ ∅ : gset K).
    assert (Iv : Inv s done wj).
    { apply (fold_inv Hh dge cname kle s Hok F l1 ∅ (w0 s)); [exact Hnd1| | |apply (inv_init Hh dge cname kle)].
      - intros y Hy. split; [apply Hkeys; set_solver|set_solver].
      - set_solver. }
    assert (Hsub : done ⊆ keys s). { intros y Hy. apply Hkeys. set_solver. }
    assert (Hp0 : p0 ∉ done). { intros Hy. apply (Hdis p0); set_solver. }
    destruct (action_prefix (scan (tA s)) (scan (tB s)) wj p0 act i Hi)
      as [Et|(-> & fa & fb & lc & Ha & Hb & Hlc & Nx & Na & Nb)]; cbv zeta in *.
    + exists done, None. rewrite Et in E. unfold wtrees in E. injection E as E1 E2.
      apply (mid_of_inv s _ done wj Hok F Hsub Iv); assumption.
    + unfold Bisync.scan in Ha, Hb. rewrite lookup_fmap in Ha, Hb.
      destruct (tA s !! p0) as [x|] eqn:Ea; [|discriminate]. destruct (tB s !! p0) as [y|] eqn:Eb; [|discriminate].
      cbn in Ha, Hb. injection Ha as <-. injection Hb as <-.
      assert (Ec : conflict s p0 = Some (cname p0 (Hh (loser x y)), loser x y)).
      { unfold BisyncProofs.conflict. rewrite Hr, Ea, Eb. reflexivity. }
      destruct (inv_cls s done wj Hok F Hsub Iv) as (_ & _ & P3 & _).
      destruct (P3 _ _ _ Ec Hp0) as [Wa Wb]. rewrite Ea in Wa. rewrite Eb in Wb.
      assert (Q : lc = loser x y /\
                  cname p0 (if dge (Hh x) (Hh y) then Hh y else Hh x) = cname p0 (Hh (loser x y))).
      { unfold BisyncProofs.loser. destruct (dge (Hh x) (Hh y)); split; congruence. }
      destruct Q as [-> Q]. rewrite Q in Nx, Na, Nb. rewrite <- E in Nx, Na, Nb. cbn [fst snd] in Nx, Na, Nb.
      exists done, (Some (p0, cname p0 (Hh (loser x y)), loser x y)).
      apply (mid_of_inv_pend s _ done wj _ _ _ Hok F Hsub Iv); [exact Ez|exact Hp0|exact Ec|].
      split; [exact Nx|]. split; [exact Na|exact Nb].
  - right.
    destruct (blocks_fs_proj (fs_of s) (data_blocks s)) as (E & _ & _ & Ea & _).
    cbn [fs_of fA fB farch] in *.
    pose proof (plan_blocks_apply' (scan (tA s)) (scan (tB s)) (w0_of s) (plan_of s) Hne) as Hp.
    unfold wtrees in Hp at 1. cbn [BisyncStepsProofs.w0_of wA wB] in Hp.
    fold (data_blocks s) in Hp. rewrite Hp in E.
    fold (wfin s) in E. unfold wtrees in E. injection E as E1 E2. rewrite wfin_wfinal in E1, E2.
    unfold BisyncStepsProofs.arch_part. rewrite (no_io_error Hh dge cname kle s).
    destruct (exec_arch_prefix (blocks_fs (fs_of s) (data_blocks s)) ae (wC (wfin s)) (k - length (data_steps s)))
      as (P1 & P2 & _ & _ & P5).
    unfold recover. cbn [tA tB arch]. rewrite P1, P2, E1, E2. split; [reflexivity|]. split; [reflexivity|].
    rewrite <- wfin_wfinal. destruct P5 as [[A _]|[[A _]|[A _]]]; rewrite A, ?Ea; auto.
Qed.

End R.
