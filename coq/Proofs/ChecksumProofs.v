(** Lemmas about Model/Checksum.v.  Kept apart from the model so that the model
    still compiles (and runs) when a proof breaks. *)
From Coq Require Import ZArith List Bool Lia Zdiv.
From Copia Require Import Gen.Constants Model.Checksum.
(* every result below is about functions that are, by Proofs/ChecksumTie.v, the translation of the current source *)
From Copia Require Import Gen.ChecksumGen Proofs.ChecksumTie.
Import ListNotations.
Open Scope Z_scope.

Definition MAXW : Z := 2^28.

Lemma M_val : M = 65521. Proof. reflexivity. Qed.
Lemma FM_val : FM = 65521. Proof. reflexivity. Qed.
Lemma INTERVAL_val : INTERVAL = 5000. Proof. reflexivity. Qed.

Lemma P32_val : P32 = 2^32. Proof. reflexivity. Qed.
Lemma P64_val : P64 = 2^64. Proof. reflexivity. Qed.
Lemma pow2_val k : pow2 k = 2^k.
Proof. unfold pow2. destruct (Z.eqb_spec k 32) as [->|]; [reflexivity|].
  destruct (Z.eqb_spec k 64) as [->|]; reflexivity. Qed.
Lemma w32_mod x : w32 x = x mod 2^32.
Proof. unfold w32. rewrite P32_val.
  destruct (Z.leb_spec 0 x); destruct (Z.ltb_spec x (2^32)); cbn [andb]; try reflexivity.
  symmetry; apply Z.mod_small; lia. Qed.
Lemma w64_mod x : w64 x = x mod 2^64.
Proof. unfold w64. rewrite P64_val.
  destruct (Z.leb_spec 0 x); destruct (Z.ltb_spec x (2^64)); cbn [andb]; try reflexivity.
  symmetry; apply Z.mod_small; lia. Qed.
Lemma w32_id x : 0 <= x < 2^32 -> w32 x = x.
Proof. intros; rewrite w32_mod; apply Z.mod_small; lia. Qed.
Lemma w64_id x : 0 <= x < 2^64 -> w64 x = x.
Proof. intros; rewrite w64_mod; apply Z.mod_small; lia. Qed.
Lemma ck_some k x : 0 <= x < 2^k -> ck k x = Some x.
Proof. intros [H1 H2]; unfold ck. rewrite pow2_val.
  apply Z.leb_le in H1; apply Z.ltb_lt in H2; now rewrite H1, H2. Qed.

(** ** Exact sums *)
Lemma sumA_app w x : sumA (w ++ [x]) = sumA w + x.
Proof. induction w as [|y r IH]; cbn [app sumA]; lia. Qed.
Lemma sumB_app w x : sumB (w ++ [x]) = sumB w + sumA w + x.
Proof. induction w as [|y r IH]; cbn [app sumB sumA length]; [lia|].
  rewrite IH, !app_length; cbn [length]; lia. Qed.

Lemma sumA_bound w : bytes w -> 0 <= sumA w <= 255 * Z.of_nat (length w).
Proof. induction 1; cbn [sumA length]; lia. Qed.
Lemma sumB_bound w : bytes w ->
  0 <= sumB w <= 255 * Z.of_nat (length w) * Z.of_nat (length w).
Proof. induction 1 as [|x r Hx Hr IH]; cbn [sumB length]; [lia|]. nia. Qed.

Lemma bytes_app w x : bytes w -> 0 <= x < 256 -> bytes (w ++ [x]).
Proof. intros; apply Forall_app; split; [assumption|]. constructor; [assumption|constructor]. Qed.
Lemma bytes_tl w : bytes w -> bytes (tl w).
Proof. destruct w; cbn [tl]; [auto|]. inversion 1; assumption. Qed.

Lemma sums_acc_spec w : forall len a b, len = Z.of_nat (length w) ->
  sums_acc len w a b = (a + sumA w, b + sumB w).
Proof. induction w as [|x r IH]; intros len a b Hl; cbn [sums_acc sumA sumB].
  - f_equal; lia.
  - rewrite IH by (cbn [length] in Hl; lia). subst len. f_equal; lia. Qed.
Lemma spec_digest_exec_ok w : spec_digest_exec w = spec_digest w.
Proof. unfold spec_digest_exec, sums. rewrite sums_acc_spec by reflexivity. reflexivity. Qed.

(** sliding the window *)
Lemma slide_A old r new : sumA (r ++ [new]) = sumA (old :: r) + new - old.
Proof. rewrite sumA_app; cbn [sumA]; lia. Qed.
Lemma slide_B old r new :
  sumB (r ++ [new]) = sumB (old :: r) - Z.of_nat (length (old :: r)) * old + sumA (r ++ [new]).
Proof. rewrite sumB_app, sumA_app; cbn [sumB sumA length]; lia. Qed.

(** ** The accumulation loop of [new] *)
Lemma new_loop_spec data : forall len a b,
  bytes data -> len = Z.of_nat (length data) -> 0 <= a -> 0 <= b ->
  a + 255 * len < 2^64 -> b + 255 * len * len < 2^64 ->
  new_loop len data a b = (a + sumA data, b + sumB data) /\
  new_loop_ck len data a b = Some (a + sumA data, b + sumB data).
Proof.
  induction data as [|x r IH]; intros len a b Hb Hl Ha Hbb Hab Hbbb;
    cbn [new_loop new_loop_ck sumA sumB].
  - split; repeat f_equal; lia.
  - pose proof (Forall_inv Hb) as Hx; pose proof (Forall_inv_tail Hb) as Hr; cbn beta in Hx.
    cbn [length] in Hl.
    assert (Hlen : 1 <= len) by lia.
    rewrite (w64_id (len * x)) by nia.
    rewrite (w64_id (a + x)) by nia.
    rewrite (w64_id (b + len * x)) by nia.
    rewrite (ck_some 64 (a + x)) by nia.
    rewrite (ck_some 64 (len * x)) by nia.
    rewrite (ck_some 64 (b + len * x)) by nia.
    destruct (IH (len - 1) (a + x) (b + len * x)) as [E1 E2]; try assumption; try lia; try nia.
    rewrite E1, E2.
    assert (EL : Z.of_nat (length (x :: r)) = len) by (cbn [length]; lia). rewrite EL.
    split; [apply f_equal2 | f_equal; apply f_equal2]; lia.
Qed.

Lemma new_loop_ok data : bytes data -> Z.of_nat (length data) <= MAXW ->
  new_loop (Z.of_nat (length data)) data 0 0 = (sumA data, sumB data) /\
  new_loop_ck (Z.of_nat (length data)) data 0 0 = Some (sumA data, sumB data).
Proof. intros Hb Hl. unfold MAXW in Hl.
  destruct (new_loop_spec data _ 0 0 Hb eq_refl) as [E1 E2]; try lia; try nia.
  rewrite E1, E2. split; reflexivity. Qed.

(** ** RollingChecksum invariant *)
Definition RInv (s : rc) (w : list Z) : Prop :=
  rcount s = Z.of_nat (length w) /\
  0 <= ra s < M /\ 0 <= rb s < M /\
  ra s = sumA w mod M /\ rb s = sumB w mod M.

Lemma rinv_empty : RInv rc_empty [].
Proof. unfold RInv, rc_empty, M, RC_MOD; cbn; repeat split; lia. Qed.

Lemma rinv_new w : bytes w -> Z.of_nat (length w) <= MAXW ->
  RInv (rc_new w) w /\ rc_new_ck w = Some (rc_new w).
Proof. intros Hb Hl. destruct (new_loop_ok w Hb Hl) as [E1 E2].
  unfold rc_new, rc_new_ck. rewrite E1, E2. cbn [fst snd].
  pose proof (Z.mod_pos_bound (sumA w) M ltac:(rewrite M_val; lia)) as Ha.
  pose proof (Z.mod_pos_bound (sumB w) M ltac:(rewrite M_val; lia)) as Hbb.
  rewrite M_val in *.
  rewrite !w32_id by lia.
  split; [|reflexivity]. unfold RInv; cbn [ra rb rcount]. rewrite M_val. repeat split; lia. Qed.

Lemma rinv_push s w x : bytes w -> 0 <= x < 256 -> RInv s w ->
  RInv (rc_push s x) (w ++ [x]) /\ rc_push_ck s x = Some (rc_push s x).
Proof. intros Hb Hx (Hc & Ha & Hbb & Ea & Eb). rewrite M_val in *.
  unfold rc_push, rc_push_ck. rewrite M_val.
  split; [|reflexivity].
  rewrite (w32_id (ra s + x)) by lia.
  pose proof (Z.mod_pos_bound (ra s + x) 65521 ltac:(lia)) as Ha'.
  rewrite (w32_id (rb s + _)) by lia.
  unfold RInv; cbn [ra rb rcount]. rewrite M_val.
  pose proof (Z.mod_pos_bound (rb s + (ra s + x) mod 65521) 65521 ltac:(lia)).
  rewrite app_length, sumA_app, sumB_app; cbn [length].
  repeat split; try lia.
  - rewrite Ea. rewrite Zplus_mod_idemp_l. reflexivity.
  - rewrite Ea, Eb. rewrite Zplus_mod_idemp_l.
    rewrite Zplus_mod_idemp_l, Zplus_mod_idemp_r. f_equal; lia.
Qed.

Lemma rinv_roll s old r new : bytes (old :: r) -> 0 <= new < 256 ->
  Z.of_nat (length (old :: r)) <= MAXW -> RInv s (old :: r) ->
  RInv (rc_roll s old new) (r ++ [new]) /\ rc_roll_ck s old new = Some (rc_roll s old new).
Proof.
  intros Hb Hn Hl (Hc & Ha & Hbb & Ea & Eb). unfold MAXW in Hl.
  assert (Ho : 0 <= old < 256) by (inversion Hb; assumption).
  set (n := Z.of_nat (length (old :: r))) in *.
  assert (Hn1 : 1 <= n) by (unfold n; cbn [length]; lia).
  rewrite M_val in *.
  unfold rc_roll, rc_roll_ck. rewrite M_val, Hc.
  rewrite (w32_id (ra s + 65521)) by lia. rewrite (ck_some 32 (ra s + 65521)) by lia.
  rewrite (w32_id (ra s + 65521 - old)) by lia. rewrite (ck_some 32 (ra s + 65521 - old)) by lia.
  rewrite (w32_id (ra s + 65521 - old + new)) by lia. rewrite (ck_some 32 (ra s + 65521 - old + new)) by lia.
  set (a' := (ra s + 65521 - old + new) mod 65521).
  pose proof (Z.mod_pos_bound (ra s + 65521 - old + new) 65521 ltac:(lia)) as Ha'. fold a' in Ha'.
  rewrite (w64_id (n * old)) by nia. rewrite (ck_some 64 (n * old)) by nia.
  pose proof (Z.mod_pos_bound (n * old) 65521 ltac:(lia)) as Hs.
  rewrite (w32_id ((n * old) mod 65521)) by lia.
  set (sub := (n * old) mod 65521) in *.
  rewrite (w32_id (rb s + 65521)) by lia. rewrite (ck_some 32 (rb s + 65521)) by lia.
  rewrite (w32_id (rb s + 65521 - sub)) by lia. rewrite (ck_some 32 (rb s + 65521 - sub)) by lia.
  rewrite (w32_id (rb s + 65521 - sub + a')) by lia. rewrite (ck_some 32 (rb s + 65521 - sub + a')) by lia.
  split; [|reflexivity].
  pose proof (Z.mod_pos_bound (rb s + 65521 - sub + a') 65521 ltac:(lia)) as Hb'.
  assert (Ea' : a' = sumA (r ++ [new]) mod 65521).
  { unfold a'. rewrite (slide_A old). rewrite Ea.
    replace (sumA (old :: r) mod 65521 + 65521 - old + new)
      with ((sumA (old :: r) mod 65521 + (new - old)) + 1 * 65521) by lia.
    rewrite Z.mod_add by lia. rewrite Zplus_mod_idemp_l. f_equal; lia. }
  assert (Elen : Z.of_nat (length (r ++ [new])) = n)
    by (rewrite app_length; unfold n; cbn [length]; lia).
  assert (Eb' : (rb s + 65521 - sub + a') mod 65521 = sumB (r ++ [new]) mod 65521).
  { rewrite (slide_B old). fold n. rewrite Eb, Ea'. unfold sub.
    replace (sumB (old :: r) mod 65521 + 65521 - (n * old) mod 65521 + sumA (r ++ [new]) mod 65521)
      with ((sumB (old :: r) mod 65521 + (sumA (r ++ [new]) mod 65521 - (n * old) mod 65521)) + 1 * 65521) by lia.
    rewrite Z.mod_add by lia.
    rewrite Zplus_mod, Z.mod_mod by lia. rewrite <- Zminus_mod. rewrite <- Zplus_mod.
    f_equal; lia. }
  unfold RInv; cbn [ra rb rcount]. rewrite M_val.
  repeat split; lia.
Qed.

Lemma rc_digest_of_inv s w : RInv s w -> rc_digest s = spec_digest w.
Proof. intros (_ & Ha & Hb & Ea & Eb). unfold rc_digest, spec_digest.
  rewrite <- Ea, <- Eb. rewrite M_val in *.
  rewrite w32_id; [reflexivity|].
  rewrite Z.shiftl_mul_pow2 by lia. lia. Qed.

(** ** FastRollingChecksum invariant *)
Definition BSTEP : Z := FM * MAXW + (FM - 1) + INTERVAL * (FM + 255).

Definition FInv (s : frc) (w : list Z) : Prop :=
  fcount s = Z.of_nat (length w) /\ 0 <= frolls s < INTERVAL /\
  0 <= fa s <= (FM - 1) + frolls s * (FM + 255) /\
  0 <= fb s <= (FM - 1) + frolls s * BSTEP /\
  eqm FM (fa s) (sumA w) /\ eqm FM (fb s) (sumB w).

Lemma finv_empty : FInv frc_empty [].
Proof. unfold FInv, frc_empty, eqm, BSTEP, FM, INTERVAL, FRC_MOD, FRC_INTERVAL, MAXW; cbn.
  repeat split; lia. Qed.

Lemma finv_new w : bytes w -> Z.of_nat (length w) <= MAXW ->
  FInv (frc_new w) w /\ frc_new_ck w = Some (frc_new w).
Proof. intros Hb Hl. destruct (new_loop_ok w Hb Hl) as [E1 E2].
  unfold frc_new, frc_new_ck. rewrite E1, E2. cbn [fst snd]. split; [|reflexivity].
  unfold FInv, eqm, BSTEP; cbn [fa fb fcount frolls]. rewrite FM_val, INTERVAL_val.
  pose proof (Z.mod_pos_bound (sumA w) 65521 ltac:(lia)).
  pose proof (Z.mod_pos_bound (sumB w) 65521 ltac:(lia)).
  repeat split; try lia; rewrite Z.mod_mod; lia. Qed.

Lemma finv_norm a b c r w :
  c = Z.of_nat (length w) -> 1 <= r <= INTERVAL ->
  0 <= a <= (FM - 1) + r * (FM + 255) ->
  0 <= b <= (FM - 1) + r * BSTEP ->
  eqm FM a (sumA w) -> eqm FM b (sumB w) ->
  FInv (frc_norm a b c r) w.
Proof. intros Hc Hr Ha Hb Ea Eb. unfold frc_norm.
  rewrite FM_val, INTERVAL_val in *. unfold BSTEP, MAXW in *. rewrite FM_val, INTERVAL_val in *.
  destruct (r >=? 5000) eqn:E.
  - unfold FInv, eqm, BSTEP, MAXW in *; cbn [fa fb fcount frolls]. rewrite FM_val, INTERVAL_val.
    pose proof (Z.mod_pos_bound a 65521 ltac:(lia)).
    pose proof (Z.mod_pos_bound b 65521 ltac:(lia)).
    repeat split; try lia; rewrite Z.mod_mod by lia; assumption.
  - rewrite Z.geb_leb in E; apply Z.leb_gt in E.
    unfold FInv, eqm, BSTEP, MAXW in *; cbn [fa fb fcount frolls]. rewrite FM_val, INTERVAL_val.
    repeat split; try lia; assumption.
Qed.

Lemma finv_roll s old r new : bytes (old :: r) -> 0 <= new < 256 ->
  Z.of_nat (length (old :: r)) <= MAXW -> FInv s (old :: r) ->
  FInv (frc_roll s old new) (r ++ [new]) /\ frc_roll_ck s old new = Some (frc_roll s old new).
Proof.
  intros Hb Hn Hl (Hc & Hr & Ha & Hbb & Ea & Eb).
  assert (Ho : 0 <= old < 256) by (inversion Hb; assumption).
  set (n := Z.of_nat (length (old :: r))) in *.
  assert (Hn1 : 1 <= n) by (unfold n; cbn [length]; lia).
  unfold BSTEP, MAXW in *. rewrite FM_val, INTERVAL_val in *.
  unfold frc_roll, frc_roll_ck. rewrite FM_val, Hc.
  rewrite (w64_id (fa s + 65521)) by lia. rewrite (ck_some 64 (fa s + 65521)) by lia.
  rewrite (w64_id (fa s + 65521 + new)) by lia. rewrite (ck_some 64 (fa s + 65521 + new)) by lia.
  rewrite (w64_id (fa s + 65521 + new - old)) by lia. rewrite (ck_some 64 (fa s + 65521 + new - old)) by lia.
  set (a' := fa s + 65521 + new - old).
  assert (Ha' : 0 <= a' <= 65520 + (frolls s + 1) * (65521 + 255)) by (unfold a'; lia).
  rewrite (w64_id (65521 * n)) by nia. rewrite (ck_some 64 (65521 * n)) by nia.
  rewrite (w64_id (n * old)) by nia. rewrite (ck_some 64 (n * old)) by nia.
  rewrite (w64_id (fb s + 65521 * n)) by nia. rewrite (ck_some 64 (fb s + 65521 * n)) by nia.
  rewrite (w64_id (fb s + 65521 * n + a')) by nia. rewrite (ck_some 64 (fb s + 65521 * n + a')) by nia.
  rewrite (w64_id (fb s + 65521 * n + a' - n * old)) by nia.
  rewrite (ck_some 64 (fb s + 65521 * n + a' - n * old)) by nia.
  rewrite (w32_id (frolls s + 1)) by lia. rewrite (ck_some 32 (frolls s + 1)) by lia.
  split; [|reflexivity].
  set (b' := fb s + 65521 * n + a' - n * old).
  assert (Hb' : 0 <= b' <= 65520 + (frolls s + 1) * (65521 * 2^28 + 65520 + 5000 * (65521 + 255)))
    by (unfold b'; nia).
  assert (Ea' : eqm 65521 a' (sumA (r ++ [new]))).
  { rewrite (slide_A old). unfold a', eqm in *.
    replace (fa s + 65521 + new - old) with ((fa s + (new - old)) + 1 * 65521) by lia.
    rewrite Z.mod_add by lia. rewrite Zplus_mod, Ea, <- Zplus_mod. f_equal; lia. }
  assert (Eb' : eqm 65521 b' (sumB (r ++ [new]))).
  { rewrite (slide_B old). fold n. unfold b', eqm in *.
    replace (fb s + 65521 * n + a' - n * old) with ((fb s + (a' - n * old)) + n * 65521) by lia.
    rewrite Z.mod_add by lia.
    replace (sumB (old :: r) - n * old + sumA (r ++ [new]))
      with (sumB (old :: r) + (sumA (r ++ [new]) - n * old)) by lia.
    rewrite Zplus_mod, Eb. rewrite (Zplus_mod (sumB (old :: r))). f_equal. f_equal.
    rewrite Zminus_mod, Ea', <- Zminus_mod. reflexivity. }
  apply finv_norm; unfold BSTEP, MAXW; rewrite ?FM_val, ?INTERVAL_val; try lia; try assumption.
  rewrite app_length; unfold n; cbn [length]; lia.
Qed.

Lemma finv_push s w x : bytes w -> 0 <= x < 256 ->
  Z.of_nat (length w) < MAXW -> FInv s w ->
  FInv (frc_push s x) (w ++ [x]) /\ frc_push_ck s x = Some (frc_push s x).
Proof.
  intros Hb Hx Hl (Hc & Hr & Ha & Hbb & Ea & Eb).
  unfold BSTEP, MAXW in *. rewrite FM_val, INTERVAL_val in *.
  unfold frc_push, frc_push_ck.
  rewrite (w64_id (fa s + x)) by lia. rewrite (ck_some 64 (fa s + x)) by lia.
  rewrite (w64_id (fb s + (fa s + x))) by nia. rewrite (ck_some 64 (fb s + (fa s + x))) by nia.
  rewrite (w32_id (frolls s + 1)) by lia. rewrite (ck_some 32 (frolls s + 1)) by lia.
  split; [|reflexivity].
  assert (Elen : fcount s + 1 = Z.of_nat (length (w ++ [x])))
    by (rewrite app_length; cbn [length]; lia).
  assert (Ea' : eqm 65521 (fa s + x) (sumA (w ++ [x]))).
  { rewrite sumA_app. unfold eqm in *. rewrite Zplus_mod, Ea, <- Zplus_mod. reflexivity. }
  assert (Eb' : eqm 65521 (fb s + (fa s + x)) (sumB (w ++ [x]))).
  { rewrite sumB_app. unfold eqm in *.
    rewrite Zplus_mod, Eb. rewrite (Zplus_mod (fa s)), Ea, <- (Zplus_mod (sumA w)).
    rewrite <- Zplus_mod. f_equal; lia. }
  apply finv_norm; unfold BSTEP, MAXW; rewrite ?FM_val, ?INTERVAL_val; try assumption; try lia; try nia.
Qed.

Lemma frc_digest_of_inv s w : FInv s w -> frc_digest s = spec_digest w.
Proof. intros (_ & _ & _ & _ & Ea & Eb). unfold frc_digest, spec_digest, eqm in *.
  rewrite Ea, Eb. rewrite M_val, FM_val.
  pose proof (Z.mod_pos_bound (sumA w) 65521 ltac:(lia)).
  pose proof (Z.mod_pos_bound (sumB w) 65521 ltac:(lia)).
  rewrite (w32_id (sumA w mod 65521)) by lia.
  rewrite (w32_id (sumB w mod 65521)) by lia.
  rewrite w32_id; [reflexivity|]. rewrite Z.shiftl_mul_pow2 by lia. lia. Qed.

(** ** Histories *)
Lemma valid_ops_bytes maxw ops : forall w, bytes w -> valid_ops maxw w ops ->
  bytes (snd (fold_left (fun '(u, w) o => (u, win_step w o)) ops (tt, w))).
Proof. induction ops as [|o rest IH]; intros w Hb Hv; cbn [fold_left snd]; [assumption|].
  destruct o as [x|x]; cbn [valid_ops] in Hv; destruct Hv as (Hx & _ & Hv); apply IH; try assumption;
    cbn [win_step]; apply bytes_app; auto using bytes_tl. Qed.

Theorem run_ops_inv maxw ops : maxw <= MAXW -> forall r f w,
  bytes w -> Z.of_nat (length w) <= maxw -> RInv r w -> FInv f w -> valid_ops maxw w ops ->
  let '(r', f', w') := run_ops r f w ops in
  RInv r' w' /\ FInv f' w' /\ bytes w' /\ Z.of_nat (length w') <= maxw.
Proof.
  intros Hm. induction ops as [|o rest IH]; intros r f w Hb Hl HR HF Hv; cbn [run_ops].
  - auto.
  - destruct o as [x|x]; cbn [valid_ops] in Hv.
    + destruct Hv as (Hx & Hlt & Hv). cbn [rc_step frc_step win_step].
      apply IH; auto using bytes_app.
      * rewrite app_length; cbn [length]; lia.
      * apply rinv_push; assumption.
      * apply finv_push; try assumption; lia.
    + destruct Hv as (Hx & Hne & Hv). destruct w as [|old w0]; [congruence|].
      cbn [rc_step frc_step win_step hd tl].
      inversion Hb as [|? ? Ho Hw0]; subst.
      apply IH; auto using bytes_app.
      * rewrite app_length; cbn [length] in *; lia.
      * apply rinv_roll; try assumption; lia.
      * apply finv_roll; try assumption; lia.
Qed.

(** checked-profile histories never trap *)
Fixpoint run_ops_ck (r : rc) (f : frc) (w : list Z) (ops : list op) : option (rc * frc * list Z) :=
  match ops with
  | [] => Some (r, f, w)
  | o :: rest =>
      r' <- rc_step_ck r w o ;; f' <- frc_step_ck f w o ;; run_ops_ck r' f' (win_step w o) rest
  end.

Theorem run_ops_no_trap maxw ops : maxw <= MAXW -> forall r f w,
  bytes w -> Z.of_nat (length w) <= maxw -> RInv r w -> FInv f w -> valid_ops maxw w ops ->
  run_ops_ck r f w ops = Some (run_ops r f w ops).
Proof.
  intros Hm. induction ops as [|o rest IH]; intros r f w Hb Hl HR HF Hv; cbn [run_ops run_ops_ck].
  - reflexivity.
  - destruct o as [x|x]; cbn [valid_ops] in Hv.
    + destruct Hv as (Hx & Hlt & Hv). cbn [rc_step frc_step rc_step_ck frc_step_ck win_step].
      destruct (rinv_push r w x Hb Hx HR) as [HR' ER].
      destruct (finv_push f w x Hb Hx ltac:(lia) HF) as [HF' EF].
      rewrite ER, EF. apply IH; auto using bytes_app.
      rewrite app_length; cbn [length]; lia.
    + destruct Hv as (Hx & Hne & Hv). destruct w as [|old w0]; [congruence|].
      cbn [rc_step frc_step rc_step_ck frc_step_ck win_step hd tl].
      inversion Hb as [|? ? Ho Hw0]; subst.
      destruct (rinv_roll r old w0 x Hb Hx ltac:(lia) HR) as [HR' ER].
      destruct (finv_roll f old w0 x Hb Hx ltac:(lia) HF) as [HF' EF].
      rewrite ER, EF. apply IH; auto using bytes_app.
      rewrite app_length; cbn [length] in *; lia.
Qed.

(** ** The statements used by Props/C17.v *)
Definition history_post (w0 : list Z) (ops : list op) : Prop :=
  let '(r, f, w) := run_ops (rc_new w0) (frc_new w0) w0 ops in
  rc_digest r = spec_digest w /\ frc_digest f = spec_digest w /\
  rc_digest r = rc_digest (rc_new w) /\ frc_digest f = frc_digest (frc_new w) /\
  rc_digest r = frc_digest f /\
  0 <= ra r < 65521 /\ 0 <= rb r < 65521 /\
  rcount r = Z.of_nat (length w) /\ fcount f = Z.of_nat (length w).

Lemma history_digest w0 ops :
  bytes w0 -> Z.of_nat (length w0) <= 65536 -> valid_ops 65536 w0 ops -> history_post w0 ops.
Proof.
  intros Hb Hl Hv. unfold history_post.
  assert (Hm : 65536 <= MAXW) by (unfold MAXW; lia).
  destruct (rinv_new w0 Hb ltac:(lia)) as [HR _].
  destruct (finv_new w0 Hb ltac:(lia)) as [HF _].
  pose proof (run_ops_inv 65536 ops Hm _ _ _ Hb Hl HR HF Hv) as H.
  destruct (run_ops (rc_new w0) (frc_new w0) w0 ops) as [[r f] w].
  destruct H as (HR' & HF' & Hb' & Hl').
  destruct (rinv_new w Hb' ltac:(lia)) as [HRn _].
  destruct (finv_new w Hb' ltac:(lia)) as [HFn _].
  rewrite (rc_digest_of_inv _ _ HR'), (frc_digest_of_inv _ _ HF'),
          (rc_digest_of_inv _ _ HRn), (frc_digest_of_inv _ _ HFn).
  destruct HR' as (Hc & Ha & Hbb & _). destruct HF' as (Hfc & _).
  rewrite M_val in *. repeat split; try reflexivity; lia.
Qed.

Lemma history_no_trap w0 ops :
  bytes w0 -> Z.of_nat (length w0) <= 65536 -> valid_ops 65536 w0 ops ->
  rc_new_ck w0 = Some (rc_new w0) /\ frc_new_ck w0 = Some (frc_new w0) /\
  run_ops_ck (rc_new w0) (frc_new w0) w0 ops = Some (run_ops (rc_new w0) (frc_new w0) w0 ops).
Proof.
  intros Hb Hl Hv.
  assert (Hm : 65536 <= MAXW) by (unfold MAXW; lia).
  destruct (rinv_new w0 Hb ltac:(lia)) as [HR ER].
  destruct (finv_new w0 Hb ltac:(lia)) as [HF EF].
  repeat split; try assumption.
  apply (run_ops_no_trap 65536); assumption.
Qed.

Lemma digest_is_formula w :
  spec_digest w = Z.lor (Z.shiftl ((sumB w) mod 65521) 16) ((sumA w) mod 65521).
Proof. reflexivity. Qed.

Lemma new_agree w : bytes w -> Z.of_nat (length w) <= 65536 ->
  rc_digest (rc_new w) = frc_digest (frc_new w).
Proof. intros Hb Hl.
  destruct (rinv_new w Hb ltac:(unfold MAXW; lia)) as [HR _].
  destruct (finv_new w Hb ltac:(unfold MAXW; lia)) as [HF _].
  now rewrite (rc_digest_of_inv _ _ HR), (frc_digest_of_inv _ _ HF). Qed.
