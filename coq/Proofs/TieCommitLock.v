(** Two reviewed call sequences, stated outright and tied to the source on every run:

    * serve.rs `with_commit_lock`: open (create, never truncate) `<lockdir>/commit.lock`, take the exclusive flock, run the
      body, unlock - the body runs strictly between lock and unlock, the lock file is never removed (flock locks an inode:
      unlinking it would let a second server lock a fresh file - seeded/R2-C03).  This is the mutual exclusion the CAS
      step machine of Model/Hub.v (Locked .. Committed) assumes;
    * dir_sync.rs `transfer_file_from_remote`: spawn `ssh host cat ..`, create-and-TRUNCATE the staging file (a leftover
      of a killed run is overwritten, not refused - seeded/R2-C09), copy the stream, FLUSH before returning (the caller
      renames the file next - seeded/R6-C09), wait for ssh, fail on a non-zero status. *)
From Coq Require Import List Bool.
From Copia Require Import Gen.CommitLockGen.
Import ListNotations.

Theorem tie_with_commit_lock : g_with_commit_lock = [LOpenLockFile; LLockExclusive; LBody; LUnlock].
Proof. reflexivity. Qed.

Theorem tie_pull_stream (ssh_ok : bool) :
  g_pull_stream ssh_ok = [TSpawn; TCreateTruncate; TCopy; TFlush; TWait] ++ [if ssh_ok then TDone else TFail].
Proof. destruct ssh_ok; reflexivity. Qed.

Definition call_sequences_are_translation : Prop :=
  g_with_commit_lock = [LOpenLockFile; LLockExclusive; LBody; LUnlock] /\
  forall ssh_ok, g_pull_stream ssh_ok = [TSpawn; TCreateTruncate; TCopy; TFlush; TWait] ++ [if ssh_ok then TDone else TFail].
Lemma call_sequences_are_translation_holds : call_sequences_are_translation.
Proof. split; [exact tie_with_commit_lock|exact tie_pull_stream]. Qed.
