(** Proofs about Model/Listing.v: what the modelled `find -printf` prints is
    parsed back into the triples that produced it (decimal printing and the
    from_ascii_radix-style parsers are an exact round trip). *)
From Coq Require Import ZArith List Bool Lia Sorted Permutation.
From Copia Require Import Gen.Constants Model.Path Model.Plan Model.Listing Proofs.PathProofs Proofs.PlanProofs.
Import ListNotations.
Local Open Scope Z_scope.

(** ** Decimal digits *)
Definition dval (a : Z) (ds : list Z) : Z := fold_left (fun a d => a * 10 + (d - 48)) ds a.

Lemma is_digit_range d : is_digit d = true <-> 48 <= d <= 57.
Proof. unfold is_digit. rewrite andb_true_iff, !Z.leb_le. tauto. Qed.

Lemma dval_app a x y : dval a (x ++ y) = dval (dval a x) y.
Proof. unfold dval. apply fold_left_app. Qed.

Lemma dval_mono ds : forall a, Forall (fun d => is_digit d = true) ds -> 0 <= a -> a <= dval a ds.
Proof. induction ds as [|d r IH]; intros a HF Ha; cbn [dval fold_left]; [lia|].
  inversion HF as [|? ? Hd Hr]; subst. apply is_digit_range in Hd.
  fold (dval (a * 10 + (d - 48)) r). specialize (IH (a * 10 + (d - 48)) Hr). lia. Qed.

Lemma parse_acc_pos lo hi ds : forall a, Forall (fun d => is_digit d = true) ds ->
  lo <= 0 -> 0 <= a -> dval a ds <= hi -> parse_acc false lo hi a ds = Some (dval a ds).
Proof. induction ds as [|d r IH]; intros a HF Hlo Ha Hhi; [reflexivity|].
  inversion HF as [|? ? Hd Hr]; subst. cbn [parse_acc]. rewrite Hd.
  cbn [dval fold_left] in Hhi |- *. fold (dval (a * 10 + (d - 48)) r) in Hhi |- *.
  apply is_digit_range in Hd.
  pose proof (dval_mono r (a * 10 + (d - 48)) Hr ltac:(lia)) as Hm.
  assert (E : ((a * 10 + (d - 48) <? lo) || (hi <? a * 10 + (d - 48))) = false).
  { apply orb_false_iff. split; apply Z.ltb_ge; lia. }
  rewrite E. apply IH; auto; lia. Qed.

Definition p10 (k : nat) : Z := 10 ^ Z.of_nat k.
Lemma p10_S k : p10 (S k) = 10 * p10 k.
Proof. unfold p10. rewrite Nat2Z.inj_succ, Z.pow_succ_r by lia. reflexivity. Qed.
Lemma p10_pos k : 0 < p10 k.
Proof. unfold p10. apply Z.pow_pos_nonneg; lia. Qed.

Lemma dec_aux_spec f : forall n acc, 0 <= n < p10 (S f) ->
  exists ds, dec_aux (S f) n acc = ds ++ acc /\ Forall (fun d => is_digit d = true) ds /\ ds <> [] /\
             forall a, dval a ds = a * p10 (length ds) + n.
Proof. induction f as [|f IH]; intros n acc Hn.
  - rewrite p10_S in Hn. change (p10 0) with 1 in Hn.
    cbn [dec_aux]. assert (E : n / 10 = 0) by (apply Z.div_small; lia). rewrite E. cbn [Z.eqb].
    exists [48 + n mod 10]. rewrite Z.mod_small by lia. repeat split.
    + constructor; [|constructor]. apply is_digit_range. lia.
    + discriminate.
    + intros a. cbn [dval fold_left length]. rewrite p10_S. change (p10 0) with 1. lia.
  - cbn [dec_aux]. destruct (n / 10 =? 0) eqn:E.
    + apply Z.eqb_eq in E. assert (Hlt : n < 10).
      { pose proof (Z.div_mod n 10 ltac:(lia)). pose proof (Z.mod_pos_bound n 10 ltac:(lia)). lia. }
      exists [48 + n mod 10]. rewrite Z.mod_small by lia. repeat split.
      * constructor; [|constructor]. apply is_digit_range. lia.
      * discriminate.
      * intros a. cbn [dval fold_left length]. rewrite p10_S. change (p10 0) with 1. lia.
    + assert (Hq : 0 <= n / 10 < p10 (S f)).
      { rewrite (p10_S (S f)) in Hn. split; [apply Z.div_pos; lia|apply Z.div_lt_upper_bound; lia]. }
      destruct (IH (n / 10) ((48 + n mod 10) :: acc) Hq) as (ds & E1 & E2 & E3 & E4).
      exists (ds ++ [48 + n mod 10]). repeat split.
      * change (dec_aux (S f) (n / 10) ((48 + n mod 10) :: acc) = (ds ++ [48 + n mod 10]) ++ acc).
        rewrite E1, <- app_assoc. reflexivity.
      * apply Forall_app. split; [exact E2|]. constructor; [|constructor]. apply is_digit_range.
        pose proof (Z.mod_pos_bound n 10 ltac:(lia)). lia.
      * intros H. apply app_eq_nil in H as [_ H]. discriminate.
      * intros a. rewrite dval_app, E4. cbn [dval fold_left]. rewrite app_length. cbn [length].
        rewrite Nat.add_1_r, p10_S. pose proof (Z.div_mod n 10 ltac:(lia)). lia.
Qed.

Lemma dec_fuel n : 0 <= n -> n < p10 (S (Z.to_nat (Z.log2 n))).
Proof. intros Hn. unfold p10. rewrite Nat2Z.inj_succ, Z2Nat.id by apply Z.log2_nonneg.
  destruct (Z.eq_dec n 0) as [->|Hz]; [cbn; lia|].
  pose proof (Z.log2_spec n ltac:(lia)) as [_ H].
  eapply Z.lt_le_trans; [exact H|]. apply Z.pow_le_mono_l. lia. Qed.

(** [dec n] is a non-empty digit string whose value is [n]. *)
Lemma dec_spec n : 0 <= n ->
  Forall (fun d => is_digit d = true) (dec n) /\ dec n <> [] /\ dval 0 (dec n) = n.
Proof. intros Hn. unfold dec.
  destruct (dec_aux_spec (Z.to_nat (Z.log2 n)) n [] (conj Hn (dec_fuel n Hn))) as (ds & E1 & E2 & E3 & E4).
  rewrite E1, app_nil_r. repeat split; auto. rewrite E4. lia. Qed.

Lemma digit_not (c : Z) d : is_digit c = false -> is_digit d = true -> d <> c.
Proof. intros Hc Hd E. subst. congruence. Qed.

Lemma digits_not_in c ds : is_digit c = false -> Forall (fun d => is_digit d = true) ds -> ~ In c ds.
Proof. intros Hc HF Hin. rewrite Forall_forall in HF. specialize (HF _ Hin). congruence. Qed.

Lemma parse_u64_dec n : 0 <= n <= U64_MAX -> parse_u64 (dec n) = Some n.
Proof. intros Hn. destruct (dec_spec n ltac:(lia)) as (HF & Hne & Hv).
  assert (P : parse_acc false 0 U64_MAX 0 (dec n) = Some n).
  { rewrite <- Hv at 2. apply parse_acc_pos; auto; rewrite ?Hv; unfold U64_MAX in *; lia. }
  unfold parse_u64. destruct (dec n) as [|c rest] eqn:E; [contradiction|].
  inversion HF as [|? ? Hc _]; subst.
  assert (Hp : (c =? PLUS) = false) by (apply Z.eqb_neq; apply (digit_not PLUS c); [reflexivity|exact Hc]).
  assert (Hm : (c =? MINUS) = false) by (apply Z.eqb_neq; apply (digit_not MINUS c); [reflexivity|exact Hc]).
  rewrite Hp. destruct rest; [rewrite Hm|]; exact P. Qed.

Lemma parse_i64_dec n : 0 <= n <= I64_MAX -> parse_i64 (dec n) = Some n.
Proof. intros Hn. destruct (dec_spec n ltac:(lia)) as (HF & Hne & Hv).
  assert (P : parse_acc false I64_MIN I64_MAX 0 (dec n) = Some n).
  { rewrite <- Hv at 2. apply parse_acc_pos; auto; rewrite ?Hv; unfold I64_MIN, I64_MAX in *; lia. }
  unfold parse_i64. destruct (dec n) as [|c rest] eqn:E; [contradiction|].
  inversion HF as [|? ? Hc _]; subst.
  assert (Hp : (c =? PLUS) = false) by (apply Z.eqb_neq; apply (digit_not PLUS c); [reflexivity|exact Hc]).
  assert (Hm : (c =? MINUS) = false) by (apply Z.eqb_neq; apply (digit_not MINUS c); [reflexivity|exact Hc]).
  rewrite Hp, Hm. destruct rest; exact P. Qed.

(** ** Splitting *)
Lemma split_on_app sep a rest : ~ In sep a -> split_on sep (a ++ sep :: rest) = a :: split_on sep rest.
Proof. induction a as [|x a IH]; intros Hn; cbn [app split_on].
  - now rewrite Z.eqb_refl.
  - assert (E : (x =? sep) = false) by (apply Z.eqb_neq; intros ->; apply Hn; left; reflexivity).
    rewrite E, IH; [reflexivity|]. intros H. apply Hn. right. exact H. Qed.

Lemma split_first_app sep a rest : ~ In sep a -> split_first sep (a ++ sep :: rest) = Some (a, rest).
Proof. induction a as [|x a IH]; intros Hn; cbn [app split_first].
  - now rewrite Z.eqb_refl.
  - assert (E : (x =? sep) = false) by (apply Z.eqb_neq; intros ->; apply Hn; left; reflexivity).
    rewrite E, IH; [reflexivity|]. intros H. apply Hn. right. exact H. Qed.

Lemma before_sep_app sep a rest : ~ In sep a -> before_sep sep (a ++ sep :: rest) = a.
Proof. induction a as [|x a IH]; intros Hn; cbn [app before_sep].
  - now rewrite Z.eqb_refl.
  - assert (E : (x =? sep) = false) by (apply Z.eqb_neq; intros ->; apply Hn; left; reflexivity).
    rewrite E, IH; [reflexivity|]. intros H. apply Hn. right. exact H. Qed.
Lemma before_sep_none sep a : ~ In sep a -> before_sep sep a = a.
Proof. induction a as [|x a IH]; intros Hn; cbn [before_sep]; [reflexivity|].
  assert (E : (x =? sep) = false) by (apply Z.eqb_neq; intros ->; apply Hn; left; reflexivity).
  rewrite E, IH; [reflexivity|]. intros H. apply Hn. right. exact H. Qed.

(** ** One record *)
Definition frac_text (r : lrecord) : list Z := match lr_frac r with Some f => FRAC :: f | None => [] end.
Definition body (r : lrecord) : list Z :=
  dec (lr_size r) ++ TAB :: (dec (lr_secs r) ++ frac_text r) ++ TAB :: DOT :: SLASH :: lr_path r.

Lemma render_record_body r : render_record r = body r ++ [NUL].
Proof. unfold render_record, body, frac_text.
  rewrite <- !app_assoc. cbn [app]. rewrite <- !app_assoc. cbn [app]. reflexivity. Qed.

Lemma not_in_app {A} (x : A) l1 l2 : ~ In x l1 -> ~ In x l2 -> ~ In x (l1 ++ l2).
Proof. intros H1 H2 H. apply in_app_or in H. tauto. Qed.

Lemma parse_record_body r : record_ok r -> parse_record (body r) = Some (triple_of r).
Proof. intros (Hp & Hnul & Hsz & Hsec & Hfr).
  destruct (dec_spec (lr_size r) ltac:(lia)) as (HF1 & _ & _).
  destruct (dec_spec (lr_secs r) ltac:(lia)) as (HF2 & _ & _).
  assert (Hft : ~ In TAB (frac_text r)).
  { unfold frac_text. destruct (lr_frac r) as [f|]; [|intros []].
    destruct Hfr as [_ Hfr]. intros [H|H]; [discriminate H|contradiction]. }
  unfold parse_record, body.
  rewrite split_first_app by (apply digits_not_in; [reflexivity|exact HF1]).
  rewrite split_first_app by (apply not_in_app; [apply digits_not_in; [reflexivity|exact HF2]|exact Hft]).
  rewrite parse_u64_dec by exact Hsz.
  assert (Hb : before_sep FRAC (dec (lr_secs r) ++ frac_text r) = dec (lr_secs r)).
  { unfold frac_text. destruct (lr_frac r) as [f|].
    - apply before_sep_app. apply digits_not_in; [reflexivity|exact HF2].
    - rewrite app_nil_r. apply before_sep_none. apply digits_not_in; [reflexivity|exact HF2]. }
  rewrite Hb, parse_i64_dec by exact Hsec.
  unfold strip_dot_slash. change ((DOT =? DOT) && (SLASH =? SLASH)) with true. cbn iota.
  destruct (lr_path r) as [|x p] eqn:E; [contradiction|]. unfold triple_of. rewrite E. reflexivity. Qed.

Lemma body_no_nul r : record_ok r -> ~ In NUL (body r).
Proof. intros (Hp & Hnul & Hsz & Hsec & Hfr).
  destruct (dec_spec (lr_size r) ltac:(lia)) as (HF1 & _ & _).
  destruct (dec_spec (lr_secs r) ltac:(lia)) as (HF2 & _ & _).
  unfold body. apply not_in_app; [apply digits_not_in; [reflexivity|exact HF1]|].
  intros [H|H]; [discriminate H|]. revert H. apply not_in_app.
  - apply not_in_app; [apply digits_not_in; [reflexivity|exact HF2]|].
    unfold frac_text. destruct (lr_frac r) as [f|]; [|intros []].
    destruct Hfr as [Hfr _]. intros [H|H]; [discriminate H|contradiction].
  - intros [H|[H|[H|H]]]; try discriminate H. contradiction. Qed.

Lemma body_nonempty r : record_ok r -> body r <> [].
Proof. intros (Hp & Hnul & Hsz & Hsec & Hfr).
  destruct (dec_spec (lr_size r) ltac:(lia)) as (_ & Hne & _).
  unfold body. intros H. apply app_eq_nil in H as [H _]. contradiction. Qed.

Lemma parse_step_body m r : record_ok r ->
  parse_step m (body r) = mm_insert (fst (triple_of r)) (snd (triple_of r)) m.
Proof. intros Hr. unfold parse_step. pose proof (body_nonempty r Hr) as Hne.
  rewrite (parse_record_body r Hr). destruct (body r); [contradiction|reflexivity]. Qed.

(** ** Whole listings *)
Lemma split_render rs : Forall record_ok rs ->
  split_on NUL (render_listing rs) = map body rs ++ [[]].
Proof. induction 1 as [|r rs Hr _ IH]; [reflexivity|].
  unfold render_listing in *. cbn [map concat]. rewrite render_record_body, <- app_assoc. cbn [app].
  rewrite split_on_app by now apply body_no_nul. now rewrite IH. Qed.

Lemma fold_bodies rs : forall m, Forall record_ok rs ->
  fold_left parse_step (map body rs) m =
  fold_left (fun m r => mm_insert (fst (triple_of r)) (snd (triple_of r)) m) rs m.
Proof. induction rs as [|r rs IH]; intros m H; [reflexivity|].
  inversion H; subst. cbn [map fold_left]. rewrite parse_step_body by assumption. now apply IH. Qed.

Lemma parse_render rs : Forall record_ok rs -> parse_listing (render_listing rs) = map_of rs.
Proof. intros H. unfold parse_listing, map_of. rewrite split_render by exact H.
  rewrite fold_left_app, fold_bodies by exact H. reflexivity. Qed.

(** ** The resulting map *)
Lemma map_of_sorted_gen rs : forall m, mm_sorted m ->
  mm_sorted (fold_left (fun m r => mm_insert (fst (triple_of r)) (snd (triple_of r)) m) rs m).
Proof. induction rs as [|r rs IH]; intros m H; [exact H|]. cbn [fold_left]. apply IH.
  now apply (al_insert_sorted path_cmp path_cmp_lawful). Qed.
Lemma map_of_sorted rs : mm_sorted (map_of rs).
Proof. apply map_of_sorted_gen. constructor. Qed.

Lemma al_insert_fresh_perm {V} k (v : V) (m : list (list Z * V)) :
  (forall k' v', In (k', v') m -> path_cmp k k' <> Eq) -> Permutation (al_insert path_cmp k v m) ((k, v) :: m).
Proof. induction m as [|[k0 v0] r IH]; intros Hf; cbn [al_insert]; [reflexivity|].
  destruct (path_cmp k k0) eqn:E.
  - exfalso. eapply Hf; [left; reflexivity|exact E].
  - reflexivity.
  - rewrite IH by (intros k' v' Hin; eapply Hf; right; exact Hin). apply perm_swap. Qed.

Lemma map_of_perm_gen rs : forall m, distinct_paths rs ->
  Forall (fun r => forall k' v', In (k', v') m -> path_cmp (lr_path r) k' <> Eq) rs ->
  Permutation (fold_left (fun m r => mm_insert (fst (triple_of r)) (snd (triple_of r)) m) rs m)
              (map triple_of rs ++ m).
Proof. induction rs as [|r rs IH]; intros m Hd Hf; [reflexivity|].
  destruct Hd as [Hd1 Hd2]. inversion Hf as [|? ? Hr Hrs]; subst. cbn [fold_left map app].
  assert (P : Permutation (mm_insert (fst (triple_of r)) (snd (triple_of r)) m) (triple_of r :: m)).
  { unfold mm_insert. rewrite al_insert_fresh_perm by exact Hr. now destruct (triple_of r). }
  rewrite IH; [| exact Hd2 |].
  - rewrite P. symmetry. apply Permutation_middle.
  - rewrite Forall_forall in *. intros r' Hin k' v' Hk.
    apply (Permutation_in _ P) in Hk. destruct Hk as [Hk|Hk].
    + unfold triple_of in Hk. inversion Hk; subst. intros E.
      apply (Hd1 r' Hin). now apply (cmp_eq_sym path_cmp path_cmp_lawful).
    + eapply Hrs; eauto. Qed.

(** With pairwise different paths nothing is overwritten: the map holds exactly
    the triples, sorted. *)
Lemma map_of_perm rs : distinct_paths rs -> Permutation (map_of rs) (map triple_of rs).
Proof. intros Hd. unfold map_of. rewrite map_of_perm_gen; [now rewrite app_nil_r|exact Hd|].
  apply Forall_forall. intros r _ k' v' []. Qed.
