(** The signature and its lookup table in Model/Delta.v ARE the translated source of src/signature.rs.

    Gen/SigTableGen.v (regenerated on every run): `BlockSignature::compute` (index, rolling digest of the block, strong
    hash of the block); `Signature::generate` (the blocks of `data.chunks(block_size)` - or `par_chunks`, the same
    pieces in the same order - numbered from 0, the number narrowed to 32 bits); `SignatureTable::from_signature` (a
    map from weak hash to the indices of the blocks that have it, in block order), `find_match` (the candidates of that
    weak hash, in that order, the first whose strong hash equals the data's), `has_weak_match`, `is_empty`.
    [gen_signature], [has_weak], [find_match] of Model/Delta.v - plain functions of the block LIST, which the scan
    theorems use - give the same signature and the same answers: the hash table is an index, nothing more. *)
From Coq Require Import ZArith List Bool Arith Lia.
From Copia Require Import Gen.Constants Model.LoopLib Model.Checksum Model.Delta Gen.SigTableGen.
Import ListNotations.
Open Scope Z_scope.

Section Tie.
Variable digest : Type.
Variable H : list Z -> digest.
Variable deq : forall x y : digest, {x = y} + {x <> y}.
Notation bsig := (Delta.bsig digest).

(** ** Signature::generate *)
Lemma sig_of_enumerate (k : Z) (l : list (list Z)) :
  map (fun '(i, chunk) => g_bsig_compute digest H (w32 i) chunk) (enumerate_from k l) = sig_of digest H k l.
Proof. revert k; induction l as [|c l IH]; intros k; [reflexivity|]. cbn [enumerate_from map sig_of]. rewrite IH. reflexivity. Qed.

Theorem tie_sig_generate (bs : nat) (data : list Z) :
  g_sig_generate digest H data (Z.of_nat bs) = gen_signature digest H bs data.
Proof.
  unfold g_sig_generate, gen_signature, enumerateZ, chunksZ, blocks, Delta.bsz. cbv zeta. rewrite Nat2Z.id.
  destruct data as [|x data']; [reflexivity|].
  assert (Hn : (lenZ (x :: data') =? 0) = false) by (apply Z.eqb_neq; unfold lenZ; cbn [length]; lia).
  rewrite Hn. rewrite sig_of_enumerate. destruct (lenZ (x :: data') >? 64 * 1024); reflexivity.
Qed.

(** ** the table: what a bucket holds *)
Fixpoint cands (w k : Z) (l : list bsig) : list Z :=
  match l with
  | [] => []
  | b :: r => if b_weak _ b =? w then k :: cands w (k + 1) r else cands w (k + 1) r
  end.

Lemma al_find_push (w k v : Z) (m : list (Z * list Z)) :
  al_find w (al_push k v m) =
  if k =? w then Some (match al_find w m with Some vs => vs ++ [v] | None => [v] end) else al_find w m.
Proof.
  induction m as [|[k' vs] m IH]; cbn [al_push al_find].
  - destruct (k =? w); reflexivity.
  - destruct (k' =? k) eqn:Ek.
    + apply Z.eqb_eq in Ek. subst k'. cbn [al_find]. destruct (k =? w); reflexivity.
    + cbn [al_find]. destruct (k' =? w) eqn:Ew.
      * apply Z.eqb_eq in Ew. subst k'. rewrite Z.eqb_sym in Ek. rewrite Ek. reflexivity.
      * exact IH.
Qed.

Lemma build_loop (l : list bsig) : forall (k : Z) (idx : list (Z * list Z)) (w : Z),
  match for_loop (enumerate_from k l) (fun '(i, block) => fun weak_index =>
          let weak_index := al_push (b_weak _ block) i weak_index in (inl weak_index : list (Z * list Z) + (list (Z * list Z) * signature digest))) idx with
  | inl idx' => al_find w idx' = match al_find w idx, cands w k l with
                                 | None, [] => None
                                 | None, c => Some c
                                 | Some vs, c => Some (vs ++ c)
                                 end
  | inr _ => False
  end.
Proof.
  induction l as [|b l IH]; intros k idx w; cbn [enumerate_from for_loop cands].
  - destruct (al_find w idx); [rewrite app_nil_r|]; reflexivity.
  - cbv zeta. specialize (IH (k + 1) (al_push (b_weak _ b) k idx) w).
    destruct (for_loop (enumerate_from (k + 1) l) _ (al_push (b_weak _ b) k idx)) as [idx'|]; [|exact IH].
    rewrite IH, al_find_push. destruct (b_weak _ b =? w).
    + destruct (al_find w idx) as [vs|]; [rewrite <- app_assoc|]; reflexivity.
    + reflexivity.
Qed.

Definition table_of (sg : signature digest) : list (Z * list Z) * signature digest := g_table_from_signature digest sg.

Lemma table_index (sg : signature digest) (w : Z) :
  snd (table_of sg) = sg /\
  al_find w (fst (table_of sg)) = match cands w 0 (s_blocks _ sg) with [] => None | c => Some c end.
Proof.
  unfold table_of, g_table_from_signature, enumerateZ. cbv zeta.
  pose proof (build_loop (s_blocks _ sg) 0 [] w) as HB.
  destruct (for_loop (enumerate_from 0 (s_blocks _ sg)) _ []) as [idx'|]; [|contradiction].
  cbn [fst snd al_find] in *. split; [reflexivity|exact HB].
Qed.

(** ** candidates are the blocks with that weak hash, in block order *)
Lemma cands_filter (w : Z) (pre l : list bsig) :
  map (nth_blk digest H (pre ++ l)) (cands w (Z.of_nat (length pre)) l) = filter (fun b => b_weak _ b =? w) l.
Proof.
  revert pre; induction l as [|b l IH]; intros pre; [reflexivity|]. cbn [cands filter].
  assert (Hn : nth_blk digest H (pre ++ b :: l) (Z.of_nat (length pre)) = b).
  { unfold nth_blk. rewrite Nat2Z.id. rewrite app_nth2 by lia. rewrite Nat.sub_diag. reflexivity. }
  specialize (IH (pre ++ [b])). rewrite <- app_assoc in IH. cbn [app] in IH.
  rewrite app_length in IH. cbn [length] in IH. replace (Z.of_nat (length pre + 1)) with (Z.of_nat (length pre) + 1) in IH by lia.
  destruct (b_weak _ b =? w); cbn [map]; rewrite ?Hn, IH; reflexivity.
Qed.

Lemma find_filter {A} (P Q : A -> bool) (l : list A) : find P (filter Q l) = find (fun x => Q x && P x) l.
Proof. induction l as [|x l IH]; [reflexivity|]. cbn [filter find]. destruct (Q x); cbn [find andb]; [destruct (P x); [reflexivity|exact IH]|exact IH]. Qed.

Lemma cands_nil (w k : Z) (l : list bsig) : (match cands w k l with [] => false | _ => true end) = existsb (fun b => b_weak _ b =? w) l.
Proof. revert k; induction l as [|b l IH]; intros k; [reflexivity|]. cbn [cands existsb]. destruct (b_weak _ b =? w); [reflexivity|apply IH]. Qed.

Theorem tie_table (sg : signature digest) (w : Z) (data : list Z) :
  g_table_has_weak_match digest (table_of sg) w = has_weak digest (s_blocks _ sg) w /\
  g_table_find_match digest H deq (table_of sg) w data = find_match digest H deq (s_blocks _ sg) w data /\
  g_table_is_empty digest (table_of sg) = (lenZ (s_blocks _ sg) =? 0).
Proof.
  destruct (table_index sg w) as [Hs Hi].
  unfold g_table_has_weak_match, g_table_find_match, g_table_is_empty, has_weak, find_match. cbv zeta. rewrite Hs, Hi.
  split; [|split].
  - rewrite <- (cands_nil w 0). destruct (cands w 0 (s_blocks _ sg)); reflexivity.
  - pose proof (cands_filter w [] (s_blocks _ sg)) as HF. cbn [app length Z.of_nat] in HF.
    destruct (cands w 0 (s_blocks _ sg)) as [|c cs] eqn:Ec.
    + cbv beta iota. cbn [map] in HF. rewrite <- find_filter, <- HF. reflexivity.
    + cbv beta iota. change (fun i : Z => nth_blk digest H (s_blocks digest sg) i) with (nth_blk digest H (s_blocks digest sg)).
      rewrite HF, find_filter. unfold digest_eqb. reflexivity.
  - reflexivity.
Qed.
End Tie.

Definition sig_table_is_translation : Prop :=
  forall (digest : Type) (H : list Z -> digest) (deq : forall x y : digest, {x = y} + {x <> y}),
    (forall (bs : nat) (data : list Z), g_sig_generate digest H data (Z.of_nat bs) = gen_signature digest H bs data) /\
    (forall (sg : signature digest) (w : Z) (data : list Z),
       let tbl := g_table_from_signature digest sg in
       g_table_has_weak_match digest tbl w = has_weak digest (s_blocks _ sg) w /\
       g_table_find_match digest H deq tbl w data = find_match digest H deq (s_blocks _ sg) w data /\
       g_table_is_empty digest tbl = (lenZ (s_blocks _ sg) =? 0)).
Lemma sig_table_is_translation_holds : sig_table_is_translation.
Proof. intros digest H deq. split; [apply tie_sig_generate|]. intros sg w data. apply tie_table. Qed.

(** it computes: block size 2, basis "ababc": three blocks, two with the same weak and strong hash *)
Example sig_table_nonvacuous :
  let Hd := fun x : list Z => x in
  let sg := g_sig_generate (list Z) Hd [97; 98; 97; 98; 99] 2 in
  let tbl := g_table_from_signature (list Z) sg in
  (map (b_idx _) (s_blocks _ sg), option_map (b_idx _) (g_table_find_match (list Z) Hd (list_eq_dec Z.eq_dec) tbl (rc_digest (rc_new [97; 98])) [97; 98]),
   g_table_has_weak_match (list Z) tbl 12345) = ([0; 1; 2], Some 0, false).
Proof. vm_compute. reflexivity. Qed.
