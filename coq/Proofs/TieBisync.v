(** The per-path decision of the bisync model IS the translated source.

    Model/Bisync.v works on regular files: a scan entry is a digest, and its per-path decision [rpath] returns
    [None] for Noop.  This file bridges it to reconcile.rs: for every (a, b, base), [rpath a b base] is the image of
    the function GENERATED from the current source of `reconcile_path` (Gen/ReconcileGen.v, tools/gen_logic.py),
    applied to the same digests wrapped as fingerprints of regular files.  So the C02 / C06 / C07 / C08 theorems,
    which are about [rpath], are about what the source says now. *)
From stdpp Require Import gmap.
From Copia Require Import Model.Reconcile Model.Bisync Gen.ReconcileGen Proofs.TieReconcile.

Section Bridge.
Context {D : Type} `{EqDecision D}.

Definition deqD : forall x y : D, {x = y} + {x <> y} := fun x y => decide (x = y).
Definition fpf (d : D) : fingerprint D := {| blake3 := d; ftype := File |}.

(** Reconcile.action -> the bisync model's optional action *)
Definition act_of (x : Reconcile.action) : option Bisync.action :=
  match x with
  | Noop => None
  | PropagateAtoB => Some PropAB
  | PropagateBtoA => Some PropBA
  | ConvergeIdentical => Some Converge
  | DeleteA => Some DelA
  | DeleteB => Some DelB
  | Conflict BothChanged => Some ConfBoth
  | Conflict DeleteVsModify => Some ConfDelMod
  end.

Lemma same_fpf x y : same D deqD (fpf x) (fpf y) = bool_decide (x = y).
Proof. unfold same, fpf, deqD. cbn. destruct (decide (x = y)); [rewrite bool_decide_eq_true_2|rewrite bool_decide_eq_false_2]; auto. Qed.

Lemma rpath_is_model_reconcile_path (a b z : option D) :
  rpath a b z = act_of (reconcile_path D deqD (fpf <$> a) (fpf <$> b) (fpf <$> z)).
Proof.
  unfold rpath, reconcile_path.
  destruct a as [av|], b as [bv|], z as [zv|]; unfold fmap, option_fmap, option_map.
  all: timeout 60 (rewrite ?same_fpf; repeat case_decide; repeat case_bool_decide; simplify_eq; try reflexivity; try congruence).
Qed.

(** the same, for the function generated from the source *)
Theorem rpath_is_translated_source (a b z : option D) :
  rpath a b z = act_of (g_reconcile_path D deqD (fpf <$> a) (fpf <$> b) (fpf <$> z)).
Proof. rewrite tie_reconcile_path. apply rpath_is_model_reconcile_path. Qed.
End Bridge.

Definition bisync_decision_is_translation : Prop :=
  forall (D : Type) (EqD : EqDecision D) (a b z : option D),
    @rpath D EqD a b z = act_of (g_reconcile_path D deqD (fpf <$> a) (fpf <$> b) (fpf <$> z)).
Lemma bisync_decision_is_translation_holds : bisync_decision_is_translation.
Proof. intros D EqD a b z. apply rpath_is_translated_source. Qed.
