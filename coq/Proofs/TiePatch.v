(** The model of patch IS the translation of src/sync.rs `CopiaSync::patch` as the source has it now.

    Gen/PatchGen.v (regenerated on every run) is `patch` read as a function of the basis bytes and the delta: the
    two debug assertions guard the checked profile; `delta.validate()?` is the translated validate; the loop serves a
    Copy by seek + read_exact on the basis (the reviewed three-statement block, read as [Delta.read]: an error unless the
    range lies inside the basis) and a Literal from its payload; `output.write_all(x)` appends x to the output and
    `hasher.update(x)` appends x to what has been hashed (so that "the checksum is computed over the bytes written" is a
    consequence here, not an assumption); the final comparison is against the delta's checksum.
    [Delta.patch] - the function C01 / C05 / C20 are about - computes the same result for every profile, basis and delta
    whose source size is a u64. *)
From Coq Require Import ZArith List Bool Arith Lia.
From Copia Require Import Gen.Constants Model.LoopLib Model.Checksum Model.Delta Gen.DeltaVGen Proofs.TieDeltaV Gen.PatchGen.
Import ListNotations.
Open Scope Z_scope.

Section Tie.
Variable digest : Type.
Variable H : list Z -> digest.
Variable deq : forall x y : digest, {x = y} + {x <> y}.

Lemma patch_loop (basis : list Z) (ops : list dop) :
  forall (out hs : list Z) (bw : Z),
  for_loop ops
    (fun op => fun '(output, hasher, bytes_written) =>
       match op with
       | Copy offset len_ =>
           match read basis offset len_ with
           | Some buffer => let output := output ++ buffer in let hasher := hasher ++ buffer in
                            let bytes_written := bytes_written + len_ in inl (output, hasher, bytes_written)
           | None => inr PErrIo
           end
       | Lit data => let output := output ++ data in let hasher := hasher ++ data in
                     let bytes_written := bytes_written + lenZ data in inl (output, hasher, bytes_written)
       end) (out, hs, bw)
  = match apply_ops basis ops with
    | Some r => inl (out ++ r, hs ++ r, bw + out_len ops)
    | None => inr PErrIo
    end.
Proof.
  induction ops as [|op ops IH]; intros out hs bw.
  - cbn. rewrite !app_nil_r, Z.add_0_r. reflexivity.
  - cbn [for_loop apply_ops out_len]. destruct op as [o l|d].
    + destruct (read basis o l) as [a|]; [|reflexivity]. cbv zeta. rewrite IH.
      destruct (apply_ops basis ops) as [b|]; [|reflexivity].
      rewrite <- !app_assoc, Z.add_assoc. reflexivity.
    + cbv zeta. rewrite IH. destruct (apply_ops basis ops) as [b|]; [|reflexivity].
      unfold lenZ. rewrite <- !app_assoc, Z.add_assoc. reflexivity.
Qed.

Theorem tie_patch (checked verify : bool) (basis : list Z) (d : delta digest) :
  d_source_size digest d < P64 ->
  g_patch digest H deq checked verify basis d = patch digest H deq checked verify basis d.
Proof.
  intros Hss. unfold g_patch, patch. cbv zeta.
  rewrite tie_delta_validate.
  pose proof (patch_loop basis (d_ops digest d) [] [] 0) as HL. cbv zeta in HL. rewrite HL. clear HL.
  destruct (out_len (d_ops digest d) =? d_source_size digest d) eqn:Eo.
  - apply Z.eqb_eq in Eo. assert (El : (out_len (d_ops digest d) <? P64) = true) by (apply Z.ltb_lt; lia).
    rewrite El. cbn [andb negb]. rewrite andb_false_r.
    destruct (validate (d_basis_size digest d) (d_ops digest d)); cbn [negb]; [|reflexivity].
    destruct (apply_ops basis (d_ops digest d)) as [out|]; [|reflexivity].
    cbn [app]. rewrite Z.add_0_l, Eo, Z.eqb_refl. cbn [negb]. rewrite andb_false_r.
    destruct verify; [|reflexivity]. unfold digest_eqb.
    destruct (deq (H out) (d_checksum digest d)); reflexivity.
  - rewrite andb_false_r. cbn [negb]. rewrite andb_true_r.
    destruct checked; cbn [andb]; [reflexivity|].
    destruct (validate (d_basis_size digest d) (d_ops digest d)); cbn [negb]; [|reflexivity].
    destruct (apply_ops basis (d_ops digest d)) as [out|]; [|reflexivity].
    cbn [app]. destruct verify; [|reflexivity]. unfold digest_eqb.
    destruct (deq (H out) (d_checksum digest d)); reflexivity.
Qed.

(** AsyncCopiaSync::patch (the engine of `copia patch`) has no debug assertions: in EVERY profile it is the unchecked model *)
Lemma async_patch_loop (basis : list Z) (ops : list dop) :
  forall (out hs : list Z),
  for_loop ops
    (fun op => fun '(output, hasher) =>
       match op with
       | Copy offset len_ =>
           match read basis offset len_ with
           | Some buffer => let output := output ++ buffer in let hasher := hasher ++ buffer in inl (output, hasher)
           | None => inr PErrIo
           end
       | Lit data => let output := output ++ data in let hasher := hasher ++ data in inl (output, hasher)
       end) (out, hs)
  = match apply_ops basis ops with
    | Some r => inl (out ++ r, hs ++ r)
    | None => inr PErrIo
    end.
Proof.
  induction ops as [|op ops IH]; intros out hs.
  - cbn. rewrite !app_nil_r. reflexivity.
  - cbn [for_loop apply_ops]. destruct op as [o l|d].
    + destruct (read basis o l) as [a|]; [|reflexivity]. cbv zeta. rewrite IH.
      destruct (apply_ops basis ops) as [b|]; [|reflexivity]. rewrite <- !app_assoc. reflexivity.
    + cbv zeta. rewrite IH. destruct (apply_ops basis ops) as [b|]; [|reflexivity]. rewrite <- !app_assoc. reflexivity.
Qed.

Theorem tie_async_patch (checked verify : bool) (basis : list Z) (d : delta digest) :
  g_async_patch digest H deq checked verify basis d = patch digest H deq false verify basis d.
Proof.
  unfold g_async_patch, patch. cbv zeta. rewrite tie_delta_validate. cbn [andb].
  pose proof (async_patch_loop basis (d_ops digest d) [] []) as HL. cbv zeta in HL. rewrite HL. clear HL.
  destruct (validate (d_basis_size digest d) (d_ops digest d)); cbn [negb]; [|reflexivity].
  destruct (apply_ops basis (d_ops digest d)) as [out|]; [|reflexivity].
  cbn [app]. destruct verify; [|reflexivity]. unfold digest_eqb.
  destruct (deq (H out) (d_checksum digest d)); reflexivity.
Qed.
End Tie.

Definition patch_model_is_translation : Prop :=
  forall (digest : Type) (H : list Z -> digest) (deq : forall x y : digest, {x = y} + {x <> y})
         (checked verify : bool) (basis : list Z) (d : delta digest),
    (d_source_size digest d < P64 ->
     g_patch digest H deq checked verify basis d = patch digest H deq checked verify basis d) /\
    g_async_patch digest H deq checked verify basis d = patch digest H deq false verify basis d.
Lemma patch_model_is_translation_holds : patch_model_is_translation.
Proof. unfold patch_model_is_translation. intros. split; [apply tie_patch|apply tie_async_patch]. Qed.

(** the premise is satisfiable and both sides compute something: a Copy and a Literal, checksum verified *)
Example patch_tie_nonvacuous :
  let d := {| d_block_size := 2; d_source_size := 3; d_basis_size := 4; d_ops := [Copy 1 2; Lit [9]]; d_checksum := [6; 7; 9] |} in
  d_source_size _ d < P64 /\
  g_patch (list Z) (fun x => x) (list_eq_dec Z.eq_dec) true true [5; 6; 7; 8] d = POk [6; 7; 9] /\
  g_patch (list Z) (fun x => x) (list_eq_dec Z.eq_dec) true true [5; 6] d = PErrIo.
Proof. vm_compute. repeat split. Qed.
