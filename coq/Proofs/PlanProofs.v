(** Proofs about Model/Plan.v: the plan equals its set definitions. *)
From Coq Require Import ZArith List Bool Lia Sorted Permutation.
From Copia Require Import Model.Path Model.Glob Model.Plan Proofs.PathProofs Proofs.GlobProofs.
Import ListNotations.
Local Open Scope Z_scope.

Definition plt : list Z -> list Z -> Prop := klt path_cmp.
Definition mm_sorted (m : metamap) : Prop := al_sorted path_cmp m.

(** The selection predicates of the two loops. *)
Definition sel_transfer (dst : metamap) (ex : list (list Z)) (e : list Z * file_meta) : bool :=
  negb (is_excluded (fst e) ex) && needs_transfer (snd e) (mm_get (fst e) dst).
Definition sel_skip (dst : metamap) (ex : list (list Z)) (e : list Z * file_meta) : bool :=
  negb (is_excluded (fst e) ex) && negb (needs_transfer (snd e) (mm_get (fst e) dst)).
Definition sel_delete (src : metamap) (ex : list (list Z)) (e : list Z * file_meta) : bool :=
  negb (mm_mem (fst e) src) && negb (is_excluded (fst e) ex).

Lemma plan_source_eq src dst ex :
  plan_source src dst ex =
  (map fst (filter (sel_transfer dst ex) src), Z.of_nat (length (filter (sel_skip dst ex) src))).
Proof. induction src as [|[p m] r IH]; [reflexivity|].
  cbn [plan_source filter]. rewrite IH. unfold sel_transfer, sel_skip. cbn [fst snd].
  destruct (is_excluded p ex); cbn [negb andb]; [reflexivity|].
  destruct (needs_transfer m (mm_get p dst)); cbn [negb map length]; [reflexivity|].
  f_equal. lia. Qed.

Lemma plan_delete_eq src dst ex : plan_delete src dst ex = map fst (filter (sel_delete src ex) dst).
Proof. induction dst as [|[p m] r IH]; [reflexivity|].
  cbn [plan_delete filter]. unfold sel_delete at 1. cbn [fst].
  destruct (negb (mm_mem p src) && negb (is_excluded p ex)); cbn [map]; now rewrite IH. Qed.

Lemma build_plan_eq src dst ex del :
  build_plan src dst ex del =
  {| transfer := sort_keys path_cmp (map fst (filter (sel_transfer dst ex) src));
     skipped := Z.of_nat (length (filter (sel_skip dst ex) src));
     sp_delete := sort_keys path_cmp (if del then map fst (filter (sel_delete src ex) dst) else []) |}.
Proof. unfold build_plan. rewrite plan_source_eq, plan_delete_eq. reflexivity. Qed.

Lemma needs_transfer_iff sm d : needs_transfer sm d = true <->
  d = None \/ exists dm, d = Some dm /\ (fm_size sm <> fm_size dm \/ fm_mtime sm <> fm_mtime dm).
Proof. unfold needs_transfer. destruct d as [dm|].
  - rewrite orb_true_iff, !negb_true_iff, !Z.eqb_neq. split.
    + intros H. right. exists dm. auto.
    + intros [H|(dm' & E & H)]; [discriminate|]. inversion E; subst. exact H.
  - split; auto. Qed.

Lemma in_map_fst_filter {V} (f : list Z * V -> bool) (m : list (list Z * V)) p :
  In p (map fst (filter f m)) <-> exists v, In (p, v) m /\ f (p, v) = true.
Proof. rewrite in_map_iff. split.
  - intros ([p' v] & E & H). cbn [fst] in E. subst p'. apply filter_In in H. exists v. exact H.
  - intros (v & H1 & H2). exists (p, v). split; [reflexivity|]. apply filter_In. auto. Qed.

Lemma plan_transfer_in src dst ex del p :
  In p (transfer (build_plan src dst ex del)) <->
  exists sm, In (p, sm) src /\ is_excluded p ex = false /\
    (mm_get p dst = None \/
     exists dm, mm_get p dst = Some dm /\ (fm_size sm <> fm_size dm \/ fm_mtime sm <> fm_mtime dm)).
Proof. rewrite build_plan_eq. cbn [transfer]. rewrite (sort_keys_in path_cmp), in_map_fst_filter.
  split; intros (sm & Hin & H); exists sm; (split; [exact Hin|]).
  - unfold sel_transfer in H. cbn [fst snd] in H. apply andb_prop in H as [H1 H2].
    apply negb_true_iff in H1. split; [exact H1|]. now apply needs_transfer_iff.
  - destruct H as [H1 H2]. unfold sel_transfer. cbn [fst snd]. rewrite H1. cbn [negb andb].
    now apply needs_transfer_iff. Qed.

Lemma filter_partition_length {A} (f g : A -> bool) (h : A -> bool) (l : list A) :
  (forall x, h x = true -> f x = negb (g x)) -> (forall x, h x = false -> f x = false /\ g x = false) ->
  (length (filter f l) + length (filter g l) = length (filter h l))%nat.
Proof. intros H1 H0. induction l as [|x l IH]; [reflexivity|]. cbn [filter].
  destruct (h x) eqn:E.
  - rewrite (H1 x E). destruct (g x); cbn [negb length]; lia.
  - destruct (H0 x E) as [-> ->]. exact IH. Qed.

Lemma plan_skipped_eq src dst ex del :
  skipped (build_plan src dst ex del) =
  Z.of_nat (length (filter (fun e => negb (is_excluded (fst e) ex)) src)) -
  Z.of_nat (length (transfer (build_plan src dst ex del))).
Proof. rewrite build_plan_eq. cbn [skipped transfer].
  rewrite (Permutation_length (sort_keys_perm path_cmp _)), map_length.
  pose proof (filter_partition_length (sel_transfer dst ex) (sel_skip dst ex)
               (fun e => negb (is_excluded (fst e) ex)) src) as H.
  rewrite <- H; [lia| |].
  - intros x Hx. unfold sel_transfer, sel_skip. rewrite Hx. cbn [andb]. now rewrite negb_involutive.
  - intros x Hx. unfold sel_transfer, sel_skip. rewrite Hx. auto. Qed.

Lemma plan_delete_off src dst ex : sp_delete (build_plan src dst ex false) = [].
Proof. rewrite build_plan_eq. reflexivity. Qed.

Lemma plan_delete_in src dst ex p :
  In p (sp_delete (build_plan src dst ex true)) <->
  exists dm, In (p, dm) dst /\ mm_get p src = None /\ is_excluded p ex = false.
Proof. rewrite build_plan_eq. cbn [sp_delete]. rewrite (sort_keys_in path_cmp), in_map_fst_filter.
  unfold sel_delete. cbn [fst].
  split; intros (dm & Hin & H); exists dm; (split; [exact Hin|]).
  - apply andb_prop in H as [H1 H2]. apply negb_true_iff in H1, H2. split; [|exact H2].
    now apply (al_mem_false path_cmp).
  - destruct H as [H1 H2]. apply (al_mem_false path_cmp) in H1. unfold mm_mem. now rewrite H1, H2. Qed.

(** ** Order *)
Lemma StronglySorted_filter {A} (R : A -> A -> Prop) (f : A -> bool) l :
  StronglySorted R l -> StronglySorted R (filter f l).
Proof. induction 1 as [|x l Hs IH HF]; cbn [filter]; [constructor|].
  destruct (f x); [|exact IH]. constructor; [exact IH|].
  rewrite Forall_forall in *. intros y Hy. apply filter_In in Hy. now apply HF. Qed.

Lemma filtered_keys_sorted {V} (f : list Z * V -> bool) (m : list (list Z * V)) :
  al_sorted path_cmp m -> StronglySorted plt (map fst (filter f m)).
Proof. intros H. apply (al_sorted_keys path_cmp). now apply StronglySorted_filter. Qed.

(** On sorted maps the two [sort()] calls change nothing: the lists are the
    selected keys in map order. *)
Lemma plan_sorts_are_identity src dst ex del : mm_sorted src -> mm_sorted dst ->
  transfer (build_plan src dst ex del) = map fst (filter (sel_transfer dst ex) src) /\
  sp_delete (build_plan src dst ex del) = if del then map fst (filter (sel_delete src ex) dst) else [].
Proof. intros Hs Hd. rewrite build_plan_eq. cbn [transfer sp_delete]. split.
  - apply (sort_keys_sorted_id path_cmp). now apply filtered_keys_sorted.
  - destruct del; [|reflexivity]. apply (sort_keys_sorted_id path_cmp). now apply filtered_keys_sorted. Qed.

Lemma plan_sorted_nodup src dst ex del : mm_sorted src -> mm_sorted dst ->
  StronglySorted plt (transfer (build_plan src dst ex del)) /\ NoDup (transfer (build_plan src dst ex del)) /\
  StronglySorted plt (sp_delete (build_plan src dst ex del)) /\ NoDup (sp_delete (build_plan src dst ex del)).
Proof. intros Hs Hd. destruct (plan_sorts_are_identity src dst ex del Hs Hd) as [-> ->].
  assert (A : StronglySorted plt (map fst (filter (sel_transfer dst ex) src))) by now apply filtered_keys_sorted.
  assert (B : StronglySorted plt (if del then map fst (filter (sel_delete src ex) dst) else [])).
  { destruct del; [now apply filtered_keys_sorted|constructor]. }
  repeat split; auto; eapply (klt_sorted_nodup path_cmp path_cmp_lawful); eauto. Qed.

(** ** Consequences used by C15 *)
Lemma excluded_not_planned src dst ex del p : is_excluded p ex = true ->
  ~ In p (transfer (build_plan src dst ex del)) /\ ~ In p (sp_delete (build_plan src dst ex del)).
Proof. intros He. split.
  - rewrite plan_transfer_in. intros (sm & _ & H & _). congruence.
  - destruct del; [|rewrite plan_delete_off; auto].
    rewrite plan_delete_in. intros (dm & _ & _ & H). congruence. Qed.

(** ** Lookups in a sorted map *)
Lemma mm_get_spec (m : metamap) p : mm_sorted m ->
  (forall v, mm_get p m = Some v <-> exists k, In (k, v) m /\ path_cmp p k = Eq) /\
  (mm_get p m = None <-> forall k v, In (k, v) m -> path_cmp p k <> Eq).
Proof. intros Hs. split; [|apply (al_get_none path_cmp)].
  intros v. split; [apply (al_get_some path_cmp)|].
  intros (k & Hin & He). unfold mm_get. rewrite (al_get_eqkey path_cmp path_cmp_lawful p k m He).
  now apply (al_get_in path_cmp path_cmp_lawful). Qed.

(** ** the plan depends on the exclude list only as a SET of patterns: order, repetitions and patterns implied by
    others make no difference - every pattern of the list counts, none can be dropped because another `covers` it
    unless it really excludes nothing more *)
Lemma is_excluded_same_set rel ex1 ex2 :
  (forall p, In p ex1 <-> In p ex2) -> is_excluded rel ex1 = is_excluded rel ex2.
Proof.
  intros Hs. destruct (is_excluded rel ex1) eqn:E1, (is_excluded rel ex2) eqn:E2; try reflexivity.
  - apply is_excluded_iff in E1. destruct E1 as (p & Hin & Hp).
    assert (H2 : is_excluded rel ex2 = true) by (apply is_excluded_iff; exists p; split; [apply Hs; exact Hin|exact Hp]). congruence.
  - apply is_excluded_iff in E2. destruct E2 as (p & Hin & Hp).
    assert (H1 : is_excluded rel ex1 = true) by (apply is_excluded_iff; exists p; split; [apply Hs; exact Hin|exact Hp]). congruence.
Qed.

Lemma is_excluded_drop_sound rel ex1 ex2 :
  (forall p, In p ex2 -> In p ex1) -> is_excluded rel ex2 = true -> is_excluded rel ex1 = true.
Proof. intros Hs E2. apply is_excluded_iff in E2. destruct E2 as (p & Hin & Hp). apply is_excluded_iff. exists p. split; [apply Hs; exact Hin|exact Hp]. Qed.

Theorem build_plan_same_set src dst ex1 ex2 del :
  (forall p, In p ex1 <-> In p ex2) -> build_plan src dst ex1 del = build_plan src dst ex2 del.
Proof.
  intros Hs. unfold build_plan.
  assert (H1 : plan_source src dst ex1 = plan_source src dst ex2).
  { induction src as [|[p m] r IH]; [reflexivity|]. cbn [plan_source]. rewrite IH, (is_excluded_same_set p ex1 ex2 Hs). reflexivity. }
  assert (H2 : plan_delete src dst ex1 = plan_delete src dst ex2).
  { clear H1. induction dst as [|[p m] r IH]; [reflexivity|]. cbn [plan_delete]. rewrite IH, (is_excluded_same_set p ex1 ex2 Hs). reflexivity. }
  rewrite H1, H2. reflexivity.
Qed.

(** a list from which a pattern was DROPPED plans the same only if that pattern excluded nothing the others do not:
    a concrete pair where dropping the `covered` pattern changes the plan (`?.b` does not cover `*.b`) *)
Example dropping_a_pattern_changes_the_plan :
  is_excluded [120; 121; 46; 98] [[63; 46; 98]; [42; 46; 98]] = true /\ is_excluded [120; 121; 46; 98] [[63; 46; 98]] = false.
Proof. split; vm_compute; reflexivity. Qed.
