(** Proofs about Model/OneWay.v: the destination after `sync -r` is exactly
    (dst minus plan.delete) overridden by the source entries of plan.transfer, for
    every completion order and every failure oracle; second runs are no-ops;
    excluded paths, missing --delete and --dry-run protect the destination; a run
    restarted from a crashed destination gives the uninterrupted result.

    Membership of a path in a plan list is up to PathBuf equality
    ([path_cmp p q = Eq]): [pin]. *)
From Coq Require Import ZArith List Bool Lia Sorted Permutation.
From Copia Require Import Model.Path Model.Glob Model.Plan Model.OneWay Model.OneWayExec
  Proofs.PathProofs Proofs.GlobProofs Proofs.PlanProofs.
Import ListNotations.
Local Open Scope Z_scope.

Definition tsorted (t : tree) : Prop := al_sorted path_cmp t.
Definition keys (t : tree) : list (list Z) := map fst t.
(** [p] is in the list, up to PathBuf equality *)
Definition pin (p : list Z) (l : list (list Z)) : Prop := exists q, In q l /\ path_cmp p q = Eq.
(** a delivery of (a spelling of) [p] is in the list and did not fail *)
Definition delivered (fail : list Z -> bool) (p : list Z) (l : list (list Z)) : Prop :=
  exists q, In q l /\ path_cmp p q = Eq /\ fail q = false.
(** the metadata the planner sees of a file *)
Definition meta (f : file) : file_meta := {| fm_size := Z.of_nat (length (f_bytes f)); fm_mtime := f_mtime f |}.
(** no delivery of the order failed *)
Definition no_failure (fail : list Z -> bool) (order : list (list Z)) : Prop := forall q, In q order -> fail q = false.

Local Notation L := path_cmp_lawful.
Local Notation pkeq := (keq path_cmp).

Lemma pkeq_true p q : pkeq p q = true <-> path_cmp p q = Eq.
Proof. apply (keq_true path_cmp). Qed.
Lemma pkeq_false p q : pkeq p q = false <-> path_cmp p q <> Eq.
Proof. rewrite <- pkeq_true. destruct (pkeq p q); split; congruence. Qed.
Lemma peq_sym p q : path_cmp p q = Eq -> path_cmp q p = Eq.
Proof. apply (cmp_eq_sym path_cmp L). Qed.
Lemma peq_trans p q r : path_cmp p q = Eq -> path_cmp q r = Eq -> path_cmp p r = Eq.
Proof. intros H1 H2. rewrite (law_eq _ L p q r H1). exact H2. Qed.
Lemma peq_refl p : path_cmp p p = Eq.
Proof. apply (law_refl _ L). Qed.

Lemma pin_existsb p l : existsb (pkeq p) l = true <-> pin p l.
Proof. rewrite existsb_exists. unfold pin. split; intros (q & H1 & H2); exists q; (split; [exact H1|]); now apply pkeq_true. Qed.
Lemma pin_in p l : In p l -> pin p l.
Proof. intros H. exists p. split; [exact H|apply peq_refl]. Qed.
Lemma pin_eq p p' l : path_cmp p p' = Eq -> pin p l -> pin p' l.
Proof. intros He (q & H1 & H2). exists q. split; [exact H1|]. eapply peq_trans; [apply peq_sym; exact He|exact H2]. Qed.
Lemma pin_perm p l l' : Permutation l l' -> pin p l -> pin p l'.
Proof. intros HP (q & H1 & H2). exists q. split; [eapply Permutation_in; eauto|exact H2]. Qed.
Lemma delivered_perm fail p l l' : Permutation l l' -> delivered fail p l -> delivered fail p l'.
Proof. intros HP (q & H1 & H2). exists q. split; [eapply Permutation_in; eauto|exact H2]. Qed.
Lemma delivered_pin fail p l : delivered fail p l -> pin p l.
Proof. intros (q & H1 & H2 & _). exists q. auto. Qed.

(** ** get after set / remove; sortedness *)
Lemma t_get_eqkey p q t : path_cmp p q = Eq -> t_get p t = t_get q t.
Proof. apply (al_get_eqkey path_cmp L). Qed.

Lemma t_get_set p q f t : t_get p (t_set q f t) = if pkeq p q then Some f else t_get p t.
Proof. apply (al_insert_get path_cmp L). Qed.

Lemma t_get_remove p q t : t_get p (t_remove q t) = if pkeq p q then None else t_get p t.
Proof. induction t as [|[k v] r IH]; cbn [t_remove].
  - destruct (pkeq p q); reflexivity.
  - destruct (pkeq q k) eqn:Eqk.
    + rewrite IH. destruct (pkeq p q) eqn:Epq; [reflexivity|].
      unfold t_get. cbn [al_get]. fold (t_get p r).
      destruct (pkeq p k) eqn:Epk; [|reflexivity]. exfalso.
      apply pkeq_true in Eqk, Epk. apply pkeq_false in Epq. apply Epq.
      eapply peq_trans; [exact Epk|apply peq_sym; exact Eqk].
    + unfold t_get in *. cbn [al_get]. rewrite IH.
      destruct (pkeq p k) eqn:Epk; [|reflexivity].
      destruct (pkeq p q) eqn:Epq; [|reflexivity]. exfalso.
      apply pkeq_true in Epk, Epq. apply pkeq_false in Eqk. apply Eqk.
      eapply peq_trans; [apply peq_sym; exact Epq|exact Epk].
Qed.

Lemma t_remove_filter q t : t_remove q t = filter (fun kv => negb (pkeq q (fst kv))) t.
Proof. induction t as [|[k v] r IH]; [reflexivity|]. cbn [t_remove filter fst].
  destruct (pkeq q k); cbn [negb]; now rewrite IH. Qed.

Lemma t_set_sorted p f t : tsorted t -> tsorted (t_set p f t).
Proof. apply (al_insert_sorted path_cmp L). Qed.
Lemma t_remove_sorted p t : tsorted t -> tsorted (t_remove p t).
Proof. intros H. rewrite t_remove_filter. now apply StronglySorted_filter. Qed.

Lemma t_set_keys p f t k : In k (keys (t_set p f t)) -> k = p \/ In k (keys t).
Proof. unfold keys, t_set. induction t as [|[k0 v0] r IH]; cbn [al_insert map fst In].
  - intros [H|[]]. left. now symmetry.
  - destruct (path_cmp p k0); cbn [map fst In].
    + tauto.
    + intros [H|H]; [left; now symmetry|right; exact H].
    + intros [H|H]; [right; left; exact H|]. destruct (IH H); auto.
Qed.
Lemma t_remove_keys p t k : In k (keys (t_remove p t)) -> In k (keys t).
Proof. unfold keys. rewrite t_remove_filter. rewrite !in_map_iff. intros (x & E & H).
  apply filter_In in H. exists x. tauto. Qed.

Lemma mk_tree_sorted l : tsorted (mk_tree l).
Proof. unfold mk_tree. assert (G : forall t, tsorted t ->
    tsorted (fold_left (fun t kv => t_set (fst kv) {| f_bytes := fst (snd kv); f_mtime := snd (snd kv) |} t) l t)).
  { induction l as [|kv l IH]; intros t Ht; cbn [fold_left]; [exact Ht|]. apply IH. now apply t_set_sorted. }
  apply G. constructor. Qed.

(** a literal key of a tree is found (sorted: with its own value) *)
Lemma t_get_key_some p f t : In (p, f) t -> t_get p t <> None.
Proof. intros Hin Hn. apply (proj1 (al_get_none path_cmp p t) Hn p f Hin). apply peq_refl. Qed.
Lemma t_get_in p f t : tsorted t -> In (p, f) t -> t_get p t = Some f.
Proof. apply (al_get_in path_cmp L). Qed.
Lemma t_get_some p f t : t_get p t = Some f -> exists k, In (k, f) t /\ path_cmp p k = Eq.
Proof. apply (al_get_some path_cmp). Qed.
Lemma in_keys p f (t : tree) : In (p, f) t -> In p (keys t).
Proof. intros H. unfold keys. apply in_map_iff. exists (p, f). auto. Qed.
Lemma keys_in p (t : tree) : In p (keys t) -> exists f, In (p, f) t.
Proof. unfold keys. rewrite in_map_iff. intros ([k f] & E & H). cbn [fst] in E. subst. eauto. Qed.

(** ** meta_of *)
Lemma meta_of_in p sm t : In (p, sm) (meta_of t) <-> exists f, In (p, f) t /\ sm = meta f.
Proof. unfold meta_of. rewrite in_map_iff. split.
  - intros ([k f] & E & H). cbn [fst snd] in E. inversion E; subst. exists f. auto.
  - intros (f & H & ->). exists (p, f). auto. Qed.
Lemma meta_of_sorted t : tsorted t -> mm_sorted (meta_of t).
Proof. unfold tsorted, mm_sorted, al_sorted, meta_of. induction 1 as [|a t Hs IH HF]; cbn [map]; constructor; [exact IH|].
  rewrite Forall_map. exact HF. Qed.
Lemma mm_get_meta_of p t : mm_get p (meta_of t) = option_map meta (t_get p t).
Proof. unfold mm_get, t_get, meta_of. induction t as [|[k v] r IH]; cbn [map al_get fst snd]; [reflexivity|].
  destruct (pkeq p k); [reflexivity|exact IH]. Qed.

(** ** the plan in terms of the trees (C19's characterisations through [meta_of]) *)
Definition differs (f : file) (d : option file) : Prop :=
  d = None \/ exists g, d = Some g /\
    (Z.of_nat (length (f_bytes f)) <> Z.of_nat (length (f_bytes g)) \/ f_mtime f <> f_mtime g).

Lemma transfer_iff src dst o p :
  In p (transfer (plan_of src dst o)) <->
  exists f, In (p, f) src /\ is_excluded p (o_excludes o) = false /\ differs f (t_get p dst).
Proof. unfold plan_of. rewrite plan_transfer_in. split.
  - intros (sm & Hin & He & Hd). apply meta_of_in in Hin as (f & Hin & ->). exists f. split; [exact Hin|]. split; [exact He|].
    rewrite mm_get_meta_of in Hd. unfold differs. destruct (t_get p dst) as [g|]; cbn [option_map] in Hd.
    + right. exists g. split; [reflexivity|]. destruct Hd as [Hd|(dm & E & Hd)]; [discriminate|]. inversion E; subst. exact Hd.
    + left. reflexivity.
  - intros (f & Hin & He & Hd). exists (meta f). split; [apply meta_of_in; eauto|]. split; [exact He|].
    rewrite mm_get_meta_of. destruct Hd as [->|(g & -> & Hd)]; cbn [option_map]; [left; reflexivity|].
    right. exists (meta g). split; [reflexivity|exact Hd]. Qed.

Lemma delete_iff src dst o p :
  In p (sp_delete (plan_of src dst o)) <->
  o_delete o = true /\ exists g, In (p, g) dst /\ t_get p src = None /\ is_excluded p (o_excludes o) = false.
Proof. unfold plan_of. destruct (o_delete o).
  - rewrite plan_delete_in. split.
    + intros (dm & Hin & Hn & He). apply meta_of_in in Hin as (g & Hin & ->). split; [reflexivity|]. exists g.
      rewrite mm_get_meta_of in Hn. destruct (t_get p src); [discriminate|]. auto.
    + intros (_ & g & Hin & Hn & He). exists (meta g). split; [apply meta_of_in; eauto|].
      rewrite mm_get_meta_of, Hn. auto.
  - rewrite plan_delete_off. split; [intros []|intros [H _]; discriminate]. Qed.

Lemma transfer_in_src src dst o q : In q (transfer (plan_of src dst o)) -> t_get q src <> None.
Proof. intros H. apply transfer_iff in H as (f & Hin & _). eapply t_get_key_some; eauto. Qed.

Lemma transfer_delete_disjoint src dst o p : pin p (transfer (plan_of src dst o)) -> pin p (sp_delete (plan_of src dst o)) -> False.
Proof. intros (q & Hq & E1) (q' & Hq' & E2). apply transfer_in_src in Hq. apply delete_iff in Hq' as (_ & g & _ & Hn & _).
  apply Hq. rewrite <- (t_get_eqkey p q src E1), (t_get_eqkey p q' src E2). exact Hn. Qed.

Lemma plan_of_nil dst o : o_delete o = false -> plan_of [] dst o = empty_plan.
Proof. intros H. unfold plan_of. rewrite H. reflexivity. Qed.

(** ** the two folds *)
Definition hit (src : tree) (fail : list Z -> bool) (p q : list Z) : bool :=
  pkeq p q && negb (fail q) && match t_get q src with Some _ => true | None => false end.

Lemma deliver_get src fail d q p :
  t_get p (deliver src fail d q) = if hit src fail p q then t_get p src else t_get p d.
Proof. unfold deliver, hit. destruct (fail q); cbn [negb]; [now rewrite andb_false_r|].
  rewrite andb_true_r. destruct (t_get q src) as [f|] eqn:E; [|now rewrite andb_false_r].
  rewrite andb_true_r, t_get_set. destruct (pkeq p q) eqn:Epq; [|reflexivity].
  apply pkeq_true in Epq. now rewrite (t_get_eqkey p q src Epq). Qed.

Lemma deliver_fold_get src fail order : forall d p,
  t_get p (fold_left (deliver src fail) order d) =
  if existsb (hit src fail p) order then t_get p src else t_get p d.
Proof. induction order as [|q r IH]; intros d p; cbn [fold_left existsb]; [reflexivity|].
  rewrite IH, deliver_get. destruct (hit src fail p q); cbn [orb]; [|reflexivity].
  destruct (existsb (hit src fail p) r); reflexivity. Qed.

Lemma remove_fold_get dl : forall d p,
  t_get p (fold_left (fun d q => t_remove q d) dl d) = if existsb (pkeq p) dl then None else t_get p d.
Proof. induction dl as [|q r IH]; intros d p; cbn [fold_left existsb]; [reflexivity|].
  rewrite IH, t_get_remove. destruct (pkeq p q); cbn [orb]; [|reflexivity].
  destruct (existsb (pkeq p) r); reflexivity. Qed.

Lemma deliver_fold_sorted src fail order : forall d, tsorted d -> tsorted (fold_left (deliver src fail) order d).
Proof. induction order as [|q r IH]; intros d Hd; cbn [fold_left]; [exact Hd|]. apply IH.
  unfold deliver. destruct (fail q); [exact Hd|]. destruct (t_get q src); [now apply t_set_sorted|exact Hd]. Qed.
Lemma remove_fold_sorted dl : forall d, tsorted d -> tsorted (fold_left (fun d q => t_remove q d) dl d).
Proof. induction dl as [|q r IH]; intros d Hd; cbn [fold_left]; [exact Hd|]. apply IH. now apply t_remove_sorted. Qed.

Lemma deliver_fold_keys src fail order : forall d k,
  In k (keys (fold_left (deliver src fail) order d)) -> In k (keys d) \/ In k order.
Proof. induction order as [|q r IH]; intros d k; cbn [fold_left]; [auto|].
  intros H. apply IH in H as [H|H]; [|right; right; exact H].
  unfold deliver in H. destruct (fail q); [left; exact H|]. destruct (t_get q src); [|left; exact H].
  apply t_set_keys in H as [->|H]; [right; left; reflexivity|left; exact H]. Qed.
Lemma remove_fold_keys dl : forall d k, In k (keys (fold_left (fun d q => t_remove q d) dl d)) -> In k (keys d).
Proof. induction dl as [|q r IH]; intros d k; cbn [fold_left]; [auto|].
  intros H. apply IH in H. eapply t_remove_keys; eauto. Qed.

Lemma existsb_perm {A} (f : A -> bool) l l' : Permutation l l' -> existsb f l = existsb f l'.
Proof. induction 1; cbn [existsb]; try congruence.
  - destruct (f x), (f y); reflexivity. Qed.

Lemma hit_exists src fail p order : (forall q, In q order -> t_get q src <> None) ->
  existsb (hit src fail p) order = true <-> delivered fail p order.
Proof. intros Hsrc. rewrite existsb_exists. unfold delivered, hit. split.
  - intros (q & Hin & H). apply andb_prop in H as [H H3]. apply andb_prop in H as [H1 H2].
    exists q. split; [exact Hin|]. split; [now apply pkeq_true|]. now apply negb_true_iff.
  - intros (q & Hin & H1 & H2). exists q. split; [exact Hin|]. apply pkeq_true in H1. rewrite H1, H2. cbn [negb andb].
    specialize (Hsrc q Hin). destruct (t_get q src); congruence. Qed.

(** ** the result of a run at every path *)
Lemma perm_nil_l {A} (l : list A) : Permutation l [] -> l = [].
Proof. intros H. apply Permutation_sym in H. now apply Permutation_nil in H. Qed.

(** [run_oneway] is its main body, or the empty-source short-cut *)
Definition run_body (src dst : tree) (o : opts) (order : list (list Z)) (fail : list Z -> bool) : result :=
  let plan := plan_of src dst o in
  if o_dry_run o then
    {| r_dst := dst; r_exit_ok := true; r_plan := plan; r_kind := DryRun; r_sent := 0; r_failed := 0 |}
  else match transfer plan, sp_delete plan with
  | [], [] => {| r_dst := dst; r_exit_ok := true; r_plan := plan; r_kind := UpToDate; r_sent := 0; r_failed := 0 |}
  | _, _ =>
    let d1 := fold_left (deliver src fail) order dst in
    let d2 := fold_left (fun d p => t_remove p d) (sp_delete plan) d1 in
    let nfail := Z.of_nat (length (filter fail order)) in
    {| r_dst := d2; r_exit_ok := (nfail =? 0); r_plan := plan; r_kind := Ran;
       r_sent := Z.of_nat (length order) - nfail; r_failed := nfail |}
  end.

Lemma run_cases src dst o order fail :
  run_oneway src dst o order fail = run_body src dst o order fail \/
  (src = [] /\ o_delete o = false /\
   run_oneway src dst o order fail =
   {| r_dst := dst; r_exit_ok := true; r_plan := empty_plan; r_kind := NoFiles; r_sent := 0; r_failed := 0 |}).
Proof. unfold run_oneway, run_body. destruct src, (o_delete o); auto. Qed.

(** shape of a non-dry run *)
Lemma run_shape src dst o order fail : o_dry_run o = false ->
  (transfer (plan_of src dst o) = [] -> order = []) ->
  r_dst (run_oneway src dst o order fail) =
    fold_left (fun d q => t_remove q d) (sp_delete (plan_of src dst o)) (fold_left (deliver src fail) order dst) /\
  r_exit_ok (run_oneway src dst o order fail) = (Z.of_nat (length (filter fail order)) =? 0).
Proof. intros Hdry Hnil.
  destruct (run_cases src dst o order fail) as [->|(-> & Hd & ->)].
  - unfold run_body. rewrite Hdry.
    destruct (transfer (plan_of src dst o)) eqn:Et; [destruct (sp_delete (plan_of src dst o)) eqn:Edl|];
      cbn [r_dst r_exit_ok]; auto.
    rewrite (Hnil eq_refl). auto.
  - rewrite (plan_of_nil dst o Hd) in *. rewrite (Hnil eq_refl). cbn. auto.
Qed.

Lemma run_get src dst o order fail p : o_dry_run o = false ->
  Permutation order (transfer (plan_of src dst o)) ->
  t_get p (r_dst (run_oneway src dst o order fail)) =
  if existsb (pkeq p) (sp_delete (plan_of src dst o)) then None
  else if existsb (hit src fail p) (transfer (plan_of src dst o)) then t_get p src else t_get p dst.
Proof. intros Hdry HP.
  destruct (run_shape src dst o order fail Hdry) as [-> _].
  { intros E. rewrite E in HP. now apply perm_nil_l. }
  rewrite remove_fold_get, deliver_fold_get, (existsb_perm _ _ _ HP). reflexivity. Qed.

Lemma dry_run_dst src dst o order fail : o_dry_run o = true -> r_dst (run_oneway src dst o order fail) = dst.
Proof. intros H. unfold run_oneway. destruct src, (o_delete o); rewrite ?H; reflexivity. Qed.

(** ** C04 *)
Lemma oneway_exact_lemma src dst o order fail : o_dry_run o = false ->
  Permutation order (transfer (plan_of src dst o)) ->
  forall p,
  (pin p (sp_delete (plan_of src dst o)) -> t_get p (r_dst (run_oneway src dst o order fail)) = None) /\
  (delivered fail p (transfer (plan_of src dst o)) -> t_get p (r_dst (run_oneway src dst o order fail)) = t_get p src) /\
  (~ pin p (sp_delete (plan_of src dst o)) -> ~ delivered fail p (transfer (plan_of src dst o)) ->
   t_get p (r_dst (run_oneway src dst o order fail)) = t_get p dst).
Proof. intros Hdry HP p. rewrite (run_get src dst o order fail p Hdry HP).
  pose proof (hit_exists src fail p (transfer (plan_of src dst o)) (transfer_in_src src dst o)) as Hh.
  pose proof (pin_existsb p (sp_delete (plan_of src dst o))) as Hd.
  split; [|split].
  - intros H. apply Hd in H. now rewrite H.
  - intros H. destruct (existsb (pkeq p) (sp_delete (plan_of src dst o))) eqn:E.
    + exfalso. eapply transfer_delete_disjoint; [eapply delivered_pin; exact H|now apply Hd].
    + apply Hh in H. now rewrite H.
  - intros H1 H2. destruct (existsb (pkeq p) (sp_delete (plan_of src dst o))) eqn:E; [exfalso; apply H1; now apply Hd|].
    destruct (existsb (hit src fail p) (transfer (plan_of src dst o))) eqn:E2; [exfalso; apply H2; now apply Hh|reflexivity].
Qed.

Lemma filter_perm_length {A} (f : A -> bool) l l' : Permutation l l' -> length (filter f l) = length (filter f l').
Proof. induction 1; cbn [filter]; try congruence.
  - destruct (f x); cbn [length]; congruence.
  - destruct (f x), (f y); reflexivity. Qed.

Lemma oneway_order_independent_lemma src dst o order1 order2 fail :
  Permutation order1 (transfer (plan_of src dst o)) -> Permutation order2 (transfer (plan_of src dst o)) ->
  let R1 := run_oneway src dst o order1 fail in
  let R2 := run_oneway src dst o order2 fail in
  (forall p, t_get p (r_dst R1) = t_get p (r_dst R2)) /\
  r_exit_ok R1 = r_exit_ok R2 /\ r_plan R1 = r_plan R2 /\ r_kind R1 = r_kind R2 /\
  r_sent R1 = r_sent R2 /\ r_failed R1 = r_failed R2.
Proof. intros H1 H2 R1 R2.
  assert (HP : Permutation order1 order2) by (etransitivity; [exact H1|symmetry; exact H2]).
  assert (El : length order1 = length order2) by now apply Permutation_length.
  assert (Ef : length (filter fail order1) = length (filter fail order2)) by now apply filter_perm_length.
  split.
  - intros p. destruct (o_dry_run o) eqn:Hdry.
    + subst R1 R2. now rewrite !dry_run_dst.
    + subst R1 R2. now rewrite !run_get.
  - subst R1 R2. unfold run_oneway. rewrite El, Ef.
    destruct src, (o_delete o), (o_dry_run o); cbn [r_exit_ok r_plan r_kind r_sent r_failed]; auto;
      destruct (transfer _), (sp_delete _); cbn [r_exit_ok r_plan r_kind r_sent r_failed]; auto.
Qed.

Lemma filter_nil_iff {A} (f : A -> bool) l : filter f l = [] <-> forall x, In x l -> f x = false.
Proof. induction l as [|x l IH]; cbn [filter].
  - split; [intros _ y []|reflexivity].
  - destruct (f x) eqn:E.
    + split; [discriminate|]. intros H. specialize (H x (or_introl eq_refl)). congruence.
    + rewrite IH. split; [intros H y [<-|Hy]; auto|intros H y Hy; apply H; now right]. Qed.

Lemma exit_ok_iff src dst o order fail : o_dry_run o = false ->
  Permutation order (transfer (plan_of src dst o)) ->
  r_exit_ok (run_oneway src dst o order fail) = true <-> no_failure fail order.
Proof. intros Hdry HP. destruct (run_shape src dst o order fail Hdry) as [_ ->].
  { intros E. rewrite E in HP. now apply perm_nil_l. }
  unfold no_failure. rewrite <- filter_nil_iff, Z.eqb_eq. destruct (filter fail order); cbn [length]; split; try lia; try congruence. Qed.

Lemma oneway_failure_contained_lemma src dst o order fail : o_dry_run o = false ->
  Permutation order (transfer (plan_of src dst o)) ->
  (r_exit_ok (run_oneway src dst o order fail) = false <-> exists q, In q order /\ fail q = true) /\
  (forall p, ~ pin p (transfer (plan_of src dst o)) -> ~ pin p (sp_delete (plan_of src dst o)) ->
     t_get p (r_dst (run_oneway src dst o order fail)) = t_get p dst).
Proof. intros Hdry HP. split.
  - pose proof (exit_ok_iff src dst o order fail Hdry HP) as H.
    destruct (r_exit_ok (run_oneway src dst o order fail)).
    + split; [discriminate|]. intros (q & Hin & Hf). destruct H as [H _]. rewrite (H eq_refl q Hin) in Hf. discriminate.
    + split; [|reflexivity]. intros _.
      destruct (existsb fail order) eqn:E.
      * apply existsb_exists in E. exact E.
      * exfalso. assert (no_failure fail order).
        { intros q Hq. destruct (fail q) eqn:Ef; [|reflexivity]. rewrite <- E. symmetry. apply existsb_exists. eauto. }
        apply H in H0. discriminate.
  - intros p H1 H2. destruct (oneway_exact_lemma src dst o order fail Hdry HP p) as (_ & _ & H).
    apply H; [exact H2|]. intros Hd. apply H1. eapply delivered_pin; eauto.
Qed.

(** *** in the property's own terms *)
Lemma sorted_key_unique p q f g t : tsorted t -> In (p, f) t -> In (q, g) t -> path_cmp p q = Eq -> f = g.
Proof. intros Hs H1 H2 He. pose proof (t_get_in p f t Hs H1) as G1. pose proof (t_get_in q g t Hs H2) as G2.
  rewrite (t_get_eqkey p q t He) in G1. congruence. Qed.

(** every non-excluded source file that was absent or differed arrives with the source's bytes and mtime *)
Lemma changed_files_arrive_lemma src dst o order fail p f : tsorted src -> o_dry_run o = false ->
  Permutation order (transfer (plan_of src dst o)) -> no_failure fail order ->
  In (p, f) src -> is_excluded p (o_excludes o) = false -> differs f (t_get p dst) ->
  t_get p (r_dst (run_oneway src dst o order fail)) = Some f.
Proof. intros Hs Hdry HP Hnf Hin He Hd.
  destruct (oneway_exact_lemma src dst o order fail Hdry HP p) as (_ & H & _).
  rewrite H, (t_get_in p f src Hs Hin); [reflexivity|].
  exists p. assert (Hp : In p (transfer (plan_of src dst o))) by (apply transfer_iff; eauto).
  split; [exact Hp|]. split; [apply peq_refl|]. apply Hnf. eapply Permutation_in; [symmetry; exact HP|exact Hp]. Qed.

(** files the quick check matched keep bytes and mtime, whatever fails *)
Lemma matched_files_untouched_lemma src dst o order fail p f g : tsorted src -> o_dry_run o = false ->
  Permutation order (transfer (plan_of src dst o)) ->
  In (p, f) src -> t_get p dst = Some g ->
  Z.of_nat (length (f_bytes f)) = Z.of_nat (length (f_bytes g)) -> f_mtime f = f_mtime g ->
  t_get p (r_dst (run_oneway src dst o order fail)) = Some g.
Proof. intros Hs Hdry HP Hin Hg E1 E2.
  destruct (oneway_failure_contained_lemma src dst o order fail Hdry HP) as [_ H]. rewrite H; [exact Hg| |].
  - intros (q & Hq & Epq). apply transfer_iff in Hq as (f' & Hin' & _ & Hd).
    assert (f = f') by exact (sorted_key_unique p q f f' src Hs Hin Hin' Epq). subst f'.
    rewrite <- (t_get_eqkey p q dst Epq), Hg in Hd. destruct Hd as [Hd|(g' & Eg & Hd)]; [discriminate|].
    inversion Eg; subst. tauto.
  - intros (q & Hq & Epq). apply delete_iff in Hq as (_ & g' & _ & Hn & _).
    rewrite <- (t_get_eqkey p q src Epq) in Hn. eapply t_get_key_some; eauto. Qed.

(** without --delete a path that is not in the source is untouched *)
Lemma non_source_untouched_lemma src dst o order fail p : o_dry_run o = false ->
  Permutation order (transfer (plan_of src dst o)) -> o_delete o = false -> t_get p src = None ->
  t_get p (r_dst (run_oneway src dst o order fail)) = t_get p dst.
Proof. intros Hdry HP Hd Hn.
  destruct (oneway_failure_contained_lemma src dst o order fail Hdry HP) as [_ H]. apply H.
  - intros (q & Hq & Epq). apply transfer_in_src in Hq. apply Hq. now rewrite <- (t_get_eqkey p q src Epq).
  - intros (q & Hq & _). apply delete_iff in Hq as [Hq _]. congruence. Qed.

(** with --delete exactly the destination files absent from the source and not excluded go *)
Lemma delete_removes_lemma src dst o order fail p g : o_dry_run o = false ->
  Permutation order (transfer (plan_of src dst o)) -> o_delete o = true ->
  In (p, g) dst -> t_get p src = None -> is_excluded p (o_excludes o) = false ->
  t_get p (r_dst (run_oneway src dst o order fail)) = None.
Proof. intros Hdry HP Hd Hin Hn He.
  destruct (oneway_exact_lemma src dst o order fail Hdry HP p) as (H & _). apply H.
  apply pin_in. apply delete_iff. eauto. Qed.

(** a removed path was in the delete list; a created or modified one was delivered *)
Lemma only_plan_changes_lemma src dst o order fail p : o_dry_run o = false ->
  Permutation order (transfer (plan_of src dst o)) ->
  t_get p (r_dst (run_oneway src dst o order fail)) <> t_get p dst ->
  (pin p (sp_delete (plan_of src dst o)) /\ t_get p (r_dst (run_oneway src dst o order fail)) = None) \/
  (delivered fail p (transfer (plan_of src dst o)) /\ t_get p (r_dst (run_oneway src dst o order fail)) = t_get p src).
Proof. intros Hdry HP Hne. rewrite (run_get src dst o order fail p Hdry HP) in *.
  destruct (existsb (pkeq p) (sp_delete (plan_of src dst o))) eqn:E1.
  - left. split; [now apply pin_existsb|reflexivity].
  - destruct (existsb (hit src fail p) (transfer (plan_of src dst o))) eqn:E2; [|congruence].
    right. split; [|reflexivity]. apply (hit_exists src fail p _ (transfer_in_src src dst o)). exact E2. Qed.

(** ** C14 *)
Lemma run_sorted src dst o order fail : tsorted dst -> tsorted (r_dst (run_oneway src dst o order fail)).
Proof. intros Hd. unfold run_oneway.
  destruct src, (o_delete o), (o_dry_run o); cbn [r_dst]; auto;
    destruct (transfer _), (sp_delete _); cbn [r_dst]; auto;
    apply remove_fold_sorted, deliver_fold_sorted; exact Hd. Qed.

Lemma run_keys src dst o order fail k : In k (keys (r_dst (run_oneway src dst o order fail))) -> In k (keys dst) \/ In k order.
Proof. unfold run_oneway.
  destruct src, (o_delete o), (o_dry_run o); cbn [r_dst]; auto;
    destruct (transfer _), (sp_delete _); cbn [r_dst]; auto;
    intros H; apply remove_fold_keys in H; now apply deliver_fold_keys in H. Qed.

Lemma second_run_empty_plan_lemma src dst o order fail : tsorted src -> tsorted dst -> o_dry_run o = false ->
  Permutation order (transfer (plan_of src dst o)) -> no_failure fail order ->
  transfer (plan_of src (r_dst (run_oneway src dst o order fail)) o) = [] /\
  sp_delete (plan_of src (r_dst (run_oneway src dst o order fail)) o) = [].
Proof. intros Hs Hd Hdry HP Hnf. set (R := r_dst (run_oneway src dst o order fail)).
  assert (HR : tsorted R) by now apply run_sorted.
  pose proof (oneway_exact_lemma src dst o order fail Hdry HP) as Hex. fold R in Hex.
  split.
  - destruct (transfer (plan_of src R o)) as [|q l] eqn:E; [reflexivity|exfalso].
    assert (Hq : In q (transfer (plan_of src R o))) by (rewrite E; now left).
    apply transfer_iff in Hq as (f & Hin & He & Hdf).
    destruct (Hex q) as (_ & H2 & H3).
    assert (Hnd : ~ pin q (sp_delete (plan_of src dst o))).
    { intros (q' & Hq' & Eq'). apply delete_iff in Hq' as (_ & g & _ & Hn & _).
      rewrite <- (t_get_eqkey q q' src Eq') in Hn. eapply t_get_key_some; eauto. }
    assert (Dec : In q (transfer (plan_of src dst o)) \/ ~ differs f (t_get q dst)).
    { unfold differs. destruct (t_get q dst) as [g|] eqn:Eg.
      - destruct (Z.eq_dec (Z.of_nat (length (f_bytes f))) (Z.of_nat (length (f_bytes g)))) as [E1|E1];
        [destruct (Z.eq_dec (f_mtime f) (f_mtime g)) as [E2|E2]|].
        + right. intros [H|(g' & Eg' & H)]; [discriminate|]. inversion Eg'; subst. tauto.
        + left. apply transfer_iff. exists f. split; [exact Hin|]. split; [exact He|]. right. exists g. rewrite Eg. auto.
        + left. apply transfer_iff. exists f. split; [exact Hin|]. split; [exact He|]. right. exists g. rewrite Eg. auto.
      - left. apply transfer_iff. exists f. split; [exact Hin|]. split; [exact He|]. left. exact Eg. }
    destruct Dec as [Hq|Hnd2].
    + assert (Hdl : delivered fail q (transfer (plan_of src dst o))).
      { exists q. split; [exact Hq|]. split; [apply peq_refl|]. apply Hnf. eapply Permutation_in; [symmetry; exact HP|exact Hq]. }
      rewrite (H2 Hdl), (t_get_in q f src Hs Hin) in Hdf.
      destruct Hdf as [Hdf|(g & Eg & Hdf)]; [discriminate|]. inversion Eg; subst. tauto.
    + assert (Hndl : ~ delivered fail q (transfer (plan_of src dst o))).
      { intros (q' & Hq' & Eq' & _). apply transfer_iff in Hq' as (f' & Hin' & He' & Hdf').
        assert (f = f') by exact (sorted_key_unique q q' f f' src Hs Hin Hin' Eq'). subst f'.
        rewrite <- (t_get_eqkey q q' dst Eq') in Hdf'. tauto. }
      rewrite (H3 Hnd Hndl) in Hdf. tauto.
  - destruct (sp_delete (plan_of src R o)) as [|q l] eqn:E; [reflexivity|exfalso].
    assert (Hq : In q (sp_delete (plan_of src R o))) by (rewrite E; now left).
    apply delete_iff in Hq as (Hdel & g & Hin & Hn & He).
    pose proof (t_get_in q g R HR Hin) as Hg.
    apply in_keys in Hin. apply run_keys in Hin as [Hin|Hin].
    + apply keys_in in Hin as (g0 & Hin).
      destruct (Hex q) as (H1 & _). rewrite H1 in Hg; [discriminate|].
      apply pin_in. apply delete_iff. eauto.
    + apply (Permutation_in _ HP) in Hin. apply transfer_in_src in Hin. tauto.
Qed.

Lemma empty_plan_identity src d o order fail :
  transfer (plan_of src d o) = [] -> sp_delete (plan_of src d o) = [] ->
  r_dst (run_oneway src d o order fail) = d /\ r_exit_ok (run_oneway src d o order fail) = true /\
  r_sent (run_oneway src d o order fail) = 0 /\
  (r_kind (run_oneway src d o order fail) = UpToDate \/ r_kind (run_oneway src d o order fail) = NoFiles \/
   r_kind (run_oneway src d o order fail) = DryRun).
Proof. intros E1 E2. destruct (run_cases src d o order fail) as [->|(-> & Hd & ->)].
  - unfold run_body. rewrite E1, E2. destruct (o_dry_run o); cbn [r_dst r_exit_ok r_kind r_sent]; repeat (split; [reflexivity|]); auto.
  - cbn [r_dst r_exit_ok r_kind r_sent]; repeat (split; [reflexivity|]); auto. Qed.

Lemma second_run_identity_lemma src dst o order fail order2 fail2 : tsorted src -> tsorted dst -> o_dry_run o = false ->
  Permutation order (transfer (plan_of src dst o)) -> no_failure fail order ->
  let R := r_dst (run_oneway src dst o order fail) in
  let R2 := run_oneway src R o order2 fail2 in
  r_dst R2 = R /\ r_exit_ok R2 = true /\ r_sent R2 = 0 /\ (r_kind R2 = UpToDate \/ r_kind R2 = NoFiles).
Proof. intros Hs Hd Hdry HP Hnf R R2.
  destruct (second_run_empty_plan_lemma src dst o order fail Hs Hd Hdry HP Hnf) as [E1 E2].
  subst R2 R. destruct (run_cases src (r_dst (run_oneway src dst o order fail)) o order2 fail2) as [->|(-> & Hdl & ->)].
  - unfold run_body. rewrite Hdry, E1, E2. cbn [r_dst r_exit_ok r_kind r_sent]. repeat (split; [reflexivity|]); auto.
  - cbn [r_dst r_exit_ok r_kind r_sent]. repeat (split; [reflexivity|]); auto. Qed.

(** ** C15 *)
(** every spelling of [p] that is a key of one of the trees is excluded *)
Definition excluded_everywhere (src dst : tree) (ex : list (list Z)) (p : list Z) : Prop :=
  forall q, path_cmp p q = Eq -> In q (keys src) \/ In q (keys dst) -> is_excluded q ex = true.

Lemma oneway_excluded_untouched_lemma src dst o order fail p :
  Permutation order (transfer (plan_of src dst o)) ->
  excluded_everywhere src dst (o_excludes o) p ->
  t_get p (r_dst (run_oneway src dst o order fail)) = t_get p dst.
Proof. intros HP Hex. destruct (o_dry_run o) eqn:Hdry; [now rewrite dry_run_dst|].
  destruct (oneway_failure_contained_lemma src dst o order fail Hdry HP) as [_ H]. apply H.
  - intros (q & Hq & Epq). apply transfer_iff in Hq as (f & Hin & He & _).
    rewrite (Hex q Epq) in He; [discriminate|]. left. eapply in_keys; eauto.
  - intros (q & Hq & Epq). apply delete_iff in Hq as (_ & g & Hin & _ & He).
    rewrite (Hex q Epq) in He; [discriminate|]. right. eapply in_keys; eauto. Qed.

(** the two trees spell every common path the same way *)
Definition same_spelling (src dst : tree) : Prop :=
  forall k k', In k (keys src) -> In k' (keys dst) -> path_cmp k k' = Eq -> k = k'.

Lemma excluded_key_everywhere src dst ex p : tsorted src -> tsorted dst -> same_spelling src dst ->
  In p (keys src) \/ In p (keys dst) -> is_excluded p ex = true -> excluded_everywhere src dst ex p.
Proof. intros Hs Hd Hsp Hp He q Epq Hq.
  assert (U : forall t, tsorted t -> In p (keys t) -> In q (keys t) -> p = q).
  { intros t Ht H1 H2. apply (al_sorted_keys path_cmp) in Ht. fold (keys t) in Ht.
    clear - Ht H1 H2 Epq. induction Ht as [|k l Hl IH HF]; [destruct H1|].
    rewrite Forall_forall in HF. destruct H1 as [<-|H1], H2 as [<-|H2]; auto.
    - specialize (HF q H2). unfold klt in HF. congruence.
    - specialize (HF p H1). unfold klt in HF. apply peq_sym in Epq. congruence. }
  assert (p = q); [|subst; exact He].
  destruct Hp as [Hp|Hp], Hq as [Hq|Hq]; eauto.
  - symmetry. apply peq_sym in Epq. eauto.
Qed.

Lemma oneway_no_flag_no_removal_lemma src dst o order fail p :
  Permutation order (transfer (plan_of src dst o)) -> o_delete o = false ->
  t_get p dst <> None -> t_get p (r_dst (run_oneway src dst o order fail)) <> None.
Proof. intros HP Hd Hp. destruct (o_dry_run o) eqn:Hdry; [now rewrite dry_run_dst|].
  rewrite (run_get src dst o order fail p Hdry HP).
  assert (E : sp_delete (plan_of src dst o) = []).
  { destruct (sp_delete (plan_of src dst o)) as [|q l] eqn:E; [reflexivity|].
    assert (Hq : In q (sp_delete (plan_of src dst o))) by (rewrite E; now left).
    apply delete_iff in Hq as [Hq _]. congruence. }
  rewrite E. cbn [existsb].
  destruct (existsb (hit src fail p) (transfer (plan_of src dst o))) eqn:E2; [|exact Hp].
  apply (hit_exists src fail p _ (transfer_in_src src dst o)) in E2 as (q & Hq & Epq & _).
  apply transfer_in_src in Hq. now rewrite (t_get_eqkey p q src Epq). Qed.

Definition with_dry (o : opts) (b : bool) : opts :=
  {| o_delete := o_delete o; o_excludes := o_excludes o; o_dry_run := b |}.

Lemma dry_run_prints_real_plan_lemma src dst o order fail order' fail' :
  r_plan (run_oneway src dst (with_dry o true) order fail) = r_plan (run_oneway src dst (with_dry o false) order' fail').
Proof. unfold run_oneway, with_dry, plan_of. cbn [o_delete o_excludes o_dry_run].
  destruct src, (o_delete o); cbn [r_plan]; auto;
    destruct (transfer _), (sp_delete _); reflexivity. Qed.

(** ** C09: re-running from a crashed destination *)
(** [c] is a crash state of the run from [dst]: every path holds its old entry,
    or - if planned for transfer - the complete source bytes with any mtime, or
    - if planned for deletion - nothing *)
Definition crash_state (src dst : tree) (o : opts) (c : tree) : Prop :=
  forall p,
    t_get p c = t_get p dst \/
    (pin p (transfer (plan_of src dst o)) /\
     exists f m, t_get p src = Some f /\ t_get p c = Some {| f_bytes := f_bytes f; f_mtime := m |}) \/
    (pin p (sp_delete (plan_of src dst o)) /\ t_get p c = None).

(** with --delete: the crashed tree spells its paths as one of the two trees did *)
Definition spelled_from (src dst : tree) (o : opts) (c : tree) : Prop :=
  o_delete o = true -> forall k, In k (keys c) -> In k (keys dst) \/ In k (keys src).

Lemma differs_dec f d : differs f d \/ ~ differs f d.
Proof. unfold differs. destruct d as [g|].
  - destruct (Z.eq_dec (Z.of_nat (length (f_bytes f))) (Z.of_nat (length (f_bytes g)))) as [E1|E1];
    [destruct (Z.eq_dec (f_mtime f) (f_mtime g)) as [E2|E2]|].
    + right. intros [H|(g' & Eg' & H)]; [discriminate|]. inversion Eg'; subst. tauto.
    + left. right. exists g. auto.
    + left. right. exists g. auto.
  - left. left. reflexivity. Qed.

Lemma differs_meta f d d' : option_map meta d = option_map meta d' -> differs f d -> differs f d'.
Proof. unfold differs. destruct d as [g|], d' as [g'|]; cbn [option_map]; intros E; try discriminate; auto.
  intros [H|(g0 & E0 & H)]; [discriminate|]. inversion E0; subst g0. right. exists g'. split; [reflexivity|].
  inversion E. unfold meta in *. congruence. Qed.

Lemma rerun_after_crash_lemma src dst o c order order' : tsorted src -> tsorted dst -> o_dry_run o = false ->
  crash_state src dst o c -> spelled_from src dst o c ->
  Permutation order (transfer (plan_of src dst o)) -> Permutation order' (transfer (plan_of src c o)) ->
  (forall p, t_get p (r_dst (run_oneway src c o order' (fun _ => false))) =
             t_get p (r_dst (run_oneway src dst o order (fun _ => false)))) /\
  r_exit_ok (run_oneway src c o order' (fun _ => false)) = true.
Proof. intros Hs Hd Hdry Hc Hsp HP HP'. split; [|apply exit_ok_iff; auto; intros q _; reflexivity].
  intros p.
  pose proof (oneway_exact_lemma src dst o order (fun _ => false) Hdry HP p) as (U1 & U2 & U3).
  pose proof (oneway_exact_lemma src c o order' (fun _ => false) Hdry HP' p) as (V1 & V2 & V3).
  set (U := t_get p (r_dst (run_oneway src dst o order (fun _ => false)))) in *.
  set (V := t_get p (r_dst (run_oneway src c o order' (fun _ => false)))) in *.
  assert (Dlv : forall d, pin p (transfer (plan_of src d o)) -> delivered (fun _ => false) p (transfer (plan_of src d o))).
  { intros d (q & Hq & E). exists q. auto. }
  (* a non-excluded source key q ~ p needs a transfer w.r.t. a tree iff its entry there differs *)
  assert (TI : forall d, pin p (transfer (plan_of src d o)) <->
               exists q f, path_cmp p q = Eq /\ In (q, f) src /\ is_excluded q (o_excludes o) = false /\ differs f (t_get p d)).
  { intros d. split.
    - intros (q & Hq & E). apply transfer_iff in Hq as (f & Hin & He & Hdf). exists q, f.
      rewrite (t_get_eqkey p q d E). auto.
    - intros (q & f & E & Hin & He & Hdf). exists q. split; [|exact E]. apply transfer_iff. exists f.
      rewrite <- (t_get_eqkey p q d E). auto. }
  destruct (Hc p) as [HA|[(HB & f & m & Hf & Hcp)|(HC & Hcp)]].
  - (* the crashed entry is the old one *)
    assert (TT : pin p (transfer (plan_of src c o)) <-> pin p (transfer (plan_of src dst o))).
    { rewrite !TI. now rewrite HA. }
    assert (DD : pin p (sp_delete (plan_of src c o)) <-> pin p (sp_delete (plan_of src dst o))).
    { split.
      - intros (q & Hq & E). apply delete_iff in Hq as (Hdel & g & Hin & Hn & He).
        destruct (Hsp Hdel q (in_keys q g c Hin)) as [Hk|Hk].
        + apply keys_in in Hk as (g0 & Hk). exists q. split; [|exact E]. apply delete_iff. eauto.
        + apply keys_in in Hk as (g0 & Hk). exfalso. eapply t_get_key_some; eauto.
      - intros (q & Hq & E). apply delete_iff in Hq as (Hdel & g & Hin & Hn & He).
        pose proof (t_get_in q g dst Hd Hin) as Hg. rewrite <- (t_get_eqkey p q dst E), <- HA in Hg.
        apply t_get_some in Hg as (k & Hk & Ek).
        assert (k = q); [|subst k; exists q; split; [apply delete_iff; eauto|exact E]].
        destruct (Hsp Hdel k (in_keys k g c Hk)) as [Hk'|Hk'].
        + apply keys_in in Hk' as (g0 & Hk').
          assert (Ekq : path_cmp k q = Eq) by (eapply peq_trans; [apply peq_sym; exact Ek|exact E]).
          pose proof (t_get_in k g0 dst Hd Hk') as G1. rewrite (t_get_eqkey k q dst Ekq), (t_get_in q g dst Hd Hin) in G1.
          inversion G1; subst g0.
          (* two literal keys of a sorted list that compare Equal are the same key *)
          clear - Hd Hk' Hin Ekq. unfold tsorted, al_sorted in Hd.
          induction Hd as [|a l Hl IH HF]; [destruct Hin|]. rewrite Forall_forall in HF.
          destruct Hk' as [->|Hk'], Hin as [E2|Hin]; auto.
          * inversion E2; reflexivity.
          * specialize (HF _ Hin). cbn [fst] in HF. unfold klt in HF. congruence.
          * subst a. specialize (HF _ Hk'). cbn [fst] in HF. unfold klt in HF. apply peq_sym in Ekq. congruence.
        + apply keys_in in Hk' as (g0 & Hk'). exfalso.
          apply (t_get_key_some k g0 src Hk'). rewrite <- (t_get_eqkey p k src Ek), (t_get_eqkey p q src E). exact Hn. }
    assert (PD : pin p (sp_delete (plan_of src dst o)) \/ ~ pin p (sp_delete (plan_of src dst o))).
    { rewrite <- pin_existsb. destruct (existsb (pkeq p) (sp_delete (plan_of src dst o))); auto. }
    assert (PT : pin p (transfer (plan_of src dst o)) \/ ~ pin p (transfer (plan_of src dst o))).
    { rewrite <- pin_existsb. destruct (existsb (pkeq p) (transfer (plan_of src dst o))); auto. }
    destruct PD as [PD|PD].
    + rewrite (U1 PD), (V1 (proj2 DD PD)). reflexivity.
    + destruct PT as [PT|PT].
      * rewrite (U2 (Dlv dst PT)), (V2 (Dlv c (proj2 TT PT))). reflexivity.
      * rewrite (U3 PD (fun H => PT (delivered_pin _ _ _ H))).
        rewrite V3; [exact HA| |].
        -- intros H. apply PD, DD. exact H.
        -- intros H. apply PT, TT. eapply delivered_pin; eauto.
  - (* the crashed entry holds the complete source bytes *)
    rewrite (U2 (Dlv dst HB)).
    assert (ND : ~ pin p (sp_delete (plan_of src c o))).
    { intros (q & Hq & E). apply delete_iff in Hq as (_ & g & _ & Hn & _).
      rewrite <- (t_get_eqkey p q src E) in Hn. congruence. }
    destruct (Z.eq_dec m (f_mtime f)) as [->|Hm].
    + assert (Ef : {| f_bytes := f_bytes f; f_mtime := f_mtime f |} = f) by (destruct f; reflexivity).
      rewrite Ef in Hcp. rewrite V3; [now rewrite Hcp, Hf|exact ND|].
      intros H. apply delivered_pin in H. apply TI in H as (q & f' & E & Hin & He & Hdf).
      pose proof (t_get_in q f' src Hs Hin) as G. rewrite <- (t_get_eqkey p q src E), Hf in G. inversion G; subst f'.
      rewrite Hcp in Hdf. destruct Hdf as [Hdf|(g & Eg & Hdf)]; [discriminate|]. inversion Eg; subst. tauto.
    + rewrite V2; [reflexivity|]. apply Dlv. destruct HB as (q & Hq & E).
      apply transfer_iff in Hq as (f' & Hin & He & _).
      pose proof (t_get_in q f' src Hs Hin) as G. rewrite <- (t_get_eqkey p q src E), Hf in G. inversion G; subst f'.
      apply TI. exists q, f. split; [exact E|]. split; [exact Hin|]. split; [exact He|].
      right. eexists. split; [exact Hcp|]. cbn [f_bytes f_mtime]. right. congruence.
  - (* the crashed entry is already gone *)
    rewrite (U1 HC).
    assert (NS : t_get p src = None).
    { destruct HC as (q & Hq & E). apply delete_iff in Hq as (_ & g & _ & Hn & _). now rewrite (t_get_eqkey p q src E). }
    assert (NT : ~ delivered (fun _ => false) p (transfer (plan_of src c o))).
    { intros H. apply delivered_pin in H as (q & Hq & E). apply transfer_in_src in Hq.
      now rewrite <- (t_get_eqkey p q src E) in Hq. }
    assert (PD : pin p (sp_delete (plan_of src c o)) \/ ~ pin p (sp_delete (plan_of src c o))).
    { rewrite <- pin_existsb. destruct (existsb (pkeq p) (sp_delete (plan_of src c o))); auto. }
    destruct PD as [PD|PD]; [exact (V1 PD)|]. rewrite (V3 PD NT). exact Hcp.
Qed.

(** [spelled_from] cannot be dropped: the crashed tree spells the destination-only
    path `a/b` as `a//b`; the pattern `a/b` (matched against the spelling) protects
    the first from --delete but not the second.  The crashed tree agrees with
    [dst] at EVERY path, yet the re-run deletes what the uninterrupted run keeps. *)
Lemma rerun_spelling_counterexample :
  let src : tree := [] in
  let dst := mk_tree [([97;47;98], ([1], 5))] in
  let c := mk_tree [([97;47;47;98], ([1], 5))] in
  let o := {| o_delete := true; o_excludes := [[97;47;98]]; o_dry_run := false |} in
  tsorted src /\ tsorted dst /\ tsorted c /\ crash_state src dst o c /\
  t_get [97;47;98] (r_dst (run_oneway src dst o (transfer (plan_of src dst o)) (fun _ => false))) = Some {| f_bytes := [1]; f_mtime := 5 |} /\
  t_get [97;47;98] (r_dst (run_oneway src c o (transfer (plan_of src c o)) (fun _ => false))) = None.
Proof. cbv zeta. split; [constructor|]. split; [apply mk_tree_sorted|]. split; [apply mk_tree_sorted|].
  split; [|split; vm_compute; reflexivity].
  intros p. left. change (mk_tree [([97;47;47;98], ([1], 5))]) with [([97;47;47;98], {| f_bytes := [1]; f_mtime := 5 |})].
  change (mk_tree [([97;47;98], ([1], 5))]) with [([97;47;98], {| f_bytes := [1]; f_mtime := 5 |})].
  unfold t_get. cbn [al_get]. unfold keq.
  assert (E : path_cmp [97;47;47;98] [97;47;98] = Eq) by (vm_compute; reflexivity).
  now rewrite (cmp_eq_r path_cmp L p _ _ E). Qed.
