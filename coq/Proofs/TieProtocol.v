(** The models of MessageType::from_u8 and FrameHeader::validate ARE the translation of the current source.

    Gen/ProtocolGen.v is regenerated from /repo's Rust source on every run by tools/gen_logic.py (construct by construct:
    match, if, let, early return, loops as LoopLib combinators).  Every lemma below states that a generated function
    equals, on ALL inputs, the function of the hand-written model about which the property theorems are proved.
    They are proved by case analysis / induction: when the source changes, the generated term changes and the
    lemma is re-checked against it. *)
From Coq Require Import ZArith List Bool Arith Lia.
From Copia Require Import Gen.Constants Model.LoopLib Model.Path Model.Checksum Model.Delta Model.Protocol Gen.ProtocolGen.
Import ListNotations.
Open Scope Z_scope.

(** ** protocol.rs: MessageType::from_u8, FrameHeader::validate *)
Lemma tie_from_u8 v : g_from_u8 v = from_u8 v.
Proof. reflexivity. Qed.

Lemma tie_hvalidate h : g_hvalidate h = hvalidate h.
Proof.
  unfold g_hvalidate, hvalidate, magic_ok. cbn [list_eqb].
  rewrite andb_true_r, !andb_assoc. reflexivity.
Qed.


Definition protocol_model_is_translation : Prop :=
  (forall v, g_from_u8 v = from_u8 v) /\ (forall h, g_hvalidate h = hvalidate h).
Lemma protocol_model_is_translation_holds : protocol_model_is_translation.
Proof. split; [exact tie_from_u8|exact tie_hvalidate]. Qed.
