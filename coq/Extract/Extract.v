(** Extraction of the executable models to OCaml.  ExtrOcamlBasic only:
    N, Z, positive, nat stay as extracted inductives; no Extract Constant of
    our own. *)
From Coq Require Import ZArith List.
From Copia Require Import Model.Checksum Model.Delta.
From Copia Require Model.Hub Model.HubExec Model.HubSeq Model.Bisync Model.BisyncExec.
From Copia Require Import Model.Bincode Model.Protocol.
Import ListNotations.
Require Extraction.
Require Import ExtrOcamlBasic.
Set Extraction Optimize.

From Copia Require Export Extract.Wrappers.
From Copia Require Model.Path Model.Glob Model.Plan Model.Listing Model.Reconcile.
From Copia Require Model.OneWay Model.OneWayExec Model.ShellQuote.

Extraction "model.ml"
  rc_new rc_roll rc_push rc_digest ra rb rcount
  frc_new frc_roll frc_push frc_digest fcount
  rc_new_ck rc_roll_ck rc_push_ck frc_new_ck frc_roll_ck frc_push_ck
  spec_digest_exec sums run_ops
  m_signature m_delta m_patch m_greedy lits out_len
  HubExec.hub_exec HubExec.wire_exec HubSeq.refused HubExec.sync_exec
  BisyncExec.bi_hist BisyncExec.bi_init BisyncExec.bi_dry BisyncExec.bi_steps BisyncExec.bi_crash BisyncExec.bi_state
  header_encode_ck header_decode read_from write_message read_message
  encode_message encode_signature encode_delta decode_message decode_signature decode_delta
  run_delta_top run_patch_top mt_code
  m_gm m_glob_match m_glob_match_prefix m_is_excluded m_is_excluded_gm m_mm_insert m_build_plan m_needs_transfer
  m_parse_listing m_render_listing m_reconcile_path m_table m_fp_insert m_reconcile
  OneWayExec.ow_exec OneWayExec.ow_tree_list OneWayExec.crash_exec ShellQuote.quoted_word ShellQuote.unquote_word ShellQuote.nul_list ShellQuote.xargs0.
