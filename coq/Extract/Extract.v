(** Extraction of the executable models to OCaml.  ExtrOcamlBasic only:
    N, Z, positive, nat stay as extracted inductives; no Extract Constant of
    our own. *)
From Coq Require Import ZArith List.
From Copia Require Import Model.Checksum.
Require Extraction.
Require Import ExtrOcamlBasic.
Set Extraction Optimize.

Extraction "model.ml"
  rc_new rc_roll rc_push rc_digest ra rb rcount
  frc_new frc_roll frc_push frc_digest fcount
  rc_new_ck rc_roll_ck rc_push_ck frc_new_ck frc_roll_ck frc_push_ck
  spec_digest_exec sums.
