(** The instances of the models that are executed: by the extracted driver (Extract.v) and, on a sample of the same
    cases, inside the kernel by vm_compute (the extraction canary, tools/vlib.py canary()). *)
From Coq Require Import ZArith List.
From Copia Require Import Model.Checksum Model.Delta.
From Copia Require Import Model.Bincode Model.Protocol.
Import ListNotations.

(** Instances with H := identity (only equality of digests matters to the scan
    and to patch; see DESIGN.md section 3). *)
Definition H_id (x : list Z) : list Z := x.
Definition deq_id : forall a b : list Z, {a = b} + {a <> b} := list_eq_dec Z.eq_dec.
Definition m_signature (bs : nat) (basis : list Z) := gen_signature (list Z) H_id bs basis.
Definition m_delta (bs : nat) (sg : signature (list Z)) (src : list Z) :=
  compute_delta_fast (list Z) H_id deq_id bs sg src.
Definition m_patch (checked verify : bool) (basis : list Z) (d : delta (list Z)) :=
  patch (list Z) H_id deq_id checked verify basis d.
Definition beq_id (a b : list Z) : bool := if deq_id a b then true else false.
Definition m_greedy (bs : nat) (basis src : list Z) : Z :=
  match src with [] => 0%Z | _ =>
    match blocks bs basis with [] => Z.of_nat (length src)
    | _ => greedy_lit bs beq_id (S (length src)) (full_blocks bs basis) src end end.

(** C19 / C18 *)
From Copia Require Model.Path Model.Glob Model.Plan Model.Listing Model.Reconcile.
From Copia Require Model.OneWay Model.OneWayExec Model.ShellQuote.
Definition m_gm := Glob.gm.
Definition m_glob_match := Glob.glob_match.
Definition m_glob_match_prefix := Glob.glob_match_prefix.
Definition m_is_excluded := Glob.is_excluded.
Definition m_is_excluded_gm := Glob.is_excluded_with Glob.gm.
Definition m_mm_insert := Plan.mm_insert.
Definition m_build_plan := Plan.build_plan.
Definition m_needs_transfer := Plan.needs_transfer.
Definition m_parse_listing := Listing.parse_listing.
Definition m_render_listing := Listing.render_listing.
Definition m_reconcile_path := Reconcile.reconcile_path (list Z) deq_id.
Definition m_table := Reconcile.table (list Z) deq_id.
Definition m_fp_insert := @Path.al_insert (list Z) Path.path_cmp (Reconcile.fingerprint (list Z)).
Definition m_reconcile := Reconcile.reconcile (list Z) deq_id (list Z) Path.path_cmp.

