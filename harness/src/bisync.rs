//! C02 / C06 / C07: real `copia bisync A B` on generated histories of writes, deletes, runs and archive
//! faults; after every operation both trees and the archive (HOME is redirected) are compared with the
//! extracted model. Property oracles are evaluated on the implementation's own before/after snapshots.
//!
//! cases.txt: `<id> T=<content>:<digest hex>;.. HOST=<hex> A=<tree> B=<tree> OPS=<op>,..`
//!   op = `X<k>` (a run whose k-th mutating call fails with EIO) | `WA:<phex>:<chex>` | `WB:..` | `MA:..` | `MB:..` (a write that takes the opposite side's exact mtime) | `DA:<phex>` | `DB:<phex>` | `R` | `F<kind 0-8>` (archive fault; 8 = the name of one root re-pointed to another directory with the same files)
//! impl.txt:  `<id> <state>|<state>|..`   state = `A=<tree>;B=<tree>;Z=<arch|none>;X=<OK|CONFLICTS|IOERR|->;P=<plan|->`
use crate::hubctl::snapshot;
use crate::util::*;
use std::collections::{BTreeMap, BTreeSet};
use std::process::Command;

fn h32(c: &[u8]) -> [u8; 32] {
    *blake3::hash(c).as_bytes()
}

type Tree = BTreeMap<String, Vec<u8>>;

fn read_tree(root: &str) -> Tree {
    snapshot(root).into_iter().collect()
}
fn tree_str(t: &Tree) -> String {
    if t.is_empty() { "-".into() } else { t.iter().map(|(p, c)| format!("{}={}", hex(p.as_bytes()), hex(c))).collect::<Vec<_>>().join(",") }
}
fn case_tree(t: &Tree) -> String {
    if t.is_empty() { "-".into() } else { t.iter().map(|(p, c)| format!("{}:{}", hex(p.as_bytes()), hex(c))).collect::<Vec<_>>().join(";") }
}

#[derive(Clone, Debug)]
pub enum Op {
    Write(bool, String, Vec<u8>, bool), // true = side A; last: the write takes the opposite side's exact mtime (cp -p / touch -r)
    Delete(bool, String),
    Run,
    Fault(u8),
    /// a run in which the k-th mutating file-system call fails with EIO (a survivable I/O fault; shim VPSCHED_FAIL_AT).
    /// Histories containing it are checked by the oracles only (the model has no I/O faults).
    RunFault(u32),
    /// `bisync B A`: the same two directories named in the other order. The tool keeps a separate record per ORDER, so a
    /// history that uses both orders is outside the quantifier of C02 / C06 (their histories have one order); it is run for
    /// the C07 clauses only - whatever else lies under $HOME, a run whose own record is damaged deletes nothing
    RunSwapped,
    /// an archive fault on the record of the swapped order
    FaultSwapped(u8),
}

pub struct Env {
    pub copia: String,
    pub dir: String,
    pub a: String,
    pub b: String,
    pub home: String,
    /// LD_PRELOAD shim for fault-injected runs (None: X ops run like plain runs)
    pub shim: Option<String>,
}

impl Env {
    pub fn new(copia: &str, dir: &str) -> Env {
        let _ = std::fs::remove_dir_all(dir);
        let e = Env { copia: copia.into(), dir: dir.into(), a: format!("{}/A", dir), b: format!("{}/B", dir), home: format!("{}/home", dir), shim: None };
        for d in [&e.a, &e.b, &e.home] {
            std::fs::create_dir_all(d).unwrap();
        }
        e
    }
    pub fn bisync(&self, args: &[&str], a: &str, b: &str, extra_env: &[(&str, &str)]) -> (Option<i32>, String, String) {
        let mut c = Command::new(&self.copia);
        c.arg("bisync").arg(a).arg(b).args(args).env("HOME", &self.home).env("HOSTNAME", "vphost");
        for (k, v) in extra_env {
            c.env(k, v);
        }
        let o = c.output().unwrap();
        (o.status.code(), String::from_utf8_lossy(&o.stdout).into_owned(), String::from_utf8_lossy(&o.stderr).into_owned())
    }
    pub fn archive_files(&self) -> Vec<String> {
        let d = format!("{}/.copia/archive", self.home);
        let mut v: Vec<String> = std::fs::read_dir(&d).map(|rd| rd.flatten().map(|e| e.path().to_string_lossy().into_owned()).collect()).unwrap_or_default();
        v.sort();
        v
    }
    /// the archive file of the pair named in the OTHER order
    pub fn archive_swapped(&self) -> Option<String> {
        let canon = |p: &str| std::fs::canonicalize(p).map(|x| x.to_string_lossy().into_owned()).unwrap_or_else(|_| p.to_string());
        let mut h = blake3::Hasher::new();
        h.update(canon(&self.b).as_bytes());
        h.update(b"\0");
        h.update(canon(&self.a).as_bytes());
        let want = format!("{}.json", h.finalize().to_hex());
        self.archive_files().into_iter().find(|f| f.ends_with(&want))
    }
    /// the archive file of THIS pair: `<BLAKE3(canonical A, NUL, canonical B)>.json` (the naming rule of archive.rs)
    pub fn archive_main(&self) -> Option<String> {
        let canon = |p: &str| std::fs::canonicalize(p).map(|x| x.to_string_lossy().into_owned()).unwrap_or_else(|_| p.to_string());
        let mut h = blake3::Hasher::new();
        h.update(canon(&self.a).as_bytes());
        h.update(b"\0");
        h.update(canon(&self.b).as_bytes());
        let want = format!("{}.json", h.finalize().to_hex());
        self.archive_files().into_iter().find(|f| f.ends_with(&want))
    }
    /// both roots are NAMED through symbolic links (`A -> A.r0`, `B -> B.r0`): the name a user types and the directory it
    /// denotes are different things, and the recorded state belongs to the directories
    pub fn reset_symlinked(&self) {
        if let Ok(rd) = std::fs::read_dir(&self.dir) {
            for e in rd.flatten() {
                let p = e.path();
                let is_link = std::fs::symlink_metadata(&p).map(|m| m.file_type().is_symlink()).unwrap_or(false);
                if is_link { let _ = std::fs::remove_file(&p); } else { let _ = std::fs::remove_dir_all(&p); }
            }
        }
        std::fs::create_dir_all(&self.home).unwrap();
        for root in [&self.a, &self.b] {
            std::fs::create_dir_all(format!("{}.r0", root)).unwrap();
            std::os::unix::fs::symlink(format!("{}.r0", root), root).unwrap();
        }
    }
    /// re-point the name of one root to a fresh directory holding a copy of the same files: same name, same contents,
    /// another directory - the pair is a different pair and its recorded state is foreign
    pub fn repoint(&self, side_a: bool, generation: usize) {
        let root = if side_a { &self.a } else { &self.b };
        let newreal = format!("{}.r{}", root, generation);
        std::fs::create_dir_all(&newreal).unwrap();
        for (p, c) in read_tree(root) {
            let full = format!("{}/{}", newreal, p);
            std::fs::create_dir_all(std::path::Path::new(&full).parent().unwrap()).unwrap();
            std::fs::write(&full, c).unwrap();
        }
        let _ = std::fs::remove_file(root);
        std::os::unix::fs::symlink(&newreal, root).unwrap();
    }
    /// entries of the archive as path -> digest hex (None when absent / unparsable)
    pub fn archive_entries(&self) -> Option<BTreeMap<String, String>> {
        let f = self.archive_main()?;
        let bytes = std::fs::read(&f).ok()?;
        let v: serde_json::Value = serde_json::from_slice(&bytes).ok()?;
        // what `Archive::load` would trust: right format version and the pair identity of (A, B)
        if v.get("format_version")?.as_u64()? != 1 {
            return None;
        }
        let canon = |p: &str| std::fs::canonicalize(p).map(|x| x.to_string_lossy().into_owned()).unwrap_or_else(|_| p.to_string());
        let mut h = blake3::Hasher::new();
        h.update(canon(&self.a).as_bytes());
        h.update(b"\0");
        h.update(canon(&self.b).as_bytes());
        if v.get("root_pair_hash")?.as_str()? != h.finalize().to_hex().to_string() {
            return None;
        }
        let ents = v.get("entries")?.as_object()?;
        let mut m = BTreeMap::new();
        for (p, fp) in ents {
            let arr = fp.get("blake3")?.as_array()?;
            let d: Vec<u8> = arr.iter().map(|x| x.as_u64().unwrap_or(0) as u8).collect();
            m.insert(p.clone(), hex(&d));
        }
        Some(m)
    }
}

fn arch_str(z: &Option<BTreeMap<String, String>>) -> String {
    match z {
        None => "none".into(),
        Some(m) if m.is_empty() => "-".into(),
        Some(m) => m.iter().map(|(p, d)| format!("{}={}", hex(p.as_bytes()), d)).collect::<Vec<_>>().join(","),
    }
}

fn parse_plan(dry_stdout: &str) -> String {
    // lines: "{act:?} padded to 22} {path}"
    let mut v = vec![];
    for l in dry_stdout.lines() {
        if l.starts_with("(dry run)") {
            continue;
        }
        let l2 = l.trim_end();
        if let Some(idx) = l2.find(char::is_whitespace) {
            let act = &l2[..idx];
            let path = l2[idx..].trim_start();
            // the action is padded to 22 columns followed by one space
            let path = if l2.len() > 23 && act.len() <= 22 { &l2[23..] } else { path };
            v.push(format!("{}:{}", act, hex(path.as_bytes())));
        }
    }
    if v.is_empty() { "-".into() } else { v.join(",") }
}

pub struct HistResult {
    pub oracle_only: bool,
    pub case_line: String,
    pub impl_line: String,
    pub fails: Vec<String>,
    pub runs: usize,
    pub conflicts: usize,
}

fn write_file(root: &str, p: &str, c: &[u8], r: &mut Rng) {
    write_file2(root, None, p, c, r, false)
}

/// `other`: the opposite root.  With `copy_other` the write takes the exact (nanosecond) mtime of the opposite side's file at
/// the same path when there is one (what `cp -p`, `touch -r`, `rsync -t`, `tar x` do): outcomes must not depend on it.
fn write_file2(root: &str, other: Option<&str>, p: &str, c: &[u8], r: &mut Rng, copy_other: bool) {
    let full = format!("{}/{}", root, p);
    // the user replaces a directory by a file of that name, or a file by a directory (path `d` vs `d/h`)
    if std::fs::symlink_metadata(&full).map(|m| m.is_dir()).unwrap_or(false) {
        let _ = std::fs::remove_dir_all(&full);
    }
    let mut anc = std::path::Path::new(&full).parent();
    while let Some(a) = anc {
        if a.as_os_str().len() <= root.len() { break; }
        if std::fs::symlink_metadata(a).map(|m| m.is_file()).unwrap_or(false) { let _ = std::fs::remove_file(a); }
        anc = a.parent();
    }
    std::fs::create_dir_all(std::path::Path::new(&full).parent().unwrap()).unwrap();
    std::fs::write(&full, c).unwrap();
    // mtimes are randomised independently of contents
    let secs = 1_000_000_000 + r.below(700_000_000);
    let f = std::fs::File::options().write(true).open(&full).unwrap();
    let mut t = std::time::UNIX_EPOCH + std::time::Duration::from_secs(secs);
    if copy_other {
        if let Some(o) = other {
            if let Ok(m) = std::fs::metadata(format!("{}/{}", o, p)).and_then(|m| m.modified()) {
                t = m;
            }
        }
    }
    let _ = f.set_modified(t);
}

pub fn run_history(id: usize, env: &Env, init_a: &Tree, init_b: &Tree, ops: &[Op], r: &mut Rng, swap_check: bool) -> HistResult {
    env.reset_symlinked();
    let mut generation = 0usize;
    for (p, c) in init_a {
        write_file(&env.a, p, c, r);
    }
    for (p, c) in init_b {
        write_file(&env.b, p, c, r);
    }
    let mut fails = vec![];
    let mut states = vec![];
    let mut contents: BTreeSet<Vec<u8>> = BTreeSet::new();
    for (_, c) in init_a.iter().chain(init_b.iter()) {
        contents.insert(c.clone());
    }
    let mut op_strs = vec![];
    let mut runs = 0;
    let mut nconf = 0;
    let mut fault_pending = false;
    let mut c06_off = false;
    let mut mixed = false;
    let mut oracle_only = false;
    // what both sides held at the end of the previous COMPLETED run (ground truth, independent of the archive file)
    let mut prev_end: Option<(Tree, Tree)> = None;
    for op in ops {
        let mut exit = "-".to_string();
        let mut plan = "-".to_string();
        match op {
            Op::Write(side, p, c, pm) => {
                if p == "d" { oracle_only = true; } // a file named like the directory of d/h, d/k: outside the flat-name model
                write_file2(if *side { &env.a } else { &env.b }, Some(if *side { &env.b } else { &env.a }), p, c, r, *pm);
                contents.insert(c.clone());
                op_strs.push(format!("{}{}:{}:{}", if *pm { "M" } else { "W" }, if *side { "A" } else { "B" }, hex(p.as_bytes()), hex(c)));
            }
            Op::Delete(side, p) => {
                let full = format!("{}/{}", if *side { &env.a } else { &env.b }, p);
                // deleting a name that is an (empty) directory by now removes that directory: `d` after `d/h`, `d/k` are gone
                if std::fs::remove_file(&full).is_err() { let _ = std::fs::remove_dir(&full); }
                op_strs.push(format!("D{}:{}", if *side { "A" } else { "B" }, hex(p.as_bytes())));
            }
            Op::Fault(kind) | Op::FaultSwapped(kind) => {
                let sw = matches!(op, Op::FaultSwapped(_));
                let kind = &(if sw { kind % 8 } else { *kind });
                op_strs.push(format!("{}{}", if sw { "G" } else { "F" }, kind % 9));
                fault_pending = true;
                if sw {
                    if let Some(f) = env.archive_swapped() {
                        let bytes = std::fs::read(&f).unwrap_or_default();
                        match kind % 8 {
                            0 => { let _ = std::fs::remove_file(&f); }
                            1 => { std::fs::write(&f, b"").unwrap(); }
                            2 => { let n = r.below(bytes.len() as u64) as usize; std::fs::write(&f, &bytes[..n]).unwrap(); }
                            3 => { std::fs::write(&f, r.bytes(64)).unwrap(); }
                            4 => { std::fs::write(&f, b"[1,2,3]").unwrap(); }
                            5 => { let s = String::from_utf8_lossy(&bytes).replace("\"format_version\": 1", "\"format_version\": 2"); std::fs::write(&f, s).unwrap(); }
                            6 => { let s = String::from_utf8_lossy(&bytes).replacen("\"root_pair_hash\": \"", "\"root_pair_hash\": \"00", 1); std::fs::write(&f, s).unwrap(); }
                            _ => { let _ = std::fs::rename(&f, format!("{}.bak", f)); }
                        }
                    }
                } else if kind % 9 == 8 {
                    // foreign pair: the name of one root now denotes another directory (same files)
                    generation += 1;
                    env.repoint(r.chance(1, 2), generation);
                } else if let Some(f) = env.archive_main() {
                    let bytes = std::fs::read(&f).unwrap_or_default();
                    match kind % 9 {
                        0 => { let _ = std::fs::remove_file(&f); }
                        1 => { std::fs::write(&f, b"").unwrap(); }
                        2 => { let n = r.below(bytes.len() as u64) as usize; std::fs::write(&f, &bytes[..n]).unwrap(); }
                        3 => { std::fs::write(&f, r.bytes(64)).unwrap(); }
                        4 => { std::fs::write(&f, b"[1,2,3]").unwrap(); }
                        5 => { let s = String::from_utf8_lossy(&bytes).replace("\"format_version\": 1", "\"format_version\": 2"); std::fs::write(&f, s).unwrap(); }
                        6 => { let s = String::from_utf8_lossy(&bytes).replacen("\"root_pair_hash\": \"", "\"root_pair_hash\": \"00", 1); std::fs::write(&f, s).unwrap(); }
                        _ => { let _ = std::fs::rename(&f, format!("{}.bak", f)); }
                    }
                }
            }
            Op::Run | Op::RunFault(_) | Op::RunSwapped => {
                runs += 1;
                let faultk = if let Op::RunFault(k) = op { Some(*k) } else { None };
                let swapped = matches!(op, Op::RunSwapped);
                match faultk {
                    Some(k) => { op_strs.push(format!("X{}", k)); oracle_only = true; }
                    None if swapped => { op_strs.push("S".into()); oracle_only = true; c06_off = true; mixed = true; }
                    None => op_strs.push("R".into()),
                }
                let (ra, rb) = if swapped { (env.b.clone(), env.a.clone()) } else { (env.a.clone(), env.b.clone()) };
                let before_a = read_tree(&env.a);
                let before_b = read_tree(&env.b);
                let _before_z = env.archive_entries();
                // everything under $HOME (the recorded state lives in $HOME/.copia/archive: the pair's file, its .bak / .tmp
                // siblings, other pairs' files), byte for byte, names included
                let before_home = snapshot(&env.home);
                // dry run first: prints the plan, must touch nothing (C15 clause, checked here as a sanity oracle)
                let (_, dry_out, dry_err) = env.bisync(&["--dry-run"], &ra, &rb, &[]);
                plan = parse_plan(&dry_out);
                if read_tree(&env.a) != before_a || read_tree(&env.b) != before_b {
                    fails.push(format!("{} C15 bisync --dry-run modified a tree", id));
                }
                let after_home = snapshot(&env.home);
                if after_home != before_home {
                    let names = |v: &Vec<(String, Vec<u8>)>| v.iter().map(|(p, c)| format!("{}({})", p.rsplit('/').next().unwrap_or(p).chars().rev().take(18).collect::<String>().chars().rev().collect::<String>(), c.len())).collect::<Vec<_>>().join(" ");
                    fails.push(format!("{} C15 bisync --dry-run changed the recorded state under $HOME/.copia (files before: [{}] after: [{}]; archive fault pending: {})", id, names(&before_home), names(&after_home), fault_pending));
                }
                let nobase = dry_err.contains("SAFE no-base mode");
                if fault_pending && !nobase {
                    fails.push(format!("{} C07 a lost/damaged/foreign archive was trusted (no SAFE no-base banner)", id));
                }
                if nobase && (plan.contains("DeleteA:") || plan.contains("DeleteB:")) {
                    fails.push(format!("{} C07 a delete was planned without a trusted archive: {}", id, plan));
                }
                let ks = faultk.map(|k| k.to_string()).unwrap_or_default();
                let fenv: Vec<(&str, &str)> = match (faultk, env.shim.as_deref()) {
                    (Some(_), Some(sh)) => vec![("LD_PRELOAD", sh), ("VPSCHED_ONLY", "copia"), ("VPSCHED_WATCH", env.dir.as_str()), ("VPSCHED_FAIL_AT", ks.as_str())],
                    _ => vec![],
                };
                let (code, out, err_) = env.bisync(&[], &ra, &rb, &fenv);
                // completed = the summary line, or the non-zero exit that reports preserved conflicts and nothing else
                let complete = out.contains("Bidirectional sync complete") || err_.contains("had conflicts (both versions preserved)");
                exit = match (code, complete) {
                    (Some(0), _) => "OK".into(),
                    (Some(_), true) => "CONFLICTS".into(),
                    (Some(_), false) => "IOERR".into(),
                    (None, _) => "SIGNAL".into(),
                };
                if exit == "CONFLICTS" { nconf += 1; }
                let after_a = read_tree(&env.a);
                let after_b = read_tree(&env.b);
                let after_z = env.archive_entries();
                let stage = |t: &Tree| t.keys().any(|k| k.ends_with(".copia-tmp"));
                if exit == "OK" || exit == "CONFLICTS" {
                    // a run that COMPLETED although a call was made to fail (the tool ignores the result of some calls - the
                    // unlink of a propagated delete, the directory fsync): the world no longer behaves like a file system, the
                    // record may say "deleted" for a file that is still there.  From here on this history is outside the
                    // quantifier of C06 (convergence, record = tree, idempotence); the no-loss oracles stay on
                    if faultk.is_some() { c06_off = true; }
                    // ---- C06: converged, recorded exactly, idempotent
                    if !c06_off {
                    if after_a != after_b {
                        fails.push(format!("{} C06 run completed but the trees differ: A={} B={}", id, tree_str(&after_a), tree_str(&after_b)));
                    }
                    let want: BTreeMap<String, String> = after_a.iter().map(|(p, c)| (p.clone(), hex(&h32(c)))).collect();
                    if after_z.as_ref() != Some(&want) {
                        fails.push(format!("{} C06 recorded common state differs from the tree: Z={} tree={}", id, arch_str(&after_z), tree_str(&after_a)));
                    }
                    let (_, d2, e2) = env.bisync(&["--dry-run"], &env.a, &env.b, &[]);
                    if !e2.contains("plan: 0 action(s)") {
                        fails.push(format!("{} C06 an immediate second run plans actions: {}", id, parse_plan(&d2)));
                    }
                    }
                    // ---- C02 / C07: no version lost
                    let conts_a: BTreeSet<&Vec<u8>> = after_a.values().collect();
                    let conts_b: BTreeSet<&Vec<u8>> = after_b.values().collect();
                    for (side_a, before, other) in [(true, &before_a, &before_b), (false, &before_b, &before_a)] {
                        for (p, c) in before {
                            if p.ends_with(".copia-tmp") { continue; }
                            let kept = conts_a.contains(c) && conts_b.contains(c);
                            let base_version = prev_end.as_ref().map(|(ea, eb)| ea.get(p) == Some(c) && eb.get(p) == Some(c)).unwrap_or(false);
                            let superseded = !nobase && base_version && other.get(p) != Some(c);
                            // (a history that has used both orders: only the clauses of C07 are checked - see Op::RunSwapped)
                            if !kept && !superseded && (nobase || !mixed) {
                                let tag = if nobase { "C07" } else { "C02" };
                                fails.push(format!("{} {} version lost: side {} path {:?} content {} is not on both sides after the run and was not the recorded base version superseded by the other side", id, tag, if side_a { "A" } else { "B" }, p, hex(c)));
                            }
                        }
                    }
                    if nobase {
                        for p in before_a.keys().chain(before_b.keys()) {
                            if !after_a.contains_key(p) || !after_b.contains_key(p) {
                                fails.push(format!("{} C07 path {:?} was removed by a run without a trusted archive", id, p));
                            }
                        }
                    }
                    prev_end = Some((after_a.clone(), after_b.clone()));
                } else if exit == "IOERR" && (faultk.is_some() || before_a.keys().any(|p| before_b.keys().any(|q| p.starts_with(&format!("{}/", q)) || q.starts_with(&format!("{}/", p))))) {
                    // (also: the same name is a file on one side and a directory on the other - the tool refuses the run)
                    // a run stopped by the injected fault is not a completed run: nothing may have been lost by it
                    for (side_a, before, other) in [(true, &before_a, &before_b), (false, &before_b, &before_a)] {
                        for (p, c) in before {
                            if p.ends_with(".copia-tmp") { continue; }
                            let still = after_a.values().any(|x| x == c) || after_b.values().any(|x| x == c);
                            let base_version = prev_end.as_ref().map(|(ea, eb)| ea.get(p) == Some(c) && eb.get(p) == Some(c)).unwrap_or(false);
                            let superseded = !nobase && base_version && other.get(p) != Some(c);
                            if !still && !superseded {
                                fails.push(format!("{} {} version lost by a run that stopped on an I/O error: side {} path {:?} content {}", id, if nobase { "C07" } else { "C02" }, if side_a { "A" } else { "B" }, p, hex(c)));
                            }
                        }
                    }
                    // staging leftovers of the failed run carry the reserved suffix: outside the domain
                    for root in [&env.a, &env.b] {
                        for (p, _) in read_tree(root) {
                            if p.ends_with(".copia-tmp") { let _ = std::fs::remove_file(format!("{}/{}", root, p)); }
                        }
                    }
                } else if exit == "SIGNAL" || (exit == "IOERR" && !stage(&before_a) && !stage(&before_b)) {
                    fails.push(format!("{} C06 run did not complete: {}", id, exit));
                }
                fault_pending = false;
            }
        }
        let a = read_tree(&env.a);
        let b = read_tree(&env.b);
        for c in a.values().chain(b.values()) {
            contents.insert(c.clone());
        }
        states.push(format!("A={};B={};Z={};X={};P={}", tree_str(&a), tree_str(&b), arch_str(&env.archive_entries().map(|m| m.into_iter().map(|(p, d)| (p, d[..12].to_string())).collect())), exit, plan));
    }
    // ---- C06: swapping which directory is named first yields the same bytes at every path
    // (not for histories with an injected I/O fault: the k-th file-system call of the swapped run is another call)
    if swap_check && !oracle_only && !ops.iter().any(|o| matches!(o, Op::RunFault(_))) {
        let fa = read_tree(&env.a);
        let fb = read_tree(&env.b);
        let env2 = Env::new(&env.copia, &format!("{}-swap", env.dir));
        for (p, c) in init_a { write_file(&env2.b, p, c, r); }
        for (p, c) in init_b { write_file(&env2.a, p, c, r); }
        for op in ops {
            match op {
                Op::Write(side, p, c, pm) => write_file2(if *side { &env2.b } else { &env2.a }, Some(if *side { &env2.a } else { &env2.b }), p, c, r, *pm),
                Op::Delete(side, p) => { let _ = std::fs::remove_file(format!("{}/{}", if *side { &env2.b } else { &env2.a }, p)); }
                Op::Run | Op::RunFault(_) | Op::RunSwapped => { let _ = env2.bisync(&[], &env2.a, &env2.b, &[]); }
                Op::FaultSwapped(_) => {}
                Op::Fault(_) => { if let Some(f) = env2.archive_main() { let _ = std::fs::remove_file(f); } }
            }
        }
        if read_tree(&env2.a) != fb || read_tree(&env2.b) != fa {
            fails.push(format!("{} C06 naming the directories in the other order changes which bytes end up where", id));
        }
        let _ = std::fs::remove_dir_all(&env2.dir);
    }
    let t = contents.iter().map(|c| format!("{}:{}", hex(c), hex(&h32(c)))).collect::<Vec<_>>().join(";");
    let case_line = format!("{} T={} HOST={} A={} B={} OPS={}", id, t, hex(b"vphost"), case_tree(init_a), case_tree(init_b), if op_strs.is_empty() { "-".into() } else { op_strs.join(",") });
    let impl_line = format!("{} {}", id, if states.is_empty() { "-".into() } else { states.join("|") });
    HistResult { oracle_only, case_line, impl_line, fails, runs, conflicts: nconf }
}


/// C07 (a): the parse step is ENUMERATED against the real `Archive::load` (archive.rs compiled in unchanged):
/// for an archive written by the binary - every truncation point, bit flips, garbage, JSON of the wrong shape,
/// other format versions, the archive of another / the swapped pair, only .bak/.tmp present - `load` must return
/// None, and Some for the untouched file. Returns (cases, failures).
pub fn archive_fault_enum(env: &Env, r: &mut Rng, thorough: bool) -> (u64, Vec<String>) {
    use crate::cli::archive::{root_pair_hash, Archive};
    let mut fails = vec![];
    let mut n = 0u64;
    let _ = std::fs::remove_dir_all(&env.a);
    let _ = std::fs::remove_dir_all(&env.b);
    let _ = std::fs::remove_dir_all(&env.home);
    for d in [&env.a, &env.b, &env.home] {
        std::fs::create_dir_all(d).unwrap();
    }
    std::fs::write(format!("{}/x", env.a), b"one").unwrap();
    std::fs::create_dir_all(format!("{}/d", env.b)).unwrap();
    std::fs::write(format!("{}/d/y", env.b), b"two").unwrap();
    let _ = env.bisync(&[], &env.a, &env.b, &[]);
    let Some(f) = env.archive_main() else { return (0, vec!["0 C07 no archive was written by a completed run".into()]) };
    let good = std::fs::read(&f).unwrap();
    let pair = root_pair_hash(std::path::Path::new(&env.a), std::path::Path::new(&env.b));
    let swapped = root_pair_hash(std::path::Path::new(&env.b), std::path::Path::new(&env.a));
    let probe = format!("{}/probe.json", env.home);
    let mut check = |bytes: Option<&[u8]>, expect_some: bool, what: &str, fails: &mut Vec<String>| {
        let _ = std::fs::remove_file(&probe);
        if let Some(b) = bytes {
            std::fs::write(&probe, b).unwrap();
        }
        let got = crate::util::catch(std::panic::AssertUnwindSafe(|| Archive::load(std::path::Path::new(&probe), &pair).is_some()));
        match got {
            Ok(g) if g == expect_some => {}
            Ok(g) => fails.push(format!("0 C07 Archive::load returned {} for {}", if g { "Some (trusted)" } else { "None" }, what)),
            Err(m) => fails.push(format!("0 C07 Archive::load panicked for {}: {}", what, m)),
        }
    };
    check(Some(&good), true, "the untouched archive", &mut fails); n += 1;
    check(None, false, "an absent file", &mut fails); n += 1;
    check(Some(b""), false, "a zero-length file", &mut fails); n += 1;
    for cut in 0..good.len() {
        check(Some(&good[..cut]), false, &format!("the archive truncated to {} of {} bytes", cut, good.len()), &mut fails);
        n += 1;
    }
    let flips = if thorough { good.len() * 8 } else { 400 };
    for i in 0..flips {
        let bit = if thorough { i } else { r.below((good.len() * 8) as u64) as usize };
        let mut b = good.clone();
        b[bit / 8] ^= 1 << (bit % 8);
        // a flipped bit inside a string/number may leave a valid archive of the SAME pair and version: then Some is right
        let still_valid = serde_json::from_slice::<serde_json::Value>(&b).ok().map(|v| v.get("format_version").and_then(|x| x.as_u64()) == Some(1) && v.get("root_pair_hash").and_then(|x| x.as_str()) == Some(pair.as_str()) && v.get("epoch").map(|x| x.is_u64()).unwrap_or(false) && v.get("host_id").map(|x| x.is_string()).unwrap_or(false) && v.get("entries").map(|x| x.is_object()).unwrap_or(false)).unwrap_or(false);
        if !still_valid {
            check(Some(&b), false, &format!("the archive with bit {} flipped", bit), &mut fails);
            n += 1;
        }
    }
    for _ in 0..50 {
        let k = r.below(200) as usize;
        let g = r.bytes(k);
        check(Some(&g), false, "random garbage", &mut fails);
        n += 1;
    }
    let text = String::from_utf8_lossy(&good).into_owned();
    for (what, body) in [
        ("a JSON array", "[1,2,3]".to_string()),
        ("a JSON string", "\"archive\"".to_string()),
        ("an empty JSON object", "{}".to_string()),
        ("a missing entries field", text.replacen("\"entries\"", "\"entriez\"", 1)),
        ("a mistyped epoch", text.replacen("\"epoch\": 1", "\"epoch\": \"one\"", 1)),
        ("format_version 0", text.replacen("\"format_version\": 1", "\"format_version\": 0", 1)),
        ("format_version 2", text.replacen("\"format_version\": 1", "\"format_version\": 2", 1)),
        ("format_version 4294967295", text.replacen("\"format_version\": 1", "\"format_version\": 4294967295", 1)),
        ("the archive of the swapped pair", text.replacen(&pair, &swapped, 1)),
        ("the archive of another pair", text.replacen(&pair, &"0".repeat(64), 1)),
    ] {
        check(Some(body.as_bytes()), false, what, &mut fails);
        n += 1;
    }
    // only .bak / .tmp present: the load path itself is absent
    std::fs::write(format!("{}.bak", probe), &good).unwrap();
    std::fs::write(format!("{}.tmp", probe), &good).unwrap();
    check(None, false, "only .bak and .tmp present", &mut fails); n += 1;
    let _ = std::fs::remove_file(format!("{}.bak", probe));
    let _ = std::fs::remove_file(format!("{}.tmp", probe));
    (n, fails)
}

pub fn parse_case(line: &str) -> (Tree, Tree, Vec<Op>) {
    let mut a = Tree::new();
    let mut b = Tree::new();
    let mut ops = vec![];
    let tree = |v: &str| -> Tree {
        let mut t = Tree::new();
        if v != "-" {
            for e in v.split(';') {
                let (p, c) = e.split_once(':').unwrap();
                t.insert(String::from_utf8_lossy(&unhex(p)).into_owned(), unhex(c));
            }
        }
        t
    };
    for f in line.split_whitespace().skip(1) {
        let Some((k, v)) = f.split_once('=') else { continue };
        match k {
            "A" => a = tree(v),
            "B" => b = tree(v),
            "OPS" if v != "-" => {
                for o in v.split(',') {
                    let f: Vec<&str> = o.split(':').collect();
                    let s = |x: &str| String::from_utf8_lossy(&unhex(x)).into_owned();
                    match f[0] {
                        "WA" => ops.push(Op::Write(true, s(f[1]), unhex(f[2]), false)),
                        "WB" => ops.push(Op::Write(false, s(f[1]), unhex(f[2]), false)),
                        "MA" => ops.push(Op::Write(true, s(f[1]), unhex(f[2]), true)),
                        "MB" => ops.push(Op::Write(false, s(f[1]), unhex(f[2]), true)),
                        "DA" => ops.push(Op::Delete(true, s(f[1]))),
                        "DB" => ops.push(Op::Delete(false, s(f[1]))),
                        "R" => ops.push(Op::Run),
                        "S" => ops.push(Op::RunSwapped),
                        x if x.starts_with('G') => ops.push(Op::FaultSwapped(x[1..].parse().unwrap_or(0))),
                        x if x.starts_with('X') && x[1..].parse::<u32>().is_ok() => ops.push(Op::RunFault(x[1..].parse().unwrap())),
                        x if x.starts_with('F') => ops.push(Op::Fault(x[1..].parse().unwrap_or(0))),
                        _ => ops.push(Op::Fault(0)),
                    }
                }
            }
            _ => {}
        }
    }
    (a, b, ops)
}

fn non_utf8_twin_pairs(env: &Env) -> Vec<String> {
    use std::ffi::OsString;
    use std::os::unix::ffi::OsStringExt;
    let mut fails = vec![];
    let base = std::path::PathBuf::from(format!("{}/twin", env.dir));
    let _ = std::fs::remove_dir_all(&base);
    let mk = |b: u8| { let mut n = b"caf".to_vec(); n.push(b); base.join(OsString::from_vec(n)) };
    let (p1, p2) = (mk(0xe9), mk(0xe8));
    let w = |p: std::path::PathBuf, c: &[u8]| { std::fs::create_dir_all(p.parent().unwrap()).unwrap(); std::fs::write(p, c).unwrap(); };
    for side in ["A", "B"] {
        w(p1.join(side).join("f"), b"one");
        w(p1.join(side).join("g"), b"two");
    }
    // the second pair: f on both sides, g on B only - with NO recorded state of its own
    w(p2.join("A").join("f"), b"one");
    w(p2.join("B").join("f"), b"one");
    w(p2.join("B").join("g"), b"two");
    let home = format!("{}/twin-home", env.dir);
    let _ = std::fs::remove_dir_all(&home);
    std::fs::create_dir_all(&home).unwrap();
    let run = |p: &std::path::PathBuf| {
        let o = Command::new(&env.copia).arg("bisync").arg(p.join("A")).arg(p.join("B")).env("HOME", &home).env("HOSTNAME", "vphost").output().unwrap();
        (o.status.code(), String::from_utf8_lossy(&o.stderr).into_owned())
    };
    let (c1, _) = run(&p1);
    let (c2, e2) = run(&p2);
    if c1 != Some(0) {
        fails.push(format!("twin C07 the first pair (a directory name with the byte 0xe9) did not sync: exit {:?}", c1));
    }
    if !e2.contains("SAFE no-base mode") {
        fails.push("twin C07 a pair that was never synced (canonical roots differ from a synced pair's in one non-UTF-8 byte: caf\\xe8 vs caf\\xe9) did not run in SAFE no-base mode: it trusted the other pair's record".to_string());
    }
    if !p2.join("B").join("g").exists() || std::fs::read(p2.join("A").join("g")).ok() != Some(b"two".to_vec()) {
        fails.push(format!("twin C07 a pair that was never synced lost or failed to create a one-sided file (exit {:?}): B/g exists {}, A/g created {}", c2, p2.join("B").join("g").exists(), p2.join("A").join("g").exists()));
    }
    let _ = std::fs::remove_dir_all(&base);
    let _ = std::fs::remove_dir_all(&home);
    fails
}

/// `force`: Some((class, variant)) pins the class of the history (and, where a class has rare sub-variants, which one), so
/// that every run of the check holds each directed class on each kind of path pool, whatever the random stream does
fn gen_history(r: &mut Rng, pool: &[Vec<u8>], paths: &[&str], force: Option<(u64, u64)>) -> (Tree, Tree, Vec<Op>, &'static str) {
    let mut a = Tree::new();
    let mut b = Tree::new();
    for p in paths {
        match r.below(5) {
            0 => { a.insert(p.to_string(), r.pick(pool).clone()); }
            1 => { b.insert(p.to_string(), r.pick(pool).clone()); }
            2 => { let c = r.pick(pool).clone(); a.insert(p.to_string(), c.clone()); b.insert(p.to_string(), c); }
            3 => { a.insert(p.to_string(), r.pick(pool).clone()); b.insert(p.to_string(), r.pick(pool).clone()); }
            _ => {}
        }
    }
    let class: &'static str;
    let mut ops = vec![];
    match force.map(|f| f.0).unwrap_or_else(|| r.below(13)) {
        12 => {
            // a synced FILE is replaced by a directory of its name (its delete is mirrored, the file beneath is propagated),
            // then the directory goes away on both sides and the file comes back on ONE side with its old bytes: it is a new
            // file (the last completed run ended with no file of that name anywhere), so it is propagated, not deleted
            class = "directed:file-to-directory-and-back";
            a.clear();
            b.clear();
            let v1 = r.pick(&pool[1..]).clone();
            let s1 = r.chance(1, 2);
            ops = vec![Op::Write(s1, "d".into(), v1.clone(), false), Op::Run, Op::Delete(s1, "d".into()), Op::Write(s1, "d/h".into(), pool[2].clone(), false), Op::Run,
                       Op::Delete(true, "d/h".into()), Op::Delete(false, "d/h".into()), Op::Delete(true, "d".into()), Op::Delete(false, "d".into()),
                       Op::Write(r.chance(1, 2), "d".into(), v1, false), Op::Run, Op::Run];
        }
        11 => {
            // a synced directory is replaced by a FILE of its name on one side, and the pair's record is then lost / damaged /
            // foreign: whatever the run does (it refuses to put the file over the directory), the files under the directory
            // on the other side stay - a run without a trusted record removes nothing
            class = "directed:file-vs-directory-then-fault";
            a.clear();
            b.clear();
            let side = r.chance(1, 2);
            ops = vec![Op::Write(true, "d/h".into(), pool[1].clone(), false), Op::Write(true, "d/k".into(), pool[2].clone(), false), Op::Run,
                       Op::Write(side, "d".into(), pool[3].clone(), false), Op::Fault(r.below(8) as u8), Op::Run, Op::Run];
        }
        9 => {
            // both orders in use, the record of one order goes stale, then the record of the order in use is damaged: the
            // run must fall back to no-base mode (no delete, nothing lost), whatever the other order's record says
            class = "directed:both-orders-then-fault";
            let p = paths[0].to_string();
            let c = r.pick(pool).clone();
            a.clear();
            b.clear();
            let (o1, o2) = if r.chance(1, 2) { (Op::Run, Op::RunSwapped) } else { (Op::RunSwapped, Op::Run) };
            let sw2 = matches!(o2, Op::RunSwapped);
            let k = r.below(8) as u8;
            ops = vec![Op::Write(true, p.clone(), c.clone(), false), Op::Write(true, paths[1].to_string(), pool[2].clone(), false), o1.clone(), o2.clone(),
                       Op::Delete(r.chance(1, 2), p.clone()), o2.clone(), Op::Write(r.chance(1, 2), p.clone(), c, false),
                       if sw2 { Op::FaultSwapped(k) } else { Op::Fault(k) }, o2.clone(), o2];
        }
        10 => {
            // a conflicted run, then one side goes BACK to the bytes the path had before the conflict (and a file whose delete
            // that run mirrored is re-created with its old bytes): the restored versions are new edits, not the old base
            class = "directed:restore-after-conflict";
            let (p, g) = (paths[0].to_string(), paths[2].to_string());
            let (v1, w1) = (pool[1].clone(), pool[2].clone());
            a.clear();
            b.clear();
            ops = vec![Op::Write(true, p.clone(), v1.clone(), false), Op::Write(true, g.clone(), w1.clone(), false), Op::Run,
                       Op::Write(true, p.clone(), pool[3].clone(), false), Op::Write(false, p.clone(), pool[2].clone(), false), Op::Delete(r.chance(1, 2), g.clone()), Op::Run,
                       Op::Write(r.chance(1, 2), p.clone(), v1, false), Op::Write(r.chance(1, 2), g, w1, false), Op::Run, Op::Run];
        }
        0 => {
            class = "directed:delete-both-recreate";
            let p = paths[0].to_string();
            let c = r.pick(pool).clone();
            ops = vec![Op::Write(true, p.clone(), c.clone(), false), Op::Run, Op::Delete(true, p.clone()), Op::Delete(false, p.clone()), Op::Run, Op::Write(r.chance(1, 2), p.clone(), c, false), Op::Run, Op::Run];
        }
        1 => {
            class = "directed:repeated-conflict";
            let p = paths[1].to_string();
            let (c1, c2) = (pool[1].clone(), pool[2].clone());
            ops = vec![Op::Write(true, p.clone(), c1.clone(), false), Op::Write(false, p.clone(), c2.clone(), false), Op::Run, Op::Write(true, p.clone(), c1.clone(), false), Op::Write(false, p.clone(), c2.clone(), false), Op::Run, Op::Run];
        }
        3 => {
            // the conflict copy produced by an earlier run is edited, then the same conflict (same losing content) repeats
            class = "directed:edited-conflict-copy";
            let p = paths[0].to_string();
            let mut cs: Vec<Vec<u8>> = vec![pool[1].clone(), pool[2].clone(), pool[3].clone()];
            cs.sort_by_key(|c| h32(c));
            let (lo, mid, hi) = (cs[0].clone(), cs[1].clone(), cs[2].clone());
            // 1st conflict: lo vs mid -> lo loses, copy at q; then q is edited; 2nd conflict: lo vs hi -> lo loses AGAIN, same q
            let q = format!("{}.conflict-vphost-{}", p, &hex(&h32(&lo))[..12]);
            a.clear();
            b.clear();
            // the edit is of another length, or (half of the time) of exactly the loser's length; half of the time a run
            // in between carries the edit to both sides, so that the copy itself is not part of the second plan
            let edit: Vec<u8> = if r.chance(1, 2) { b"edited by the user".to_vec() } else { lo.iter().map(|x| x ^ 0x15).collect() };
            ops = vec![Op::Write(true, p.clone(), lo.clone(), false), Op::Write(false, p.clone(), mid.clone(), false), Op::Run,
                       Op::Write(r.chance(1, 2), q, edit, false)];
            if r.chance(1, 2) { ops.push(Op::Run); }
            // (not for names so long that a doubled conflict suffix plus the staging suffix exceeds NAME_MAX: the tool then
            // stops with ENAMETOOLONG, which the model does not have)
            if (force.is_some() || r.chance(1, 3)) && p.rsplit('/').next().unwrap_or("").len() <= 150 {
                // ... or the conflict COPY itself becomes the scene of the next conflict: its edit is synced, then one side
                // edits it again while the other side puts the original loser back - the new loser needs a name of its own
                // (the conflict name of a conflict name), whichever of the two loses
                let q2 = format!("{}.conflict-vphost-{}", p, &hex(&h32(&lo))[..12]);
                // (half of the time the second edit is chosen so that its digest is GREATER than the original loser's: the
                // original loser loses again, and the name it has to go to is derived from a path that already carries its hash)
                let want_greater = match force { Some((_, v)) => v == 1, None => r.chance(1, 2) };
                let e1: Vec<u8> = (0x2au8..0x6a).map(|k| lo.iter().rev().map(|x| x ^ k).collect::<Vec<u8>>())
                    .find(|c| (h32(c) > h32(&lo)) == want_greater).unwrap_or_else(|| lo.iter().rev().map(|x| x ^ 0x2a).collect());
                let side = r.chance(1, 2);
                if !matches!(ops.last(), Some(Op::Run)) { ops.push(Op::Run); }
                ops.extend(vec![Op::Write(side, q2.clone(), e1, false), Op::Write(!side, q2, lo.clone(), false), Op::Run, Op::Run]);
            } else {
            ops.extend(vec![Op::Write(true, p.clone(), lo.clone(), false), Op::Write(false, p.clone(), hi.clone(), false), Op::Run, Op::Run]);
            }
        }
        4 => {
            // one side is edited to other bytes of the same length and carries the opposite side's exact mtime
            class = "directed:same-size-edit-with-peer-mtime";
            let p = paths[2].to_string();
            let side = r.chance(1, 2);
            a.remove(&p);
            b.remove(&p);
            ops = vec![Op::Write(true, p.clone(), pool[1].clone(), false), Op::Run, Op::Write(side, p.clone(), pool[2].clone(), true), Op::Run, Op::Run,
                       Op::Write(!side, p.clone(), pool[1].clone(), true), Op::Run, Op::Run];
        }
        5 => {
            // a completed run, an edit, a run stopped by an I/O fault at a random call, then plain runs: what the failed run
            // recorded (if anything) must not make a later run lose the edit
            class = "directed:io-fault-then-rerun";
            let p = paths[1].to_string();
            let side = r.chance(1, 2);
            a.remove(&p);
            b.remove(&p);
            ops = vec![Op::Write(true, p.clone(), pool[1].clone(), false), Op::Run, Op::Write(side, p.clone(), pool[3].clone(), false),
                       Op::RunFault(1 + r.below(10) as u32), Op::Run, Op::Run];
        }
        6 => {
            // the same name is a directory on one side and becomes a file on the other, with new and edited files under
            // the directory: whatever the run does (it refuses), nothing may be lost
            class = "directed:file-vs-directory";
            a.clear();
            b.clear();
            let side = r.chance(1, 2);
            ops = vec![Op::Write(true, "d/h".into(), pool[1].clone(), false), Op::Write(true, "d/k".into(), pool[2].clone(), false), Op::Run,
                       Op::Write(side, "d".into(), pool[3].clone(), false), Op::Write(!side, "d/h".into(), pool[3].clone(), false), Op::Write(!side, "d/new".into(), pool[1].clone(), false),
                       Op::Run, Op::Run];
        }
        2 => {
            class = "directed:fault-first";
            ops.push(Op::Run);
            for _ in 0..3 {
                let p = r.pick(paths).to_string();
                if r.chance(1, 2) { ops.push(Op::Write(r.chance(1, 2), p, r.pick(pool).clone(), false)); } else { ops.push(Op::Delete(r.chance(1, 2), p)); }
            }
            ops.push(Op::Fault(r.below(9) as u8));
            ops.push(Op::Run);
            ops.push(Op::Run);
        }
        _ => {
            class = "random";
            let n = 3 + r.below(10);
            for _ in 0..n {
                match r.below(10) {
                    0..=3 => { if r.chance(1, 12) { ops.push(Op::RunFault(1 + r.below(14) as u32)) } else { ops.push(Op::Run) } }
                    4..=6 => { let pm = r.chance(1, 3); ops.push(Op::Write(r.chance(1, 2), r.pick(paths).to_string(), r.pick(pool).clone(), pm)) }
                    7 | 8 => ops.push(Op::Delete(r.chance(1, 2), r.pick(paths).to_string())),
                    _ => ops.push(Op::Fault(r.below(9) as u8)),
                }
            }
            ops.push(Op::Run);
        }
    }
    (a, b, ops, class)
}

pub fn main(a: Args) -> i32 {
    let mut out = Out::new(&a.out);
    let copia = a.rest.iter().position(|x| x == "--copia").map(|i| a.rest[i + 1].clone()).expect("--copia");
    let absout = std::fs::canonicalize(&a.out).unwrap().to_string_lossy().into_owned();
    let mut env = Env::new(&copia, &format!("{}/bi", absout));
    env.shim = a.rest.iter().position(|x| x == "--shim").map(|i| a.rest[i + 1].clone());
    let mut r = Rng::new(a.seed ^ 0xC02);
    let pool: Vec<Vec<u8>> = vec![b"".to_vec(), b"one".to_vec(), b"two".to_vec(), b"three".to_vec(), vec![0x41; if a.tier == "thorough" { 70000 } else { 40 }]];
    let paths = ["f", "g", "d/h", "d/k"];
    let n = if a.tier == "thorough" { 1500 } else { 190 };
    let hists: Vec<(Tree, Tree, Vec<Op>, &'static str)> = if let Some(p) = &a.replay {
        std::fs::read_to_string(p).unwrap().lines().filter(|l| !l.trim().is_empty() && !l.starts_with('#')).map(|l| { let (x, y, o) = parse_case(l); (x, y, o, "replay") }).collect()
    } else {
        // one history in three lives on names where byte order and path-component order disagree: siblings of the directory
        // `d/` whose names are `d` followed by a byte below '/' (`d-y`, `d.x` sort BEFORE `d/h` as strings, AFTER it as paths)
        let paths2 = ["d.x", "d-y", "d/h", "d/k"];
        // and one in three on four paths drawn from the pool of hostile names (util::hostile_paths)
        (0..n).map(|i| {
            // the first 78 histories: every class on every kind of path pool, twice (variant 0 / 1)
            let force = if i < 78 { Some(((i as u64 / 3) % 13, i as u64 / 39)) } else { None };
            if i % 3 == 1 {
                let hp = hostile_paths(&mut r, 4);
                let hp: Vec<&str> = hp.iter().map(|x| x.as_str()).collect();
                if hp.len() == 4 { return gen_history(&mut r, &pool, &hp, force); }
            }
            gen_history(&mut r, &pool, if i % 3 == 2 { &paths2 } else { &paths }, force)
        }).collect()
    };
    let mut nfail = 0u64;
    let mut distinct = std::collections::HashSet::new();
    if a.replay.is_none() {
        let (n, fails) = archive_fault_enum(&env, &mut r, a.tier == "thorough");
        out.add("archive_load_fault_cases", n);
        for f in fails {
            nfail += 1;
            out.line("specfail.txt", &f);
        }
        // a FOREIGN archive that is foreign only in bytes that are not valid UTF-8: two directory pairs whose canonical
        // paths differ in one byte of a Latin-1 directory name.  The pair that has never been synced must run in the
        // safe no-base mode, whatever the other pair recorded (oracle-only: the model's pair identity is abstract)
        let fails = non_utf8_twin_pairs(&env);
        out.add("non_utf8_twin_pair_runs", 1);
        for f in fails {
            nfail += 1;
            out.line("specfail.txt", &f);
        }
    }
    for (id, (ia, ib, ops, class)) in hists.iter().enumerate() {
        let res = run_history(id, &env, ia, ib, ops, &mut r, id % 4 == 0);
        if res.oracle_only {
            out.line("cases-oracle.txt", &res.case_line);
            out.count("oracle_only_histories");
        } else {
            out.line("cases.txt", &res.case_line);
            out.line("impl.txt", &res.impl_line);
        }
        out.count("histories");
        out.count(&format!("class_{}", class));
        out.add("operations", ops.len() as u64);
        out.add("bisync_runs", res.runs as u64);
        out.add("runs_with_conflicts", res.conflicts as u64);
        if res.runs >= 2 {
            distinct.insert(res.case_line.splitn(2, ' ').nth(1).unwrap_or("").to_string());
        }
        if id % 23 == 4 {
            let mut s = format!("{}: {}", class, res.case_line.split(" HOST=").nth(1).unwrap_or(""));
            s.truncate(400);
            out.sample(s);
        }
        for f in res.fails {
            nfail += 1;
            out.line("specfail.txt", &f);
        }
    }
    let _ = std::fs::remove_dir_all(&env.dir);
    out.add("distinct_nontrivial", distinct.len() as u64);
    out.add("spec_failures", nfail);
    out.finish();
    0
}
