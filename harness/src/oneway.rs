//! C04 / C14 / C15: real `copia sync -r SRC DST` in all three directions (push / pull through the ssh
//! stand-in), on generated source/destination trees with hostile names, all per-file destination states,
//! flag sets over --delete / --exclude / --jobs / --dry-run. Per case: a dry run, the real run, a second run.
//!
//! cases.txt: `<id> SRC=<p:c:m;..> DST=<..> EX=<pat>,.. DEL=<0|1> DRY=<0|1> ORDER=- FAIL=-`
//! impl.txt:  `<id> KIND=.. EXIT=.. T=<transfer> S=<skipped> D=<delete> SENT=.. FAILED=.. DST=<p=c@m,..>`
use crate::hubctl::snapshot;
use crate::util::*;
use std::collections::BTreeMap;
use std::process::Command;

type Tree = BTreeMap<String, (Vec<u8>, i64)>;

fn read_tree(root: &str) -> Tree {
    let mut t = Tree::new();
    for (p, c) in snapshot(root) {
        // a name that is not valid UTF-8 (only the tool under test can have created it) is kept under its lossy spelling
        // with mtime -1: it then shows up as a file nobody planned
        let secs = std::fs::metadata(format!("{}/{}", root, p)).ok().and_then(|md| md.modified().ok()).and_then(|m| m.duration_since(std::time::UNIX_EPOCH).ok()).map(|d| d.as_secs() as i64).unwrap_or(-1);
        t.insert(p, (c, secs));
    }
    t
}

fn write_tree(root: &str, t: &[(String, Vec<u8>, i64, u32)]) {
    let _ = std::fs::remove_dir_all(root);
    std::fs::create_dir_all(root).unwrap();
    for (p, c, secs, nanos) in t {
        let full = format!("{}/{}", root, p);
        std::fs::create_dir_all(std::path::Path::new(&full).parent().unwrap()).unwrap();
        std::fs::write(&full, c).unwrap();
        let f = std::fs::File::options().write(true).open(&full).unwrap();
        f.set_modified(std::time::UNIX_EPOCH + std::time::Duration::new(*secs as u64, *nanos)).unwrap();
    }
}

fn case_tree(t: &Tree) -> String {
    if t.is_empty() { "-".into() } else { t.iter().map(|(p, (c, m))| format!("{}:{}:{}", hex(p.as_bytes()), hex(c), m)).collect::<Vec<_>>().join(";") }
}
fn out_tree(t: &Tree) -> String {
    // same order as the model prints: PathBuf order
    let mut v: Vec<(std::path::PathBuf, String)> = t.iter().map(|(p, (c, m))| (std::path::PathBuf::from(p), format!("{}={}@{}", hex(p.as_bytes()), hex(c), m))).collect();
    v.sort();
    if v.is_empty() { "-".into() } else { v.into_iter().map(|x| x.1).collect::<Vec<_>>().join(",") }
}

pub struct RunObs {
    pub code: Option<i32>,
    pub stdout: String,
    pub stderr: String,
}

pub struct Ctx {
    pub copia: String,
    pub standin: String,
    pub bindir: String,
}

pub fn run_sync(cx: &Ctx, args: &[String], envs: &[(&str, String)]) -> RunObs {
    let path = format!("{}:{}:{}", cx.standin, cx.bindir, std::env::var("PATH").unwrap_or_default());
    let mut c = Command::new(&cx.copia);
    c.arg("sync").arg("-r").args(args).env("PATH", path);
    for (k, v) in envs {
        c.env(k, v);
    }
    let o = c.output().unwrap();
    RunObs { code: o.status.code(), stdout: String::from_utf8_lossy(&o.stdout).into_owned(), stderr: String::from_utf8_lossy(&o.stderr).into_owned() }
}

fn nums(s: &str) -> Vec<i64> {
    s.split(|c: char| !c.is_ascii_digit()).filter(|x| !x.is_empty()).filter_map(|x| x.parse().ok()).collect()
}

struct Parsed {
    kind: &'static str,
    plan: Option<(i64, i64, i64)>,
    complete: Option<(i64, i64, i64, i64)>,
    sends: Vec<String>,
    deletes: Vec<String>,
}

fn parse(o: &RunObs, names: &std::collections::BTreeSet<String>) -> Parsed {
    let mut p = Parsed { kind: "RAN", plan: None, complete: None, sends: vec![], deletes: vec![] };
    for l in o.stderr.lines() {
        if let Some(r) = l.strip_prefix("Plan: ") {
            let n = nums(r);
            if n.len() >= 3 { p.plan = Some((n[0], n[1], n[2])); }
        }
        if l.starts_with("No files found") { p.kind = "NOFILES"; }
    }
    // dry-run lines may contain newlines in names: split on the exact prefixes
    let so = &o.stdout;
    if so.contains("(dry run) nothing was modified") { p.kind = "DRYRUN"; }
    if so.contains("Already up to date") { p.kind = "UPTODATE"; }
    for l in so.lines() {
        if let Some(r) = l.strip_prefix("Complete: ") {
            let n = nums(r);
            if n.len() >= 4 { p.complete = Some((n[0], n[1], n[2], n[3])); }
        }
    }
    if p.kind == "DRYRUN" {
        // records are `send   <name>\n` / `delete <name>\n`; a name may itself contain (or end in) newlines, so records are
        // recognised against the names that exist in the two trees (longest first), never by splitting on newlines
        let body = so.split("(dry run) nothing was modified").next().unwrap_or("");
        let mut known: Vec<&String> = names.iter().collect();
        known.sort_by_key(|n| std::cmp::Reverse(n.len()));
        let mut i = 0usize;
        while i < body.len() {
            let rest = &body[i..];
            let rec = if let Some(r) = rest.strip_prefix("send   ") { Some((true, r)) } else if let Some(r) = rest.strip_prefix("delete ") { Some((false, r)) } else { None };
            let mut adv = None;
            if let Some((is_send, r)) = rec {
                if let Some(n) = known.iter().find(|n| r.starts_with(n.as_str()) && r[n.len()..].starts_with('\n')) {
                    if is_send { p.sends.push((*n).clone()) } else { p.deletes.push((*n).clone()) }
                    adv = Some(7 + n.len() + 1);
                } else {
                    // a name that exists in neither tree: keep the line as printed so that the comparison fails visibly
                    let l = r.split('\n').next().unwrap_or("").to_string();
                    adv = Some(7 + l.len() + 1);
                    if is_send { p.sends.push(l) } else { p.deletes.push(l) }
                }
            }
            i += adv.unwrap_or_else(|| rest.find('\n').map(|x| x + 1).unwrap_or(rest.len()));
        }
    }
    p
}

fn gen_name(r: &mut Rng) -> String {
    let hostile = ["a", "b", "x y", "it's", "q\"d", "b\\s", "$HOME", "st*r", "wh?t", "[br]", "new\nline", "-dash", "ünï", ".hid", "a.b", "*", "c*d", "é", "日.b", "trail ", "nl\n", " lead", "tab\tx", "x\nb", "t\t1", "r\rEf", "e\x1b[0m"];
    r.pick(&hostile).to_string()
}

fn gen_path(r: &mut Rng) -> String {
    let depth = r.below(3);
    let mut parts = vec![];
    for _ in 0..depth { parts.push(gen_name(r)); }
    parts.push(gen_name(r));
    parts.join("/")
}

pub fn main(a: Args) -> i32 {
    let mut out = Out::new(&a.out);
    let copia = a.rest.iter().position(|x| x == "--copia").map(|i| a.rest[i + 1].clone()).expect("--copia");
    let standin = a.rest.iter().position(|x| x == "--standin").map(|i| a.rest[i + 1].clone()).expect("--standin");
    let absout = std::fs::canonicalize(&a.out).unwrap().to_string_lossy().into_owned();
    let bindir = format!("{}/bin", absout);
    std::fs::create_dir_all(&bindir).unwrap();
    let _ = std::os::unix::fs::symlink(&copia, format!("{}/copia", bindir));
    let cx = Ctx { copia, standin, bindir };
    let mut r = Rng::new(a.seed ^ 0xC04);
    let n = if a.tier == "thorough" { 2500 } else { 250 };
    let srcd = format!("{}/S", absout);
    let dstd = format!("{}/D r", absout); // a space in the destination root
    // big contents: one long run of a byte, and contents with zero-filled 64 KiB blocks at the end / start / everywhere
    // (lengths that are exact multiples of the copy buffer sizes a delivery routine would use)
    let mut zero_tail: Vec<u8> = (0..65536u32).map(|i| (i.wrapping_mul(2654435761) >> 13) as u8 | 1).collect();
    zero_tail.extend(std::iter::repeat(0u8).take(65536));
    let mut zero_head: Vec<u8> = vec![0u8; 65536];
    zero_head.extend((0..8192u32).map(|i| (i.wrapping_mul(40503) >> 5) as u8 | 1));
    let pool: Vec<Vec<u8>> = vec![b"".to_vec(), b"x".to_vec(), b"hello".to_vec(), b"HELLO".to_vec(), vec![7u8; 1000], vec![9u8; 300_000], zero_tail, vec![0u8; 131_072], zero_head];
    let mtimes: [(i64, u32); 8] = [(0, 0), (1, 1), (1_000_000_000, 500_000_000), (1_000_000_000, 999_999_999), (2_147_483_647, 0), (2_147_483_648, 1), (4_294_967_297, 0), (1_700_000_000, 0)];
    let pats = ["*", "*.b", "a", "x y", "st*r", "wh?t", "?", "a/*", "*/a", "it's", "[br]", ".*", "c?d", "new*", "-dash", "?.b", "ün?", "??"];
    let mut nfail = 0u64;
    let mut distinct = std::collections::HashSet::new();
    let mut id = 0usize;
    let replay_lines: Vec<String> = a.replay.as_ref().map(|p| std::fs::read_to_string(p).unwrap().lines().filter(|l| !l.trim().is_empty() && !l.starts_with('#')).map(|s| s.to_string()).collect()).unwrap_or_default();
    let main_lines: Vec<String> = replay_lines.iter().filter(|l| !l.contains(" CLASH=1")).cloned().collect();
    let total = if a.replay.is_some() { main_lines.len() } else { n };
    for it in 0..total {
        // ---- generate
        let mut src: Vec<(String, Vec<u8>, i64, u32)> = vec![];
        let mut dst: Vec<(String, Vec<u8>, i64, u32)> = vec![];
        let nfiles = r.below(7) as usize;
        let mut used: Vec<String> = vec![];
        let clash = |p: &String, used: &Vec<String>| used.iter().any(|q| q == p || q.starts_with(&format!("{}/", p)) || p.starts_with(&format!("{}/", q)));
        for _ in 0..nfiles {
            let p = gen_path(&mut r);
            if clash(&p, &used) || p.ends_with(".copia-tmp") { continue; }
            used.push(p.clone());
            let big = (r.below(8) == 0) as usize;
            let c = if big == 1 && r.chance(1, 2) { r.pick(&pool[5..]).clone() } else { r.pick(&pool[..5 + big]).clone() };
            let (s, ns) = *r.pick(&mtimes);
            src.push((p.clone(), c.clone(), s, ns));
            match r.below(5) {
                0 => {}                                              // absent
                1 => { let mut c2 = c.clone(); if let Some(b) = c2.first_mut() { *b ^= 0x20; } dst.push((p, c2, s, 0)); }  // same size + mtime (maybe other bytes)
                2 => { let mut c2 = c.clone(); c2.push(b'!'); dst.push((p, c2, s, 0)); }                                   // different size
                3 => {
                    // different mtime (newer or older), same size; half of the time other bytes (an in-place, length-preserving edit)
                    let mut c2 = c.clone();
                    if r.chance(1, 2) { if let Some(b) = c2.last_mut() { *b ^= 0x01; } }
                    let d = 1 + r.below(1000) as i64;
                    let m2 = if r.chance(1, 2) && s - d >= 0 { s - d } else { s + d };
                    dst.push((p, c2, m2, 0));
                }
                _ => dst.push((p, c.clone(), s, 0)),                                                                      // identical
            }
        }
        for _ in 0..r.below(3) {
            let p = gen_path(&mut r);
            if clash(&p, &used) || p.ends_with(".copia-tmp") { continue; }
            used.push(p.clone());
            dst.push((p, r.pick(&pool[..5]).clone(), 1_600_000_000, 0));   // destination-only
        }
        let mut del = r.chance(1, 2);
        let nex = if r.chance(1, 2) { 0 } else { 1 + r.below(2) as usize };
        let mut excludes: Vec<String> = (0..nex).map(|_| r.pick(&pats).to_string()).collect();
        // every pattern of the list counts, in any order: one list in three starts with a whole-path pattern (it contains
        // `/`) that matches nothing, followed by a pattern that matches an existing name
        if r.chance(1, 3) {
            let mut l = vec!["zz/*.none".to_string()];
            if let Some((p, _, _, _)) = src.first().or(dst.first()) {
                l.push(p.rsplit('/').next().unwrap_or(p).to_string());
            }
            l.extend(excludes.drain(..).take(1));
            excludes = l;
        }
        // one list in eight: a pattern containing `/` that names an existing DIRECTORY of the trees (the parent of a nested
        // file, literally or with its first component as `*`): it matches whole relative paths only, so it excludes nothing
        // beneath that directory - on either side, in any direction
        if r.chance(1, 8) {
            let nested: Vec<&String> = src.iter().map(|x| &x.0).chain(dst.iter().map(|x| &x.0)).filter(|p| p.matches('/').count() >= 2).collect();
            if !nested.is_empty() {
                let p = (*r.pick(&nested)).clone();
                let parent = p.rsplitn(2, '/').nth(1).unwrap_or("").to_string();
                if !parent.is_empty() && !parent.contains('*') && !parent.contains('?') {
                    let pat = if r.chance(1, 2) { parent.clone() } else { format!("*/{}", parent.splitn(2, '/').nth(1).unwrap_or("")) };
                    if pat.contains('/') && !pat.ends_with('/') { excludes.push(pat); }
                }
            }
        }
        // `any positive job count`: also counts beyond 32 bits (people write a huge number to mean `unlimited`)
        let jobs = *r.pick(&[1usize, 2, 4, 16, 3, 1 << 32, (1 << 32) + 2]);
        let mut dir = r.below(3); // 0 local, 1 push, 2 pull
        if a.replay.is_none() && (it == 3 || it == 4) {
            // directed: --delete of many stale files with long names (quoted, the whole list is far beyond the 128 KiB
            // a single exec argument may have; as a NUL list it is several pipe buffers long), push and pull
            del = true;
            dir = if it == 3 { 1 } else { 2 };
            excludes.clear();
            for i in 0..(if a.tier == "thorough" { 2500 } else { 760 }) {
                let p = format!("stale dir/{:04} {}", i, "n".repeat(180));
                if !clash(&p, &used) { used.push(p.clone()); dst.push((p, b"s".to_vec(), 1_600_000_000, 0)); }
            }
        }
        if a.replay.is_some() {
            // `<id> SRC=.. DST=.. EX=.. DEL=.. [DIR=local|push|pull]`
            src.clear(); dst.clear(); excludes.clear();
            let tree = |v: &str| -> Vec<(String, Vec<u8>, i64, u32)> {
                if v == "-" { return vec![]; }
                v.split(';').map(|e| { let f: Vec<&str> = e.split(':').collect(); (String::from_utf8_lossy(&unhex(f[0])).into_owned(), unhex(f[1]), f[2].parse().unwrap(), 0u32) }).collect()
            };
            for f in main_lines[it].split_whitespace().skip(1) {
                if let Some((k, v)) = f.split_once('=') {
                    match k {
                        "SRC" => src = tree(v),
                        "DST" => dst = tree(v),
                        "EX" if v != "-" => excludes = v.split(',').map(|x| String::from_utf8_lossy(&unhex(x)).into_owned()).collect(),
                        "DEL" => del = v == "1",
                        "DIR" => dir = match v { "push" => 1, "pull" => 2, _ => 0 },
                        _ => {}
                    }
                }
            }
        }
        if a.replay.is_none() && (5..=7).contains(&it) {
            // directed: a pattern containing `/` that is exactly the path of a DIRECTORY present on both sides with identical
            // files beneath it (one more file differs elsewhere): the pattern excludes nothing, and nothing under that
            // directory is sent - not in the first run and not in the second
            dir = (it - 5) as u64;
            del = it == 6;
            src.clear(); dst.clear();
            for (p, c) in [("build/out/a.o", &pool[2]), ("build/out/deep/b.o", &pool[3]), ("build/keep.txt", &pool[1])] {
                src.push((p.to_string(), c.clone(), 1_650_000_000, 0));
                dst.push((p.to_string(), c.clone(), 1_650_000_000, 0));
            }
            src.push(("changed.txt".to_string(), pool[2].clone(), 1_650_000_100, 0));
            dst.push(("changed.txt".to_string(), pool[3].clone(), 1_650_000_000, 0));
            excludes = vec![if it == 7 { "*/out".to_string() } else { "build/out".to_string() }];
        }
        if a.replay.is_none() && it >= 8 && it % 20 == 9 {
            // directed: a list of RELATED patterns (one matches the other's text; `?` where the other has `*`), in either
            // order, with names matched by only one of the two, on both sides: every pattern of the list counts
            let pairs = [("?.b", "*.b"), ("a?c", "a*c"), ("?", "*"), ("???", "a*c"), ("*.b", "q.b"), ("d/?", "d/*"), ("?.b", "*"), ("?.b", "ün?"), ("??", "?")];
            let (p1, p2) = *r.pick(&pairs);
            excludes = if r.chance(1, 2) { vec![p1.to_string(), p2.to_string()] } else { vec![p2.to_string(), p1.to_string()] };
            src.clear(); dst.clear();
            // (`?` stands for one CHARACTER: names where it has to cover a non-ASCII one)
            for (i, p) in ["q.b", "xy.b", "sub/long.b", "abc", "abbc", "ac", "d/x", "d/xy", "keep", "z", "é.b", "ünz", "é", "sub/ß.b"].iter().enumerate() {
                let c = r.pick(&pool[..5]).clone();
                match (i + it / 20) % 4 {
                    0 => src.push((p.to_string(), c, 1_650_000_000, 0)),
                    1 => dst.push((p.to_string(), c, 1_650_000_000, 0)),
                    2 => { src.push((p.to_string(), c.clone(), 1_650_000_100, 0)); dst.push((p.to_string(), c, 1_650_000_000, 0)); }
                    _ => { src.push((p.to_string(), c.clone(), 1_650_000_000, 0)); dst.push((p.to_string(), c, 1_650_000_000, 0)); }
                }
            }
        }
        if a.replay.is_none() && it >= 8 && it % 20 == 13 {
            // directed: a directory next to entries named like it plus a byte below `/` (`lib/` and `lib.rs`, `data/` and
            // `data-old/`), with a key on one side only that sorts last inside the directory: PathBuf order compares
            // component by component, not byte by byte
            excludes = if r.chance(1, 2) { vec!["*.tmp".to_string()] } else { vec![] };
            src.clear(); dst.clear();
            for p in ["lib/a.rs", "lib.rs", "lib-x/q", "data/k", "data-old/k", "data.d", "lib/m.tmp"] {
                let c = r.pick(&pool[..5]).clone();
                src.push((p.to_string(), c.clone(), 1_650_000_000, 0));
                if !p.ends_with(".tmp") { dst.push((p.to_string(), c, 1_650_000_000, 0)); }
            }
            if r.chance(1, 2) { dst.push(("lib/zz-old.rs".to_string(), pool[1].clone(), 1_600_000_000, 0)); } else { src.push(("data/zz new".to_string(), pool[2].clone(), 1_650_000_000, 0)); }
        }
        let verbose = r.chance(1, 4);
        write_tree(&srcd, &src);
        write_tree(&dstd, &dst);
        let src_before = read_tree(&srcd);
        let dst_before = read_tree(&dstd);
        let (sarg, darg) = match dir {
            0 => (srcd.clone(), dstd.clone()),
            1 => (srcd.clone(), format!("hosty:{}", dstd)),
            _ => (format!("hosty:{}", srcd), dstd.clone()),
        };
        let mut args: Vec<String> = vec![];
        if del { args.push("--delete".into()); }
        for e in &excludes { args.push(format!("--exclude={}", e)); }
        args.push("--jobs".into()); args.push(jobs.to_string());
        if verbose { args.push("--verbose".into()); }
        let ex_str = if excludes.is_empty() { "-".to_string() } else { excludes.iter().map(|e| hex(e.as_bytes())).collect::<Vec<_>>().join(",") };
        let dirname = ["local", "push", "pull"][dir as usize];
        let case = |dry: bool, s: &Tree, d: &Tree| format!("SRC={} DST={} EX={} DEL={} DRY={} ORDER=- FAIL=- DIR={}", case_tree(s), case_tree(d), ex_str, del as u8, dry as u8, dirname);
        let hl = |v: &Vec<String>| if v.is_empty() { "-".to_string() } else { v.iter().map(|p| hex(p.as_bytes())).collect::<Vec<_>>().join(",") };
        let class = format!("{}:{}{}", ["local", "push", "pull"][dir as usize], if del { "delete" } else { "nodelete" }, if excludes.is_empty() { "" } else { ":exclude" });
        // ---- 1. dry run
        let mut dargs = args.clone(); dargs.push("-n".into()); dargs.push(sarg.clone()); dargs.push(darg.clone());
        let o1 = run_sync(&cx, &dargs, &[]);
        let names: std::collections::BTreeSet<String> = src_before.keys().chain(dst_before.keys()).cloned().collect();
        let p1 = parse(&o1, &names);
        if read_tree(&srcd) != src_before || read_tree(&dstd) != dst_before {
            nfail += 1;
            out.line("specfail.txt", &format!("{} C15 --dry-run changed a tree ({})", id, class));
        }
        out.line("cases.txt", &format!("{} {}", id, case(true, &src_before, &dst_before)));
        let (t1, s1, d1) = p1.plan.map(|(t, s, d)| (t, s, d)).unwrap_or((0, 0, 0));
        let _ = (t1, d1);
        out.line("impl.txt", &format!("{} KIND={} EXIT={} T={} S={} D={} SENT=0 FAILED=0 DST={}", id, p1.kind, if o1.code == Some(0) { 0 } else { 1 },
            if p1.kind == "DRYRUN" { hl(&p1.sends) } else { "-".into() }, s1, if p1.kind == "DRYRUN" { hl(&p1.deletes) } else { "-".into() }, out_tree(&dst_before)));
        id += 1;
        // ---- 2. the real run
        let mut rargs = args.clone(); rargs.push(sarg.clone()); rargs.push(darg.clone());
        let o2 = run_sync(&cx, &rargs, &[]);
        let p2 = parse(&o2, &names);
        let dst_after = read_tree(&dstd);
        let src_after = read_tree(&srcd);
        let (sent, failed) = p2.complete.map(|c| (c.0, c.3)).unwrap_or((0, 0));
        // the real run does not print the plan lists: take them from the dry run (C15: they must be what it does)
        out.line("cases.txt", &format!("{} {}", id, case(false, &src_before, &dst_before)));
        out.line("impl.txt", &format!("{} KIND={} EXIT={} T={} S={} D={} SENT={} FAILED={} DST={}", id, p2.kind, if o2.code == Some(0) { 0 } else { 1 },
            hl(&p1.sends), p2.plan.map(|x| x.1).unwrap_or(0), hl(&p1.deletes), sent, failed, out_tree(&dst_after)));
        out.count("cases");
        out.count(&format!("class_{}", class));
        out.count(&format!("kind_{}", p2.kind));
        out.count(&format!("jobs_{}", jobs));
        if !p1.sends.is_empty() && p2.plan.map(|x| x.1 > 0).unwrap_or(false) {
            distinct.insert(case(false, &src_before, &dst_before));
        }
        // ---- oracles on the implementation (independent of the model)
        let exs: Vec<String> = excludes.clone();
        // C15's wording of the wildcard semantics (an independent definition, NOT the implementation's matcher)
        let is_ex = |p: &String| crate::c19::excluded_spec(p, &exs);
        if src_after != src_before {
            nfail += 1;
            out.line("specfail.txt", &format!("{} C04 the source tree was modified ({})", id, class));
        }
        if o2.code == Some(0) {
            for (p, (c, m)) in &src_before {
                if is_ex(p) { continue; }
                let need = match dst_before.get(p) { None => true, Some((dc, dm)) => dc.len() != c.len() || dm != m };
                if need {
                    if dst_after.get(p) != Some(&(c.clone(), *m)) {
                        nfail += 1;
                        out.line("specfail.txt", &format!("{} C04 exit 0 but {:?} is not at the destination with the source's bytes and whole-second mtime ({})", id, p, class));
                    }
                } else if dst_after.get(p) != dst_before.get(p) {
                    nfail += 1;
                    out.line("specfail.txt", &format!("{} C04 a file the quick check matched was touched: {:?} ({})", id, p, class));
                }
            }
            for (p, v) in &dst_before {
                if src_before.contains_key(p) && !is_ex(p) { continue; }
                let should_go = del && !src_before.contains_key(p) && !is_ex(p);
                if should_go && dst_after.contains_key(p) {
                    nfail += 1;
                    out.line("specfail.txt", &format!("{} C04 --delete did not remove {:?} ({})", id, p, class));
                }
                if !should_go && dst_after.get(p) != Some(v) {
                    nfail += 1;
                    let tag = if is_ex(p) { "C15 an excluded destination file" } else if !del { "C15 without --delete a destination file" } else { "C04 a destination file outside the plan" };
                    out.line("specfail.txt", &format!("{} {} was removed or modified: {:?} ({})", id, tag, p, class));
                }
            }
            for p in dst_after.keys() {
                if !dst_before.contains_key(p) && (!src_before.contains_key(p) || is_ex(p)) {
                    nfail += 1;
                    out.line("specfail.txt", &format!("{} C04 a file outside the plan was created: {:?} ({})", id, p, class));
                }
                if p.ends_with(".copia-tmp") {
                    nfail += 1;
                    out.line("specfail.txt", &format!("{} C04 a staging file remains: {:?}", id, p));
                }
            }
            // C15: the dry run's printed actions are what the real run did
            let did_send: Vec<String> = src_before.iter().filter(|(p, v)| !is_ex(p) && dst_after.get(*p) == Some(v) && dst_before.get(*p) != Some(v)).map(|(p, _)| p.clone()).collect();
            let mut printed = p1.sends.clone(); printed.sort();
            let mut did = did_send.clone(); did.sort();
            if p1.kind == "DRYRUN" && !did.iter().all(|p| printed.contains(p)) {
                nfail += 1;
                out.line("specfail.txt", &format!("{} C15 the real run sent {:?} but the dry run printed {:?}", id, did, printed));
            }
            // ---- 3. C14: the same command again is a no-op
            let o3 = run_sync(&cx, &rargs, &[]);
            let p3 = parse(&o3, &names);
            let again_dst = read_tree(&dstd);
            let quiet = p3.kind == "UPTODATE" || p3.kind == "NOFILES" || p3.plan.map(|x| x.0 == 0 && x.2 == 0).unwrap_or(false);
            if !quiet || again_dst != dst_after || read_tree(&srcd) != src_before || o3.code != Some(0) {
                nfail += 1;
                out.line("specfail.txt", &format!("{} C14 an immediate second run was not a no-op: kind {} plan {:?} exit {:?} ({})", id, p3.kind, p3.plan, o3.code, class));
            }
            out.count("second_runs");
        } else {
            nfail += 1;
            out.line("specfail.txt", &format!("{} C04 run failed: exit {:?} stderr {} ({})", id, o2.code, o2.stderr.lines().last().unwrap_or(""), class));
        }
        if id % 29 == 3 {
            let mut smp = format!("{} jobs={} ex={:?}: src={:?} dst={:?} -> {} sent", class, jobs, excludes, src_before.keys().collect::<Vec<_>>(), dst_before.keys().collect::<Vec<_>>(), sent);
            smp.truncate(400);
            out.sample(smp);
        }
        id += 1;
    }
    // ---- file-vs-directory clashes between the two trees (both are trees of regular files): checked by the oracles only -
    // the flat-path model has no such states.  Whatever the run does with the clashing path (it fails that delivery),
    // nothing outside the plan may be touched: without --delete nothing is removed, excluded files stay, the source is
    // never modified, a dry run changes nothing (C04 last sentence, C15).
    if a.replay.is_none() || replay_lines.iter().any(|l| l.contains(" CLASH=1")) {
        let nclash = if a.replay.is_some() { 0 } else if a.tier == "thorough" { 120 } else { 18 };
        let mut scen: Vec<(Vec<(String, Vec<u8>, i64, u32)>, Vec<(String, Vec<u8>, i64, u32)>, Vec<String>, bool, u64)> = vec![];
        for l in replay_lines.iter().filter(|l| l.contains(" CLASH=1")) {
            let tree = |v: &str| -> Vec<(String, Vec<u8>, i64, u32)> {
                if v == "-" { return vec![]; }
                v.split(';').map(|e| { let f: Vec<&str> = e.split(':').collect(); (String::from_utf8_lossy(&unhex(f[0])).into_owned(), unhex(f[1]), f[2].parse().unwrap(), 0u32) }).collect()
            };
            let (mut s_, mut d_, mut ex_, mut del_, mut dir_) = (vec![], vec![], vec![], false, 0u64);
            for f in l.split_whitespace().skip(1) {
                if let Some((k, v)) = f.split_once('=') {
                    match k {
                        "SRC" => s_ = tree(v),
                        "DST" => d_ = tree(v),
                        "EX" if v != "-" => ex_ = v.split(',').map(|x| String::from_utf8_lossy(&unhex(x)).into_owned()).collect(),
                        "DEL" => del_ = v == "1",
                        "DIR" => dir_ = match v { "push" => 1, "pull" => 2, _ => 0 },
                        _ => {}
                    }
                }
            }
            scen.push((s_, d_, ex_, del_, dir_));
        }
        for k in 0..nclash {
            let t = 1_600_000_000i64 + k as i64;
            let body = |r: &mut Rng| r.pick(&pool[1..5]).clone();
            let (s_, d_) = if k % 2 == 0 {
                // a regular file in the source where the destination has a non-empty directory
                (vec![("notes".to_string(), body(&mut r), t, 0u32), ("keep.txt".to_string(), body(&mut r), t, 0)],
                 vec![("notes/cache.log".to_string(), body(&mut r), t - 5, 0u32), ("notes/old.txt".to_string(), body(&mut r), t - 7, 0), ("other".to_string(), body(&mut r), t - 9, 0)])
            } else {
                // a directory in the source where the destination has a regular file
                (vec![("d/x".to_string(), body(&mut r), t, 0u32), ("d/sub/y".to_string(), body(&mut r), t, 0), ("keep.txt".to_string(), body(&mut r), t, 0)],
                 vec![("d".to_string(), body(&mut r), t - 5, 0u32), ("other".to_string(), body(&mut r), t - 9, 0)])
            };
            let ex_: Vec<String> = match k % 3 { 0 => vec![], 1 => vec!["*.log".to_string()], _ => vec!["other".to_string()] };
            scen.push((s_, d_, ex_, k % 4 == 3, (k as u64 / 2) % 3));
        }
        for (src, dst, excludes, del, dir) in scen {
            write_tree(&srcd, &src);
            write_tree(&dstd, &dst);
            let src_before = read_tree(&srcd);
            let dst_before = read_tree(&dstd);
            let (sarg, darg) = match dir {
                0 => (srcd.clone(), dstd.clone()),
                1 => (srcd.clone(), format!("hosty:{}", dstd)),
                _ => (format!("hosty:{}", srcd), dstd.clone()),
            };
            let mut args: Vec<String> = vec![];
            if del { args.push("--delete".into()); }
            for e in &excludes { args.push(format!("--exclude={}", e)); }
            let ex_str = if excludes.is_empty() { "-".to_string() } else { excludes.iter().map(|e| hex(e.as_bytes())).collect::<Vec<_>>().join(",") };
            let dirname = ["local", "push", "pull"][dir as usize];
            out.line("cases-oracle.txt", &format!("{} SRC={} DST={} EX={} DEL={} DRY=0 ORDER=- FAIL=- DIR={} CLASH=1", id, case_tree(&src_before), case_tree(&dst_before), ex_str, del as u8, dirname));
            let class = format!("clash:{}:{}", dirname, if del { "delete" } else { "nodelete" });
            let mut dargs = args.clone(); dargs.push("-n".into()); dargs.push(sarg.clone()); dargs.push(darg.clone());
            let _o1 = run_sync(&cx, &dargs, &[]);
            if read_tree(&srcd) != src_before || read_tree(&dstd) != dst_before {
                nfail += 1;
                out.line("specfail.txt", &format!("{} C15 --dry-run changed a tree ({})", id, class));
            }
            let mut rargs = args.clone(); rargs.push(sarg.clone()); rargs.push(darg.clone());
            let o2 = run_sync(&cx, &rargs, &[]);
            let dst_after = read_tree(&dstd);
            if read_tree(&srcd) != src_before {
                nfail += 1;
                out.line("specfail.txt", &format!("{} C04 the source tree was modified ({})", id, class));
            }
            let exs = excludes.clone();
            let is_ex = |p: &String| crate::c19::excluded_spec(p, &exs);
            for (p, v) in &dst_before {
                if src_before.contains_key(p) && !is_ex(p) { continue; }            // a planned transfer may replace it
                let may_go = del && !src_before.contains_key(p) && !is_ex(p);
                if !may_go && dst_after.get(p) != Some(v) {
                    nfail += 1;
                    let tag = if is_ex(p) { "C15 an excluded destination file" } else if !del { "C15 without --delete a destination file" } else { "C04 a destination file outside the plan" };
                    out.line("specfail.txt", &format!("{} {} was removed or modified: {:?} (exit {:?}, {})", id, tag, p, o2.code, class));
                }
            }
            out.count("clash_scenarios");
            out.count(&format!("class_{}", class));
            id += 1;
        }
    }
    let _ = std::fs::remove_dir_all(&srcd);
    let _ = std::fs::remove_dir_all(&dstd);
    let _ = std::fs::remove_dir_all(&cx.bindir);
    out.add("distinct_nontrivial", distinct.len() as u64);
    out.add("spec_failures", nfail);
    out.finish();
    0
}
