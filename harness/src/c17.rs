//! C17: drive both public rolling-checksum types through generated histories.
//!
//! Files written to --out:
//!   cases.txt  `<id> <window hex> <ops>`        ops = (P|R)<2 hex digits>*
//!   impl.txt   `<id> <i>:<rcD>,<rcA>,<rcB>,<rcL>,<frcD>,<frcL>;...`  (checkpoints)
//!   spec.txt   same shape, from exact integer sums (the definition)
//!   specfail.txt  `<id> <op index> <which> impl=<..> spec=<..>` first op where impl != definition
use crate::util::*;
use copia::{FastRollingChecksum, RollingChecksum};

const M: i128 = 65521;

pub fn is_checkpoint(i: usize, total: usize) -> bool {
    i == 0 || i == total || total <= 64 || i % 997 == 0
}

struct Exact {
    w: std::collections::VecDeque<u8>,
    a: i128,
    b: i128,
}

impl Exact {
    fn new(d: &[u8]) -> Self {
        let n = d.len() as i128;
        let mut a = 0i128;
        let mut b = 0i128;
        for (i, &x) in d.iter().enumerate() {
            a += x as i128;
            b += (n - i as i128) * x as i128;
        }
        Exact { w: d.iter().copied().collect(), a, b }
    }
    fn push(&mut self, x: u8) {
        self.w.push_back(x);
        self.a += x as i128;
        self.b += self.a;
    }
    fn roll(&mut self, x: u8) -> u8 {
        let n = self.w.len() as i128;
        let old = self.w.pop_front().unwrap();
        self.w.push_back(x);
        self.a = self.a - old as i128 + x as i128;
        self.b = self.b - n * old as i128 + self.a;
        old
    }
    fn scratch(&self) -> (i128, i128) {
        let v: Vec<u8> = self.w.iter().copied().collect();
        let e = Exact::new(&v);
        (e.a, e.b)
    }
    fn digest(&self) -> u32 {
        ((((self.b % M) as u32) << 16) | ((self.a % M) as u32)) as u32
    }
}

#[derive(Clone, Copy)]
enum Law {
    Uniform,
    AllFF,
    All00,
    High,
    Ramp,
    Single,
    /// uniform bytes adjusted so that the byte sum is congruent to a small value mod 65521 (both reduced sums can then
    /// be small at the same time: the corner where a subtraction biased by a multiple of the modulus can go negative)
    Aligned,
}

fn gen_bytes(r: &mut Rng, law: Law, n: usize) -> Vec<u8> {
    match law {
        Law::Uniform => r.bytes(n),
        Law::AllFF => vec![0xFF; n],
        Law::All00 => vec![0; n],
        Law::High => (0..n).map(|_| 0xE0 + (r.byte() & 0x1F)).collect(),
        Law::Ramp => (0..n).map(|i| (i % 256) as u8).collect(),
        Law::Aligned => {
            let mut v = r.bytes(n);
            if n * 255 >= 2 * 65521 {
                let target = r.below(40) as i64;
                let sum: i64 = v.iter().map(|&x| x as i64).sum();
                // lower bytes until the sum is congruent to `target`
                let mut excess = (sum - target).rem_euclid(65521);
                let mut i = n;
                while excess > 0 && i > 0 {
                    i -= 1;
                    let take = (v[i] as i64).min(excess);
                    v[i] -= take as u8;
                    excess -= take;
                }
            }
            v
        }
        Law::Single => {
            let mut v = vec![0u8; n];
            if n > 0 {
                let i = r.below(n as u64) as usize;
                v[i] = 1 + (r.byte() % 255);
            }
            v
        }
    }
}

pub struct Case {
    pub id: usize,
    pub win: Vec<u8>,
    pub ops: Vec<(bool, u8)>, // (is_roll, byte)
}

pub fn parse_case(line: &str) -> Case {
    let mut it = line.split_whitespace();
    let id = it.next().unwrap().parse().unwrap();
    let win = unhex(it.next().unwrap());
    let o = it.next().unwrap_or("");
    let ob = o.as_bytes();
    let mut ops = vec![];
    let mut i = 0;
    while i + 3 <= ob.len() {
        let b = u8::from_str_radix(&o[i + 1..i + 3], 16).unwrap();
        ops.push((ob[i] == b'R', b));
        i += 3;
    }
    Case { id, win, ops }
}

fn fmt_case(c: &Case) -> String {
    let mut s = format!("{} {} ", c.id, hex(&c.win));
    if c.ops.is_empty() {
        s.push('-');
    }
    for (r, b) in &c.ops {
        s.push(if *r { 'R' } else { 'P' });
        s.push_str(&format!("{:02x}", b));
    }
    s
}

/// Run one case on the implementation; returns (impl line, spec line, first failure).
pub fn run_case(c: &Case) -> (String, String, Option<String>) {
    let total = c.ops.len();
    let mut ex = Exact::new(&c.win);
    let mut impl_s = format!("{} ", c.id);
    let mut spec_s = format!("{} ", c.id);
    let mut fail: Option<String> = None;
    let win = c.win.clone();
    let res = catch(move || (RollingChecksum::new(&win), FastRollingChecksum::new(&win)));
    let (mut rc, mut frc) = match res {
        Ok(x) => x,
        Err(m) => {
            impl_s.push_str("0:PANIC");
            spec_s.push_str("0:nopanic");
            return (impl_s, spec_s, Some(format!("{} 0 panic-in-new {}", c.id, m)));
        }
    };
    let mut i = 0usize;
    loop {
        // observe
        let obs = (rc.digest(), rc.sum_a(), rc.sum_b(), rc.len(), frc.digest(), frc.len());
        let sd = ex.digest();
        let (sa, sb, sl) = ((ex.a % M) as u32, (ex.b % M) as u32, ex.w.len());
        if fail.is_none() && sl >= 1 && sl <= 65536 {
            if obs.0 != sd || obs.1 != sa || obs.2 != sb || obs.3 != sl {
                fail = Some(format!(
                    "{} {} RollingChecksum impl={:08x},{},{},{} spec={:08x},{},{},{}",
                    c.id, i, obs.0, obs.1, obs.2, obs.3, sd, sa, sb, sl
                ));
            } else if obs.4 != sd || obs.5 != sl {
                fail = Some(format!(
                    "{} {} FastRollingChecksum impl={:08x},{} spec={:08x},{}",
                    c.id, i, obs.4, obs.5, sd, sl
                ));
            }
        }
        if is_checkpoint(i, total) {
            if i == total || i % 9970 == 0 {
                let (a2, b2) = ex.scratch();
                assert!(a2 == ex.a && b2 == ex.b, "oracle self-check failed");
            }
            impl_s.push_str(&format!("{}:{},{},{},{},{},{};", i, obs.0, obs.1, obs.2, obs.3, obs.4, obs.5));
            spec_s.push_str(&format!("{}:{},{},{},{},{},{};", i, sd, sa, sb, sl, sd, sl));
        }
        if i == total {
            break;
        }
        let (is_roll, b) = c.ops[i];
        let r = if is_roll {
            let old = ex.roll(b);
            let (mut rc2, mut frc2) = (rc, frc);
            catch(move || {
                rc2.roll(old, b);
                frc2.roll(old, b);
                (rc2, frc2)
            })
        } else {
            ex.push(b);
            let (mut rc2, mut frc2) = (rc, frc);
            catch(move || {
                rc2.push(b);
                frc2.push(b);
                (rc2, frc2)
            })
        };
        i += 1;
        match r {
            Ok((a, b2)) => {
                rc = a;
                frc = b2;
            }
            Err(m) => {
                impl_s.push_str(&format!("{}:PANIC;", i));
                spec_s.push_str(&format!("{}:nopanic;", i));
                if fail.is_none() {
                    fail = Some(format!("{} {} panic {}", c.id, i, m));
                }
                break;
            }
        }
    }
    (impl_s, spec_s, fail)
}


/// Oracle-only soak: tens of millions of slides of a constant window (far beyond what the model run can replay);
/// returns the first slide index at which a digest differs from the definition.
fn soak(winlen: usize, byte: u8, rolls: u64) -> Option<(u64, String)> {
    let w = vec![byte; winlen];
    let mut ex = Exact::new(&w);
    let r = catch(move || {
        let mut rc = RollingChecksum::new(&w);
        let mut frc = FastRollingChecksum::new(&w);
        for i in 1..=rolls {
            ex.roll(byte);
            rc.roll(byte, byte);
            frc.roll(byte, byte);
            // the window is constant, so the definition's digest is constant too
            if i % 4096 == 0 || i == rolls || i < 16 {
                let sd = ex.digest();
                if rc.digest() != sd {
                    return Some((i, format!("RollingChecksum impl={:08x} spec={:08x}", rc.digest(), sd)));
                }
                if frc.digest() != sd {
                    return Some((i, format!("FastRollingChecksum impl={:08x} spec={:08x}", frc.digest(), sd)));
                }
            }
        }
        None
    });
    match r {
        Ok(x) => x,
        Err(m) => Some((0, format!("panic {}", m))),
    }
}

pub fn generate(seed: u64, tier: &str) -> Vec<Case> {
    let mut r = Rng::new(seed ^ 0xC17);
    let thorough = tier == "thorough";
    let ncases = if thorough { 12000 } else { 1500 };
    let lens: [usize; 18] = [1, 2, 3, 255, 256, 257, 512, 4096, 4999, 5000, 5001, 8192, 65520, 65521, 65522, 65530, 65535, 65536];
    let laws = [Law::Uniform, Law::AllFF, Law::All00, Law::High, Law::Ramp, Law::Single, Law::Aligned];
    let mut budget: i64 = if thorough { 60_000_000 } else { 2_500_000 };
    let mut cases = vec![];
    for id in 0..ncases {
        let law = laws[id % laws.len()];
        let big = id % 25 == 0;
        let len = if big {
            *r.pick(&lens)
        } else if r.chance(1, 3) {
            r.range(1, 64) as usize
        } else if r.chance(1, 2) {
            r.range(65, 2048) as usize
        } else {
            *r.pick(&lens[..7])
        };
        let kind = if id % 50 == 7 { 6 } else if id % 50 == 13 { 7 } else { r.below(6) };
        let (win, ops): (Vec<u8>, Vec<(bool, u8)>) = match kind {
            // a window grown by appends from (almost) nothing to hundreds of times its initial length, then slid for
            // thousands of steps with large outgoing bytes: state that is fixed at construction and not refreshed by
            // `push` (a cached multiple of the length, a capacity) is stale by then
            7 => {
                let seed_len = *r.pick(&[0usize, 1, 2, 8]);
                let w = gen_bytes(&mut r, Law::High, seed_len);
                let grow = *r.pick(&[300usize, 2048, 4000]);
                let slides = if thorough { 9000 } else { 5600 };
                let mut ops: Vec<(bool, u8)> = gen_bytes(&mut r, Law::High, grow).into_iter().map(|b| (false, b)).collect();
                ops.extend(gen_bytes(&mut r, Law::High, slides).into_iter().map(|b| (true, b)));
                (w, ops)
            }
            // periodic stream over a window at / just above the modulus: every slide pushes back the byte it drops, so the
            // byte sum keeps its (small) residue while the weighted sum moves - thousands of slides in the corner above
            6 => {
                let n = *r.pick(&[65521usize, 65522, 65529, 65535, 65536, 65536, 40000, 5000]);
                let w = gen_bytes(&mut r, Law::Aligned, n);
                let k = if thorough { 12000 } else { 3000 };
                let ops = (0..k).map(|i| (true, w[i % n])).collect();
                (w, ops)
            }
            // push-grown from empty
            0 => {
                let n = len.min(6000);
                (vec![], gen_bytes(&mut r, law, n).into_iter().map(|b| (false, b)).collect())
            }
            // new + short rolls
            1 => {
                let k = r.range(1, 40) as usize;
                (gen_bytes(&mut r, law, len), gen_bytes(&mut r, law, k).into_iter().map(|b| (true, b)).collect())
            }
            // new + rolls around the normalisation interval
            2 => {
                let k = *r.pick(&[4999usize, 5000, 5001, 10001, 15003]);
                (gen_bytes(&mut r, law, len), gen_bytes(&mut r, law, k).into_iter().map(|b| (true, b)).collect())
            }
            // > 20000 slides
            3 if big || id % 40 == 3 => {
                let k = r.range(20001, 26000) as usize;
                (gen_bytes(&mut r, law, len), gen_bytes(&mut r, law, k).into_iter().map(|b| (true, b)).collect())
            }
            // mixed push/roll
            4 => {
                let k = r.range(10, 6000) as usize;
                let w = gen_bytes(&mut r, law, len.min(60000));
                let bs = gen_bytes(&mut r, law, k);
                let mut cur = w.len();
                let ops = bs
                    .into_iter()
                    .map(|b| {
                        let roll = cur >= 1 && (cur >= 65536 || r.chance(2, 3));
                        if !roll {
                            cur += 1;
                        }
                        (roll, b)
                    })
                    .collect();
                (w, ops)
            }
            // new only / few pushes
            _ => {
                let k = r.below(4) as usize;
                let l = len.min(65536 - k);
                (gen_bytes(&mut r, law, l), gen_bytes(&mut r, law, k).into_iter().map(|b| (false, b)).collect())
            }
        };
        budget -= (ops.len() + win.len() / 8) as i64;
        cases.push(Case { id, win, ops });
        if budget < 0 {
            break;
        }
    }
    cases
}

pub fn main(a: Args) -> i32 {
    let mut out = Out::new(&a.out);
    let cases: Vec<Case> = if let Some(p) = &a.replay {
        std::fs::read_to_string(p).unwrap().lines().filter(|l| !l.trim().is_empty() && !l.starts_with('#')).map(parse_case).collect()
    } else {
        generate(a.seed, &a.tier)
    };
    let mut nfail = 0;
    for c in &cases {
        let line = fmt_case(c);
        out.line("cases.txt", &line);
        let (i, s, f) = run_case(c);
        out.line("impl.txt", &i);
        out.line("spec.txt", &s);
        out.count("histories");
        out.add("operations", c.ops.len() as u64);
        out.count(&format!("window_len_bucket_{}", match c.win.len() { 0 => "0", 1..=64 => "1-64", 65..=4096 => "65-4096", 4097..=65534 => "4097-65534", _ => "65535-65536" }));
        out.count(&format!("ops_bucket_{}", match c.ops.len() { 0..=4 => "0-4", 5..=100 => "5-100", 101..=4998 => "101-4998", 4999..=20000 => "4999-20000", _ => ">20000" }));
        let rolls = c.ops.iter().filter(|o| o.0).count();
        out.add("rolls", rolls as u64);
        out.add("pushes", (c.ops.len() - rolls) as u64);
        if c.id % 211 == 5 && line.len() < 300 {
            out.sample(line.clone());
        }
        if let Some(f) = f {
            nfail += 1;
            out.line("specfail.txt", &f);
        }
    }
    if a.replay.is_none() {
        let rolls: u64 = if a.tier == "thorough" { 400_000_000 } else { 60_000_000 };
        for (k, (wl, b)) in [(65536usize, 0xFFu8), (1usize, 0xFFu8), (4096usize, 0x01u8)].iter().enumerate() {
            out.line("soak.txt", &format!("soak{} window={}x{:02x} slides={}", k, wl, b, rolls));
            out.add("soak_slides", rolls);
            if let Some((i, what)) = soak(*wl, *b, rolls) {
                nfail += 1;
                out.line("specfail.txt", &format!("soak{} {} {} (window of {} bytes {:#04x}, roll({:#04x},{:#04x}) repeated; first checked failure at slide {})", k, i, what, wl, b, b, b, i));
            }
        }
    }
    out.add("spec_failures", nfail);
    out.finish();
    0
}
