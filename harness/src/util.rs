//! Shared helpers: one PRNG (SplitMix64), hex, output files, stats.
#![allow(dead_code)]
use std::collections::BTreeMap;
use std::fmt::Write as _;
use std::io::Write;

#[derive(Clone)]
pub struct Rng(pub u64);

impl Rng {
    pub fn new(seed: u64) -> Self {
        Rng(seed.wrapping_mul(0x9E37_79B9_7F4A_7C15) ^ 0xD1B5_4A32_D192_ED03)
    }
    pub fn next(&mut self) -> u64 {
        self.0 = self.0.wrapping_add(0x9E37_79B9_7F4A_7C15);
        let mut z = self.0;
        z = (z ^ (z >> 30)).wrapping_mul(0xBF58_476D_1CE4_E5B9);
        z = (z ^ (z >> 27)).wrapping_mul(0x94D0_49BB_1331_11EB);
        z ^ (z >> 31)
    }
    pub fn below(&mut self, n: u64) -> u64 {
        if n == 0 {
            0
        } else {
            self.next() % n
        }
    }
    pub fn range(&mut self, lo: u64, hi: u64) -> u64 {
        lo + self.below(hi - lo + 1)
    }
    pub fn byte(&mut self) -> u8 {
        (self.next() >> 24) as u8
    }
    pub fn chance(&mut self, num: u64, den: u64) -> bool {
        self.below(den) < num
    }
    pub fn pick<'a, T>(&mut self, xs: &'a [T]) -> &'a T {
        &xs[self.below(xs.len() as u64) as usize]
    }
    pub fn bytes(&mut self, n: usize) -> Vec<u8> {
        (0..n).map(|_| self.byte()).collect()
    }
}

pub fn hex(b: &[u8]) -> String {
    let mut s = String::with_capacity(b.len() * 2);
    for x in b {
        let _ = write!(s, "{:02x}", x);
    }
    if s.is_empty() {
        s.push('-');
    }
    s
}

pub fn unhex(s: &str) -> Vec<u8> {
    if s == "-" {
        return vec![];
    }
    (0..s.len() / 2).map(|i| u8::from_str_radix(&s[2 * i..2 * i + 2], 16).unwrap()).collect()
}

/// seconds one in-flight case may take before the watchdog ends the process
pub const WATCHDOG_SECS: u64 = 60;
static WATCH: std::sync::Mutex<Option<std::time::Instant>> = std::sync::Mutex::new(None);

pub struct Out {
    pub dir: String,
    files: BTreeMap<String, std::io::BufWriter<std::fs::File>>,
    pub stats: BTreeMap<String, u64>,
    pub samples: Vec<String>,
}

impl Out {
    pub fn new(dir: &str) -> Self {
        let _ = std::fs::remove_dir_all(dir);
        std::fs::create_dir_all(dir).unwrap();
        Out { dir: dir.to_string(), files: BTreeMap::new(), stats: BTreeMap::new(), samples: vec![] }
    }
    pub fn line(&mut self, file: &str, line: &str) {
        let dir = self.dir.clone();
        let f = self.files.entry(file.to_string()).or_insert_with(|| {
            std::io::BufWriter::new(std::fs::File::create(format!("{}/{}", dir, file)).unwrap())
        });
        // one record per line: a panic message or a file name inside a record may contain newlines
        let one = if line.contains('\n') || line.contains('\r') { line.replace(['\n', '\r'], " ") } else { line.to_string() };
        f.write_all(one.as_bytes()).unwrap();
        f.write_all(b"\n").unwrap();
    }
    /// Records the case that is about to be executed (unbuffered).  If the process dies inside the implementation
    /// (abort, allocation failure, stack overflow) the check reports this case as the failing input.
    pub fn inflight(&self, case_line: &str) {
        let _ = std::fs::write(format!("{}/inflight.txt", self.dir), case_line);
        // arm / re-arm the watchdog: a library call that never returns cannot be interrupted from inside, so a thread
        // ends the process (exit 97) when one case has been in flight for longer than the limit; the check then replays
        // the recorded case alone and reports it as the failing input (a hang)
        let mut g = WATCH.lock().unwrap_or_else(|e| e.into_inner());
        let first = g.is_none();
        *g = Some(std::time::Instant::now());
        drop(g);
        if first {
            std::thread::spawn(|| loop {
                std::thread::sleep(std::time::Duration::from_millis(500));
                let t = *WATCH.lock().unwrap_or_else(|e| e.into_inner());
                if let Some(t0) = t {
                    if t0.elapsed() > std::time::Duration::from_secs(WATCHDOG_SECS) {
                        eprintln!("watchdog: the case in flight did not return within {} s (hang)", WATCHDOG_SECS);
                        std::process::exit(97);
                    }
                }
            });
        }
    }
    /// the case in flight is over (no case is being timed until the next `inflight`)
    pub fn landed(&self) {
        *WATCH.lock().unwrap_or_else(|e| e.into_inner()) = None;
    }
    pub fn count(&mut self, key: &str) {
        *self.stats.entry(key.to_string()).or_insert(0) += 1;
    }
    pub fn add(&mut self, key: &str, n: u64) {
        *self.stats.entry(key.to_string()).or_insert(0) += n;
    }
    pub fn sample(&mut self, s: String) {
        if self.samples.len() < 8 {
            self.samples.push(s);
        }
    }
    pub fn finish(mut self) {
        for (_, f) in self.files.iter_mut() {
            f.flush().unwrap();
        }
        let mut s = String::from("{\n \"stats\": {");
        let mut first = true;
        for (k, v) in &self.stats {
            if !first {
                s.push(',');
            }
            first = false;
            let _ = write!(s, "\n  {:?}: {}", k, v);
        }
        s.push_str("\n },\n \"samples\": [");
        for (i, x) in self.samples.iter().enumerate() {
            if i > 0 {
                s.push(',');
            }
            let _ = write!(s, "\n  {:?}", x);
        }
        s.push_str("\n ]\n}\n");
        std::fs::write(format!("{}/stats.json", self.dir), s).unwrap();
        *WATCH.lock().unwrap_or_else(|e| e.into_inner()) = None;
        let _ = std::fs::remove_file(format!("{}/inflight.txt", self.dir));
    }
}

thread_local! {
    /// set while code under test runs inside `catch` (its panics are results, not harness failures)
    pub static IN_CATCH: std::cell::Cell<bool> = const { std::cell::Cell::new(false) };
}

/// Run `f`, mapping a panic to `Err(message)`.
pub fn catch<T>(f: impl FnOnce() -> T + std::panic::UnwindSafe) -> Result<T, String> {
    let prev = IN_CATCH.with(|c| c.replace(true));
    let r = std::panic::catch_unwind(f);
    IN_CATCH.with(|c| c.set(prev));
    r.map_err(|e| {
        if let Some(s) = e.downcast_ref::<&str>() {
            (*s).to_string()
        } else if let Some(s) = e.downcast_ref::<String>() {
            s.clone()
        } else {
            "panic".to_string()
        }
    })
}

pub struct Args {
    pub seed: u64,
    pub tier: String,
    pub out: String,
    pub replay: Option<String>,
    pub rest: Vec<String>,
}

pub fn parse_args(mut it: impl Iterator<Item = String>) -> Args {
    let mut a = Args { seed: 1, tier: "quick".into(), out: ".".into(), replay: None, rest: vec![] };
    while let Some(x) = it.next() {
        match x.as_str() {
            "--seed" => a.seed = it.next().unwrap().parse().unwrap(),
            "--tier" => a.tier = it.next().unwrap(),
            "--out" => a.out = it.next().unwrap(),
            "--replay" => a.replay = it.next(),
            _ => a.rest.push(x),
        }
    }
    a
}


/// Path components that have bitten a file-synchronisation tool before: spaces, quotes, shell and glob metacharacters,
/// backslashes, leading dashes and dots, names that start like the tool's own control names, multi-byte characters with
/// every ASCII prefix length (so that some character straddles any fixed byte offset), upper/lower twins, long names.
/// No '/', NUL, newline or tab (line-oriented plan output is parsed by the harnesses).
pub fn hostile_components() -> Vec<String> {
    let mut v: Vec<String> = ["f", "g", "a b", "it's", "say \"hi\"", "é", "日本", "a日本", "ab日本", "-dash", "--", "x*y", "q?", "[br]", "a\\b", "$HOME", "`id`", "a;b",
        "a..b", "..x", "x..", "...",        // two dots inside a NAME are not a parent-directory component
        ".hidden", ".copiarc", ".copia-hooks", "copia-tmp", "x.copia-tm", "conflict", "F", "G", "a.b", "a-b", "a+", "a,b", "~", "#x", "%41", "a&b", "(p)", "100%", "ü"]
        .iter().map(|s| s.to_string()).collect();
    v.push("n".repeat(200));
    v.push(format!("a{}", "é".repeat(100)));
    v.push("日".repeat(66));
    v
}

/// a set of `n` relative paths over `hostile_components`, with at most two directory levels, in which no path is a
/// directory prefix of another (trees of regular files); one path in three gets a sibling that differs from a
/// directory name only by a byte below '/' appended (`d/x` next to `d.y`, `d-z`, `d w`): byte order and path order differ
pub fn hostile_paths(r: &mut Rng, n: usize) -> Vec<String> {
    let comps = hostile_components();
    let mut out: Vec<String> = vec![];
    let clash = |p: &String, out: &Vec<String>| out.iter().any(|q| q == p || q.starts_with(&format!("{}/", p)) || p.starts_with(&format!("{}/", q)));
    let mut guard = 0;
    while out.len() < n && guard < 1000 {
        guard += 1;
        let p = match r.below(4) {
            0 | 1 => r.pick(&comps).clone(),
            2 => format!("{}/{}", r.pick(&comps[..30]), r.pick(&comps[..30])),
            _ => {
                // a sibling of an existing directory that differs by one low byte
                let dirs: Vec<String> = out.iter().filter_map(|q| q.split_once('/').map(|(d, _)| d.to_string())).collect();
                if dirs.is_empty() { format!("{}/{}", r.pick(&comps[..30]), r.pick(&comps[..30])) } else { format!("{}{}{}", r.pick(&dirs), r.pick(&[".", "-", " ", "+", "!"]), r.pick(&["x", "y", ""])) }
            }
        };
        // (a component that ends or starts with a blank is left to the one-way harness, whose plan parser copes with it)
        if p.is_empty() || p.len() > 240 || p.ends_with(".copia-tmp") || p.split('/').any(|c| c.starts_with(' ') || c.ends_with(' ')) || clash(&p, &out) { continue; }
        out.push(p);
    }
    out
}
