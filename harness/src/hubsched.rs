//! C03 / C10: N real `copia serve` processes on one root under the gate-mode shim; the harness is every
//! client and the scheduler. A scenario is run step by step; the trace is reduced to the model-level
//! case (essential steps only, actual chunking) and the observations (replies, tree after every event).
//!
//! cases.txt: `<id> T=<content hex>:<hex12>;... I=<phex>:<chex>;... P<i>=<req>,<req>... S=<ev>,<ev>,...`
//!   req  = `P:<phex>:<exp>:<decl chex>:<len>:<chunk>+<chunk>..` | `D:<phex>:<exp>` | `G:<phex>`
//!   exp  = `n` | `h<chex>`      chunk = hex or `-` (empty);  no chunks = `.`
//!   ev   = `s<i>` | `k<i>`
//! impl.txt:  `<id> R<i>=<reply>,.. ... F=<tree> N=<tree>;<tree>;...`   tree = `<phex>=<chex>,...` or `-`
use crate::cli::wire::{Request, MAGIC, VERSION};
use crate::hubctl::*;
use crate::util::*;
use std::collections::{BTreeMap, HashMap};

#[derive(Clone, Debug)]
pub enum Req {
    Put { path: String, exp: Option<Vec<u8>>, decl: Vec<u8>, len: u64, pieces: Vec<Vec<u8>> },
    Del { path: String, exp: Option<Vec<u8>> },
    Get { path: String },
}

#[derive(Clone, Debug)]
pub enum Pol {
    Step(usize),
    Kill(usize),
    /// advance proc until its PENDING gate is `call` (the gate itself is not released)
    Until(usize, String),
    /// like Until but takes at least one step first
    StepUntil(usize, String),
}

#[derive(Clone)]
pub struct Scenario {
    pub id: usize,
    pub init: Vec<(String, Vec<u8>)>,
    pub progs: Vec<Vec<Req>>,
    /// real-level policy: explicit list of (proc, kill?) decisions; when exhausted, round-robin to completion
    pub policy: Vec<Pol>,
    pub class: String,
    /// every server is pid 1 of its own pid namespace (servers in separate containers on one hub directory)
    pub pidns: bool,
    /// every server with an odd index is addressed with another SPELLING of each path (`./d/x`, `d//x`): the same file, another
    /// string - whatever the server keys on the string (a lock stripe, a cache) no longer coincides between the servers
    pub alias: bool,
}

fn h32(c: &[u8]) -> [u8; 32] {
    *blake3::hash(c).as_bytes()
}

pub struct RunResult {
    pub case_line: String,
    pub impl_line: String,
    pub fails: Vec<String>,
    pub estep_count: usize,
    pub real_steps: usize,
}

fn exp_str(e: &Option<Vec<u8>>) -> String {
    match e {
        None => "n".into(),
        Some(c) => format!("h{}", hex(c)),
    }
}

fn is_stage(p: &str) -> bool {
    p.ends_with(".copia-tmp")
}

fn tree_string(root: &str) -> String {
    let s = snapshot(root);
    let v: Vec<String> = s.iter().filter(|(p, _)| !p.starts_with(".copia/") && !is_stage(p)).map(|(p, c)| format!("{}={}", hex(p.as_bytes()), hex(c))).collect();
    if v.is_empty() {
        "-".into()
    } else {
        v.join(",")
    }
}

pub fn run_scenario(sc: &Scenario, workdir: &str, shim: &str, copia: &str) -> RunResult {
    let dir = format!("{}/s{}", workdir, sc.id);
    let _ = std::fs::remove_dir_all(&dir);
    std::fs::create_dir_all(&dir).unwrap();
    let root = format!("{}/HUB", dir);
    std::fs::create_dir_all(&root).unwrap();
    for (p, c) in &sc.init {
        let full = format!("{}/{}", root, p);
        if let Some(par) = std::path::Path::new(&full).parent() {
            std::fs::create_dir_all(par).unwrap();
        }
        std::fs::write(&full, c).unwrap();
    }
    let mut fails = vec![];
    let mut ctl = Ctl::new(&dir, shim, copia);
    ctl.pidns = sc.pidns;
    let n = sc.progs.len();
    let ids: Vec<String> = (0..n).map(|i| format!("p{}", i)).collect();
    // known contents -> for canonical hashes
    let mut known: HashMap<[u8; 32], Vec<u8>> = HashMap::new();
    for (_, c) in &sc.init {
        known.insert(h32(c), c.clone());
    }
    for pr in &sc.progs {
        for r in pr {
            match r {
                Req::Put { exp, decl, pieces, .. } => {
                    known.insert(h32(decl), decl.clone());
                    let body: Vec<u8> = pieces.concat();
                    known.insert(h32(&body), body);
                    if let Some(e) = exp {
                        known.insert(h32(e), e.clone());
                    }
                }
                Req::Del { exp: Some(e), .. } => {
                    known.insert(h32(e), e.clone());
                }
                _ => {}
            }
        }
    }
    // prologue: connect every server (magic + Hello), run to the idle read0 gate
    for id in &ids {
        ctl.spawn(id, &["serve", &root], &root, true, &[]);
        let mut hello = MAGIC.to_vec();
        hello.extend(frame(&Request::Hello { version: VERSION }));
        ctl.procs.get_mut(id).unwrap().input.push_back(hello);
        let mut guard = 0;
        loop {
            guard += 1;
            if guard > 200 || ctl.procs[id].exited {
                fails.push(format!("{} prologue of {} did not reach idle", sc.id, id));
                break;
            }
            let g = ctl.procs[id].gate.clone();
            match g {
                Some(g) if g.call == "read0" => {
                    if ctl.procs[id].input.is_empty() {
                        break;
                    }
                    ctl.feed(id);
                    ctl.advance(id);
                }
                Some(_) => {
                    ctl.advance(id);
                }
                None => break,
            }
        }
    }
    // main loop
    let mut next_req = vec![0usize; n];
    let mut in_flight = vec![false; n];
    let mut sent_count = vec![1usize; n]; // Hello already answered
    let mut locked = vec![false; n];
    let mut mutated_since_read = vec![false; n];
    let mut chunking: Vec<Vec<Vec<usize>>> = sc.progs.iter().map(|p| p.iter().map(|_| vec![]).collect()).collect();
    let mut events: Vec<String> = vec![];
    let mut inv_at: Vec<Vec<usize>> = vec![vec![]; n];
    let mut resp_at: Vec<Vec<usize>> = vec![vec![]; n];
    let mut snaps: Vec<String> = vec![];
    let mut real_steps = 0usize;
    let mut pol_src = sc.policy.clone().into_iter();
    let mut pending_until: Option<Pol> = None;
    let mut until_guard = 0usize;
    struct PolIter<'a> { src: &'a mut std::vec::IntoIter<Pol>, pending: &'a mut Option<Pol> }
    impl<'a> PolIter<'a> { fn next(&mut self) -> Option<Pol> { self.pending.take().or_else(|| self.src.next()) } }
    let mut rr = 0usize;
    let mut idle_rounds = 0;
    loop {
        if real_steps > 4000 {
            fails.push(format!("{} scenario did not terminate", sc.id));
            break;
        }
        let (i, killit) = match (PolIter { src: &mut pol_src, pending: &mut pending_until }).next() {
            Some(Pol::Step(i)) => (i, false),
            Some(Pol::Kill(i)) => (i, true),
            Some(Pol::StepUntil(i, call)) => {
                pending_until = Some(Pol::Until(i, call));
                (i, false)
            }
            Some(Pol::Until(i, call)) => {
                let at = ctl.procs[&ids[i % n]].gate.as_ref().map(|g| g.call == call).unwrap_or(false);
                if !at && !ctl.procs[&ids[i % n]].exited && until_guard < 400 {
                    until_guard += 1;
                    pending_until = Some(Pol::Until(i, call));
                    (i, false)
                } else {
                    until_guard = 0;
                    continue;
                }
            }
            None => {
                // drain: first non-exited process round-robin
                let mut pick = None;
                for k in 0..n {
                    let j = (rr + k) % n;
                    if !ctl.procs[&ids[j]].exited {
                        pick = Some(j);
                        break;
                    }
                }
                match pick {
                    Some(j) => {
                        rr = j + 1;
                        (j, false)
                    }
                    None => break,
                }
            }
        };
        let id = &ids[i % n];
        let i = i % n;
        if ctl.procs[id].exited {
            continue;
        }
        if ctl.procs[id].gate.is_none() {
            if !ctl.wait(id) {
                fails.push(format!("{} process {} stuck (not at a gate)", sc.id, id));
                break;
            }
            if ctl.procs[id].exited {
                continue;
            }
        }
        real_steps += 1;
        if killit {
            ctl.kill(id);
            events.push(format!("k{}", i));
            snaps.push(tree_string(&root));
            continue;
        }
        let g = ctl.procs[id].gate.clone().unwrap();
        if g.call == "read0" {
            if ctl.procs[id].input.is_empty() {
                if in_flight[i] {
                    // has the reply arrived? then the request is complete
                    let t0 = std::time::Instant::now();
                    loop {
                        let (rs, _) = parse_replies(&ctl.output(id));
                        if rs.len() > sent_count[i] {
                            sent_count[i] = rs.len();
                            in_flight[i] = false;
                            resp_at[i].push(events.len());
                            break;
                        }
                        if t0.elapsed() > std::time::Duration::from_millis(300) {
                            break;
                        }
                        std::thread::sleep(std::time::Duration::from_millis(5));
                    }
                }
                if !in_flight[i] && next_req[i] < sc.progs[i].len() {
                    let r = &sc.progs[i][next_req[i]];
                    let q = &mut ctl.procs.get_mut(id).unwrap().input;
                    // the spelling this server is addressed with (the model and the oracles use the canonical path)
                    let wire = |p: &String| -> String {
                        if !sc.alias || i % 2 == 0 { p.clone() } else if p.contains('/') && next_req[i] % 2 == 1 { p.replacen('/', "//", 1) } else { format!("./{}", p) }
                    };
                    let r = &match r {
                        Req::Put { path, exp, decl, len, pieces } => Req::Put { path: wire(path), exp: exp.clone(), decl: decl.clone(), len: *len, pieces: pieces.clone() },
                        Req::Del { path, exp } => Req::Del { path: wire(path), exp: exp.clone() },
                        Req::Get { path } => Req::Get { path: wire(path) },
                    };
                    match r {
                        Req::Put { path, exp, decl, len, pieces } => {
                            q.push_back(frame(&Request::Put { path: path.clone(), expected: exp.as_ref().map(|c| h32(c)), len: *len, hash: h32(decl) }));
                            for p in pieces {
                                if !p.is_empty() {
                                    q.push_back(p.clone());
                                }
                            }
                        }
                        Req::Del { path, exp } => q.push_back(frame(&Request::Delete { path: path.clone(), expected: exp.as_ref().map(|c| h32(c)) })),
                        Req::Get { path } => q.push_back(frame(&Request::Get { path: path.clone() })),
                    }
                    in_flight[i] = true;
                    next_req[i] += 1;
                    inv_at[i].push(events.len());
                }
                // input still empty: either the program is over or the server wants bytes the client never sends -> EOF
            }
            ctl.feed(id);
            ctl.advance(id);
            idle_rounds += 1;
            continue;
        }
        idle_rounds = 0;
        let _ = idle_rounds;
        ctl.advance(id);
        let next_call = ctl.procs[id].gate.as_ref().map(|g| g.call.clone()).unwrap_or_default();
        let cur_req = next_req[i].saturating_sub(1);
        let mut essential = false;
        match g.call.as_str() {
            "openw" if is_stage(&g.a) => essential = true,
            "write" if is_stage(&g.a) => {
                essential = true;
                if cur_req < chunking[i].len() {
                    chunking[i][cur_req].push(g.extra.parse().unwrap_or(0));
                }
            }
            "flock" => {
                if next_call != "flock-busy" {
                    essential = true;
                    locked[i] = true;
                    mutated_since_read[i] = false;
                }
            }
            "lstat" if locked[i] => essential = true,
            "rename" => {
                essential = true;
                mutated_since_read[i] = true;
            }
            "unlink" => {
                essential = true;
                mutated_since_read[i] = true;
            }
            "funlock" => {
                if locked[i] && !mutated_since_read[i] {
                    // a CAS that lost without any file-system call: the model's (effect-free) commit step
                    events.push(format!("s{}", i));
                    snaps.push(tree_string(&root));
                }
                essential = true;
                locked[i] = false;
            }
            "openr" if !locked[i] && !g.a.contains("/.copia/") => {
                if let Some(Req::Get { .. }) = sc.progs[i].get(cur_req) {
                    essential = true;
                }
            }
            _ => {}
        }
        if essential {
            events.push(format!("s{}", i));
            snaps.push(tree_string(&root));
        }
    }
    // replies
    let canon = |s: &str| -> String {
        // replace hex12 hashes by h(<content hex>) using the table of known contents
        let mut out = s.to_string();
        for (h, c) in &known {
            out = out.replace(&hex(&h[..6]), &format!("h{}", hex(c)));
        }
        out
    };
    let mut rline = String::new();
    for (i, id) in ids.iter().enumerate() {
        let (rs, _) = parse_replies(&ctl.output(id));
        let rs: Vec<String> = rs.iter().skip(1).map(|r| canon(r).replace("Error:content_hash_mismatch", "Error:mismatch").replace("Error:content_length_mismatch", "Error:mismatch")).collect();
        rline.push_str(&format!("R{}={} ", i, if rs.is_empty() { "-".to_string() } else { rs.join(",") }));
    }
    let final_tree = tree_string(&root);
    let ctl_out: Vec<Vec<u8>> = ids.iter().map(|id| ctl.output(id)).collect();
    ctl.shutdown();
    // ---- property oracles on the implementation (C10): every live content is initial or one verified Put's complete body
    let mut good: Vec<Vec<u8>> = sc.init.iter().map(|(_, c)| c.clone()).collect();
    for pr in &sc.progs {
        for r in pr {
            if let Req::Put { decl, len, pieces, .. } = r {
                let body = pieces.concat();
                if h32(&body) == h32(decl) && body.len() as u64 == *len {
                    good.push(body);
                }
            }
        }
    }
    for (k, snap) in snaps.iter().chain(std::iter::once(&final_tree)).enumerate() {
        if snap == "-" {
            continue;
        }
        for ent in snap.split(',') {
            let c = unhex(ent.split('=').nth(1).unwrap_or("-"));
            if !good.contains(&c) {
                fails.push(format!("{} C10 after event {} path {} holds bytes that are neither initial nor one verified write: {}", sc.id, k, String::from_utf8_lossy(&unhex(ent.split('=').next().unwrap())), hex(&c)));
                break;
            }
        }
    }
    if rline.contains("HASHBAD") || rline.contains("SHORT") {
        fails.push(format!("{} C10 a Get streamed bytes that do not match the length/hash it announced: {}", sc.id, rline));
    }
    // ---- C03 search oracle: is the observed history linearizable w.r.t. the CAS map?
    {
        let mut ops: Vec<LinOp> = vec![];
        for (i, id) in ids.iter().enumerate() {
            let (rs, _) = parse_replies(&ctl_out[i]);
            let rs: Vec<String> = rs.iter().skip(1).map(|r| canon(r).replace("Error:content_hash_mismatch", "Error:mismatch").replace("Error:content_length_mismatch", "Error:mismatch")).collect();
            let _ = id;
            for (k, inv) in inv_at[i].iter().enumerate() {
                let reply = rs.get(k).cloned();
                let resp = if reply.is_some() { resp_at[i].get(k).copied().unwrap_or(usize::MAX) } else { usize::MAX };
                ops.push(LinOp { req: sc.progs[i][k].clone(), reply, inv: *inv, resp });
            }
        }
        let init_map: BTreeMap<String, Vec<u8>> = sc.init.iter().cloned().collect();
        if ops.len() <= 7 && !linearizable(&init_map, &ops, &final_tree) {
            fails.push(format!("{} C03 observed history is not linearizable w.r.t. the compare-and-swap map: {}F={}", sc.id, rline, final_tree));
        }
    }
    // ---- case line for the model
    let mut table: BTreeMap<Vec<u8>, String> = BTreeMap::new();
    for (h, c) in &known {
        table.insert(c.clone(), hex(&h[..6]));
    }
    let t = table.iter().map(|(c, h)| format!("{}:{}", hex(c), h)).collect::<Vec<_>>().join(";");
    let init = if sc.init.is_empty() { "-".to_string() } else { sc.init.iter().map(|(p, c)| format!("{}:{}", hex(p.as_bytes()), hex(c))).collect::<Vec<_>>().join(";") };
    let mut progs = String::new();
    for (i, pr) in sc.progs.iter().enumerate() {
        let rs: Vec<String> = pr
            .iter()
            .enumerate()
            .map(|(k, r)| match r {
                Req::Put { path, exp, decl, len, pieces } => {
                    let body = pieces.concat();
                    let sizes = &chunking[i][k];
                    let chunks: Vec<String> = if sizes.iter().sum::<usize>() == body.len().min(*len as usize) && !sizes.is_empty() {
                        let mut pos = 0;
                        sizes.iter().map(|s| { let c = hex(&body[pos..pos + s]); pos += s; c }).collect()
                    } else if body.is_empty() || *len == 0 {
                        vec![]
                    } else {
                        pieces.iter().filter(|p| !p.is_empty()).map(|p| hex(p)).collect()
                    };
                    format!("P:{}:{}:{}:{}:{}", hex(path.as_bytes()), exp_str(exp), hex(decl), len, if chunks.is_empty() { ".".to_string() } else { chunks.join("+") })
                }
                Req::Del { path, exp } => format!("D:{}:{}", hex(path.as_bytes()), exp_str(exp)),
                Req::Get { path } => format!("G:{}", hex(path.as_bytes())),
            })
            .collect();
        progs.push_str(&format!("P{}={} ", i, if rs.is_empty() { "-".to_string() } else { rs.join(",") }));
    }
    let case_line = format!("{} T={} I={} {}S={}", sc.id, t, init, progs, if events.is_empty() { "-".to_string() } else { events.join(",") });
    let impl_line = format!("{} {}F={} N={}", sc.id, rline, final_tree, if snaps.is_empty() { "-".to_string() } else { snaps.join(";") });
    let _ = std::fs::remove_dir_all(&dir);
    RunResult { case_line, impl_line, fails, estep_count: events.len(), real_steps }
}



// ---------------- brute-force linearizability checker (search oracle for C03) ----------------
#[derive(Clone)]
pub struct LinOp {
    pub req: Req,
    pub reply: Option<String>,
    pub inv: usize,
    pub resp: usize,
}

fn hstr(c: &Option<Vec<u8>>) -> String {
    match c {
        Some(c) => format!("h{}", hex(c)),
        None => "none".into(),
    }
}

/// sequential CAS-map semantics; returns the canonical reply
fn spec_apply(m: &mut BTreeMap<String, Vec<u8>>, r: &Req) -> String {
    match r {
        Req::Put { path, exp, decl, len, pieces } => {
            let body = pieces.concat();
            if h32(&body) != h32(decl) || body.len() as u64 != *len {
                return "Error:mismatch".into();
            }
            let cur = m.get(path).cloned();
            if cur.as_ref().map(|c| h32(c)) == exp.as_ref().map(|c| h32(c)) {
                m.insert(path.clone(), body);
                format!("PutResult:true:h{}", hex(decl))
            } else {
                m.insert(format!("{}.conflict-{}", path, hex(&h32(decl)[..6])), body);
                format!("PutResult:false:{}", hstr(&cur))
            }
        }
        Req::Del { path, exp } => {
            let cur = m.get(path).cloned();
            if cur.as_ref().map(|c| h32(c)) == exp.as_ref().map(|c| h32(c)) {
                m.remove(path);
                "DeleteResult:true:none".into()
            } else {
                format!("DeleteResult:false:{}", hstr(&cur))
            }
        }
        Req::Get { path } => match m.get(path) {
            Some(c) => format!("Content:{}:h{}:HASHOK:{}", c.len(), hex(c), hex(c)),
            None => "Error:not_found".into(),
        },
    }
}

fn tree_of(m: &BTreeMap<String, Vec<u8>>) -> String {
    let mut v: Vec<(String, String)> = m.iter().map(|(p, c)| (p.clone(), format!("{}={}", hex(p.as_bytes()), hex(c)))).collect();
    v.sort();
    if v.is_empty() { "-".into() } else { v.into_iter().map(|x| x.1).collect::<Vec<_>>().join(",") }
}

pub fn linearizable(init: &BTreeMap<String, Vec<u8>>, ops: &[LinOp], final_tree: &str) -> bool {
    fn go(m: &BTreeMap<String, Vec<u8>>, ops: &[LinOp], done: &mut Vec<bool>, final_tree: &str) -> bool {
        // all completed ops placed?  (pending ops may stay out)
        if ops.iter().enumerate().all(|(k, o)| done[k] || o.reply.is_none()) && tree_of(m) == final_tree {
            return true;
        }
        for k in 0..ops.len() {
            if done[k] {
                continue;
            }
            // real-time: no undone completed op may have responded before this one was invoked
            if ops.iter().enumerate().any(|(j, o)| !done[j] && j != k && o.reply.is_some() && o.resp < ops[k].inv) {
                continue;
            }
            let mut m2 = m.clone();
            let rp = spec_apply(&mut m2, &ops[k].req);
            if let Some(obs) = &ops[k].reply {
                if obs.starts_with("Error:commit_failed") || obs.starts_with("Error:conflict-copy_failed") {
                    // an honestly reported failed rename (file/directory clash): the operation had no effect
                    m2 = m.clone();
                } else if *obs != rp {
                    continue;
                }
            }
            done[k] = true;
            if go(&m2, ops, done, final_tree) {
                return true;
            }
            done[k] = false;
        }
        false
    }
    let mut done = vec![false; ops.len()];
    go(init, ops, &mut done, final_tree)
}

// ---------------- scenario (de)serialisation: `<id> I=.. P0=.. P1=.. Y=<proc>[k],...` ----------------
pub fn fmt_scenario(sc: &Scenario) -> String {
    let init = if sc.init.is_empty() { "-".to_string() } else { sc.init.iter().map(|(p, c)| format!("{}:{}", hex(p.as_bytes()), hex(c))).collect::<Vec<_>>().join(";") };
    let mut progs = String::new();
    for (i, pr) in sc.progs.iter().enumerate() {
        let rs: Vec<String> = pr.iter().map(|r| match r {
            Req::Put { path, exp, decl, len, pieces } => format!("P:{}:{}:{}:{}:{}", hex(path.as_bytes()), exp_str(exp), hex(decl), len,
                if pieces.is_empty() { ".".to_string() } else { pieces.iter().map(|p| hex(p)).collect::<Vec<_>>().join("+") }),
            Req::Del { path, exp } => format!("D:{}:{}", hex(path.as_bytes()), exp_str(exp)),
            Req::Get { path } => format!("G:{}", hex(path.as_bytes())),
        }).collect();
        progs.push_str(&format!("P{}={} ", i, if rs.is_empty() { "-".to_string() } else { rs.join(",") }));
    }
    let pol = sc.policy.iter().map(|p| match p { Pol::Step(i) => format!("{}", i), Pol::Kill(i) => format!("{}k", i), Pol::Until(i, c) => format!("{}*{}", i, c), Pol::StepUntil(i, c) => format!("{}+{}", i, c) }).collect::<Vec<_>>().join(",");
    format!("{} I={} {}Y={}{}", sc.id, init, progs, if pol.is_empty() { "-".to_string() } else { pol }, if sc.pidns { " NS=1" } else { "" }) + if sc.alias { " AL=1" } else { "" }
}

fn parse_exp(s: &str) -> Option<Vec<u8>> {
    if s == "n" { None } else { Some(unhex(&s[1..])) }
}

pub fn parse_scenario(line: &str) -> Scenario {
    let mut it = line.split_whitespace();
    let id = it.next().unwrap().parse().unwrap();
    let mut sc = Scenario { id, init: vec![], progs: vec![], policy: vec![], class: "replay".into(), pidns: false, alias: false };
    for f in it {
        let (k, v) = f.split_once('=').unwrap();
        if k == "NS" {
            sc.pidns = v == "1";
        } else if k == "AL" {
            sc.alias = v == "1";
        } else if k == "I" {
            if v != "-" {
                for e in v.split(';') {
                    let (p, c) = e.split_once(':').unwrap();
                    sc.init.push((String::from_utf8_lossy(&unhex(p)).into_owned(), unhex(c)));
                }
            }
        } else if k == "Y" {
            if v != "-" {
                for e in v.split(',') {
                    if let Some((i, c)) = e.split_once('+') {
                        sc.policy.push(Pol::StepUntil(i.parse().unwrap(), c.to_string()));
                    } else if let Some((i, c)) = e.split_once('*') {
                        sc.policy.push(Pol::Until(i.parse().unwrap(), c.to_string()));
                    } else if e.ends_with('k') {
                        sc.policy.push(Pol::Kill(e.trim_end_matches('k').parse().unwrap()));
                    } else {
                        sc.policy.push(Pol::Step(e.parse().unwrap()));
                    }
                }
            }
        } else if k.starts_with('P') {
            let mut pr = vec![];
            if v != "-" {
                for r in v.split(',') {
                    let f: Vec<&str> = r.split(':').collect();
                    let path = String::from_utf8_lossy(&unhex(f[1])).into_owned();
                    match f[0] {
                        "P" => pr.push(Req::Put { path, exp: parse_exp(f[2]), decl: unhex(f[3]), len: f[4].parse().unwrap(),
                            pieces: if f[5] == "." { vec![] } else { f[5].split('+').map(unhex).collect() } }),
                        "D" => pr.push(Req::Del { path, exp: parse_exp(f[2]) }),
                        _ => pr.push(Req::Get { path }),
                    }
                }
            }
            sc.progs.push(pr);
        }
    }
    sc
}

// ---------------- generators ----------------
fn content(r: &mut Rng, pool: &[Vec<u8>]) -> Vec<u8> {
    r.pick(pool).clone()
}

pub fn gen_scenarios(seed: u64, tier: &str) -> Vec<Scenario> {
    let mut r = Rng::new(seed ^ 0xC03);
    let n = if tier == "thorough" { 1500 } else { 120 };
    // (the last two: 8 KiB of 'A' followed by 16 KiB of zeros, and one page of zeros - a writer that treats zero runs specially)
    let pool: Vec<Vec<u8>> = vec![b"".to_vec(), b"A".to_vec(), b"BB".to_vec(), b"hello world".to_vec(), vec![0x58; 300], (0..=255u8).collect(), vec![0x59; 70000],
        { let mut v = vec![0x41u8; 8192]; v.extend(vec![0u8; 16384]); v }, vec![0u8; 4096]];
    let base_paths = ["a", "b", "d/x", "d/y"];
    let mut out = vec![];
    for id in 0..n {
        // one scenario in four lives on four paths drawn from the pool of hostile names (util::hostile_paths)
        let hp = if id % 4 == 3 { hostile_paths(&mut r, 4) } else { vec![] };
        let hpr: Vec<&str> = hp.iter().map(|x| x.as_str()).collect();
        let paths: &[&str] = if hpr.len() == 4 { &hpr } else { &base_paths };
        let nproc = if r.chance(1, 4) { 3 } else { 2 };
        let mut init = vec![];
        for p in paths {
            if r.chance(1, 2) {
                init.push((p.to_string(), content(&mut r, &pool[..6])));
            }
        }
        let shared = *r.pick(paths);
        let mut progs = vec![];
        for _ in 0..nproc {
            let k = 1 + r.below(2) as usize;
            let mut pr = vec![];
            for _ in 0..k {
                let path = if r.chance(2, 3) { shared.to_string() } else { r.pick(paths).to_string() };
                let cur = init.iter().find(|(p, _)| *p == path).map(|(_, c)| c.clone());
                let exp = match r.below(4) {
                    0 => None,
                    1 => Some(content(&mut r, &pool[..6])),
                    _ => cur.clone(),
                };
                match r.below(10) {
                    0..=5 => {
                        let body = content(&mut r, &pool);
                        let np = 1 + r.below(3) as usize;
                        let mut pieces = vec![];
                        let mut pos = 0;
                        for j in 0..np {
                            let end = if j == np - 1 { body.len() } else { pos + r.below((body.len() - pos) as u64 + 1) as usize };
                            pieces.push(body[pos..end].to_vec());
                            pos = end;
                        }
                        let (decl, len) = match r.below(12) {
                            0 => (content(&mut r, &pool[..6]), body.len() as u64), // wrong hash (unless equal by chance)
                            1 => (body.clone(), body.len() as u64 + 1 + r.below(5)), // declared longer than delivered
                            _ => (body.clone(), body.len() as u64),
                        };
                        pr.push(Req::Put { path, exp, decl, len, pieces });
                    }
                    6 | 7 => pr.push(Req::Del { path, exp }),
                    _ => pr.push(Req::Get { path }),
                }
            }
            progs.push(pr);
        }
        // a short put (declared longer than delivered) ends the session with EOF: keep it last in its program
        for pr in progs.iter_mut() {
            if let Some(pos) = pr.iter().position(|q| matches!(q, Req::Put { len, pieces, .. } if *len as usize > pieces.concat().len())) {
                pr.truncate(pos + 1);
            }
        }
        if id % 10 == 2 {
            // directed: a Get held just before it opens the file while another server commits content of another length
            let cur = init.iter().find(|(p, _)| *p == shared).map(|(_, c)| c.clone());
            if let Some(curc) = cur {
                let mut b1 = content(&mut r, &pool);
                if b1.len() == curc.len() { b1.extend(b"+longer"); }
                let p0 = Req::Put { path: shared.to_string(), exp: Some(curc.clone()), decl: b1.clone(), len: b1.len() as u64, pieces: vec![b1.clone()] };
                let mut policy = vec![Pol::Until(1, "openr".to_string())];
                policy.extend((0..60).map(|_| Pol::Step(0)));
                out.push(Scenario { id, init, progs: vec![vec![p0], vec![Req::Get { path: shared.to_string() }]], policy, class: "directed:get-vs-commit".into(), pidns: false, alias: false });
                continue;
            }
        }
        if id % 10 == 4 {
            // directed: an overwriting commit held just before the rename that publishes it, while another server reads
            // (Get, sometimes twice) the same path: the reader must see an acknowledged version
            let cur = init.iter().find(|(p, _)| *p == shared).map(|(_, c)| c.clone());
            if let Some(curc) = cur {
                let mut b1 = content(&mut r, &pool[..6]);
                if b1 == curc { b1.push(b'!'); }
                let p0 = Req::Put { path: shared.to_string(), exp: Some(curc.clone()), decl: b1.clone(), len: b1.len() as u64, pieces: vec![b1.clone()] };
                let mut p1 = vec![Req::Get { path: shared.to_string() }];
                if r.chance(1, 2) { p1.push(Req::Get { path: shared.to_string() }); }
                let mut policy = vec![Pol::Until(0, "rename".to_string())];
                policy.extend((0..40).map(|_| Pol::Step(1)));
                out.push(Scenario { id, init, progs: vec![vec![p0], p1], policy, class: "directed:overwrite-vs-reader".into(), pidns: r.chance(1, 4), alias: false });
                continue;
            }
        }
        if id % 10 == 6 {
            // directed: a server that has already looked at the shared path in this session (a refused Delete, a Get, or a
            // conflicting Put) - then ANOTHER server commits a version of the SAME LENGTH (within the same second) - then
            // the first server's client writes with the hash it saw first: the compare-and-swap must see the other
            // server's commit, whatever the first server remembers about the file
            let v0 = b"AAAA".to_vec();
            let (v1, v2) = (b"BBBB".to_vec(), b"CCCC".to_vec());
            let init = vec![(shared.to_string(), v0.clone())];
            let first = if (id / 10) % 2 == 0 { Req::Del { path: shared.to_string(), exp: Some(b"zzzz".to_vec()) } } else { Req::Get { path: shared.to_string() } };
            let p0 = vec![first, Req::Put { path: shared.to_string(), exp: Some(v0.clone()), decl: v2.clone(), len: 4, pieces: vec![v2.clone()] }];
            let p1 = vec![Req::Put { path: shared.to_string(), exp: Some(v0.clone()), decl: v1.clone(), len: 4, pieces: vec![v1.clone()] }];
            // p0 answers its first request completely (its next pending gate is the read of the next frame), then p1 runs to
            // completion, then p0 goes on
            let mut policy = vec![Pol::StepUntil(0, "read0".to_string())];
            policy.extend((0..60).map(|_| Pol::Step(1)));
            out.push(Scenario { id, init, progs: vec![p0, p1], policy, class: "directed:seen-then-foreign-commit-same-length".into(), pidns: false, alias: id % 20 == 16 });
            continue;
        }
        if id % 25 == 13 {
            // directed (oracle only, no gates): one session LISTS the tree, another server then commits other bytes of the SAME
            // LENGTH at a listed path and the file's timestamp is put back to the listed version's, then the first session
            // GETS the path: what a server remembers from its List must not be announced for bytes it did not hash
            let big = (id / 25) % 2 == 0;
            let n = if big { (1usize << 20) + 37 } else { 4 };
            let x: Vec<u8> = (0..n).map(|k| (k % 251) as u8).collect();
            let y: Vec<u8> = (0..n).map(|k| ((k * 7 + 3) % 253) as u8).collect();
            let init = vec![(shared.to_string(), x.clone())];
            let p0 = vec![Req::Get { path: shared.to_string() }];
            let p1 = vec![Req::Put { path: shared.to_string(), exp: Some(x.clone()), decl: y.clone(), len: n as u64, pieces: vec![y.clone()] }];
            out.push(Scenario { id, init, progs: vec![p0, p1], policy: vec![], class: "directed:list-then-foreign-commit-then-get".into(), pidns: false, alias: false });
            continue;
        }
        if id % 10 == 7 {
            // directed: a Delete that expects NOTHING at an absent path has taken the lock, found nothing and stands right before
            // its (harmless) unlink - then another server CREATES the path (Put expecting nothing) - then the Delete goes on.
            // Whatever the create does without the lock, its acknowledged bytes must not be removed by that unlink
            let b1 = content(&mut r, &pool[1..6]);
            let init: Vec<(String, Vec<u8>)> = init.into_iter().filter(|(p, _)| *p != shared).collect();
            let p0 = vec![Req::Del { path: shared.to_string(), exp: None }];
            let p1 = vec![Req::Put { path: shared.to_string(), exp: None, decl: b1.clone(), len: b1.len() as u64, pieces: vec![b1.clone()] }];
            let mut policy = vec![Pol::Until(0, "unlink".to_string())];
            policy.extend((0..60).map(|_| Pol::Step(1)));
            out.push(Scenario { id, init, progs: vec![p0, p1], policy, class: "directed:delete-nothing-vs-create".into(), pidns: false, alias: false });
            continue;
        }
        if id % 10 == 9 {
            // directed: lock hand-off with a third writer.  p0 holds the tree lock (request on another path) while p1 queues
            // on it; p0 releases; p1 passes its compare and stops before its rename; p2 arrives and must wait for p1.
            // p1 and p2 write the shared path with the same (current) expectation: one of them may commit.
            let other = *paths.iter().find(|p| **p != shared).unwrap();
            let cur = init.iter().find(|(p, _)| *p == shared).map(|(_, c)| c.clone());
            let b1 = content(&mut r, &pool[..6]);
            let mut b2 = content(&mut r, &pool[..6]);
            if b2 == b1 { b2.push(b'!'); }
            let p0 = if r.chance(1, 2) { Req::Put { path: other.to_string(), exp: None, decl: b1.clone(), len: b1.len() as u64, pieces: vec![b1.clone()] } } else { Req::Del { path: other.to_string(), exp: None } };
            let p1 = Req::Put { path: shared.to_string(), exp: cur.clone(), decl: b1.clone(), len: b1.len() as u64, pieces: vec![b1.clone()] };
            let p2 = if r.chance(2, 3) { Req::Put { path: shared.to_string(), exp: cur.clone(), decl: b2.clone(), len: b2.len() as u64, pieces: vec![b2.clone()] } } else { Req::Del { path: shared.to_string(), exp: cur.clone() } };
            let u = |i: usize, c: &str| Pol::Until(i, c.to_string());
            let su = |i: usize, c: &str| Pol::StepUntil(i, c.to_string());
            let policy = vec![u(0, "flock"), Pol::Step(0), u(1, "flock"), Pol::Step(1), su(0, "funlock"), Pol::Step(0), u(1, "rename"), u(2, "funlock"), Pol::Step(2)];
            out.push(Scenario { id, init, progs: vec![vec![p0], vec![p1], vec![p2]], policy, class: "directed:lock-handoff".into(), pidns: false, alias: id % 20 == 19 });
            continue;
        }
        let steps = 20 + r.below(60) as usize;
        let kill_at = if r.chance(1, 4) { Some(r.below(steps as u64) as usize) } else { None };
        let policy: Vec<Pol> = (0..steps).map(|k| { let i = r.below(nproc as u64) as usize; if Some(k) == kill_at { Pol::Kill(i) } else { Pol::Step(i) } }).collect();
        // one scenario in six runs every server as pid 1 of its own pid namespace (equal pids in different processes)
        let pidns = r.chance(1, 6);
        let class = format!("n{}{}{}", nproc, if kill_at.is_some() { ":kill" } else { "" }, if pidns { ":pidns" } else { "" });
        let alias = r.chance(1, 4);
        let class = if alias { format!("{}:alias", class) } else { class };
        out.push(Scenario { id, init, progs, policy, class, pidns, alias });
    }
    out
}

/// a path of the scenario is a proper directory prefix of another one (outside the flat-name model)
pub fn dir_clash(sc: &Scenario) -> bool {
    let mut all: Vec<String> = sc.init.iter().map(|(p, _)| p.clone()).collect();
    for pr in &sc.progs {
        for r in pr {
            all.push(match r { Req::Put { path, .. } | Req::Del { path, .. } | Req::Get { path } => path.clone() });
        }
    }
    all.iter().any(|p| all.iter().any(|q| q.starts_with(&format!("{}/", p))))
}

/// the ungated directed scenario `list-then-foreign-commit-then-get` (see gen_scenarios)
fn run_list_cache(sc: &Scenario, work: &str, copia: &str) -> RunResult {
    use std::io::{Read, Write};
    let mut fails = vec![];
    let root = format!("{}/lc{}/HUB", work, sc.id);
    let _ = std::fs::remove_dir_all(format!("{}/lc{}", work, sc.id));
    std::fs::create_dir_all(&root).unwrap();
    let (path, x) = (&sc.init[0].0, &sc.init[0].1);
    let full = format!("{}/{}", root, path);
    if let Some(d) = std::path::Path::new(&full).parent() { std::fs::create_dir_all(d).unwrap(); }
    std::fs::write(&full, x).unwrap();
    let t0 = std::fs::metadata(&full).unwrap().modified().unwrap();
    let y = match &sc.progs[1][0] { Req::Put { decl, .. } => decl.clone(), _ => vec![] };
    let mut a = std::process::Command::new(copia).arg("serve").arg(&root).stdin(std::process::Stdio::piped()).stdout(std::process::Stdio::piped())
        .stderr(std::process::Stdio::null()).spawn().unwrap();
    let mut ain = a.stdin.take().unwrap();
    let mut aout = a.stdout.take().unwrap();
    let mut first = MAGIC.to_vec();
    first.extend(frame(&Request::Hello { version: VERSION }));
    first.extend(frame(&Request::List));
    ain.write_all(&first).unwrap();
    ain.flush().unwrap();
    // wait for the two replies (Hello, Fingerprints)
    let mut got: Vec<u8> = vec![];
    let mut buf = [0u8; 65536];
    let t_start = std::time::Instant::now();
    while parse_replies(&got).0.len() < 2 && t_start.elapsed() < std::time::Duration::from_secs(20) {
        match aout.read(&mut buf) { Ok(0) => break, Ok(n) => got.extend_from_slice(&buf[..n]), Err(_) => break }
    }
    // another server commits y (same length) at the path
    let mut inp = MAGIC.to_vec();
    inp.extend(frame(&Request::Hello { version: VERSION }));
    inp.extend(frame(&Request::Put { path: path.clone(), expected: Some(h32(x)), len: y.len() as u64, hash: h32(&y) }));
    inp.extend(&y);
    inp.extend(frame(&Request::Bye));
    let mut b = std::process::Command::new(copia).arg("serve").arg(&root).stdin(std::process::Stdio::piped()).stdout(std::process::Stdio::piped())
        .stderr(std::process::Stdio::null()).spawn().unwrap();
    b.stdin.take().unwrap().write_all(&inp).unwrap();
    let bo = b.wait_with_output().unwrap();
    let (brs, _) = parse_replies(&bo.stdout);
    let committed = brs.iter().any(|r| r.starts_with("PutResult:true"));
    // ... within the same clock tick as the listed version: the timestamp is put back
    if let Ok(f) = std::fs::OpenOptions::new().write(true).open(&full) { let _ = f.set_modified(t0); }
    let mut rest = frame(&Request::Get { path: path.clone() });
    rest.extend(frame(&Request::Bye));
    let _ = ain.write_all(&rest);
    drop(ain);
    let _ = aout.read_to_end(&mut got);
    let _ = a.wait();
    let (ars, _) = parse_replies(&got);
    let on_disk = std::fs::read(&full).unwrap_or_default();
    match ars.iter().find(|r| r.starts_with("Content:")) {
        Some(c) => {
            if !c.contains(":HASHOK:") {
                fails.push(format!("{} C10 a Get announced a hash its bytes do not have (session listed the tree, another server then committed {} bytes of the same length at {:?}, timestamp unchanged): {}", sc.id, y.len(), path, c.chars().take(60).collect::<String>()));
            }
        }
        None => fails.push(format!("{} C10 the Get after a List got no Content reply: {:?}", sc.id, ars.iter().map(|r| r.chars().take(40).collect::<String>()).collect::<Vec<_>>())),
    }
    if committed && on_disk != y {
        fails.push(format!("{} C03 an acknowledged commit is not the content of the path afterwards", sc.id));
    }
    let _ = std::fs::remove_dir_all(format!("{}/lc{}", work, sc.id));
    RunResult { case_line: String::new(), impl_line: String::new(), fails, estep_count: 0, real_steps: 0 }
}

pub fn main(a: Args) -> i32 {
    let mut out = Out::new(&a.out);
    let copia = a.rest.iter().position(|x| x == "--copia").map(|i| a.rest[i + 1].clone()).expect("--copia");
    let shim = a.rest.iter().position(|x| x == "--shim").map(|i| a.rest[i + 1].clone()).expect("--shim");
    let scs: Vec<Scenario> = if let Some(p) = &a.replay {
        std::fs::read_to_string(p).unwrap().lines().filter(|l| !l.trim().is_empty() && !l.starts_with('#')).map(parse_scenario).collect()
    } else {
        gen_scenarios(a.seed, &a.tier)
    };
    let work = format!("{}/work", a.out);
    let mut distinct = std::collections::HashSet::new();
    let mut nfail = 0u64;
    for sc in &scs {
        let ungated = sc.class == "directed:list-then-foreign-commit-then-get";
        let r = if ungated { run_list_cache(sc, &work, &copia) } else { run_scenario(sc, &work, &shim, &copia) };
        out.line("scen.txt", &fmt_scenario(sc));
        if ungated {
            out.count("ungated_oracle_only_scenarios");
        } else if dir_clash(sc) {
            out.count("dir_clash_scenarios_oracle_only");
        } else {
            out.line("cases.txt", &r.case_line);
            out.line("impl.txt", &r.impl_line);
        }
        out.count("scenarios");
        out.count(&format!("class_{}", sc.class));
        out.add("essential_steps", r.estep_count as u64);
        out.add("real_gated_steps", r.real_steps as u64);
        if r.impl_line.contains("PutResult:false") {
            out.count("with_cas_conflict");
        }
        if r.impl_line.contains("Error:") {
            out.count("with_error_reply");
        }
        if r.estep_count > 6 {
            distinct.insert(r.case_line.splitn(2, ' ').nth(1).unwrap_or("").to_string());
        }
        if sc.id % 37 == 3 {
            let mut smp = format!("{} -> {}", r.case_line, r.impl_line);
            smp.truncate(600);
            out.sample(smp);
        }
        for f in r.fails {
            nfail += 1;
            out.line("specfail.txt", &f);
        }
    }
    let _ = std::fs::remove_dir_all(&work);
    out.add("distinct_nontrivial", distinct.len() as u64);
    out.add("spec_failures", nfail);
    out.finish();
    0
}
