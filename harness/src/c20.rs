//! C20: codecs (FrameHeader, Message, Codec, bincode files of Signature/Delta) and the CLI file readers.
//!
//! cases.txt: `<id> <KIND> args...`; impl.txt / model.txt: `<id> <result>` (same strings as ocaml/driver.ml c20_line)
//!   HDR <12-byte hex>                      FrameHeader::decode      -> OK magic=<hex> len= type= ver= flags= | ERR_TYPE|ERR_MAGIC|ERR_VERSION|ERR_LENGTH
//!   HDRREAD <hex>                          FrameHeader::read_from   -> OK <hdr> rest=<unread bytes> | ERR_IO | ERR_*
//!   HDRENC <checked> <magic hex> <len> <type> <ver> <flags>   FrameHeader::encode -> <hex> | PANIC (debug assertion, checked profile)
//!   MSGDEC <hex> <utf8 flag>               Message::decode          -> OK <msg> | ERR_DECODE
//!   SIGDEC <hex> / DELTADEC <hex>          bincode::deserialize     -> OK <value> | ERR
//!   CODEC <hex> <utf8 flag>                Codec::read_message      -> OK <msg> rest=<n> | ERR_*
//!   MSGENC <msg> / SIGENC <sig> / DELTAENC <delta>   Message::encode / bincode::serialize -> <hex>
//!   CODECENC <msg>                         Codec::write_message     -> <hex> | ERR_PAYLOAD
//!   CLIDELTA <sig file hex> / CLIPATCH <delta file hex>   real binary -> PROCEED | EXITERROR | CRASH...
//! values: SIG <bs> <fs> <idx:weak:stronghex,...|->   DELTA <bs> <ss> <bz> <C<off>:<len>,L<hex>,...|-> <checksum hex>
//!   SIGREQ f bs | SIGRESP f SIG.. | DELTADATA f DELTA.. | ACK f <0|1> <N|S<hex>> | ERROR code <hex> | PING s | PONG s
//! The utf8 flag is std::str::from_utf8(<the string payload the decoder would look at>).is_ok() (1 when there is none).
//! specfail.txt: panics, accepted invalid headers, round-trip mismatches, allocations above the bound, CLI crashes.
use crate::util::*;
use copia::{BlockSignature, Codec, Delta, DeltaOp, FrameHeader, Message, MessageType, Signature, StrongHash, PROTOCOL_MAGIC, PROTOCOL_VERSION};
use std::alloc::{GlobalAlloc, Layout, System};
use std::collections::HashSet;
use std::io::Cursor;
use std::sync::atomic::{AtomicUsize, Ordering};

/// the bound named by the property (16 MiB); the model uses the constant regenerated from the source
const SPEC_MAX_PAYLOAD: u64 = 16 * 1024 * 1024;

// ---------- allocation watermark: largest single request since the last reset ----------
pub struct Watermark;
static PEAK: AtomicUsize = AtomicUsize::new(0);
unsafe impl GlobalAlloc for Watermark {
    unsafe fn alloc(&self, l: Layout) -> *mut u8 {
        PEAK.fetch_max(l.size(), Ordering::Relaxed);
        System.alloc(l)
    }
    unsafe fn dealloc(&self, p: *mut u8, l: Layout) {
        System.dealloc(p, l)
    }
    unsafe fn alloc_zeroed(&self, l: Layout) -> *mut u8 {
        PEAK.fetch_max(l.size(), Ordering::Relaxed);
        System.alloc_zeroed(l)
    }
    unsafe fn realloc(&self, p: *mut u8, l: Layout, n: usize) -> *mut u8 {
        PEAK.fetch_max(n, Ordering::Relaxed);
        System.realloc(p, l, n)
    }
}
#[global_allocator]
static GLOBAL: Watermark = Watermark;
fn peak_reset() {
    PEAK.store(0, Ordering::Relaxed);
}
fn peak() -> usize {
    PEAK.load(Ordering::Relaxed)
}

// ---------- canonical strings (must match ocaml/driver.ml) ----------
fn sig_s(s: &Signature) -> String {
    let b = if s.blocks.is_empty() {
        "-".to_string()
    } else {
        s.blocks.iter().map(|b| format!("{}:{}:{}", b.index, b.weak_hash, hex(b.strong_hash.as_bytes()))).collect::<Vec<_>>().join(",")
    };
    format!("SIG {} {} {}", s.block_size, s.file_size, b)
}
fn ops_s(ops: &[DeltaOp]) -> String {
    if ops.is_empty() {
        return "-".into();
    }
    ops.iter()
        .map(|o| match o {
            DeltaOp::Copy { offset, len } => format!("C{}:{}", offset, len),
            DeltaOp::Literal(d) => format!("L{}", hex(d)),
        })
        .collect::<Vec<_>>()
        .join(",")
}
fn delta_s(d: &Delta) -> String {
    format!("DELTA {} {} {} {} {}", d.block_size, d.source_size, d.basis_size, ops_s(&d.ops), hex(d.checksum.as_bytes()))
}
fn msg_s(m: &Message) -> String {
    match m {
        Message::SignatureRequest { file_id, block_size } => format!("SIGREQ {} {}", file_id, block_size),
        Message::SignatureResponse { file_id, signature } => format!("SIGRESP {} {}", file_id, sig_s(signature)),
        Message::DeltaData { file_id, delta } => format!("DELTADATA {} {}", file_id, delta_s(delta)),
        Message::Ack { file_id, success, message } => format!(
            "ACK {} {} {}",
            file_id,
            if *success { 1 } else { 0 },
            match message {
                None => "N".to_string(),
                Some(s) => format!("S{}", hex(s.as_bytes())),
            }
        ),
        Message::Error { code, message } => format!("ERROR {} {}", code, hex(message.as_bytes())),
        Message::Ping { seq } => format!("PING {}", seq),
        Message::Pong { seq } => format!("PONG {}", seq),
    }
}
fn hdr_s(h: &FrameHeader) -> String {
    format!("magic={} len={} type={} ver={} flags={}", hex(&h.magic), h.length, h.msg_type as u8, h.version, h.flags)
}
fn err_s(e: &copia::CopiaError) -> String {
    let t = e.to_string();
    match e {
        copia::CopiaError::Io(_) => "ERR_IO".into(),
        copia::CopiaError::ProtocolError(m) => {
            if m.starts_with("Invalid message type") {
                "ERR_TYPE".into()
            } else if m.starts_with("Invalid magic") {
                "ERR_MAGIC".into()
            } else if m.starts_with("Unsupported version") {
                "ERR_VERSION".into()
            } else if m.starts_with("Payload too large:") {
                "ERR_LENGTH".into()
            } else if m.starts_with("Failed to decode message") {
                "ERR_DECODE".into()
            } else if m.starts_with("Payload too large for u32") || m.starts_with("Payload exceeds maximum size") {
                "ERR_PAYLOAD".into()
            } else {
                format!("ERR_OTHER({})", m.replace(' ', "_"))
            }
        }
        _ => format!("ERR_OTHER({})", t.replace(' ', "_")),
    }
}

// ---------- parsing canonical values (replay of ENC cases) ----------
fn h32(s: &str) -> StrongHash {
    let v = unhex(s);
    let mut a = [0u8; 32];
    a.copy_from_slice(&v);
    StrongHash::from_bytes(a)
}
fn parse_sig(t: &[&str]) -> Signature {
    let mut s = Signature::new(t[0].parse().unwrap(), t[1].parse().unwrap());
    if t[2] != "-" {
        for b in t[2].split(',') {
            let f: Vec<&str> = b.split(':').collect();
            s.blocks.push(BlockSignature::new(f[0].parse().unwrap(), f[1].parse().unwrap(), h32(f[2])));
        }
    }
    s
}
fn parse_delta(t: &[&str]) -> Delta {
    let mut d = Delta::new(t[0].parse().unwrap(), t[1].parse().unwrap(), t[2].parse().unwrap());
    if t[3] != "-" {
        for o in t[3].split(',') {
            if let Some(c) = o.strip_prefix('C') {
                let mut it = c.split(':');
                d.ops.push(DeltaOp::Copy { offset: it.next().unwrap().parse().unwrap(), len: it.next().unwrap().parse().unwrap() });
            } else {
                d.ops.push(DeltaOp::Literal(unhex(&o[1..])));
            }
        }
    }
    d.checksum = h32(t[4]);
    d
}
fn parse_msg(t: &[&str]) -> Message {
    match t[0] {
        "SIGREQ" => Message::SignatureRequest { file_id: t[1].parse().unwrap(), block_size: t[2].parse().unwrap() },
        "SIGRESP" => Message::SignatureResponse { file_id: t[1].parse().unwrap(), signature: parse_sig(&t[3..]) },
        "DELTADATA" => Message::DeltaData { file_id: t[1].parse().unwrap(), delta: parse_delta(&t[3..]) },
        "ACK" => Message::Ack {
            file_id: t[1].parse().unwrap(),
            success: t[2] == "1",
            message: if t[3] == "N" { None } else { Some(String::from_utf8(unhex(&t[3][1..])).unwrap()) },
        },
        "ERROR" => Message::Error { code: t[1].parse().unwrap(), message: String::from_utf8(unhex(t[2])).unwrap() },
        "PING" => Message::Ping { seq: t[1].parse().unwrap() },
        "PONG" => Message::Pong { seq: t[1].parse().unwrap() },
        x => panic!("bad message kind {x}"),
    }
}

// ---------- value generators ----------
const EXTREME64: [u64; 12] = [0, 1, 255, 256, 65535, 65536, 0xFFFF_FFFF, 0x1_0000_0000, 1 << 20, 1 << 63, u64::MAX - 1, u64::MAX];
const EXTREME32: [u32; 9] = [0, 1, 255, 256, 512, 65536, 1 << 20, u32::MAX - 1, u32::MAX];
fn g64(r: &mut Rng) -> u64 {
    match r.below(3) {
        0 => *r.pick(&EXTREME64),
        1 => r.below(100_000),
        _ => r.next(),
    }
}
fn g32(r: &mut Rng) -> u32 {
    match r.below(3) {
        0 => *r.pick(&EXTREME32),
        1 => r.below(100_000) as u32,
        _ => r.next() as u32,
    }
}
fn ghash(r: &mut Rng) -> StrongHash {
    let mut a = [0u8; 32];
    match r.below(4) {
        0 => {}
        1 => a = [0xFF; 32],
        _ => {
            for x in a.iter_mut() {
                *x = r.byte();
            }
        }
    }
    StrongHash::from_bytes(a)
}
fn gsize(r: &mut Rng, big: usize) -> usize {
    match r.below(10) {
        0 => 0,
        1 => 1,
        2..=6 => r.below(8) as usize,
        7 | 8 => r.below(200) as usize,
        _ => r.below(big as u64 + 1) as usize,
    }
}
fn gsig(r: &mut Rng, big: usize) -> Signature {
    let bs = match r.below(4) {
        0 => *r.pick(&[512usize, 1024, 2048, 4096, 65536]),
        1 => *r.pick(&[0usize, 1, 1000, 511, 513, 131072, 1 << 63, usize::MAX]),
        _ => g64(r) as usize,
    };
    let mut s = Signature::new(bs, g64(r));
    for _ in 0..gsize(r, big) {
        s.blocks.push(BlockSignature::new(g32(r), g32(r), ghash(r)));
    }
    s
}
fn gdelta(r: &mut Rng, big_ops: usize, big_lit: usize) -> Delta {
    let bs = match r.below(3) {
        0 => *r.pick(&[512u32, 1024, 4096, 65536]),
        1 => *r.pick(&[0u32, 1, 1000, 131072, u32::MAX]),
        _ => g32(r),
    };
    let mut d = Delta::new(bs, g64(r), g64(r));
    for _ in 0..gsize(r, big_ops) {
        if r.chance(1, 2) {
            d.ops.push(DeltaOp::Copy { offset: g64(r), len: g32(r) });
        } else {
            let n = gsize(r, big_lit);
            d.ops.push(DeltaOp::Literal(r.bytes(n)));
        }
    }
    d.checksum = ghash(r);
    d
}
fn gstring(r: &mut Rng, big: usize) -> String {
    let n = gsize(r, big);
    let mut s = String::new();
    let kind = r.below(4);
    for _ in 0..n {
        let c = match kind {
            0 => (0x20 + r.below(95) as u8) as char,
            1 => *r.pick(&['\u{e9}', '\u{4e2d}', '\u{1F600}', '\u{0}', '\u{7f}', '\u{80}', '\u{7ff}', '\u{800}', '\u{ffff}', '\u{10000}', '\u{10ffff}']),
            _ => char::from_u32(r.below(0x11_0000) as u32).unwrap_or('x'),
        };
        s.push(c);
    }
    s
}
fn gmsg(r: &mut Rng, kind: u64, big: usize) -> Message {
    match kind {
        0 => Message::SignatureRequest { file_id: g64(r), block_size: g32(r) },
        1 => Message::SignatureResponse { file_id: g64(r), signature: gsig(r, big / 40) },
        2 => Message::DeltaData { file_id: g64(r), delta: gdelta(r, (big / 64).max(4), big / 8) },
        3 => Message::Ack { file_id: g64(r), success: r.chance(1, 2), message: if r.chance(1, 3) { None } else { Some(gstring(r, big / 4)) } },
        4 => Message::Error { code: g32(r), message: gstring(r, big / 4) },
        5 => Message::Ping { seq: g64(r) },
        _ => Message::Pong { seq: g64(r) },
    }
}
fn mt(code: u8) -> MessageType {
    MessageType::from_u8(code).unwrap()
}

/// the utf8 flag for a byte string handed to the Message decoder: validity of the string payload the decoder would
/// reach (Ack: tag 3, Some-string after u64 + bool + option tag; Error: tag 4 after the u32 code); 1 otherwise
fn utf8_flag(b: &[u8]) -> u8 {
    let le = |x: &[u8]| x.iter().rev().fold(0u64, |a, &v| (a << 8) | v as u64);
    if b.len() < 4 {
        return 1;
    }
    let tag = le(&b[0..4]);
    let off = if tag == 3 {
        if b.len() < 14 || b[13] != 1 {
            return 1;
        }
        14
    } else if tag == 4 {
        8
    } else {
        return 1;
    };
    if b.len() < off + 8 {
        return 1;
    }
    let n = le(&b[off..off + 8]);
    if n > (b.len() - off - 8) as u64 {
        return 1;
    }
    if std::str::from_utf8(&b[off + 8..off + 8 + n as usize]).is_ok() {
        1
    } else {
        0
    }
}
fn codec_utf8_flag(b: &[u8]) -> u8 {
    if b.len() < 12 {
        return 1;
    }
    let n = u32::from_le_bytes([b[4], b[5], b[6], b[7]]) as usize;
    if n > b.len() - 12 {
        return 1;
    }
    utf8_flag(&b[12..12 + n])
}

// ---------- running one case on the implementation ----------
struct Ctx {
    out: Out,
    id: usize,
    nfail: u64,
    checked: bool,
    copia: Option<String>,
    distinct: HashSet<[u8; 32]>,
    cli_src: Vec<u8>,
}
const ALLOC_SLACK: usize = 4096;

impl Ctx {
    fn fail(&mut self, what: String) {
        self.nfail += 1;
        let id = self.id;
        self.out.line("specfail.txt", &format!("{} C20 {}", id, what));
    }
    fn check_hdr_ok(&mut self, h: &FrameHeader, raw: &[u8]) {
        if h.magic != PROTOCOL_MAGIC || h.magic != *b"COPA" {
            self.fail("header with wrong magic accepted".into());
        }
        if h.version != PROTOCOL_VERSION || h.version != 1 {
            self.fail("header with wrong version accepted".into());
        }
        if !(1..=7).contains(&raw[8]) {
            self.fail(format!("header with unknown type byte {} accepted", raw[8]));
        }
        if u64::from(h.length) > SPEC_MAX_PAYLOAD {
            self.fail(format!("header with oversize length {} accepted", h.length));
        }
        if h.encode()[..] != raw[..12] {
            self.fail("accepted header does not re-encode to its input".into());
        }
    }
    fn check_peak(&mut self, what: &str, input_len: usize) {
        // a decoder may hold the decoded value (at most a small multiple of the input) and the frame buffer (<= 16 MiB)
        let bound = (SPEC_MAX_PAYLOAD as usize).max(4 * input_len) + ALLOC_SLACK;
        if peak() > bound {
            let p = peak();
            self.fail(format!("{} requested a single allocation of {} bytes for a {}-byte input (bound {})", what, p, input_len, bound));
        }
    }

    /// Executes one case (kind + args as in cases.txt), writes cases.txt / impl.txt, evaluates the oracles.
    fn run(&mut self, kind: &str, args: &[&str], class: &str) {
        let is_cli = kind.starts_with("CLI");
        if is_cli && (self.copia.is_none() || self.checked) {
            return;
        }
        self.out.inflight(&format!("{} {} {}", self.id, kind, args.join(" ")));
        let res: String = match kind {
            "HDR" => {
                let b = unhex(args[0]);
                let mut a = [0u8; 12];
                a.copy_from_slice(&b[..12]);
                match catch(move || FrameHeader::decode(&a)) {
                    Err(p) => {
                        self.fail(format!("FrameHeader::decode panicked: {}", p));
                        "PANIC".into()
                    }
                    Ok(Ok(h)) => {
                        self.check_hdr_ok(&h, &b);
                        format!("OK {}", hdr_s(&h))
                    }
                    Ok(Err(e)) => err_s(&e),
                }
            }
            "HDRREAD" => {
                let b = unhex(args[0]);
                let b2 = b.clone();
                match catch(move || {
                    let mut c = Cursor::new(&b2[..]);
                    let r = FrameHeader::read_from(&mut c);
                    (r, c.position() as usize)
                }) {
                    Err(p) => {
                        self.fail(format!("FrameHeader::read_from panicked: {}", p));
                        "PANIC".into()
                    }
                    Ok((Ok(h), pos)) => {
                        self.check_hdr_ok(&h, &b);
                        format!("OK {} rest={}", hdr_s(&h), b.len() - pos)
                    }
                    Ok((Err(e), _)) => err_s(&e),
                }
            }
            "HDRENC" => {
                let m = unhex(args[1]);
                let h = FrameHeader {
                    magic: [m[0], m[1], m[2], m[3]],
                    length: args[2].parse().unwrap(),
                    msg_type: mt(args[3].parse().unwrap()),
                    version: args[4].parse().unwrap(),
                    flags: args[5].parse().unwrap(),
                };
                match catch(move || h.encode()) {
                    Err(_) => {
                        if !(self.checked && h.magic[0] != b'C') {
                            self.fail("FrameHeader::encode panicked".into());
                        }
                        "PANIC".into()
                    }
                    Ok(e) => {
                        if h.magic == *b"COPA" && h.version == 1 && u64::from(h.length) <= SPEC_MAX_PAYLOAD {
                            match catch(move || FrameHeader::decode(&e)) {
                                Ok(Ok(h2)) if h2 == h => {}
                                _ => self.fail("valid header does not survive encode/decode".into()),
                            }
                            if e[0..4] != *b"COPA" || e[9] != 1 || u32::from_le_bytes([e[4], e[5], e[6], e[7]]) != h.length {
                                self.fail("encoded header shape (magic / version byte / LE length) wrong".into());
                            }
                        }
                        hex(&e)
                    }
                }
            }
            "MSGDEC" => {
                let b = unhex(args[0]);
                let b2 = b.clone();
                peak_reset();
                let r = catch(move || Message::decode(&b2));
                self.check_peak("Message::decode", b.len());
                match r {
                    Err(p) => {
                        self.fail(format!("Message::decode panicked: {}", p));
                        "PANIC".into()
                    }
                    Ok(Ok(m)) => {
                        match m.encode() {
                            Ok(e) if b.starts_with(&e) => {}
                            _ => self.fail("decoded message does not re-encode to the bytes consumed".into()),
                        }
                        format!("OK {}", msg_s(&m))
                    }
                    Ok(Err(e)) => err_s(&e),
                }
            }
            "SIGDEC" => {
                let b = unhex(args[0]);
                let b2 = b.clone();
                peak_reset();
                let r = catch(move || bincode::deserialize::<Signature>(&b2));
                self.check_peak("bincode::deserialize::<Signature>", b.len());
                match r {
                    Err(p) => {
                        self.fail(format!("deserialize::<Signature> panicked: {}", p));
                        "PANIC".into()
                    }
                    Ok(Ok(s)) => {
                        if !b.starts_with(&bincode::serialize(&s).unwrap()) {
                            self.fail("decoded signature does not re-encode to the bytes consumed".into());
                        }
                        format!("OK {}", sig_s(&s))
                    }
                    Ok(Err(_)) => "ERR".into(),
                }
            }
            "DELTADEC" => {
                let b = unhex(args[0]);
                let b2 = b.clone();
                peak_reset();
                let r = catch(move || bincode::deserialize::<Delta>(&b2));
                self.check_peak("bincode::deserialize::<Delta>", b.len());
                match r {
                    Err(p) => {
                        self.fail(format!("deserialize::<Delta> panicked: {}", p));
                        "PANIC".into()
                    }
                    Ok(Ok(d)) => {
                        if !b.starts_with(&bincode::serialize(&d).unwrap()) {
                            self.fail("decoded delta does not re-encode to the bytes consumed".into());
                        }
                        format!("OK {}", delta_s(&d))
                    }
                    Ok(Err(_)) => "ERR".into(),
                }
            }
            "CODEC" => {
                let b = unhex(args[0]);
                let b2 = b.clone();
                peak_reset();
                let r = catch(move || {
                    let mut c = Cursor::new(&b2[..]);
                    let r = Codec::new().read_message(&mut c);
                    (r, c.position() as usize)
                });
                self.check_peak("Codec::read_message", b.len());
                match r {
                    Err(p) => {
                        self.fail(format!("Codec::read_message panicked: {}", p));
                        "PANIC".into()
                    }
                    Ok((Ok(m), pos)) => format!("OK {} rest={}", msg_s(&m), b.len() - pos),
                    Ok((Err(e), _)) => err_s(&e),
                }
            }
            "MSGENC" => {
                let m = parse_msg(args);
                match catch(|| m.encode()) {
                    Ok(Ok(e)) => {
                        match catch(|| Message::decode(&e)) {
                            Ok(Ok(m2)) if m2 == m => {}
                            _ => self.fail("Message round-trip mismatch".into()),
                        }
                        hex(&e)
                    }
                    _ => {
                        self.fail("Message::encode failed or panicked".into());
                        "PANIC".into()
                    }
                }
            }
            "SIGENC" => {
                let s = parse_sig(&args[1..]);
                match catch(|| bincode::serialize(&s)) {
                    Ok(Ok(e)) => {
                        match catch(|| bincode::deserialize::<Signature>(&e)) {
                            Ok(Ok(s2)) if s2 == s => {}
                            _ => self.fail("Signature file round-trip mismatch".into()),
                        }
                        hex(&e)
                    }
                    _ => {
                        self.fail("bincode::serialize(Signature) failed or panicked".into());
                        "PANIC".into()
                    }
                }
            }
            "DELTAENC" => {
                let d = parse_delta(&args[1..]);
                match catch(|| bincode::serialize(&d)) {
                    Ok(Ok(e)) => {
                        match catch(|| bincode::deserialize::<Delta>(&e)) {
                            Ok(Ok(d2)) if d2 == d => {}
                            _ => self.fail("Delta file round-trip mismatch".into()),
                        }
                        hex(&e)
                    }
                    _ => {
                        self.fail("bincode::serialize(Delta) failed or panicked".into());
                        "PANIC".into()
                    }
                }
            }
            "CODECENC" => {
                let m = parse_msg(args);
                match catch(|| {
                    let mut w = Vec::new();
                    Codec::new().write_message(&mut w, &m).map(|_| w)
                }) {
                    Err(p) => {
                        self.fail(format!("Codec::write_message panicked: {}", p));
                        "PANIC".into()
                    }
                    Ok(Err(e)) => err_s(&e),
                    Ok(Ok(w)) => {
                        self.check_frame(&m, &w);
                        hex(&w)
                    }
                }
            }
            "CLIDELTA" | "CLIPATCH" => self.run_cli(kind, &unhex(args[0])),
            x => panic!("unknown case kind {x}"),
        };
        let case = format!("{} {}", kind, args.join(" "));
        let id = self.id;
        self.out.line("cases.txt", &format!("{} {}", id, case));
        self.out.line("impl.txt", &format!("{} {}", id, res));
        self.out.count("cases");
        self.out.count(&format!("kind_{}", kind));
        self.out.count(&format!("class_{}", class));
        let oc = res.split(' ').next().unwrap_or("");
        let oc = if oc.starts_with("ERR") || oc == "OK" || oc == "PANIC" || oc == "PROCEED" || oc == "EXITERROR" || oc.starts_with("CRASH") { oc } else { "BYTES" };
        self.out.count(&format!("outcome_{}_{}", kind, oc));
        if case.len() > 30 {
            self.distinct.insert(*blake3::hash(case.as_bytes()).as_bytes());
        }
        if id % 397 == 5 && case.len() < 200 {
            self.out.sample(format!("[{}] {} -> {}", class, case, res));
        }
        self.id += 1;
    }

    /// property oracle on a written frame: shape of the header, length field, and read-back with trailing junk
    fn check_frame(&mut self, m: &Message, w: &[u8]) {
        if w.len() < 12 || w[0..4] != *b"COPA" || w[9] != 1 {
            self.fail("written frame does not begin with COPA / version 1".into());
            return;
        }
        let n = u32::from_le_bytes([w[4], w[5], w[6], w[7]]) as usize;
        if n != w.len() - 12 || n as u64 > SPEC_MAX_PAYLOAD {
            self.fail(format!("written length field {} differs from the payload length {}", n, w.len() - 12));
        }
        let mut f = w.to_vec();
        f.extend_from_slice(&[0xAA, 0xBB, 0xCC]);
        let r = catch(move || {
            let mut c = Cursor::new(&f[..]);
            let r = Codec::new().read_message(&mut c);
            (r, f.len() - c.position() as usize)
        });
        match r {
            Ok((Ok(m2), 3)) if m2 == *m => {}
            _ => self.fail("framed codec round-trip mismatch".into()),
        }
    }

    fn run_cli(&mut self, kind: &str, file: &[u8]) -> String {
        use std::os::unix::process::ExitStatusExt;
        let copia = self.copia.clone().unwrap();
        let d = format!("{}/cli", self.out.dir);
        let _ = std::fs::remove_dir_all(&d);
        std::fs::create_dir_all(&d).unwrap();
        std::fs::write(format!("{}/data", d), &self.cli_src).unwrap();
        std::fs::write(format!("{}/hostile", d), file).unwrap();
        let cmd = if kind == "CLIDELTA" { "delta data hostile -o out" } else { "patch data hostile -o out" };
        let o = std::process::Command::new("bash")
            .arg("-c")
            .arg(format!("ulimit -v 6000000; exec timeout 20 {} {}", copia, cmd))
            .current_dir(&d)
            .output()
            .unwrap();
        let code = o.status.code();
        let sig = o.status.signal();
        let out_exists = std::path::Path::new(&format!("{}/out", d)).exists();
        let err = String::from_utf8_lossy(&o.stderr).to_string();
        self.out.count(&format!("cli_{}_exit_{}", kind, match (code, sig) { (Some(c), _) => format!("code{}", c), (None, Some(s)) => format!("signal{}", s), _ => "?".into() }));
        let res = match (code, sig) {
            (Some(0), _) => "PROCEED".to_string(),
            (Some(1), _) | (Some(2), _) => {
                // `copia patch` creates the output file only after the block size was accepted; `copia delta` cannot
                // fail once the engine runs (readable source, writable output), so a non-zero exit is a refusal
                if kind == "CLIPATCH" && out_exists { "PROCEED".to_string() } else { "EXITERROR".to_string() }
            }
            (Some(124), _) => {
                self.fail(format!("`copia {}` hung (timeout) on a hostile file", cmd));
                "CRASH_TIMEOUT".to_string()
            }
            (c, s) => {
                self.fail(format!("`copia {}` crashed on a hostile file: code {:?} signal {:?} stderr {}", cmd, c, s, err.lines().last().unwrap_or("").chars().take(160).collect::<String>()));
                format!("CRASH_code{:?}_signal{:?}", c, s).replace(['(', ')'], "")
            }
        };
        if code != Some(0) && (code == Some(1) || code == Some(2)) && !err.contains("Error") {
            self.fail(format!("`copia {}` exited {:?} without reporting an error", cmd, code));
        }
        let _ = std::fs::remove_dir_all(&d);
        res
    }
}

// ---------- generators ----------
fn le64(v: u64) -> [u8; 8] {
    v.to_le_bytes()
}
const HOSTILE_COUNTS: [u64; 9] = [0, 1, 1 << 20, 0xFFFF_FFFF, 0x1_0000_0000, 1 << 32 | 7, 1 << 63, u64::MAX - 1, u64::MAX];
// (2^32 + 4096 and 2^40 + 2048: valid in their low 32 bits only - the field is a usize, 8 bytes on disk)
const HOSTILE_BS: [u64; 14] = [0, 1, 3, 256, 511, 513, 1000, 65537, 131072, 1 << 32, (1 << 32) | 4096, (1 << 40) | 2048, 1 << 63, u64::MAX];

fn put(b: &[u8], off: usize, v: &[u8]) -> Vec<u8> {
    let mut x = b.to_vec();
    if off + v.len() <= x.len() {
        x[off..off + v.len()].copy_from_slice(v);
    }
    x
}

/// single-field corruptions of an encoded Signature starting at `base` inside `b`
fn corrupt_sig(b: &[u8], base: usize, r: &mut Rng) -> Vec<(String, Vec<u8>)> {
    let mut v = vec![];
    for bs in HOSTILE_BS {
        v.push(("sig_block_size".to_string(), put(b, base, &le64(bs))));
    }
    for c in HOSTILE_COUNTS {
        v.push(("sig_count".to_string(), put(b, base + 16, &le64(c))));
    }
    if b.len() >= base + 24 {
        let n = u64::from_le_bytes(b[base + 16..base + 24].try_into().unwrap());
        v.push(("sig_count_plus1".to_string(), put(b, base + 16, &le64(n.wrapping_add(1)))));
        v.push(("sig_count_minus1".to_string(), put(b, base + 16, &le64(n.wrapping_sub(1)))));
    }
    v.push(("sig_file_size".to_string(), put(b, base + 8, &le64(*r.pick(&EXTREME64)))));
    // the `index` field of a block record (u32 at +24 + 40k): out of range, or another block's number - a reader that
    // trusts it as a position must not crash
    if b.len() >= base + 24 {
        let n = u64::from_le_bytes(b[base + 16..base + 24].try_into().unwrap()) as usize;
        if n > 0 && b.len() >= base + 24 + 40 * n {
            for k in [0usize, n - 1] {
                for val in [n as u32, 1000, u32::MAX, ((k + 1) % n) as u32] {
                    v.push(("sig_block_index".to_string(), put(b, base + 24 + 40 * k, &val.to_le_bytes())));
                }
            }
        }
    }
    v
}
/// single-field corruptions of an encoded Delta starting at `base`
fn corrupt_delta(b: &[u8], base: usize, r: &mut Rng) -> Vec<(String, Vec<u8>)> {
    let mut v = vec![];
    for bs in HOSTILE_BS {
        v.push(("delta_block_size".to_string(), put(b, base, &(bs as u32).to_le_bytes())));
    }
    for c in HOSTILE_COUNTS {
        v.push(("delta_count".to_string(), put(b, base + 20, &le64(c))));
    }
    if b.len() >= base + 28 {
        let n = u64::from_le_bytes(b[base + 20..base + 28].try_into().unwrap());
        v.push(("delta_count_plus1".to_string(), put(b, base + 20, &le64(n.wrapping_add(1)))));
        v.push(("delta_count_minus1".to_string(), put(b, base + 20, &le64(n.wrapping_sub(1)))));
        if n > 0 && b.len() >= base + 40 {
            // first op: tag at +28; a literal's length at +32
            for t in [2u32, 3, 255, 0x100, u32::MAX] {
                v.push(("delta_op_tag".to_string(), put(b, base + 28, &t.to_le_bytes())));
            }
            let tag = u32::from_le_bytes(b[base + 28..base + 32].try_into().unwrap());
            v.push(("delta_op_retag".to_string(), put(b, base + 28, &(1 - tag.min(1)).to_le_bytes())));
            if tag == 1 {
                for c in HOSTILE_COUNTS {
                    v.push(("delta_literal_len".to_string(), put(b, base + 32, &le64(c))));
                }
            }
        }
    }
    v.push(("delta_sizes".to_string(), put(b, base + 4, &le64(*r.pick(&EXTREME64)))));
    v
}
/// corruptions of an encoded Message
fn corrupt_msg(b: &[u8], r: &mut Rng) -> Vec<(String, Vec<u8>)> {
    let mut v = vec![];
    if b.len() < 4 {
        return v;
    }
    let tag = u32::from_le_bytes(b[0..4].try_into().unwrap());
    for t in [7u32, 8, 255, 256, 0x0100_0000, u32::MAX] {
        v.push(("msg_tag_invalid".to_string(), put(b, 0, &t.to_le_bytes())));
    }
    v.push(("msg_tag_other_kind".to_string(), put(b, 0, &((tag + 1 + r.below(6) as u32) % 7).to_le_bytes())));
    match tag {
        1 => v.extend(corrupt_sig(b, 12, r)),
        2 => v.extend(corrupt_delta(b, 12, r)),
        3 => {
            for x in [2u8, 3, 0x80, 0xFF] {
                v.push(("ack_bad_bool".to_string(), put(b, 12, &[x])));
                v.push(("ack_bad_option_tag".to_string(), put(b, 13, &[x])));
            }
            v.push(("ack_option_flip".to_string(), put(b, 13, &[1 - b[13].min(1)])));
            if b[13] == 1 {
                v.extend(corrupt_string(b, 14, r));
            }
        }
        4 => v.extend(corrupt_string(b, 8, r)),
        _ => {}
    }
    v
}
/// a String field (u64 length at `off`, payload after it)
fn corrupt_string(b: &[u8], off: usize, r: &mut Rng) -> Vec<(String, Vec<u8>)> {
    let mut v = vec![];
    if b.len() < off + 8 {
        return v;
    }
    for c in HOSTILE_COUNTS {
        v.push(("string_len".to_string(), put(b, off, &le64(c))));
    }
    let n = u64::from_le_bytes(b[off..off + 8].try_into().unwrap()) as usize;
    if n > 0 && b.len() >= off + 8 + n {
        for x in [0xFFu8, 0xC0, 0x80, 0xED, 0xF8] {
            let i = off + 8 + r.below(n as u64) as usize;
            v.push(("string_bad_utf8".to_string(), put(b, i, &[x])));
        }
        v.push(("string_overlong".to_string(), put(b, off + 8, &[0xC0, 0xAF][..n.min(2)])));
        if n >= 3 {
            v.push(("string_surrogate".to_string(), put(b, off + 8, &[0xED, 0xA0, 0x80])));
        }
        // a shorter length may cut a multi-byte character; the rest becomes trailing bytes
        for k in 1..n.min(5) {
            v.push(("string_len_cut".to_string(), put(b, off, &le64((n - k) as u64))));
        }
    }
    v
}
fn random_edit(b: &[u8], r: &mut Rng) -> Vec<u8> {
    let mut x = b.to_vec();
    if x.is_empty() {
        return vec![r.byte()];
    }
    match r.below(5) {
        0 => {
            let i = r.below(x.len() as u64) as usize;
            x[i] ^= 1 << r.below(8);
        }
        1 => {
            let i = r.below(x.len() as u64) as usize;
            let v = le64(*r.pick(&HOSTILE_COUNTS));
            let k = v.len().min(x.len() - i);
            x[i..i + k].copy_from_slice(&v[..k]);
        }
        2 => {
            let i = r.below(x.len() as u64 + 1) as usize;
            x.truncate(i);
        }
        3 => {
            let i = r.below(x.len() as u64 + 1) as usize;
            x.insert(i, r.byte());
        }
        _ => {
            let i = r.below(x.len() as u64) as usize;
            x.remove(i);
        }
    }
    x
}

fn hdr_bytes(magic: [u8; 4], len: u32, ty: u8, ver: u8, flags: u16) -> [u8; 12] {
    let l = len.to_le_bytes();
    let f = flags.to_le_bytes();
    [magic[0], magic[1], magic[2], magic[3], l[0], l[1], l[2], l[3], ty, ver, f[0], f[1]]
}

pub fn main(a: Args) -> i32 {
    let copia = a.rest.iter().position(|x| x == "--copia").map(|i| a.rest[i + 1].clone());
    let mut r = Rng::new(a.seed ^ 0xC20);
    let cli_src: Vec<u8> = (0..3000u32).map(|i| (i * 7 % 251) as u8).collect();
    let mut c = Ctx { out: Out::new(&a.out), id: 0, nfail: 0, checked: cfg!(debug_assertions), copia, distinct: HashSet::new(), cli_src };
    if let Some(p) = &a.replay {
        for l in std::fs::read_to_string(p).unwrap().lines().filter(|l| !l.trim().is_empty() && !l.starts_with('#')) {
            let t: Vec<&str> = l.split_whitespace().collect();
            if t.len() >= 3 {
                c.run(t[1], &t[2..], "replay");
            }
        }
        return finish(c);
    }
    let thorough = a.tier == "thorough";
    let per_kind = if thorough { 700 } else { 110 };
    let chk = if c.checked { "1" } else { "0" };

    // ---- headers ----
    let magics: [[u8; 4]; 7] = [*b"COPA", *b"COPB", *b"XOPA", *b"copa", [0; 4], [0xFF; 4], *b"COPI"];
    let lens: [u32; 9] = [0, 1, 12, 0xFFFF, (SPEC_MAX_PAYLOAD - 1) as u32, SPEC_MAX_PAYLOAD as u32, SPEC_MAX_PAYLOAD as u32 + 1, 1 << 31, u32::MAX];
    let types: [u8; 12] = [0, 1, 2, 3, 4, 5, 6, 7, 8, 9, 0x80, 0xFF];
    let vers: [u8; 4] = [1, 0, 2, 0xFF];
    for m in magics {
        for l in lens {
            for t in types {
                for v in vers {
                    // full grid in the thorough tier; in quick: every single-field deviation plus a pseudo-random third of the rest
                    let dev = (m != *b"COPA") as u32 + (l > SPEC_MAX_PAYLOAD as u32) as u32 + (!(1..=7).contains(&t)) as u32 + (v != 1) as u32;
                    if !thorough && dev > 1 && !r.chance(1, 3) {
                        continue;
                    }
                    let h = hdr_bytes(m, l, t, v, if r.chance(1, 2) { 0 } else { r.next() as u16 });
                    let hx = hex(&h);
                    c.run("HDR", &[&hx], &format!("hdr_grid_dev{}", dev));
                    if r.chance(1, 3) {
                        let mut e = h.to_vec();
                        e.extend(rbytes(&mut r, 5));
                        c.run("HDRREAD", &[&hex(&e)], &format!("hdrread_grid_dev{}", dev));
                    }
                }
            }
        }
    }
    for _ in 0..(if thorough { 4000 } else { 600 }) {
        let hx = hex(&r.bytes(12));
        c.run("HDR", &[&hx], "hdr_random");
    }
    let good = hdr_bytes(*b"COPA", 77, 3, 1, 0x1234);
    for n in 0..=14usize {
        let mut e = good.to_vec();
        e.extend_from_slice(&[9, 9]);
        e.truncate(n);
        c.run("HDRREAD", &[&hex(&e)], "hdrread_short");
        let mut e2 = hdr_bytes(*b"XOPA", 77, 9, 2, 0).to_vec();
        e2.truncate(n);
        c.run("HDRREAD", &[&hex(&e2)], "hdrread_short_bad");
    }
    for _ in 0..(if thorough { 1500 } else { 250 }) {
        let m: [u8; 4] = if r.chance(4, 5) { *b"COPA" } else { [b'C', r.byte(), b'P', b'A'] };
        let m = if r.chance(1, 12) { [r.byte(), b'O', b'P', b'A'] } else { m };
        let (l, t, v, f) = (if r.chance(1, 2) { *r.pick(&lens) } else { r.below(SPEC_MAX_PAYLOAD + 1) as u32 }, 1 + r.below(7) as u8, if r.chance(3, 4) { 1 } else { r.byte() }, r.next() as u16);
        c.run("HDRENC", &[chk, &hex(&m), &l.to_string(), &t.to_string(), &v.to_string(), &f.to_string()], "hdr_encode");
    }

    // ---- values: encode side, then the decoders on the encodings and on their corruptions ----
    let mut msgs: Vec<(Message, &'static str)> = vec![];
    for kind in 0..7u64 {
        for _ in 0..per_kind {
            msgs.push((gmsg(&mut r, kind, 1500), "random"));
        }
    }
    // empty and large signatures / deltas, long strings
    msgs.push((Message::SignatureResponse { file_id: 0, signature: Signature::new(0, 0) }, "empty"));
    msgs.push((Message::DeltaData { file_id: 0, delta: Delta::new(0, 0, 0) }, "empty"));
    msgs.push((Message::Error { code: 0, message: String::new() }, "empty"));
    msgs.push((Message::Ack { file_id: 0, success: false, message: Some(String::new()) }, "empty"));
    let nlarge = if thorough { 6 } else { 2 };
    for i in 0..nlarge {
        let mut s = Signature::new(1024, 1024 * 20_000);
        for k in 0..(12_000 + 4_000 * i as u32) {
            s.blocks.push(BlockSignature::new(k, g32(&mut r), ghash(&mut r)));
        }
        msgs.push((Message::SignatureResponse { file_id: g64(&mut r), signature: s }, "large"));
        let mut d = gdelta(&mut r, 3000, 300);
        d.ops.push(DeltaOp::Literal(r.bytes(200_000 + 50_000 * i)));
        msgs.push((Message::DeltaData { file_id: g64(&mut r), delta: d }, "large"));
        msgs.push((Message::Error { code: 1, message: gstring(&mut r, 100_000) }, "large"));
    }
    for (m, cls) in &msgs {
        let ms = msg_s(m);
        let mt: Vec<&str> = ms.split(' ').collect();
        c.run("MSGENC", &mt, &format!("enc_{}", cls));
        c.run("CODECENC", &mt, &format!("enc_{}", cls));
        let enc = m.encode().unwrap();
        let mut frame = Vec::new();
        Codec::new().write_message(&mut frame, m).unwrap();
        let inner: Option<(&str, Vec<u8>)> = match m {
            Message::SignatureResponse { signature, .. } => {
                let s = sig_s(signature);
                c.run("SIGENC", &s.split(' ').collect::<Vec<_>>(), &format!("enc_{}", cls));
                Some(("SIGDEC", bincode::serialize(signature).unwrap()))
            }
            Message::DeltaData { delta, .. } => {
                let s = delta_s(delta);
                c.run("DELTAENC", &s.split(' ').collect::<Vec<_>>(), &format!("enc_{}", cls));
                Some(("DELTADEC", bincode::serialize(delta).unwrap()))
            }
            _ => None,
        };
        // decoders on the valid encodings, with and without trailing bytes
        let mut with_tail = enc.clone();
        with_tail.extend(rbytes(&mut r, 6));
        c.run("MSGDEC", &[&hex(&with_tail), &utf8_flag(&with_tail).to_string()], &format!("dec_valid_{}", cls));
        let mut ft = frame.clone();
        ft.extend(rbytes(&mut r, 20));
        c.run("CODEC", &[&hex(&ft), &codec_utf8_flag(&ft).to_string()], &format!("dec_valid_{}", cls));
        if let Some((k, b)) = &inner {
            c.run(k, &[&hex(b)], &format!("dec_valid_{}", cls));
        }
        if *cls == "large" {
            // a few corruptions of the large ones (counts, truncation in the middle)
            for (what, x) in corrupt_msg(&enc, &mut r).into_iter().filter(|(w, _)| w.contains("count") || w.contains("string_len")).take(6) {
                c.run("MSGDEC", &[&hex(&x), &utf8_flag(&x).to_string()], &format!("dec_large_{}", what));
            }
            let cut = enc.len() / 2;
            c.run("MSGDEC", &[&hex(&enc[..cut]), &utf8_flag(&enc[..cut]).to_string()], "dec_large_truncated");
            continue;
        }
        // single-field corruptions
        for (what, x) in corrupt_msg(&enc, &mut r) {
            c.run("MSGDEC", &[&hex(&x), &utf8_flag(&x).to_string()], &format!("dec_{}", what));
            if r.chance(1, 4) {
                let mut f = frame[..12].to_vec();
                f.extend_from_slice(&x);
                c.run("CODEC", &[&hex(&f), &codec_utf8_flag(&f).to_string()], &format!("codec_payload_{}", what));
            }
        }
        if let Some((k, b)) = &inner {
            let cs = if *k == "SIGDEC" { corrupt_sig(b, 0, &mut r) } else { corrupt_delta(b, 0, &mut r) };
            for (what, x) in cs {
                c.run(k, &[&hex(&x)], &format!("dec_{}", what));
            }
        }
        // truncation at every offset for small encodings
        if enc.len() <= 120 {
            for n in 0..enc.len() {
                c.run("MSGDEC", &[&hex(&enc[..n]), &utf8_flag(&enc[..n]).to_string()], "dec_truncated");
            }
            for n in 0..frame.len() {
                if r.chance(1, 2) {
                    c.run("CODEC", &[&hex(&frame[..n]), &codec_utf8_flag(&frame[..n]).to_string()], "codec_truncated");
                }
            }
            if let Some((k, b)) = &inner {
                for n in 0..b.len() {
                    c.run(k, &[&hex(&b[..n])], "dec_truncated");
                }
            }
        }
        // random edits
        for _ in 0..3 {
            let x = random_edit(&enc, &mut r);
            c.run("MSGDEC", &[&hex(&x), &utf8_flag(&x).to_string()], "dec_random_edit");
            let f = random_edit(&frame, &mut r);
            c.run("CODEC", &[&hex(&f), &codec_utf8_flag(&f).to_string()], "codec_random_edit");
            if let Some((k, b)) = &inner {
                let x = random_edit(b, &mut r);
                c.run(k, &[&hex(&x)], "dec_random_edit");
            }
        }
        // frame header corruptions: length field vs payload, header fields
        if r.chance(1, 3) {
            let n = enc.len() as u32;
            for l in [0u32, n.wrapping_sub(1), n + 1, n + 1000, SPEC_MAX_PAYLOAD as u32, SPEC_MAX_PAYLOAD as u32 + 1, u32::MAX] {
                let f = put(&frame, 4, &l.to_le_bytes());
                c.run("CODEC", &[&hex(&f), &codec_utf8_flag(&f).to_string()], "codec_length_field");
            }
            for (off, vals) in [(0usize, vec![b'X', 0]), (3, vec![b'B']), (8, vec![0u8, 8, 0xFF, (enc[0] + 2) % 7 + 1]), (9, vec![0u8, 2, 0xFF])] {
                for v in vals {
                    let f = put(&frame, off, &[v]);
                    c.run("CODEC", &[&hex(&f), &codec_utf8_flag(&f).to_string()], "codec_header_field");
                }
            }
        }
    }
    // random byte strings
    for _ in 0..(if thorough { 6000 } else { 900 }) {
        let n = r.below(80) as usize;
        let mut x = r.bytes(n);
        if n >= 4 && r.chance(2, 3) {
            x[0] = r.below(8) as u8;
            x[1] = 0;
            x[2] = 0;
            x[3] = 0;
        }
        c.run("MSGDEC", &[&hex(&x), &utf8_flag(&x).to_string()], "dec_random_bytes");
        match r.below(3) {
            0 => c.run("SIGDEC", &[&hex(&x)], "dec_random_bytes"),
            1 => c.run("DELTADEC", &[&hex(&x)], "dec_random_bytes"),
            _ => {
                let mut f = hdr_bytes(*b"COPA", if r.chance(1, 2) { n as u32 } else { r.below(100) as u32 }, 1 + r.below(7) as u8, 1, 0).to_vec();
                f.extend_from_slice(&x);
                c.run("CODEC", &[&hex(&f), &codec_utf8_flag(&f).to_string()], "codec_random_payload");
            }
        }
    }

    // ---- oversize payloads: implementation-only oracle (a 16 MiB model run is not worth its cost) ----
    if !c.checked || thorough {
        for extra in [0usize, 1] {
            // Error{code, message}: payload = 4 + 4 + 8 + len
            let len = SPEC_MAX_PAYLOAD as usize - 16 + extra;
            let m = Message::Error { code: 7, message: "a".repeat(len) };
            let mut w = Vec::new();
            let res = catch(std::panic::AssertUnwindSafe(|| Codec::new().write_message(&mut w, &m)));
            c.out.count("oversize_oracle_runs");
            match (extra, res) {
                (0, Ok(Ok(()))) => c.check_frame(&m, &w),
                (1, Ok(Err(e))) if err_s(&e) == "ERR_PAYLOAD" => {}
                (_, x) => c.fail(format!("write_message at payload MAX+{}: unexpected {:?}", extra, x.map(|y| y.map_err(|e| e.to_string())))),
            }
        }
    }

    // ---- round trip THROUGH THE FILES THE CLI WRITES (shipped profile run only): implementation-only oracle.  Basis sizes
    // around and exactly at multiples of the block size, empty and one-byte files included: `copia signature`, then
    // `copia delta` on that signature file, then `copia patch` on that delta file must all succeed and give back the source
    if c.copia.is_some() && !c.checked {
        let copia = c.copia.clone().unwrap();
        let d = format!("{}/clirt", c.out.dir);
        let sizes: Vec<usize> = vec![0, 1, 511, 512, 513, 1024, 2047, 2048, 2049, 4096, 6149, 8192, 65536, 65537, 131072];
        for (i, bsz) in sizes.iter().enumerate() {
            for bs in [512usize, 2048, 65536] {
                if !thorough && (i + bs / 512) % 2 == 1 && ![2048usize, 8192, 65536].contains(bsz) { continue; }
                let _ = std::fs::remove_dir_all(&d);
                std::fs::create_dir_all(&d).unwrap();
                let basis: Vec<u8> = (0..*bsz).map(|j| ((j * 7 + i) % 251) as u8).collect();
                let mut src = basis.clone();
                if !src.is_empty() { let k = src.len() / 2; src[k] ^= 0x55; }
                src.extend_from_slice(b"tail");
                std::fs::write(format!("{}/basis", d), &basis).unwrap();
                std::fs::write(format!("{}/src", d), &src).unwrap();
                let run = |args: &[&str]| {
                    let o = std::process::Command::new(&copia).args(args).current_dir(&d).output().unwrap();
                    (o.status.code(), String::from_utf8_lossy(&o.stderr).lines().last().unwrap_or("").chars().take(160).collect::<String>())
                };
                let bss = bs.to_string();
                let c1 = run(&["signature", "basis", "-o", "b.sig", "--block-size", &bss]);
                let c2 = run(&["delta", "src", "b.sig", "-o", "s.delta"]);
                let c3 = run(&["patch", "basis", "s.delta", "-o", "out"]);
                c.out.count("cli_file_round_trips");
                let out = std::fs::read(format!("{}/out", d)).unwrap_or_default();
                if c1.0 != Some(0) || c2.0 != Some(0) || c3.0 != Some(0) || out != src {
                    let sigf = std::fs::read(format!("{}/b.sig", d)).unwrap_or_default();
                    c.fail(format!("round trip through the files the CLI writes failed for a basis of {} bytes at block size {}: signature {:?}, delta {:?} [{}], patch {:?} [{}], output==source {} ; the signature file: CLIDELTA {}", bsz, bs, c1.0, c2.0, c2.1, c3.0, c3.1, out == src, hex(&sigf[..sigf.len().min(400)])));
                }
            }
        }
        let _ = std::fs::remove_dir_all(&d);
    }

    // ---- CLI readers on crafted / hostile files (shipped profile run only) ----
    if c.copia.is_some() && !c.checked {
        let ncli = if thorough { 40 } else { 10 };
        let mut files: Vec<(&str, String, Vec<u8>)> = vec![];
        for i in 0..ncli {
            let mut s = Signature::new(*r.pick(&[512usize, 1024, 2048, 65536]), 3000);
            for k in 0..r.below(6) as u32 {
                s.blocks.push(BlockSignature::new(k, g32(&mut r), ghash(&mut r)));
            }
            if i == 0 {
                s = Signature::generate(&mut Cursor::new(&c.cli_src), 512).unwrap();
            }
            let b = bincode::serialize(&s).unwrap();
            files.push(("CLIDELTA", "cli_valid".into(), b.clone()));
            for (what, x) in corrupt_sig(&b, 0, &mut r) {
                if what == "sig_block_size" || what == "sig_count" || what == "sig_block_index" || r.chance(1, 2) {
                    if i < 3 || r.chance(1, 4) {
                        files.push(("CLIDELTA", format!("cli_{}", what), x));
                    }
                }
            }
            files.push(("CLIDELTA", "cli_truncated".into(), b[..r.below(b.len() as u64) as usize].to_vec()));
            files.push(("CLIDELTA", "cli_random_edit".into(), random_edit(&b, &mut r)));

            let mut d = Delta::new(*r.pick(&[512u32, 1024, 65536]), 0, 3000);
            for _ in 0..r.below(5) {
                if r.chance(1, 2) {
                    d.ops.push(DeltaOp::Copy { offset: r.below(2500), len: r.below(500) as u32 });
                } else {
                    d.ops.push(DeltaOp::Literal(rbytes(&mut r, 40)));
                }
            }
            if i % 2 == 0 {
                // a delta that really applies to the basis: exit 0 expected
                let mut o = Vec::new();
                for op in &d.ops {
                    match op {
                        DeltaOp::Copy { offset, len } => o.extend_from_slice(&c.cli_src[*offset as usize..*offset as usize + *len as usize]),
                        DeltaOp::Literal(x) => o.extend_from_slice(x),
                    }
                }
                d.source_size = o.len() as u64;
                d.checksum = StrongHash::compute(&o);
            }
            let b = bincode::serialize(&d).unwrap();
            files.push(("CLIPATCH", "cli_valid".into(), b.clone()));
            for (what, x) in corrupt_delta(&b, 0, &mut r) {
                if what == "delta_block_size" || what == "delta_count" || r.chance(1, 2) {
                    if i < 3 || r.chance(1, 4) {
                        files.push(("CLIPATCH", format!("cli_{}", what), x));
                    }
                }
            }
            files.push(("CLIPATCH", "cli_truncated".into(), b[..r.below(b.len() as u64) as usize].to_vec()));
            files.push(("CLIPATCH", "cli_random_edit".into(), random_edit(&b, &mut r)));
        }
        // a delta that passes its own bounds check (forged basis_size) but copies past the end of the real basis file,
        // or that is honest about a basis longer than the file it is applied to: an error, never a hang
        for (off, len, bsz) in [(c.cli_src.len() as u64 - 10, 5000u32, 1u64 << 40), (c.cli_src.len() as u64 + 7, 64, 1u64 << 40), (0, 300_000, 300_000), (c.cli_src.len() as u64, 1, c.cli_src.len() as u64 + 1)] {
            let mut d = Delta::new(512, len as u64, bsz);
            d.ops.push(DeltaOp::Copy { offset: off, len });
            files.push(("CLIPATCH", "cli_copy_past_eof".into(), bincode::serialize(&d).unwrap()));
        }
        // a SELF-CONSISTENT hostile delta: every field agrees with every other (the operations add up to source_size, every
        // copy lies inside the declared basis_size) but describes an output far larger than memory: an error (the real basis
        // is short), never an abort on an allocation sized by the file's own claim
        for (n, len) in [(8u64, u32::MAX), (1024, 1u32 << 30), (3, 1u32 << 31), (1 << 12, 1u32 << 30)] {
            let mut d = Delta::new(512, n * len as u64, len as u64);
            for _ in 0..n {
                d.ops.push(DeltaOp::Copy { offset: 0, len });
            }
            files.push(("CLIPATCH", "cli_consistent_huge".into(), bincode::serialize(&d).unwrap()));
        }
        files.push(("CLIDELTA", "cli_empty".into(), vec![]));
        files.push(("CLIPATCH", "cli_empty".into(), vec![]));
        for _ in 0..6 {
            let x = rbytes(&mut r, 100);
            files.push(("CLIDELTA", "cli_random_bytes".into(), x.clone()));
            files.push(("CLIPATCH", "cli_random_bytes".into(), x));
        }
        for (k, cls, f) in files {
            c.run(k, &[&hex(&f)], &cls);
        }
    }
    finish(c)
}

fn finish(mut c: Ctx) -> i32 {
    c.out.add("distinct_nontrivial", c.distinct.len() as u64);
    c.out.add("spec_failures", c.nfail);
    c.out.finish();
    0
}

fn rbytes(r: &mut Rng, below: u64) -> Vec<u8> {
    let n = r.below(below) as usize;
    r.bytes(n)
}
