//! C19: the REAL `glob_match`, `is_excluded`, `needs_transfer`, `build_plan` (plan.rs) and
//! `parse_remote_meta_output` (meta.rs), compiled in unchanged, against the extracted Coq model
//! (line-by-line) and against independent Rust transcriptions of the set definitions (property oracle).
//!
//! cases.txt, one case per line, strings as hex of their UTF-8 bytes (`-` = empty):
//!   `<id> G <pattern> <text>`                                   -> `<id> G m=<0|1> gm=<0|1>`
//!   `<id> H <pattern> <text>`                                   -> `<id> H m=<0|1>`   (many stars x long text: the recursive
//!                                                                   definition `gm` is exponential there; the driver evaluates only the
//!                                                                   modelled matcher, the Rust table-based definition stays the oracle)
//!   `<id> E <rel path> <n> <pattern>*n`                         -> `<id> E x=<0|1> spec=<0|1>`
//!   `<id> N <ssize> <smtime> <0|1 present> <dsize> <dmtime>`    -> `<id> N <0|1>`
//!   `<id> P <delete 0|1> <n> <pattern>*n <ns> (<path> <size> <mtime>)*ns <nd> (<path> <size> <mtime>)*nd`
//!                                                               -> `<id> P T=<hex,..|-> S=<n> D=<hex,..|->`
//!   `<id> L <stdout bytes>`                                     -> `<id> L n=<k> <path>:<size>:<mtime>,..|-`
//! `m`/`x`/N/P/L are the implementation's answers; `gm`/`spec` are the harness's own transcription of the
//! definitions (the driver prints the extracted Coq `gm` / `is_excluded_with gm` in the same place, so the
//! Rust oracle is itself checked against the Coq definition on every sampled case).
//! Maps are built by inserting the listed entries in order (BTreeMap::insert semantics for path-equal keys).
use crate::cli::meta::parse_remote_meta_output;
use crate::cli::plan::{build_plan, glob_match, is_excluded, needs_transfer, FileMeta, MetaMap};
use crate::util::*;
use std::collections::{BTreeMap, HashSet};
use std::path::{Path, PathBuf};

// ------------------------------------------------------------------ independent definitions (oracles)
/// Wildcard matching by its definition, as a table over (pattern suffix, text suffix).
pub fn gm_spec(p: &[char], t: &[char]) -> bool {
    let (n, m) = (p.len(), t.len());
    // d[j] = pattern[i..] matches text[j..]; computed for i = n down to 0
    let mut d = vec![false; m + 1];
    d[m] = true;
    for i in (0..n).rev() {
        let mut e = vec![false; m + 1];
        if p[i] == '*' {
            // matches text[j..] iff rest matches text[k..] for some k >= j
            let mut any = false;
            for j in (0..=m).rev() {
                any = any || d[j];
                e[j] = any;
            }
        } else {
            for j in 0..m {
                e[j] = (p[i] == '?' || p[i] == t[j]) && d[j + 1];
            }
        }
        d = e;
    }
    d[0]
}

fn gm_str(p: &str, t: &str) -> bool {
    let pc: Vec<char> = p.chars().collect();
    let tc: Vec<char> = t.chars().collect();
    gm_spec(&pc, &tc)
}

/// The Normal components of a Unix path string, by the documented rules of `Path::components`.
fn normal_components(s: &str) -> Vec<&str> {
    s.split('/').filter(|c| !c.is_empty() && *c != "." && *c != "..").collect()
}

/// C15's wording: slash-free patterns match any single component, patterns containing `/` the whole path.
pub fn excluded_spec(rel: &str, pats: &[String]) -> bool {
    pats.iter().any(|p0| {
        let mut p: &str = p0;
        while p.ends_with('/') {
            p = &p[..p.len() - 1];
        }
        if p.is_empty() {
            false
        } else if p.contains('/') {
            gm_str(p, rel)
        } else {
            normal_components(rel).iter().any(|c| gm_str(p, c))
        }
    })
}

// ------------------------------------------------------------------ cases
#[derive(Clone, Debug)]
pub enum Case {
    G { pat: String, text: String },
    H { pat: String, text: String },
    E { rel: String, pats: Vec<String> },
    N { s: (u64, i64), d: Option<(u64, i64)> },
    P { del: bool, pats: Vec<String>, src: Vec<(String, u64, i64)>, dst: Vec<(String, u64, i64)> },
    L { bytes: Vec<u8> },
}

fn hs(s: &str) -> String {
    hex(s.as_bytes())
}
fn uh(s: &str) -> String {
    String::from_utf8(unhex(s)).expect("case strings are UTF-8")
}

impl Case {
    pub fn line(&self, id: usize) -> String {
        match self {
            Case::G { pat, text } => format!("{} G {} {}", id, hs(pat), hs(text)),
            Case::H { pat, text } => format!("{} H {} {}", id, hs(pat), hs(text)),
            Case::E { rel, pats } => {
                let mut s = format!("{} E {} {}", id, hs(rel), pats.len());
                for p in pats {
                    s.push(' ');
                    s.push_str(&hs(p));
                }
                s
            }
            Case::N { s, d } => match d {
                Some(d) => format!("{} N {} {} 1 {} {}", id, s.0, s.1, d.0, d.1),
                None => format!("{} N {} {} 0 0 0", id, s.0, s.1),
            },
            Case::P { del, pats, src, dst } => {
                let mut s = format!("{} P {} {}", id, if *del { 1 } else { 0 }, pats.len());
                for p in pats {
                    s.push(' ');
                    s.push_str(&hs(p));
                }
                for m in [src, dst] {
                    s.push_str(&format!(" {}", m.len()));
                    for (p, sz, mt) in m {
                        s.push_str(&format!(" {} {} {}", hs(p), sz, mt));
                    }
                }
                s
            }
            Case::L { bytes } => format!("{} L {}", id, hex(bytes)),
        }
    }

    pub fn parse(line: &str) -> Option<(String, Case)> {
        let f: Vec<&str> = line.split_whitespace().collect();
        if f.len() < 2 {
            return None;
        }
        let id = f[0].to_string();
        let c = match f[1] {
            "G" => Case::G { pat: uh(f[2]), text: uh(f[3]) },
            "H" => Case::H { pat: uh(f[2]), text: uh(f[3]) },
            "E" => {
                let n: usize = f[3].parse().ok()?;
                Case::E { rel: uh(f[2]), pats: (0..n).map(|i| uh(f[4 + i])).collect() }
            }
            "N" => Case::N {
                s: (f[2].parse().ok()?, f[3].parse().ok()?),
                d: if f[4] == "1" { Some((f[5].parse().ok()?, f[6].parse().ok()?)) } else { None },
            },
            "P" => {
                let del = f[2] == "1";
                let n: usize = f[3].parse().ok()?;
                let pats = (0..n).map(|i| uh(f[4 + i])).collect();
                let mut k = 4 + n;
                let mut maps = vec![];
                for _ in 0..2 {
                    let cnt: usize = f[k].parse().ok()?;
                    k += 1;
                    let mut m = vec![];
                    for _ in 0..cnt {
                        m.push((uh(f[k]), f[k + 1].parse().ok()?, f[k + 2].parse().ok()?));
                        k += 3;
                    }
                    maps.push(m);
                }
                let dst = maps.pop()?;
                let src = maps.pop()?;
                Case::P { del, pats, src, dst }
            }
            "L" => Case::L { bytes: unhex(f[2]) },
            _ => return None,
        };
        Some((id, c))
    }
}

fn b(x: bool) -> u8 {
    if x {
        1
    } else {
        0
    }
}
fn path_hex(p: &Path) -> String {
    use std::os::unix::ffi::OsStrExt;
    hex(p.as_os_str().as_bytes())
}
fn hexlist(v: &[PathBuf]) -> String {
    if v.is_empty() {
        "-".into()
    } else {
        v.iter().map(|p| path_hex(p)).collect::<Vec<_>>().join(",")
    }
}
fn mk_map(v: &[(String, u64, i64)]) -> MetaMap {
    let mut m = MetaMap::new();
    for (p, s, t) in v {
        m.insert(PathBuf::from(p), FileMeta { size: *s, mtime: *t });
    }
    m
}
fn key_str(p: &Path) -> String {
    p.to_string_lossy().into_owned()
}

/// Runs the implementation on one case: (impl.txt line, property-oracle failure if any).
pub fn run_case(id: &str, c: &Case) -> (String, Option<String>) {
    match c {
        Case::G { pat, text } => {
            let (p2, t2) = (pat.clone(), text.clone());
            let spec = gm_str(pat, text);
            match catch(move || glob_match(&p2, &t2)) {
                Ok(m) => {
                    let fail = if m != spec {
                        Some(format!("glob_match({:?}, {:?}) = {} but the wildcard definition gives {}", pat, text, m, spec))
                    } else {
                        None
                    };
                    (format!("{} G m={} gm={}", id, b(m), b(spec)), fail)
                }
                Err(e) => (format!("{} G PANIC", id), Some(format!("glob_match({:?}, {:?}) panicked: {}", pat, text, e))),
            }
        }
        Case::H { pat, text } => {
            let (l, f) = run_case(id, &Case::G { pat: pat.clone(), text: text.clone() });
            (l.replacen(" G ", " H ", 1).split(" gm=").next().unwrap().to_string(), f)
        }
        Case::E { rel, pats } => {
            let spec = excluded_spec(rel, pats);
            let (r2, p2) = (rel.clone(), pats.clone());
            match catch(move || is_excluded(Path::new(&r2), &p2)) {
                Ok(x) => {
                    let fail = if x != spec {
                        Some(format!("is_excluded({:?}, {:?}) = {} but the definition gives {}", rel, pats, x, spec))
                    } else {
                        None
                    };
                    (format!("{} E x={} spec={}", id, b(x), b(spec)), fail)
                }
                Err(e) => (format!("{} E PANIC", id), Some(format!("is_excluded panicked: {}", e))),
            }
        }
        Case::N { s, d } => {
            let sm = FileMeta { size: s.0, mtime: s.1 };
            let dm = d.map(|d| FileMeta { size: d.0, mtime: d.1 });
            let spec = match d {
                None => true,
                Some(d) => s.0 != d.0 || s.1 != d.1,
            };
            match catch(move || needs_transfer(sm, dm)) {
                Ok(x) => (
                    format!("{} N {}", id, b(x)),
                    if x != spec { Some(format!("needs_transfer({:?}, {:?}) = {} but the quick-check rule gives {}", s, d, x, spec)) } else { None },
                ),
                Err(e) => (format!("{} N PANIC", id), Some(format!("needs_transfer panicked: {}", e))),
            }
        }
        Case::P { del, pats, src, dst } => {
            let (sm, dm) = (mk_map(src), mk_map(dst));
            // the set definitions, with the definition of matching
            let mut want_t: Vec<PathBuf> = vec![];
            let mut nonex = 0usize;
            for (p, m) in &sm {
                if excluded_spec(&key_str(p), pats) {
                    continue;
                }
                nonex += 1;
                let differs = match dm.get(p) {
                    None => true,
                    Some(d) => d.size != m.size || d.mtime != m.mtime,
                };
                if differs {
                    want_t.push(p.clone());
                }
            }
            let want_s = nonex - want_t.len();
            let want_d: Vec<PathBuf> = if *del {
                dm.keys().filter(|p| !sm.contains_key(*p) && !excluded_spec(&key_str(p), pats)).cloned().collect()
            } else {
                vec![]
            };
            let (sm2, dm2, p2, del2) = (sm.clone(), dm.clone(), pats.clone(), *del);
            match catch(move || build_plan(&sm2, &dm2, &p2, del2)) {
                Ok(plan) => {
                    let mut fail = None;
                    if plan.transfer != want_t {
                        fail = Some(format!("build_plan transfer = {:?} but the set definition gives {:?} (excludes {:?})", plan.transfer, want_t, pats));
                    } else if plan.skipped != want_s {
                        fail = Some(format!("build_plan skipped = {} but the definition gives {}", plan.skipped, want_s));
                    } else if plan.delete != want_d {
                        fail = Some(format!("build_plan delete = {:?} but the set definition gives {:?} (excludes {:?}, delete={})", plan.delete, want_d, pats, del));
                    }
                    (format!("{} P T={} S={} D={}", id, hexlist(&plan.transfer), plan.skipped, hexlist(&plan.delete)), fail)
                }
                Err(e) => (format!("{} P PANIC", id), Some(format!("build_plan panicked: {}", e))),
            }
        }
        Case::L { bytes } => {
            let b2 = bytes.clone();
            match catch(move || parse_remote_meta_output(&b2)) {
                Ok(m) => {
                    let body = if m.is_empty() {
                        "-".to_string()
                    } else {
                        m.iter().map(|(p, fm)| format!("{}:{}:{}", path_hex(p), fm.size, fm.mtime)).collect::<Vec<_>>().join(",")
                    };
                    (format!("{} L n={} {}", id, m.len(), body), None)
                }
                Err(e) => (format!("{} L PANIC", id), Some(format!("parse_remote_meta_output panicked: {}", e))),
            }
        }
    }
}

// ------------------------------------------------------------------ generators
const ALPHA: [char; 6] = ['a', 'b', '*', '?', '.', '/'];

fn all_strings(maxlen: usize) -> Vec<String> {
    let mut out = vec![String::new()];
    let mut prev = vec![String::new()];
    for _ in 0..maxlen {
        let mut next = Vec::with_capacity(prev.len() * 6);
        for s in &prev {
            for c in ALPHA {
                let mut t = s.clone();
                t.push(c);
                next.push(t);
            }
        }
        out.extend(next.iter().cloned());
        prev = next;
    }
    out
}

/// Exhaustive comparison of the real matcher with the definition, in Rust, over all patterns of length
/// <= pl and texts of length <= tl over ALPHA.  Returns (pairs, disagreements, kept disagreements, sample).
fn glob_exhaustive(pl: usize, tl: usize, seed: u64, keep: usize, sample: usize) -> (u64, u64, Vec<(String, String)>, Vec<(String, String)>) {
    let pats = all_strings(pl);
    let texts = all_strings(tl);
    let total = pats.len() as u64 * texts.len() as u64;
    let stride = (total / sample as u64).max(1);
    let nthreads = 16usize;
    let chunk = (pats.len() + nthreads - 1) / nthreads;
    let off = seed % stride;
    let results: Vec<(u64, Vec<(String, String)>, Vec<(String, String)>)> = std::thread::scope(|sc| {
        let hs: Vec<_> = pats
            .chunks(chunk)
            .enumerate()
            .map(|(ci, pc)| {
                let texts = &texts;
                sc.spawn(move || {
                    let mut dis = 0u64;
                    let mut kept = vec![];
                    let mut samp = vec![];
                    let tchars: Vec<Vec<char>> = texts.iter().map(|t| t.chars().collect()).collect();
                    for (pi, p) in pc.iter().enumerate() {
                        let pch: Vec<char> = p.chars().collect();
                        let base = ((ci * chunk + pi) as u64) * texts.len() as u64;
                        for (ti, t) in texts.iter().enumerate() {
                            let m = catch(|| glob_match(p, t)).ok();
                            let spec = gm_spec(&pch, &tchars[ti]);
                            if m != Some(spec) {
                                dis += 1;
                                if kept.len() < keep {
                                    kept.push((p.clone(), t.clone()));
                                }
                            }
                            if (base + ti as u64) % stride == off {
                                samp.push((p.clone(), t.clone()));
                            }
                        }
                    }
                    (dis, kept, samp)
                })
            })
            .collect();
        hs.into_iter().map(|h| h.join().unwrap()).collect()
    });
    let mut dis = 0;
    let mut kept = vec![];
    let mut samp = vec![];
    for (d, k, s) in results {
        dis += d;
        kept.extend(k);
        samp.extend(s);
    }
    // smallest disagreements first
    kept.sort_by_key(|(p, t)| (p.len() + t.len(), p.clone(), t.clone()));
    kept.truncate(keep);
    (total, dis, kept, samp)
}

fn rand_str(r: &mut Rng, alpha: &[char], lo: u64, hi: u64) -> String {
    let n = r.range(lo, hi);
    (0..n).map(|_| *r.pick(alpha)).collect()
}

/// A text derived from the pattern (stars expanded, `?` replaced), optionally damaged: matches are frequent.
fn text_for(r: &mut Rng, pat: &str, alpha: &[char]) -> String {
    let mut t = String::new();
    for c in pat.chars() {
        match c {
            '*' => t.push_str(&rand_str(r, alpha, 0, 6)),
            '?' => t.push(*r.pick(alpha)),
            c => t.push(c),
        }
    }
    match r.below(4) {
        0 => {
            let cs: Vec<char> = t.chars().collect();
            if !cs.is_empty() {
                let i = r.below(cs.len() as u64) as usize;
                t = cs.iter().enumerate().map(|(j, c)| if j == i { *r.pick(alpha) } else { *c }).collect();
            }
        }
        1 => t.push(*r.pick(alpha)),
        _ => {}
    }
    t
}

const COMP_ALPHA: [char; 5] = ['a', 'b', '*', '?', '.'];
const WIDE: [char; 10] = ['a', 'b', '*', '?', '.', '/', 'é', '日', '-', 'Z'];

fn rand_comp(r: &mut Rng) -> String {
    loop {
        let c = rand_str(r, &COMP_ALPHA, 1, 4);
        if c != "." && c != ".." {
            return c;
        }
    }
}
fn rand_rel(r: &mut Rng) -> String {
    let depth = r.range(1, 3);
    (0..depth).map(|_| rand_comp(r)).collect::<Vec<_>>().join("/")
}
/// Occasionally a path string that is not in normal form (PathBuf compares components, not strings).
fn weird_rel(r: &mut Rng) -> String {
    let base = rand_rel(r);
    match r.below(9) {
        0 => base.replace('/', "//"),
        1 => format!("./{}", base),
        2 => format!("/{}", base),
        3 => format!("{}/", base),
        4 => format!("{}/.", base),
        5 => format!("{}/../{}", base, rand_comp(r)),
        6 => "..".to_string(),
        7 => ".".to_string(),
        _ => format!("{}/./{}", base, rand_comp(r)),
    }
}
fn rand_pat(r: &mut Rng) -> String {
    match r.below(12) {
        0 => String::new(),
        1 => "/".to_string(),
        2 => "*".to_string(),
        3 => format!("{}/", rand_str(r, &COMP_ALPHA, 1, 3)),
        4 | 5 => format!("{}/{}", rand_str(r, &COMP_ALPHA, 1, 3), rand_str(r, &COMP_ALPHA, 1, 3)),
        6 => format!("*/{}", rand_str(r, &COMP_ALPHA, 1, 3)),
        _ => rand_str(r, &COMP_ALPHA, 1, 4),
    }
}

fn meta_variant(rel: u64, s: (u64, i64)) -> (u64, i64) {
    match rel {
        0 => s,
        1 => (s.0 + 1, s.1),
        2 => (s.0, s.1 + 1),
        _ => (s.0 + 7, s.1 - 3),
    }
}

pub fn gen_cases(seed: u64, tier: &str, out: &mut Out) -> Vec<(Case, &'static str)> {
    let thorough = tier == "thorough";
    let mut r = Rng::new(seed ^ 0xC19);
    let mut cs: Vec<(Case, &'static str)> = vec![];

    // ---- matcher: exhaustive in Rust, sample + every kept disagreement through the Coq model
    let (pl, tl) = if thorough { (5, 6) } else { (4, 5) };
    let (total, dis, kept, samp) = glob_exhaustive(pl, tl, seed, 400, if thorough { 12000 } else { 4000 });
    out.add("glob_exhaustive_pairs", total);
    out.add("glob_exhaustive_pattern_maxlen", pl as u64);
    out.add("glob_exhaustive_text_maxlen", tl as u64);
    out.add("glob_exhaustive_disagreements", dis);
    for (p, t) in kept {
        cs.push((Case::G { pat: p, text: t }, "glob_exhaustive_disagreement"));
    }
    for (p, t) in samp {
        cs.push((Case::G { pat: p, text: t }, "glob_exhaustive_sample"));
    }
    // metacharacters in the text, focused
    let pats4 = all_strings(4);
    for _ in 0..(if thorough { 6000 } else { 2000 }) {
        let p = loop {
            let p = r.pick(&pats4);
            if p.contains('*') || p.contains('?') {
                break p.clone();
            }
        };
        let t = text_for(&mut r, &p, &['*', '?', 'a', '*', 'b']);
        cs.push((Case::G { pat: p, text: t }, "glob_meta_in_text"));
    }
    // random long ones
    for i in 0..(if thorough { 6000 } else { 1500 }) {
        let alpha: &[char] = if i % 5 == 0 { &WIDE } else { &ALPHA };
        let p = rand_str(&mut r, alpha, 0, if i % 7 == 0 { 40 } else { 12 });
        let t = if r.chance(3, 4) { text_for(&mut r, &p, alpha) } else { rand_str(&mut r, alpha, 0, 60) };
        cs.push((Case::G { pat: p, text: t }, "glob_random_long"));
    }
    // worst case for the backtracking: a*a*a*...b against aaaa...a
    for n in [8usize, 16, 32, 64] {
        let p: String = std::iter::repeat("a*").take(n / 2).collect::<String>() + "b";
        let t: String = std::iter::repeat('a').take(n * 3).collect();
        cs.push((Case::G { pat: p.clone(), text: t.clone() }, "glob_backtrack_heavy"));
        cs.push((Case::G { pat: p, text: t + "b" }, "glob_backtrack_heavy"));
    }

    // the recursive definition is exponential in the number of stars: those cases go to the driver as kind H
    for (c, _) in cs.iter_mut() {
        if let Case::G { pat, text } = c {
            if pat.chars().filter(|x| *x == '*').count() > 3 && text.chars().count() > 16 {
                *c = Case::H { pat: pat.clone(), text: text.clone() };
            }
        }
    }

    // ---- is_excluded
    for i in 0..(if thorough { 12000 } else { 3000 }) {
        let rel = if i % 6 == 0 { weird_rel(&mut r) } else { rand_rel(&mut r) };
        let n = r.range(0, 3);
        let mut pats: Vec<String> = (0..n).map(|_| rand_pat(&mut r)).collect();
        if r.chance(1, 3) {
            // a pattern derived from the path itself (whole path or one component), possibly generalised
            let comps: Vec<&str> = rel.split('/').filter(|c| !c.is_empty()).collect();
            let mut p = if r.chance(1, 2) || comps.is_empty() { rel.clone() } else { (*r.pick(&comps)).to_string() };
            if r.chance(1, 2) && !p.is_empty() {
                let cs2: Vec<char> = p.chars().collect();
                let k = r.below(cs2.len() as u64) as usize;
                p = cs2.iter().enumerate().map(|(j, c)| if j == k { if r.chance(1, 2) { '*' } else { '?' } } else { *c }).collect();
            }
            if r.chance(1, 4) {
                p.push('/');
            }
            pats.push(p);
        }
        cs.push((Case::E { rel, pats }, "excluded"));
    }

    // ---- needs_transfer
    let sizes = [0u64, 1, 2, u64::MAX - 1, u64::MAX, 1 << 32, 4096];
    let times = [0i64, 1, -1, i64::MIN, i64::MAX, 1_700_000_000, 1_700_000_001];
    for &ss in &sizes {
        for &st in &times {
            cs.push((Case::N { s: (ss, st), d: None }, "needs_transfer"));
            for &ds in &[ss, ss.wrapping_add(1), 0] {
                for &dt in &[st, st.wrapping_add(1), 0] {
                    cs.push((Case::N { s: (ss, st), d: Some((ds, dt)) }, "needs_transfer"));
                }
            }
        }
    }

    // ---- planner: exhaustive over a 4-path universe
    let universe = ["a", "b/c", "*b", "b/d.tmp"];
    let exlists: Vec<Vec<String>> = vec![
        vec![],
        vec!["*".into()],
        vec!["*.tmp".into()],
        vec!["b".into()],
        vec!["b/c".into(), "".into()],
        vec!["?b".into(), "a/".into()],
        vec!["*/d*".into()],
    ];
    // per-path state: 0 absent/absent, 1 only dst, 2 only src, 3.. both with relation same/size/mtime/both
    let base = (10u64, 1_700_000_000i64);
    for code in 0..7u32.pow(4) {
        let mut src = vec![];
        let mut dst = vec![];
        let mut c = code;
        for (k, u) in universe.iter().enumerate() {
            let st = c % 7;
            c /= 7;
            let sm = (base.0 + k as u64, base.1 + k as i64);
            match st {
                0 => {}
                1 => dst.push((u.to_string(), sm.0, sm.1)),
                2 => src.push((u.to_string(), sm.0, sm.1)),
                rel => {
                    src.push((u.to_string(), sm.0, sm.1));
                    let d = meta_variant(rel as u64 - 3, sm);
                    dst.push((u.to_string(), d.0, d.1));
                }
            }
        }
        for ex in &exlists {
            for del in [false, true] {
                cs.push((Case::P { del, pats: ex.clone(), src: src.clone(), dst: dst.clone() }, "plan_exhaustive_4path"));
            }
        }
    }
    // ---- planner: random larger maps with nested paths
    for i in 0..(if thorough { 6000 } else { 1200 }) {
        let npool = r.range(1, 30) as usize;
        let pool: Vec<String> = (0..npool).map(|_| if i % 4 == 0 && r.chance(1, 5) { weird_rel(&mut r) } else { rand_rel(&mut r) }).collect();
        let mut src = vec![];
        let mut dst = vec![];
        for p in &pool {
            let sm = (r.below(4), 1_700_000_000 + r.below(3) as i64);
            match r.below(7) {
                0 => {}
                1 => dst.push((p.clone(), sm.0, sm.1)),
                2 => src.push((p.clone(), sm.0, sm.1)),
                rel => {
                    src.push((p.clone(), sm.0, sm.1));
                    let d = meta_variant(rel - 3, sm);
                    dst.push((p.clone(), d.0, d.1));
                }
            }
        }
        // insertion order is not sorted order
        for v in [&mut src, &mut dst] {
            for k in (1..v.len()).rev() {
                let j = r.below(k as u64 + 1) as usize;
                v.swap(k, j);
            }
        }
        let n = r.range(0, 3);
        let pats: Vec<String> = (0..n).map(|_| rand_pat(&mut r)).collect();
        cs.push((Case::P { del: r.chance(1, 2), pats, src, dst }, "plan_random"));
    }

    // ---- listings
    for i in 0..(if thorough { 8000 } else { 2000 }) {
        let (bytes, class) = gen_listing(&mut r, i);
        cs.push((Case::L { bytes }, class));
    }
    cs
}

/// Records as `find . -type f -printf '%s\t%T@\t%p\0'` prints them, plus deliberate damage.
fn gen_listing(r: &mut Rng, i: usize) -> (Vec<u8>, &'static str) {
    let name_alpha: [&str; 14] = ["a", "b", ".", "\t", "\n", " ", "é", "日", "*", "?", "-", "0", "x.y", "+"];
    let mut out: Vec<u8> = vec![];
    let nrec = r.range(0, if i % 10 == 0 { 40 } else { 6 });
    let damaged = i % 3 == 2;
    let mut names: Vec<String> = vec![];
    for _ in 0..nrec {
        // path
        let depth = r.range(1, 3);
        let mut name: String = (0..depth)
            .map(|_| {
                let n = r.range(1, 4);
                let mut c: String = (0..n).map(|_| *r.pick(&name_alpha)).collect();
                if c == "." || c == ".." {
                    c.push('a');
                }
                c
            })
            .collect::<Vec<_>>()
            .join("/");
        if !names.is_empty() && r.chance(1, 8) {
            name = r.pick(&names).clone(); // duplicate path: the later record wins
        }
        names.push(name.clone());
        let size: String = match r.below(if damaged { 14 } else { 4 }) {
            0 => "0".into(),
            1 => r.below(100_000).to_string(),
            2 => u64::MAX.to_string(),
            3 => r.next().to_string(),
            4 => format!("+{}", r.below(1000)),
            5 => format!("-{}", r.below(1000)),
            6 => "18446744073709551616".into(),
            7 => "99999999999999999999999".into(),
            8 => String::new(),
            9 => "+".into(),
            10 => "12a".into(),
            11 => " 5".into(),
            12 => "0000000000000000000000000007".into(),
            _ => "1.5".into(),
        };
        let secs: String = match r.below(if damaged { 12 } else { 3 }) {
            0 => (1_700_000_000u64 + r.below(1000)).to_string(),
            1 => r.below(10).to_string(),
            2 => (r.next() >> 1).to_string(),
            3 => format!("-{}", r.below(1000)),
            4 => format!("+{}", r.below(1000)),
            5 => "9223372036854775808".into(),
            6 => "-9223372036854775808".into(),
            7 => "-9223372036854775809".into(),
            8 => String::new(),
            9 => "-".into(),
            10 => "12e3".into(),
            _ => "007".into(),
        };
        let frac: String = match r.below(if damaged { 6 } else { 3 }) {
            0 => String::new(),
            1 => format!(".{:010}", r.below(10_000_000_000)),
            2 => (*r.pick(&[".0000000000", ".9999999999", ".999999999", ".999999881", ".99999999999999999999"])).into(),
            3 => ".".into(),
            4 => ".5.5".into(),
            _ => ".\t9".into(),
        };
        let prefix: &str = match r.below(if damaged { 8 } else { 1 }) {
            0 => "./",
            1 => "",
            2 => "././",
            3 => ".//",
            4 => "/",
            5 => "../",
            6 => "./",
            _ => "./",
        };
        let mut rec: Vec<u8> = format!("{}\t{}{}\t{}{}", size, secs, frac, prefix, name).into_bytes();
        if damaged {
            match r.below(12) {
                0 => rec = format!("{}\t{}{}", size, secs, frac).into_bytes(), // no path field
                1 => rec = format!("{}", size).into_bytes(),
                2 => rec = format!("{}\t{}{}\t./", size, secs, frac).into_bytes(), // empty path
                3 => rec = format!("{}\t{}{}\t", size, secs, frac).into_bytes(),
                4 => rec = format!("{}\t{}{}\t.", size, secs, frac).into_bytes(),
                5 => rec.clear(), // empty entry
                6 => rec = format!("{}\t{}{}\t./{}", size, secs, frac, name.replace('/', "//")).into_bytes(),
                _ => {}
            }
        }
        out.extend_from_slice(&rec);
        if !(damaged && r.chance(1, 20)) {
            out.push(0);
        }
        if damaged && r.chance(1, 15) {
            out.push(0);
        }
    }
    (out, if damaged { "listing_damaged" } else { "listing_wellformed" })
}

/// Oracle for well-formed listings: the triples that produced the listing come back.
fn listing_oracle(bytes: &[u8]) -> Option<String> {
    // re-derive the records with an independent splitter (well-formed class only: size TAB secs[.frac] TAB ./path NUL)
    let mut want: BTreeMap<PathBuf, (u64, i64)> = BTreeMap::new();
    for rec in bytes.split(|&x| x == 0) {
        if rec.is_empty() {
            continue;
        }
        let s = std::str::from_utf8(rec).ok()?;
        let t1 = s.find('\t')?;
        let t2 = t1 + 1 + s[t1 + 1..].find('\t')?;
        let size: u64 = s[..t1].parse().ok()?;
        let mt = &s[t1 + 1..t2];
        let secs: i64 = mt.split('.').next()?.parse().ok()?;
        let path = s[t2 + 1..].strip_prefix("./")?;
        want.insert(PathBuf::from(path), (size, secs));
    }
    let got = parse_remote_meta_output(bytes);
    let got2: BTreeMap<PathBuf, (u64, i64)> = got.iter().map(|(p, m)| (p.clone(), (m.size, m.mtime))).collect();
    if got2 != want {
        Some(format!("parse_remote_meta_output returned {:?}, the records that produced the listing are {:?}", got2, want))
    } else {
        None
    }
}

fn nontrivial(c: &Case, impl_line: &str) -> bool {
    match c {
        Case::G { pat, text } | Case::H { pat, text } => (pat.contains('*') || pat.contains('?')) && !text.is_empty(),
        Case::E { pats, .. } => pats.iter().any(|p| !p.trim_end_matches('/').is_empty()),
        Case::N { d, .. } => d.is_some(),
        Case::P { .. } => !(impl_line.contains("T=- ") && impl_line.ends_with("D=-")),
        Case::L { .. } => !impl_line.ends_with(" -"),
    }
}

pub fn main(a: Args) -> i32 {
    let mut out = Out::new(&a.out);
    let cases: Vec<(String, Case, &'static str)> = if let Some(p) = &a.replay {
        std::fs::read_to_string(p)
            .unwrap()
            .lines()
            .filter(|l| !l.trim().is_empty() && !l.starts_with('#'))
            .filter_map(Case::parse)
            .map(|(id, c)| (id, c, "replay"))
            .collect()
    } else {
        gen_cases(a.seed, &a.tier, &mut out).into_iter().enumerate().map(|(i, (c, k))| (i.to_string(), c, k)).collect()
    };
    let mut distinct = HashSet::new();
    let mut nfail = 0u64;
    let mut shown: BTreeMap<&'static str, u32> = BTreeMap::new();
    for (id, c, class) in &cases {
        let idn: usize = id.parse().unwrap_or(0);
        let line = c.line(idn);
        let line = format!("{} {}", id, line.splitn(2, ' ').nth(1).unwrap());
        out.inflight(&line);
        let (impl_line, mut fail) = run_case(id, c);
        if fail.is_none() && *class == "listing_wellformed" {
            if let Case::L { bytes } = c {
                fail = listing_oracle(bytes);
            }
        }
        out.line("cases.txt", &line);
        out.line("impl.txt", &impl_line);
        out.count("cases");
        out.count(&format!("class_{}", class));
        match c {
            Case::G { .. } | Case::H { .. } => out.count(if impl_line.contains("m=1") { "glob_match_true" } else { "glob_match_false" }),
            Case::E { .. } => out.count(if impl_line.contains("x=1") { "excluded_true" } else { "excluded_false" }),
            Case::P { .. } => {
                if !impl_line.contains("T=- ") {
                    out.count("plan_with_transfers");
                }
                if !impl_line.ends_with("D=-") {
                    out.count("plan_with_deletes");
                }
            }
            Case::L { .. } => {
                let n: u64 = impl_line.split("n=").nth(1).and_then(|s| s.split(' ').next()).and_then(|s| s.parse().ok()).unwrap_or(0);
                out.add("listing_records_parsed", n);
            }
            _ => {}
        }
        if nontrivial(c, &impl_line) {
            distinct.insert(blake3::hash(line.splitn(2, ' ').nth(1).unwrap().as_bytes()).to_hex().to_string());
        }
        if let Some(f) = fail {
            nfail += 1;
            if nfail <= 200 {
                out.line("specfail.txt", &format!("{} C19 {}", id, f.replace('\n', "\\n")));
            }
        }
        let n = shown.entry(class).or_insert(0);
        if *n < 1 && line.len() < 200 {
            *n += 1;
            out.sample(format!("{}: {} => {}", class, line, impl_line));
        }
    }
    out.add("distinct_nontrivial", distinct.len() as u64);
    out.add("spec_failures", nfail);
    out.finish();
    0
}
