//! copia-verif-harness: runs the implementation side of the correspondence checks.
mod util;
mod cli;
mod c17;
mod delta;
mod hubctl;
mod hubsched;
mod hubwire;
mod hubsync;
mod bisync;
mod oneway;
mod crash;
mod bicrash;
mod c20;
mod c19;
mod c18;

fn main() {
    let mut it = std::env::args().skip(1);
    let cmd = it.next().unwrap_or_default();
    if cmd == "b3" {
        // helper for writing corpus cases by hand: BLAKE3 of each hex-encoded argument
        for a in it {
            println!("{}:{}", a, util::hex(blake3::hash(&util::unhex(&a)).as_bytes()));
        }
        return;
    }
    let args = util::parse_args(it);
    // panics of the code under test are expected and caught (util::catch marks them); a panic of the harness itself
    // must say where it happened
    std::panic::set_hook(Box::new(|info| {
        if !util::IN_CATCH.with(|c| c.get()) {
            eprintln!("harness panic: {}", info);
        }
    }));
    let code = match cmd.as_str() {
        "c17" => c17::main(args),
        "c01" => delta::main_pairs(args, "c01"),
        "c16" => delta::main_pairs(args, "c16"),
        "c05" => delta::main_c05(args),
        "c03" => hubsched::main(args),
        "c12" => hubwire::main_c12(args),
        "c11" => hubwire::main_c11(args),
        "c13" => hubsync::main(args),
        "c02" => bisync::main(args),
        "c04" => oneway::main(args),
        "c09" => crash::main(args),
        "c08" => bicrash::main(args),
        "c20" => c20::main(args),
        "c19" => c19::main(args),
        "c18" => c18::main(args),
        _ => {
            eprintln!("unknown command {cmd}");
            2
        }
    };
    std::process::exit(code);
}
