//! C12 (wire input handled totally, boundedly, in step) and C11 (path confinement): ONE real
//! `copia serve` per case fed a byte string on stdin (no gating), its stdout / exit status / tree observed.
//!
//! c12 cases.txt: `<id> T=<content>:<hex12>;.. I=<phex>:<chex>;.. D=<payload hex>><req>;.. IN=<input hex>`
//!     impl.txt:  `<id> EXIT0|EXITERR R=<reply>,.. F=<tree>`          (model line additionally has A=<allocs>)
//! c11 cases.txt: `<id> <path hex>`     impl.txt: `<id> REFUSED|ACCEPTED`
use crate::cli::wire::{self, Request, MAGIC, VERSION};
use crate::hubctl::{frame, parse_replies, snapshot};
use crate::util::*;
use std::collections::{BTreeMap, HashMap};
use std::io::Write;
use std::process::{Command, Stdio};

const MAX_FRAME: usize = 1 << 20;

fn h32(c: &[u8]) -> [u8; 32] {
    *blake3::hash(c).as_bytes()
}

pub struct ServeRun {
    pub code: Option<i32>,
    pub signal: Option<i32>,
    pub stdout: Vec<u8>,
    pub timed_out: bool,
}

/// run `copia serve root` with `input` on stdin under an address-space limit and a timeout
pub fn run_serve(copia: &str, root: &str, input: &[u8], envs: &[(&str, String)]) -> ServeRun {
    run_serve_paused(copia, root, input, envs, &[])
}

/// the same, with the input delivered in pieces: the writer pauses 150 ms at each offset of `pauses`
/// (a client whose content stream arrives after its frame)
pub fn run_serve_paused(copia: &str, root: &str, input: &[u8], envs: &[(&str, String)], pauses: &[usize]) -> ServeRun {
    let mut c = Command::new("bash");
    c.arg("-c").arg(format!("ulimit -v 1500000; exec timeout 10 {} serve '{}'", copia, root)).stdin(Stdio::piped()).stdout(Stdio::piped()).stderr(Stdio::null());
    for (k, v) in envs {
        c.env(k, v);
    }
    let mut child = c.spawn().unwrap();
    let mut si = child.stdin.take().unwrap();
    let inp = input.to_vec();
    let mut cuts: Vec<usize> = pauses.iter().cloned().filter(|&x| x > 0 && x < inp.len()).collect();
    cuts.sort();
    cuts.dedup();
    let w = std::thread::spawn(move || {
        let mut at = 0usize;
        for c in cuts {
            if si.write_all(&inp[at..c]).is_err() { return; }
            let _ = si.flush();
            std::thread::sleep(std::time::Duration::from_millis(150));
            at = c;
        }
        let _ = si.write_all(&inp[at..]);
    });
    let out = child.wait_with_output().unwrap();
    let _ = w.join();
    use std::os::unix::process::ExitStatusExt;
    ServeRun { code: out.status.code(), signal: out.status.signal(), stdout: out.stdout, timed_out: out.status.code() == Some(124) }
}

fn tree_string(root: &str) -> String {
    let s = snapshot(root);
    let v: Vec<String> = s.iter().filter(|(p, _)| !p.starts_with(".copia/") && !p.ends_with(".copia-tmp")).map(|(p, c)| format!("{}={}", hex(p.as_bytes()), hex(c))).collect();
    if v.is_empty() { "-".into() } else { v.join(",") }
}

fn write_tree(root: &str, init: &[(String, Vec<u8>)]) {
    let _ = std::fs::remove_dir_all(root);
    std::fs::create_dir_all(root).unwrap();
    for (p, c) in init {
        let full = format!("{}/{}", root, p);
        if let Some(par) = std::path::Path::new(&full).parent() {
            std::fs::create_dir_all(par).unwrap();
        }
        std::fs::write(&full, c).unwrap();
    }
}

struct Known {
    by_hash: HashMap<[u8; 32], Vec<u8>>,
}
impl Known {
    fn add(&mut self, c: &[u8]) {
        self.by_hash.insert(h32(c), c.to_vec());
    }
    /// the model-side stand-in for a digest: the content if known, else the 32 hash bytes themselves
    fn content_of(&mut self, h: &[u8; 32]) -> Vec<u8> {
        if let Some(c) = self.by_hash.get(h) {
            c.clone()
        } else {
            self.by_hash.insert(*h, h.to_vec()); // placeholder: never equal to a real content
            h.to_vec()
        }
    }
    fn table(&self) -> String {
        let mut t: BTreeMap<Vec<u8>, String> = BTreeMap::new();
        for (h, c) in &self.by_hash {
            t.insert(c.clone(), hex(&h[..6]));
        }
        t.iter().map(|(c, h)| format!("{}:{}", hex(c), h)).collect::<Vec<_>>().join(";")
    }
    fn canon(&self, s: &str) -> String {
        // replies carry 6-byte digest prefixes.  A generated near-miss digest (a real digest with a late byte changed) shares
        // its prefix with the real one; a reply can only name the digest of a content that exists, so the real content
        // wins, and every prefix is replaced exactly once (placeholders contain digest bytes themselves).
        let mut by_prefix: BTreeMap<String, &Vec<u8>> = BTreeMap::new();
        for (h, c) in &self.by_hash {
            let real = c.as_slice() != &h[..];
            let e = by_prefix.entry(hex(&h[..6])).or_insert(c);
            if real {
                *e = c;
            }
        }
        let mut out = String::new();
        let mut i = 0;
        let b = s.as_bytes();
        while i < b.len() {
            if i + 12 <= b.len() && s.is_char_boundary(i) && s.is_char_boundary(i + 12) {
                if let Some(c) = by_prefix.get(&s[i..i + 12]) {
                    out.push('h');
                    out.push_str(&hex(c));
                    i += 12;
                    continue;
                }
            }
            let ch = s[i..].chars().next().unwrap();
            out.push(ch);
            i += ch.len_utf8();
        }
        out.replace("Error:content_hash_mismatch", "Error:mismatch").replace("Error:content_length_mismatch", "Error:mismatch")
    }
}

fn req_string(r: &Request, k: &mut Known) -> String {
    let exp = |e: &Option<[u8; 32]>, k: &mut Known| match e {
        None => "n".to_string(),
        Some(h) => format!("h{}", hex(&k.content_of(h))),
    };
    match r {
        Request::Hello { version } => format!("H:{}", version),
        Request::List => "L".into(),
        Request::Bye => "B".into(),
        Request::Get { path } => format!("G:{}", hex(path.as_bytes())),
        Request::Put { path, expected, len, hash } => format!("P:{}:{}:{}:{}", hex(path.as_bytes()), exp(expected, k), len, hex(&k.content_of(hash))),
        Request::Delete { path, expected } => format!("D:{}:{}", hex(path.as_bytes()), exp(expected, k)),
    }
}

/// walk the input the way the framing does, decoding every candidate payload with the REAL decoder
fn decode_table(input: &[u8], k: &mut Known) -> String {
    let mut ents = vec![];
    if input.len() < 6 || &input[..6] != MAGIC {
        return "-".into();
    }
    let mut pos = 6;
    loop {
        if input.len() < pos + 4 {
            break;
        }
        let len = u32::from_be_bytes([input[pos], input[pos + 1], input[pos + 2], input[pos + 3]]) as usize;
        if len > MAX_FRAME || input.len() < pos + 4 + len {
            break;
        }
        let payload = &input[pos + 4..pos + 4 + len];
        let mut cur = std::io::Cursor::new(&input[pos..pos + 4 + len]);
        let r: std::io::Result<Option<Request>> = catch(std::panic::AssertUnwindSafe(|| wire::read_frame(&mut cur))).unwrap_or_else(|_| Err(std::io::Error::new(std::io::ErrorKind::Other, "panic")));
        pos += 4 + len;
        match r {
            Ok(Some(rq)) => {
                ents.push(format!("{}>{}", hex(payload), req_string(&rq, k)));
                match rq {
                    Request::Bye => break,
                    Request::Put { len, .. } => {
                        let n = (len as usize).min(input.len() - pos);
                        pos += n;
                    }
                    _ => {}
                }
            }
            _ => {
                ents.push(format!("{}>X", hex(payload)));
                break;
            }
        }
    }
    if ents.is_empty() { "-".into() } else { ents.join(";") }
}

struct Session {
    init: Vec<(String, Vec<u8>)>,
    /// leftover staging files of servers that no longer exist (reserved names: not part of the model's tree; the hub
    /// must not touch them before a well-formed request either)
    stale: Vec<(String, Vec<u8>)>,
    input: Vec<u8>,
    class: &'static str,
    /// checked by the implementation-only oracles (no crash, no hang, in step), not replayed by the model: names whose
    /// staging name exceeds NAME_MAX end the session with an I/O error, which the flat-name model does not have
    oracle_only: bool,
}

fn valid_requests(r: &mut Rng, init: &[(String, Vec<u8>)], pool: &[Vec<u8>]) -> Vec<(Request, Vec<u8>)> {
    let paths = ["a", "b", "d/x", "d/y", "./a", "d//x", "../a", "/abs", "a/../../b", "d/../x"];
    let mut v = vec![(Request::Hello { version: VERSION }, vec![])];
    let n = 1 + r.below(5);
    for _ in 0..n {
        let path = r.pick(&paths).to_string();
        let canon = path.trim_start_matches("./").replace("//", "/");
        let cur = init.iter().find(|(p, _)| *p == canon).map(|(_, c)| h32(c));
        let exp = match r.below(3) {
            0 => None,
            1 => Some(h32(r.pick(pool).as_slice())),
            _ => cur,
        };
        match r.below(10) {
            0..=4 => {
                let body = r.pick(pool).clone();
                let (hash, len, sent) = match r.below(10) {
                    0 => (h32(r.pick(pool).as_slice()), body.len() as u64, body.clone()),
                    _ => (h32(&body), body.len() as u64, body.clone()),
                };
                v.push((Request::Put { path, expected: exp, len, hash }, sent));
            }
            5 | 6 => v.push((Request::Delete { path, expected: exp }, vec![])),
            7 | 8 => v.push((Request::Get { path }, vec![])),
            _ => v.push((Request::List, vec![])),
        }
    }
    v
}

fn c12_pool() -> Vec<Vec<u8>> {
    vec![b"".to_vec(), b"A".to_vec(), b"BB".to_vec(), b"hello world".to_vec(), vec![0x58; 300], (0..=255u8).collect(),
        // larger than the server's 8 KiB stdin buffer: a refused or mismatching content must still be consumed in full
        (0..20000usize).map(|j| (j % 253) as u8).collect()]
}

/// When the whole input after the magic is a sequence of well-framed, decodable requests with complete contents
/// (optionally ended by Bye): the byte range of each request (frame + content) and whether it is Hello / Bye.
fn segments(input: &[u8]) -> Option<Vec<(usize, usize, u8)>> {
    if input.len() < 6 || &input[..6] != MAGIC {
        return None;
    }
    let mut segs = vec![];
    let mut pos = 6;
    while pos < input.len() {
        if input.len() < pos + 4 {
            return None;
        }
        let len = u32::from_be_bytes([input[pos], input[pos + 1], input[pos + 2], input[pos + 3]]) as usize;
        if len > MAX_FRAME || input.len() < pos + 4 + len {
            return None;
        }
        let mut cur = std::io::Cursor::new(&input[pos..pos + 4 + len]);
        let r: std::io::Result<Option<Request>> = catch(std::panic::AssertUnwindSafe(|| wire::read_frame(&mut cur))).unwrap_or_else(|_| Err(std::io::Error::new(std::io::ErrorKind::Other, "panic")));
        let start = pos;
        pos += 4 + len;
        match r {
            Ok(Some(Request::Bye)) => {
                segs.push((start, pos, 2));
                return if pos == input.len() { Some(segs) } else { None };
            }
            Ok(Some(Request::Put { len, .. })) => {
                if (len as usize) > input.len() - pos {
                    return None;
                }
                pos += len as usize;
                segs.push((start, pos, 0));
            }
            Ok(Some(Request::Hello { .. })) => segs.push((start, pos, 1)),
            Ok(Some(_)) => segs.push((start, pos, 0)),
            _ => return None,
        }
    }
    Some(segs)
}

fn gen_sessions(seed: u64, tier: &str) -> Vec<Session> {
    let mut r = Rng::new(seed ^ 0xC12);
    let n = if tier == "thorough" { 3000 } else { 400 };
    let pool = c12_pool();
    let mut out = vec![];
    for _ in 0..n {
        let mut init = vec![];
        for p in ["a", "b", "d/x"] {
            if r.chance(1, 2) {
                init.push((p.to_string(), r.pick(&pool).clone()));
            }
        }
        let reqs = valid_requests(&mut r, &init, &pool);
        let mut frames: Vec<Vec<u8>> = reqs.iter().map(|(q, c)| { let mut f = frame(q); f.extend(c); f }).collect();
        let class: &'static str;
        let mut input = MAGIC.to_vec();
        match r.below(14) {
            0 | 1 => {
                class = "valid";
                for f in &frames { input.extend(f); }
                if r.chance(1, 2) { input.extend(frame(&Request::Bye)); }
            }
            2 => {
                // closed at a uniformly random offset, or (half of the time) 1-3 bytes into a length prefix / at a frame
                // boundary / inside the magic: the places where the reader's EOF handling differs
                let mut starts = vec![];
                for f in &frames { starts.push(input.len()); input.extend(f); }
                let cut = if !starts.is_empty() && r.chance(1, 2) {
                    class = "truncated-at-prefix";
                    *r.pick(&starts) + r.below(5) as usize
                } else {
                    class = "truncated";
                    r.below(input.len() as u64 + 1) as usize
                };
                input.truncate(cut.min(input.len()));
            }
            3 => {
                class = "random-after-magic";
                let k = r.below(64) as usize;
                input.extend(r.bytes(k));
            }
            4 => {
                class = "bad-prologue";
                input = match r.below(4) {
                    0 => b"Welcome to host\nCOPIA1".to_vec(),
                    1 => b"COPIA".to_vec(),
                    2 => b"COPIA2".to_vec(),
                    _ => { let nb = r.below(12) as usize; r.bytes(nb) }
                };
                for f in &frames { input.extend(f); }
            }
            5 | 6 => {
                class = "length-prefix-edit";
                let i = r.below(frames.len() as u64) as usize;
                let v = *r.pick(&[0u32, 1, (1 << 20) - 1, 1 << 20, (1 << 20) + 1, 1 << 31, u32::MAX]);
                frames[i][..4].copy_from_slice(&v.to_be_bytes());
                for f in &frames { input.extend(f); }
                if v == (1 << 20) - 1 || v == 1 << 20 {
                    let pad = r.bytes(1 << 20);
                    input.extend(pad);
                }
            }
            7 => {
                class = "duplicated-reordered";
                let i = r.below(frames.len() as u64) as usize;
                if r.chance(1, 2) { let f = frames[i].clone(); frames.insert(i, f); } else { let j = r.below(frames.len() as u64) as usize; frames.swap(i, j); }
                for f in &frames { input.extend(f); }
            }
            8 => {
                class = "payload-bitflip";
                let i = r.below(frames.len() as u64) as usize;
                if frames[i].len() > 4 {
                    let j = 4 + r.below((frames[i].len() - 4) as u64) as usize;
                    frames[i][j] ^= 1 << r.below(8);
                }
                for f in &frames { input.extend(f); }
            }
            9 => {
                class = "hostile-cbor";
                let payload: Vec<u8> = match r.below(5) {
                    0 => vec![0x9b, 0xff, 0xff, 0xff, 0xff, 0xff, 0xff, 0xff, 0xff],       // array, 2^64-1 items
                    1 => vec![0x5b, 0x7f, 0xff, 0xff, 0xff, 0xff, 0xff, 0xff, 0xff, 0x00], // bytes, huge length
                    2 => vec![0x81; 20000],                                                // deep nesting
                    3 => vec![0xbf; 5000],                                                 // indefinite maps
                    _ => { let mut p = vec![0x7b, 0, 0, 0, 1, 0, 0, 0, 0]; p.extend(b"abc"); p } // text, 4 GiB declared
                };
                let mut f = (payload.len() as u32).to_be_bytes().to_vec();
                f.extend(payload);
                let i = r.below(frames.len() as u64 + 1) as usize;
                frames.insert(i, f);
                for f in &frames { input.extend(f); }
            }
            10 => {
                class = "short-content-then-eof";
                let body = r.pick(&pool).clone();
                let mut f = frame(&Request::Put { path: "a".into(), expected: None, len: body.len() as u64 + 1 + r.below(9), hash: h32(&body) });
                f.extend(&body);
                for g in &frames { input.extend(g); }
                input.extend(f);
            }
            _ => {
                class = "valid-eof";
                for f in &frames { input.extend(f); }
            }
        }
        let mut stale = vec![];
        if r.chance(1, 3) {
            stale.push((format!("{}.999999.17a0b3c4d5e6f708.0.copia-tmp", r.pick(&["a", "d/x", "zz"])), b"half of a Put that never completed".to_vec()));
            if r.chance(1, 2) {
                stale.push(("b.copia-tmp".to_string(), vec![0x58; 100]));
            }
        }
        out.push(Session { init, stale, input, class, oracle_only: false });
        // one session in eight: well-formed requests on long names made of multi-byte characters (with every ASCII prefix
        // length below the character width, so that any fixed byte offset falls inside a character of one of them),
        // around NAME_MAX with and without room for a staging suffix
        if out.len() % 8 == 0 {
            let names: Vec<String> = vec!["é".repeat(100), format!("a{}", "é".repeat(110)), "é".repeat(110), "日".repeat(75), format!("a{}", "日".repeat(75)),
                format!("ab{}", "日".repeat(75)), format!("d/{}", "日".repeat(60)), format!("abc{}", "😀".repeat(55)), "é".repeat(127), format!("x{}", "é".repeat(127))];
            let mut input = MAGIC.to_vec();
            input.extend(frame(&Request::Hello { version: VERSION }));
            for _ in 0..(1 + r.below(3)) {
                let path = r.pick(&names).clone();
                match r.below(4) {
                    0 => input.extend(frame(&Request::Get { path })),
                    1 => input.extend(frame(&Request::Delete { path, expected: None })),
                    _ => {
                        let body = r.pick(&pool).clone();
                        input.extend(frame(&Request::Put { path, expected: None, len: body.len() as u64, hash: h32(&body) }));
                        input.extend(&body);
                    }
                }
            }
            input.extend(frame(&Request::Get { path: "a".into() }));
            input.extend(frame(&Request::Bye));
            out.push(Session { init: vec![("a".to_string(), b"A".to_vec())], stale: vec![], input, class: "long-multibyte-names", oracle_only: true });
        }
    }
    // request frames AT the size bound: a Get whose frame is MAX_FRAME - k bytes long, for a path that does not exist
    // (one over-long component) and for a path that escapes the root. Both are answered by a short error frame and the
    // session goes on (oracle only: `exit 0, one reply per request, the later replies as in a fresh session`)
    let ks: &[usize] = if tier == "thorough" { &[0, 1, 2, 5, 9, 10, 16, 20, 33, 34, 48, 64] } else { &[0, 1, 5, 20] };
    for &k in ks {
        for kind in 0..2 {
            let target = MAX_FRAME - k;
            let mk = |l: usize| -> String { if kind == 0 { "a".repeat(l) } else { format!("../{}", "a".repeat(l.saturating_sub(3))) } };
            let mut l = target - 32;
            for _ in 0..4 {
                let cur = frame(&Request::Get { path: mk(l) }).len() - 4;
                if cur == target { break; }
                l = (l as i64 + target as i64 - cur as i64) as usize;
            }
            if frame(&Request::Get { path: mk(l) }).len() - 4 != target { continue; }
            let mut input = MAGIC.to_vec();
            input.extend(frame(&Request::Hello { version: VERSION }));
            input.extend(frame(&Request::Get { path: mk(l) }));
            input.extend(frame(&Request::Hello { version: VERSION }));
            input.extend(frame(&Request::Get { path: "a".into() }));
            input.extend(frame(&Request::Bye));
            out.push(Session { init: vec![("a".to_string(), b"A".to_vec())], stale: vec![], input, class: "boundary-frames", oracle_only: true });
        }
    }
    out
}

pub fn main_c12(a: Args) -> i32 {
    let mut out = Out::new(&a.out);
    let copia = a.rest.iter().position(|x| x == "--copia").map(|i| a.rest[i + 1].clone()).expect("--copia");
    let sessions: Vec<Session> = if let Some(p) = &a.replay {
        std::fs::read_to_string(p).unwrap().lines().filter(|l| !l.trim().is_empty() && !l.starts_with('#')).map(|l| {
            let mut init = vec![];
            let mut stale = vec![];
            let mut input = vec![];
            for f in l.split_whitespace().skip(1) {
                if let Some((k, v)) = f.split_once('=') {
                    if k == "I" && v != "-" {
                        for e in v.split(';') {
                            let (p, c) = e.split_once(':').unwrap();
                            init.push((String::from_utf8_lossy(&unhex(p)).into_owned(), unhex(c)));
                        }
                    } else if k == "IN" {
                        input = unhex(v);
                    } else if k == "ST" && v != "-" {
                        for e in v.split(';') {
                            let (p, c) = e.split_once(':').unwrap();
                            stale.push((String::from_utf8_lossy(&unhex(p)).into_owned(), unhex(c)));
                        }
                    }
                }
            }
            Session { init, stale, input, class: "replay", oracle_only: l.contains(" ORACLE=1") }
        }).collect()
    } else {
        gen_sessions(a.seed, &a.tier)
    };
    let root = format!("{}/HUB", a.out);
    let mut nfail = 0u64;
    let mut distinct = std::collections::HashSet::new();
    for (id, s) in sessions.iter().enumerate() {
        write_tree(&root, &s.init);
        for (p, c) in &s.stale {
            let full = format!("{}/{}", root, p);
            if let Some(par) = std::path::Path::new(&full).parent() { let _ = std::fs::create_dir_all(par); }
            let _ = std::fs::write(&full, c);
        }
        // raw: every file outside the control directory, staging leftovers included (C12: nothing in the served tree
        // changes before a well-formed request)
        let raw = |root: &str| -> Vec<(String, Vec<u8>)> { snapshot(root).into_iter().filter(|(p, _)| !p.starts_with(".copia/")).collect() };
        let before_raw = raw(&root);
        let before = tree_string(&root);
        let run = run_serve(&copia, &root, &s.input, &[]);
        let after = tree_string(&root);
        let after_raw = raw(&root);
        let mut k = Known { by_hash: HashMap::new() };
        for (_, c) in &s.init {
            k.add(c);
        }
        for c in c12_pool() {
            k.add(&c);
        }
        let dec = decode_table(&s.input, &mut k);
        let (rs, _) = parse_replies(&run.stdout);
        // a List reply also names leftover staging files (reserved names, not part of the model's tree): drop them
        let strip_staging = |x: &str| -> String {
            match x.strip_prefix("Fingerprints:") {
                Some(rest) => {
                    let kept: Vec<&str> = rest.split(',').filter(|e| !e.is_empty() && !e.split('=').next().map(|h| String::from_utf8_lossy(&unhex(h)).ends_with(".copia-tmp")).unwrap_or(false)).collect();
                    format!("Fingerprints:{}", kept.join(","))
                }
                None => x.to_string(),
            }
        };
        let rs: Vec<String> = rs.iter().map(|x| k.canon(&strip_staging(x))).collect();
        let exit = match (run.code, run.signal) {
            (Some(0), _) => "EXIT0",
            (Some(124), _) => "TIMEOUT",
            (Some(_), _) => "EXITERR",
            _ => "SIGNAL",
        };
        let init = if s.init.is_empty() { "-".to_string() } else { s.init.iter().map(|(p, c)| format!("{}:{}", hex(p.as_bytes()), hex(c))).collect::<Vec<_>>().join(";") };
        let st_field = if s.stale.is_empty() { "-".to_string() } else { s.stale.iter().map(|(p, c)| format!("{}:{}", hex(p.as_bytes()), hex(c))).collect::<Vec<_>>().join(";") };
        if s.oracle_only {
            out.line("cases-oracle.txt", &format!("{} T={} I={} D={} IN={} ST={} ORACLE=1", id, k.table(), init, dec, hex(&s.input), st_field));
        } else {
            out.line("cases.txt", &format!("{} T={} I={} D={} IN={} ST={}", id, k.table(), init, dec, hex(&s.input), st_field));
            out.line("impl.txt", &format!("{} {} R={} F={}", id, exit, if rs.is_empty() { "-".to_string() } else { rs.join(",") }, after));
        }
        if !s.stale.is_empty() { out.count("sessions_with_leftover_staging_files"); }
        out.count("sessions");
        out.count(&format!("class_{}", s.class));
        out.count(&format!("exit_{}", exit));
        out.add("replies", rs.len() as u64);
        if rs.iter().any(|x| x.starts_with("Error")) && rs.last().map(|x| !x.starts_with("Error")).unwrap_or(false) {
            out.count("sessions_with_valid_reply_after_error_reply");
        }
        if rs.len() >= 2 {
            distinct.insert(blake3::hash(&s.input).to_hex().to_string());
        }
        if exit == "SIGNAL" || exit == "TIMEOUT" {
            nfail += 1;
            out.line("specfail.txt", &format!("{} C12 server crashed or hung: code {:?} signal {:?} class {}", id, run.code, run.signal, s.class));
        }
        if rs.is_empty() && (before != after || before_raw != after_raw) {
            nfail += 1;
            out.line("specfail.txt", &format!("{} C12 served tree changed although no request was answered (class {})", id, s.class));
        }
        if (s.input.len() < 6 || &s.input[..6] != MAGIC) && (before != after || before_raw != after_raw || exit == "EXIT0" || !run.stdout.is_empty()) {
            nfail += 1;
            out.line("specfail.txt", &format!("{} C12 bad prologue not rejected without effect: exit {} out {} bytes", id, exit, run.stdout.len()));
        }
        // "in step" on the implementation alone: after the first error reply to a well-framed request, the later requests
        // get the replies (and leave the tree) they get in a fresh session started on the tree as it was at that point
        if s.class == "boundary-frames" {
            let (raw, _) = parse_replies(&run.stdout);
            if exit != "EXIT0" || raw.len() != 4 || !raw[1].starts_with("Error") || !raw[3].starts_with("Content") {
                nfail += 1;
                out.line("specfail.txt", &format!("{} C12 a well-framed Get whose frame is within the bound was not answered by an error reply with the session staying in step: exit {}, {} replies {:?} (class {})",
                    id, exit, raw.len(), raw.iter().map(|x| x.chars().take(40).collect::<String>()).collect::<Vec<_>>(), s.class));
            }
        }
        if let Some(segs) = segments(&s.input) {
            let (raw, _) = parse_replies(&run.stdout);
            let nreq = segs.iter().filter(|x| x.2 != 2).count();
            if exit == "EXIT0" && raw.len() != nreq {
                nfail += 1;
                out.line("specfail.txt", &format!("{} C12 out of step: {} well-formed requests but {} replies (class {})", id, nreq, raw.len(), s.class));
            } else if let Some(i) = raw.iter().position(|x| x.starts_with("Error")) {
                if i + 1 < nreq {
                    // tree after request i
                    write_tree(&root, &s.init);
                    for (p, c) in &s.stale {
                        let full = format!("{}/{}", root, p);
                        if let Some(par) = std::path::Path::new(&full).parent() { let _ = std::fs::create_dir_all(par); }
                        let _ = std::fs::write(&full, c);
                    }
                    let prefix = s.input[..segs[i].1].to_vec();
                    let _ = run_serve(&copia, &root, &prefix, &[]);
                    let mut fresh = MAGIC.to_vec();
                    let hello = segs[0].2 == 1 && i >= 1;
                    if segs[0].2 == 1 {
                        fresh.extend(&s.input[segs[0].0..segs[0].1]);
                    }
                    fresh.extend(&s.input[segs[i + 1].0..]);
                    let run2 = run_serve(&copia, &root, &fresh, &[]);
                    let (raw2, _) = parse_replies(&run2.stdout);
                    let skip = if segs[0].2 == 1 { 1 } else { 0 };
                    let _ = hello;
                    let tail2: Vec<String> = raw2.iter().skip(skip).cloned().collect();
                    let tail1: Vec<String> = raw.iter().skip(i + 1).cloned().collect();
                    let after2 = tree_string(&root);
                    if i == 0 && segs[0].2 == 1 {
                        // the error reply was to Hello itself: nothing to compare
                    } else if tail1 != tail2 || after2 != after {
                        nfail += 1;
                        out.line("specfail.txt", &format!("{} C12 not in step after the error reply to request {}: the later requests got {:?} / tree {} but a fresh session on the same tree gives {:?} / tree {} (class {})", id, i, tail1.iter().map(|x| x.chars().take(60).collect::<String>()).collect::<Vec<_>>(), after.chars().take(80).collect::<String>(), tail2.iter().map(|x| x.chars().take(60).collect::<String>()).collect::<Vec<_>>(), after2.chars().take(80).collect::<String>(), s.class));
                    }
                    out.count("in_step_differentials");
                }
            }
        }
        for (p, c) in &s.stale {
            if !after_raw.iter().any(|(q, d)| q == p && d == c) && !(rs.iter().any(|x| x.starts_with("PutResult") || x.starts_with("DeleteResult")) && s.input.windows(p.len()).any(|w| w == p.as_bytes())) {
                nfail += 1;
                out.line("specfail.txt", &format!("{} C12 a file of the served tree that no request named was removed or changed: {:?} (a leftover staging file; class {})", id, p, s.class));
            }
        }
        if id % 41 == 5 && s.input.len() < 200 {
            out.sample(format!("{}: IN={} -> {} R={}", s.class, hex(&s.input), exit, rs.join(",")));
        }
    }
    let _ = std::fs::remove_dir_all(&root);
    out.add("distinct_nontrivial", distinct.len() as u64);
    out.add("spec_failures", nfail);
    out.finish();
    0
}

// ======================================================================== C11
fn gen_paths(r: &mut Rng, n: usize) -> Vec<String> {
    let comps: Vec<String> = vec!["..".into(), ".".into(), "".into(), "a".into(), "d".into(), "x".into(), "..a".into(), "a..".into(), "a..b".into(), "...".into(), "n".repeat(255), "m".repeat(300), "é".into(), " ".into(), "-rf".into(),
        // long names made of multi-byte characters, with ASCII prefixes of every length below the character width: for
        // every byte offset one of them has a character straddling it (truncation / slicing at a fixed byte count),
        // in a length that fits NAME_MAX together with a staging suffix, one that fits only alone, and one that does not fit
        "é".repeat(60), format!("a{}", "é".repeat(60)), "é".repeat(110), format!("a{}", "é".repeat(110)), "é".repeat(150),
        "日".repeat(40), format!("a{}", "日".repeat(40)), format!("ab{}", "日".repeat(40)),
        "日".repeat(75), format!("a{}", "日".repeat(75)), format!("ab{}", "日".repeat(75)), "😀".repeat(30), format!("abc{}", "😀".repeat(55))];
    let mut out: Vec<String> = vec!["".into(), "/".into(), ".".into(), "..".into(), "/etc/passwd".into(), "../outside.txt".into(), "a/../../outside.txt".into(), "./..".into(), "a/..".into(), "d/../../other/f".into(), "z".repeat(5000)];
    while out.len() < n {
        let k = 1 + r.below(4) as usize;
        let mut s = String::new();
        if r.chance(1, 6) { s.push('/'); }
        for i in 0..k {
            if i > 0 { s.push_str(if r.chance(1, 4) { "//" } else { "/" }); }
            s.push_str(r.pick(&comps).as_str());
        }
        if r.chance(1, 6) { s.push('/'); }
        out.push(s);
    }
    out
}

fn unesc(p: &str) -> String {
    let b = p.as_bytes();
    let mut out = vec![];
    let mut i = 0;
    while i < b.len() {
        if b[i] == b'%' && i + 2 < b.len() + 0 && i + 2 <= b.len() - 1 + 0 {
            if let Ok(v) = u8::from_str_radix(&p[i + 1..i + 3], 16) {
                out.push(v);
                i += 3;
                continue;
            }
        }
        out.push(b[i]);
        i += 1;
    }
    String::from_utf8_lossy(&out).into_owned()
}

fn lexical_norm(p: &str) -> String {
    let mut st: Vec<&str> = vec![];
    for c in p.split('/') {
        match c {
            "" | "." => {}
            ".." => { st.pop(); }
            x => st.push(x),
        }
    }
    format!("/{}", st.join("/"))
}

pub fn main_c11(a: Args) -> i32 {
    let mut out = Out::new(&a.out);
    let copia = a.rest.iter().position(|x| x == "--copia").map(|i| a.rest[i + 1].clone()).expect("--copia");
    let shim = a.rest.iter().position(|x| x == "--shim").map(|i| a.rest[i + 1].clone()).expect("--shim");
    let mut r = Rng::new(a.seed ^ 0xC11);
    let npaths = if a.tier == "thorough" { 6000 } else { 600 };
    // replay lines: `<id> <hex path | -> [<kind 0=Get 1=Put 2=Delete> <content bytes> <late 0|1>]`
    let mut forced: Vec<Option<(u64, usize, bool)>> = vec![];
    let paths: Vec<String> = if let Some(p) = &a.replay {
        let mut ps = vec![];
        for l in std::fs::read_to_string(p).unwrap().lines().filter(|l| !l.trim().is_empty() && !l.starts_with('#')) {
            let f: Vec<&str> = l.split_whitespace().collect();
            ps.push(if f[1] == "-" { String::new() } else { String::from_utf8_lossy(&unhex(f[1])).into_owned() });
            forced.push(if f.len() >= 5 { Some((f[2].parse().unwrap(), f[3].parse().unwrap(), f[4] == "1")) } else { None });
        }
        ps
    } else {
        gen_paths(&mut r, npaths)
    };
    let mut base = 0usize;
    let absout = std::fs::canonicalize(&a.out).unwrap().to_string_lossy().into_owned();
    let sandbox = format!("{}/sandbox", absout);
    let root = format!("{}/HUB", sandbox);
    let logf = format!("{}/shim.log", absout);
    let mut nfail = 0u64;
    let mut id = 0usize;
    let mut distinct = std::collections::HashSet::new();
    let per_session = 6;
    for chunk in paths.chunks(per_session) {
        // requests of this session: one of Get / Put(with content) / Delete per path, then a probe Get on a sentinel inside
        let mut kinds: Vec<u64> = chunk.iter().map(|_| r.below(3)).collect();
        // content of a Put: mostly 3 bytes, else a size around the server's stdin buffer (8 KiB), the pipe size (64 KiB) or larger
        let sizes = [0usize, 1, 8191, 8192, 8193, 20000, 65536, 70000, 300_000];
        let mut bodies: Vec<Vec<u8>> = chunk.iter().map(|_| if r.chance(3, 5) { b"new".to_vec() } else { let n = *r.pick(&sizes); (0..n).map(|j| (j % 251) as u8).collect() }).collect();
        // some sessions deliver each Put's content 150 ms after its frame
        let mut late = r.chance(1, 8);
        for i in 0..chunk.len() {
            if let Some(Some((k, n, l))) = forced.get(base + i) {
                kinds[i] = *k;
                bodies[i] = if *n == 3 { b"new".to_vec() } else { (0..*n).map(|j| (j % 251) as u8).collect() };
                late = *l;
            }
        }
        base += chunk.len();
        let build2 = |skip: &dyn Fn(usize) -> bool| -> (Vec<u8>, Vec<usize>) {
            let mut inp = MAGIC.to_vec();
            let mut pauses = vec![];
            inp.extend(frame(&Request::Hello { version: VERSION }));
            for (i, p) in chunk.iter().enumerate() {
                if skip(i) { continue; }
                match kinds[i] {
                    0 => inp.extend(frame(&Request::Get { path: p.clone() })),
                    1 => {
                        inp.extend(frame(&Request::Put { path: p.clone(), expected: None, len: bodies[i].len() as u64, hash: h32(&bodies[i]) }));
                        if late { pauses.push(inp.len()); }
                        inp.extend(&bodies[i]);
                    }
                    _ => inp.extend(frame(&Request::Delete { path: p.clone(), expected: Some(h32(b"keep")) })),
                }
                inp.extend(frame(&Request::Get { path: "inside.txt".into() }));
            }
            (inp, pauses)
        };
        let setup = || {
            let _ = std::fs::remove_dir_all(&sandbox);
            std::fs::create_dir_all(format!("{}/a", root)).unwrap();
            std::fs::create_dir_all(format!("{}/other", sandbox)).unwrap();
            std::fs::write(format!("{}/inside.txt", root), b"keep").unwrap();
            std::fs::write(format!("{}/a/x", root), b"keep").unwrap();
            std::fs::write(format!("{}/outside.txt", sandbox), b"keep").unwrap();
            std::fs::write(format!("{}/other/f", sandbox), b"keep").unwrap();
        };
        let outside_snapshot = || -> Vec<(String, Vec<u8>)> { snapshot(&sandbox).into_iter().filter(|(p, _)| !p.starts_with("HUB/")).collect() };
        // full session, one request at a time is not needed: replies are in order; an IoExit ends the session
        setup();
        let _ = std::fs::remove_file(&logf);
        let before_out = outside_snapshot();
        let (full, pauses) = build2(&|_| false);
        if late { out.count("sessions_late_content"); }
        out.add("put_content_bytes", (0..chunk.len()).filter(|&i| kinds[i] == 1).map(|i| bodies[i].len() as u64).sum());
        let run = run_serve_paused(&copia, &root, &full, &[("LD_PRELOAD", shim.clone()), ("VPSCHED_LOG", logf.clone())], &pauses);
        let after_out = outside_snapshot();
        let tree_full = tree_string(&root); // before any single-request replay below resets the sandbox
        let (rs, _) = parse_replies(&run.stdout);
        // replies: Hello, then per path (reply, probe)
        let mut refused = vec![];
        let mut answered = 0usize;
        for (i, p) in chunk.iter().enumerate() {
            let rp = rs.get(1 + 2 * i);
            let probe = rs.get(2 + 2 * i);
            let is_ref = rp.map(|x| x == "Error:bad_path");
            out.line("cases.txt", &format!("{} {} {} {} {}", id, if p.is_empty() { "-".to_string() } else { hex(p.as_bytes()) }, kinds[i], bodies[i].len(), late as u8));
            // when the session died before this request the implementation gave no verdict: replay it alone
            let verdict = match is_ref {
                Some(b) => b,
                None => {
                    setup();
                    let mut inp = MAGIC.to_vec();
                    inp.extend(frame(&Request::Get { path: p.clone() }));
                    let r1 = run_serve(&copia, &root, &inp, &[]);
                    let (r1s, _) = parse_replies(&r1.stdout);
                    r1s.first().map(|x| x == "Error:bad_path").unwrap_or(false)
                }
            };
            out.line("impl.txt", &format!("{} {}", id, if verdict { "REFUSED" } else { "ACCEPTED" }));
            out.count(if verdict { "refused" } else { "accepted" });
            let should_refuse = p.starts_with('/') || p.split('/').any(|c| c == "..");
            if should_refuse != verdict {
                nfail += 1;
                out.line("specfail.txt", &format!("{} C11 path {:?}: absolute-or-dotdot={} but refused={}", id, p, should_refuse, verdict));
            }
            if verdict {
                refused.push(i);
                // only counted when the implementation itself answered the refusal in this session (is_ref)
                match probe {
                    Some(pr) if pr.starts_with("Content:4:") => {}
                    Some(pr) => {
                        nfail += 1;
                        out.line("specfail.txt", &format!("{} C11 after the refused path {:?} the next request was not answered normally: {}", id, p, pr));
                    }
                    None if is_ref == Some(true) => {
                        nfail += 1;
                        out.line("specfail.txt", &format!("{} C11 after the refused path {:?} (request kind {}, content {} bytes{}) the connection was no longer usable: the following Get got no reply", id, p, kinds[i], if kinds[i] == 1 { bodies[i].len() } else { 0 }, if late { ", delivered late" } else { "" }));
                    }
                    None => {}
                }
            }
            if rp.is_some() { answered += 1; }
            distinct.insert(p.clone());
            id += 1;
        }
        out.count("sessions");
        out.add("requests_answered", answered as u64);
        if before_out != after_out {
            nfail += 1;
            out.line("specfail.txt", &format!("{} C11 something OUTSIDE the served directory changed during session {:?}", id - 1, chunk));
        }
        // every request-driven fs call must stay under root (mkdir of an existing ancestor has no effect and is allowed)
        if let Ok(log) = std::fs::read_to_string(&logf) {
            let mut started = false;
            for line in log.lines() {
                let f: Vec<&str> = line.splitn(7, ' ').collect();
                if f.len() < 6 { continue; }
                let (call, p1, p2) = (f[3], f[4], f[5]);
                if !started {
                    if call == "mkdir" && p1.ends_with("/HUB/.copia") { started = true; }
                    continue;
                }
                for p in [p1, p2] {
                    if p == "-" || p == "pipe" || !p.starts_with('/') { continue; }
                    let p = &unesc(p);
                    let n = lexical_norm(p);
                    let rn = lexical_norm(&root);
                    let under = n == rn || n.starts_with(&format!("{}/", rn));
                    // mkdir / stat of an EXISTING ancestor of the served directory opens, creates, renames, removes nothing
                    let harmless_mkdir = (call == "mkdir" || call == "stat" || call == "lstat") && (rn.starts_with(&format!("{}/", n)) || n == "/");
                    if !under && !harmless_mkdir {
                        nfail += 1;
                        out.line("specfail.txt", &format!("{} C11 file-system call outside the served directory: {} {}", id - 1, call, p));
                    }
                }
            }
        }
        // differential: the same session without the refused requests gives the same replies to the others and the same tree
        // (a session that got no reply at all - the server stopped on an I/O error before the first flush reached the pipe,
        // e.g. a component longer than NAME_MAX in the thorough tier's name pool - has nothing to compare)
        if rs.is_empty() {
            out.count("sessions_without_any_reply");
            out.sample(format!("no reply at all: exit {:?} signal {:?} timed out {}", run.code, run.signal, run.timed_out));
        }
        if !refused.is_empty() && !rs.is_empty() {
            setup();
            let (without, pauses2) = build2(&|i| refused.contains(&i));
            let run2 = run_serve_paused(&copia, &root, &without, &[], &pauses2);
            let (rs2, _) = parse_replies(&run2.stdout);
            let mut expect = vec![rs[0].clone()];
            for i in 0..chunk.len() {
                if refused.contains(&i) { continue; }
                if let Some(x) = rs.get(1 + 2 * i) { expect.push(x.clone()); }
                if let Some(y) = rs.get(2 + 2 * i) { expect.push(y.clone()); }
            }
            if rs2 != expect || tree_string(&root) != tree_full {
                nfail += 1;
                let sh = |v: &Vec<String>| v.iter().map(|x| x.chars().take(40).collect::<String>()).collect::<Vec<_>>();
                out.line("specfail.txt", &format!("{} C11 session with refused requests differs from the session without them: replies to the other requests {:?} vs {:?}; tree {} vs {}; exit {:?} vs {:?}; paths {:?}", id - 1, sh(&expect), sh(&rs2), tree_full.chars().take(200).collect::<String>(), tree_string(&root).chars().take(200).collect::<String>(), run.code, run2.code, chunk.iter().map(|p| p.chars().take(30).collect::<String>()).collect::<Vec<_>>()));
            }
            out.count("differential_sessions");
        }
        if id % 97 < per_session {
            let short: Vec<String> = chunk.iter().map(|p| if p.len() > 40 { format!("{}..({} bytes)", &p.chars().take(20).collect::<String>(), p.len()) } else { p.clone() }).collect();
            let mut smp = format!("{:?} -> {:?}", short, rs);
            smp.truncate(500);
            out.sample(smp);
        }
    }
    let _ = std::fs::remove_dir_all(&sandbox);
    let _ = std::fs::remove_file(&logf);
    out.add("distinct_nontrivial", distinct.len() as u64);
    out.add("spec_failures", nfail);
    out.finish();
    0
}
