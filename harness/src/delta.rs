//! C01 / C16 / C05: signatures, deltas and patches through the public API
//! (Sync trait + AsyncCopiaSync, every positive block size at library level)
//! and through the real `copia` binary (valid block sizes).
//!
//! cases.txt (c01/c16):  `<id> <bs> <basis hex> <src hex>`
//! impl.txt:              `<id> S ... | D ... | lits=<n> RT_OK`   (same canonical strings as ocaml/driver.ml)
//! specfail.txt:          `<id> <what>`  property oracle failures found on the implementation
//! c05: cases.txt `<id> <checked> <verify> <basis hex> <bs> <ss> <bz> <ops> <preimage|!>`, impl.txt `<id> OK <hex>|ERR_*|PANIC`
use crate::util::*;
use copia::async_sync::AsyncCopiaSync;
use copia::{CopiaError, CopiaSync, Delta, DeltaOp, Signature, StrongHash, Sync, SyncBuilder};
use std::collections::HashSet;
use std::io::Cursor;
use std::pin::Pin;
use std::task::{Context, Poll};

// ---------- a reader that fragments reads pseudo-randomly ----------
pub struct FragReader {
    data: Vec<u8>,
    pos: usize,
    rng: Rng,
}
impl tokio::io::AsyncRead for FragReader {
    fn poll_read(mut self: Pin<&mut Self>, _cx: &mut Context<'_>, buf: &mut tokio::io::ReadBuf<'_>) -> Poll<std::io::Result<()>> {
        let remaining = self.data.len() - self.pos;
        if remaining == 0 || buf.remaining() == 0 {
            return Poll::Ready(Ok(()));
        }
        let cap = buf.remaining().min(remaining);
        let n = 1 + self.rng.below(cap as u64) as usize;
        let n = if self.rng.chance(1, 3) { cap } else { n.min(cap) };
        let p = self.pos;
        buf.put_slice(&self.data[p..p + n]);
        self.pos += n;
        Poll::Ready(Ok(()))
    }
}

pub fn rt() -> tokio::runtime::Runtime {
    tokio::runtime::Builder::new_current_thread().build().unwrap()
}

// ---------- canonical strings (must match ocaml/driver.ml) ----------
pub fn ops_string(ops: &[DeltaOp]) -> String {
    if ops.is_empty() {
        return "-".into();
    }
    ops.iter()
        .map(|o| match o {
            DeltaOp::Copy { offset, len } => format!("C{}:{}", offset, len),
            DeltaOp::Literal(d) => format!("L{}", hex(d)),
        })
        .collect::<Vec<_>>()
        .join(",")
}
pub fn sig_string(s: &Signature) -> String {
    format!(
        "S bs={} fs={} n={} w={}",
        s.block_size,
        s.file_size,
        s.blocks.len(),
        s.blocks.iter().map(|b| format!("{}:{}", b.index, b.weak_hash)).collect::<Vec<_>>().join(",")
    )
}
pub fn delta_string(d: &Delta) -> String {
    format!("D bs={} ss={} bz={} ops={}", d.block_size, d.source_size, d.basis_size, ops_string(&d.ops))
}

// ---------- textbook greedy (independent Rust oracle for the search) ----------
pub fn greedy_lit(bs: usize, basis: &[u8], src: &[u8]) -> u64 {
    if src.is_empty() {
        return 0;
    }
    if basis.is_empty() {
        return src.len() as u64;
    }
    let full: HashSet<&[u8]> = basis.chunks(bs).filter(|c| c.len() == bs).collect();
    let (mut pos, mut lit) = (0usize, 0u64);
    while pos + bs <= src.len() {
        if full.contains(&src[pos..pos + bs]) {
            pos += bs;
        } else {
            lit += 1;
            pos += 1;
        }
    }
    lit + (src.len() - pos) as u64
}

// ---------- generators ----------
#[derive(Clone)]
pub struct Pair {
    pub id: usize,
    pub bs: usize,
    pub basis: Vec<u8>,
    pub src: Vec<u8>,
    pub class: String,
}

fn gen_basis(r: &mut Rng, kind: u64, n: usize, bs: usize) -> Vec<u8> {
    match kind {
        0 => r.bytes(n),
        1 => vec![0xFF; n],
        2 => (0..n).map(|_| 0xE0 + (r.byte() & 0x1F)).collect(),
        3 => {
            // periodic: a few distinct blocks repeated
            let k = 1 + r.below(3) as usize;
            let blocks: Vec<Vec<u8>> = (0..k).map(|_| r.bytes(bs)).collect();
            let mut v = Vec::with_capacity(n);
            while v.len() < n {
                let b = &blocks[r.below(k as u64) as usize];
                let take = b.len().min(n - v.len());
                v.extend_from_slice(&b[..take]);
            }
            v
        }
        4 => (0..n).map(|i| (i % 251) as u8).collect(),
        _ => (0..n).map(|_| r.byte() & 1).collect(),
    }
}

/// blocks that collide on both Adler sums but differ: +1,-2,+1 on three consecutive bytes
fn weak_collide(block: &[u8], r: &mut Rng) -> Option<Vec<u8>> {
    if block.len() < 3 {
        return None;
    }
    for _ in 0..32 {
        let i = r.below((block.len() - 2) as u64) as usize;
        if block[i] < 255 && block[i + 1] >= 2 && block[i + 2] < 255 {
            let mut b = block.to_vec();
            b[i] += 1;
            b[i + 1] -= 2;
            b[i + 2] += 1;
            return Some(b);
        }
    }
    None
}

pub fn gen_pairs(seed: u64, tier: &str, salt: u64) -> Vec<Pair> {
    let mut r = Rng::new(seed ^ salt);
    let thorough = tier == "thorough";
    let n = if thorough { 2400 } else { 300 };
    let valid = [512usize, 1024, 2048, 4096, 8192, 16384, 32768, 65536];
    let odd = [1usize, 2, 3, 7, 100, 1000, 5000, 70000];
    let mut out = vec![];
    for id in 0..n {
        let bs = if id % 3 == 2 { *r.pick(&odd) } else { *r.pick(&valid) };
        // model cost ~ nblocks * src_len: keep it bounded
        let max_blocks: u64 = if thorough { 40 } else { 24 };
        let mut nblocks = r.below(max_blocks + 1) as usize;
        if id % 11 == 0 && bs >= 2048 {
            nblocks = nblocks.max(65536 / bs + 1); // > 64 KiB: the parallel signature path
        }
        let cap = if thorough { 400_000 } else { 140_000 };
        let mut blen = nblocks * bs + if r.chance(1, 2) { r.below(bs as u64) as usize } else { 0 };
        if bs == 1 {
            blen = blen.min(24);
        }
        blen = blen.min(cap);
        let bkind = r.below(6);
        let mut basis = gen_basis(&mut r, bkind, blen, bs);
        let skind = r.below(10);
        let (src, sclass): (Vec<u8>, &str) = match skind {
            0 => (basis.clone(), "identical"),
            1 | 2 | 3 => {
                // k-byte edit at an arbitrary offset
                let k = *r.pick(&[1usize, 2, 7, 100, 1000]);
                let k = k.min(blen.max(1));
                let off = if blen == 0 { 0 } else { r.below(blen as u64 + 1) as usize };
                let mut s = basis.clone();
                match skind {
                    1 => {
                        let ins = r.bytes(k);
                        s.splice(off..off, ins);
                        (s, "insert")
                    }
                    2 => {
                        let end = (off + k).min(s.len());
                        s.drain(off..end);
                        (s, "delete")
                    }
                    _ => {
                        let end = (off + k).min(s.len());
                        for b in &mut s[off..end] {
                            *b = b.wrapping_add(1 + (r.byte() % 254));
                        }
                        (s, "replace")
                    }
                }
            }
            4 => {
                // block permutation with unaligned prefix
                let mut blocks: Vec<&[u8]> = basis.chunks(bs.max(1)).collect();
                for i in (1..blocks.len()).rev() {
                    let j = r.below(i as u64 + 1) as usize;
                    blocks.swap(i, j);
                }
                let npre = r.below(5) as usize;
                let mut s = r.bytes(npre);
                for b in blocks {
                    s.extend_from_slice(b);
                }
                (s, "permute")
            }
            5 => {
                // weak-collision blocks
                let mut s = basis.clone();
                let nb = blen / bs.max(1);
                if nb > 0 {
                    for _ in 0..3 {
                        let b = r.below(nb as u64) as usize;
                        if let Some(c) = weak_collide(&basis[b * bs..(b + 1) * bs], &mut r) {
                            s[b * bs..(b + 1) * bs].copy_from_slice(&c);
                        }
                    }
                }
                (s, "weak-collision")
            }
            6 => {
                let n2 = r.below(blen as u64 + 1) as usize;
                (r.bytes(n2.min(60_000)), "unrelated")
            }
            7 => (vec![], "empty-src"),
            8 => {
                // the BASIS holds two or three different blocks with one weak checksum (a bucket with several members,
                // the original at the lowest index); the source uses the later members, in another order
                let nb = blen / bs.max(1);
                let mut twins: Vec<usize> = vec![];
                if nb >= 2 {
                    let i = r.below(nb as u64 - 1) as usize;
                    let orig = basis[i * bs..(i + 1) * bs].to_vec();
                    let mut prev = orig.clone();
                    let ntw = 1 + r.below(2) as usize;
                    for j in (i + 1..nb).take(ntw) {
                        if let Some(c) = weak_collide(&prev, &mut r) {
                            if c != orig {
                                basis[j * bs..(j + 1) * bs].copy_from_slice(&c);
                                twins.push(j);
                                prev = c;
                            }
                        }
                    }
                    twins.insert(0, i);
                }
                let npre = r.below(40) as usize;
                let mut s = r.bytes(npre);
                for &j in twins.iter().rev() {
                    s.extend_from_slice(&basis[j * bs..(j + 1) * bs]);
                }
                let tail_from = r.below(blen as u64 + 1) as usize;
                s.extend_from_slice(&basis[tail_from..]);
                (s, "weak-collision-in-basis")
            }
            _ => {
                // several edits
                let mut s = basis.clone();
                for _ in 0..4 {
                    if s.is_empty() {
                        break;
                    }
                    let off = r.below(s.len() as u64) as usize;
                    if r.chance(1, 2) {
                        s.insert(off, r.byte());
                    } else {
                        s.remove(off);
                    }
                }
                (s, "multi-edit")
            }
        };
        let class = format!("bs{}:{}:basis{}", if valid.contains(&bs) { "valid" } else { "odd" }, sclass, bkind);
        out.push(Pair { id, bs, basis, src, class });
    }
    // consecutive TWIN pairs (the sync engine object is shared by all pairs of a run, see run_pair): the second basis is the
    // first one with one middle block rewritten in place - same length, same block size, same first and last block - and
    // the second source holds the OLD content of that block: an engine that carries anything over from the previous call
    // (a cached table, a remembered window) answers with copies that name the wrong bytes
    let ntw = if thorough { 60 } else { 8 };
    for t in 0..ntw {
        let bs = [512usize, 2048, 1024, 7][t % 4];
        let nb = 4 + (t % 3);
        let basis1: Vec<u8> = (0..nb * bs).map(|_| r.byte()).collect();
        let mid = 1 + t % (nb - 2);
        let mut basis2 = basis1.clone();
        for x in &mut basis2[mid * bs..(mid + 1) * bs] { *x = r.byte(); }
        let mut src1 = basis1.clone();
        src1.extend((0..bs / 2).map(|_| r.byte()));
        let mut src2 = basis2[..bs].to_vec();
        src2.extend(&basis1[mid * bs..(mid + 1) * bs]);          // the old middle block: not in basis2
        src2.extend(&basis2[mid * bs..]);
        let id = out.len();
        out.push(Pair { id, bs, basis: basis1, src: src1, class: format!("bs{}:twin-first:basisR", if valid.contains(&bs) { "valid" } else { "odd" }) });
        out.push(Pair { id: id + 1, bs, basis: basis2, src: src2, class: format!("bs{}:twin-second:basisR", if valid.contains(&bs) { "valid" } else { "odd" }) });
    }
    out
}

pub fn parse_pair(line: &str) -> Pair {
    let mut it = line.split_whitespace();
    let id = it.next().unwrap().parse().unwrap();
    let bs = it.next().unwrap().parse().unwrap();
    let basis = unhex(it.next().unwrap());
    let src = unhex(it.next().unwrap());
    Pair { id, bs, basis, src, class: "replay".into() }
}

fn is_valid_bs(bs: usize) -> bool {
    bs.is_power_of_two() && (512..=65536).contains(&bs)
}

pub struct Engines {
    pub sig: Signature,
    pub delta: Delta,
    pub line: String,
    pub fails: Vec<String>,
}

/// Run every library engine on one pair; returns canonical impl line + oracle failures.
pub fn run_pair(p: &Pair, seed: u64) -> Engines {
    let mut fails = vec![];
    let basis = p.basis.clone();
    let src = p.src.clone();
    let bs = p.bs;
    // ONE engine object serves every pair of the run (as a long-lived caller would use it): whatever it remembers from
    // one call must not change the answer to the next
    thread_local! { static ENGINE: CopiaSync = CopiaSync::new(); }
    let r = catch(move || {
        let sig = Signature::generate(&mut Cursor::new(&basis), bs).unwrap();
        ENGINE.with(|sync| {
            let delta = sync.delta(Cursor::new(&src), &sig).unwrap();
            let mut out = Vec::new();
            let pr = sync.patch(Cursor::new(&basis), &delta, &mut out);
            (sig, delta, out, pr.is_ok())
        })
    });
    let (sig, delta, out, pok) = match r {
        Ok(x) => x,
        Err(m) => {
            return Engines {
                sig: Signature::new(bs, 0),
                delta: Delta::new(0, 0, 0),
                line: format!("{} PANIC", p.id),
                fails: vec![format!("{} panic in sync engine: {}", p.id, m)],
            }
        }
    };
    // --- property oracles on the implementation ---
    if !pok || out != p.src {
        fails.push(format!("{} C01 roundtrip: patch ok={} output==source={}", p.id, pok, out == p.src));
    }
    if delta.source_size != p.src.len() as u64 {
        fails.push(format!("{} C01 source_size {} != {}", p.id, delta.source_size, p.src.len()));
    }
    if delta.checksum != StrongHash::compute(&p.src) {
        fails.push(format!("{} C01 checksum is not the source's", p.id));
    }
    if delta.basis_size != p.basis.len() as u64 {
        fails.push(format!("{} C01 basis_size {} != {}", p.id, delta.basis_size, p.basis.len()));
    }
    if delta.bytes_matched() + delta.bytes_literal() != p.src.len() as u64 {
        fails.push(format!("{} C01 op lengths do not sum to the source size", p.id));
    }
    for op in &delta.ops {
        if let DeltaOp::Copy { offset, len } = op {
            if offset + u64::from(*len) > p.basis.len() as u64 {
                fails.push(format!("{} C01 copy {}+{} outside basis {}", p.id, offset, len, p.basis.len()));
            }
        }
    }
    for (i, b) in sig.blocks.iter().enumerate() {
        let lo = i * bs;
        let hi = (lo + bs).min(p.basis.len());
        if b.strong_hash != StrongHash::compute(&p.basis[lo..hi]) || b.index as usize != i {
            fails.push(format!("{} C01 signature block {} strong hash/index wrong", p.id, i));
            break;
        }
    }
    let g = greedy_lit(bs, &p.basis, &p.src);
    if delta.bytes_literal() > g {
        fails.push(format!("{} C16 literal bytes {} > textbook greedy {}", p.id, delta.bytes_literal(), g));
    }
    if p.src == p.basis && delta.bytes_literal() >= bs as u64 {
        fails.push(format!("{} C16 identical source yields {} literal bytes >= block {}", p.id, delta.bytes_literal(), bs));
    }
    // --- async engine must produce the same signature and delta ---
    let rt = rt();
    let a = AsyncCopiaSync::new();
    let rd = FragReader { data: p.src.clone(), pos: 0, rng: Rng::new(seed ^ p.id as u64) };
    match catch(std::panic::AssertUnwindSafe(|| rt.block_on(a.delta(rd, &sig)))) {
        Ok(Ok(d2)) => {
            if d2 != delta {
                fails.push(format!("{} C01 async delta differs from sync delta", p.id));
            }
            let mut out2 = Cursor::new(Vec::new());
            let pr = rt.block_on(a.patch(Cursor::new(p.basis.clone()), &d2, &mut out2));
            if pr.is_err() || out2.get_ref() != &p.src {
                fails.push(format!("{} C01 async roundtrip failed", p.id));
            }
        }
        Ok(Err(e)) => fails.push(format!("{} C01 async delta error {}", p.id, e)),
        Err(m) => fails.push(format!("{} C01 async delta panic {}", p.id, m)),
    }
    if is_valid_bs(bs) {
        let a = AsyncCopiaSync::with_block_size(bs);
        let rd = FragReader { data: p.basis.clone(), pos: 0, rng: Rng::new(seed ^ 77 ^ p.id as u64) };
        match rt.block_on(a.signature(rd)) {
            Ok(s2) => {
                if s2 != sig {
                    fails.push(format!("{} C01 async signature differs from sync signature", p.id));
                }
            }
            Err(e) => fails.push(format!("{} C01 async signature error {}", p.id, e)),
        }
        let s3 = CopiaSync::with_block_size(bs).signature(Cursor::new(&p.basis)).unwrap();
        if s3 != sig {
            fails.push(format!("{} C01 trait signature differs", p.id));
        }
    }
    let rtok = if pok && out == p.src { "RT_OK" } else { "RT_WRONG" };
    let line = format!("{} {} | {} | lits={} {}", p.id, sig_string(&sig), delta_string(&delta), delta.bytes_literal(), rtok);
    Engines { sig, delta, line, fails }
}

/// The CLI chain and single-file sync on one pair (valid block sizes only).
pub fn run_cli_pair(p: &Pair, copia: &str, dir: &str, lib: &Engines) -> Vec<String> {
    let mut fails = vec![];
    let d = format!("{}/cli{}", dir, p.id);
    let _ = std::fs::remove_dir_all(&d);
    std::fs::create_dir_all(&d).unwrap();
    let w = |n: &str, b: &[u8]| std::fs::write(format!("{}/{}", d, n), b).unwrap();
    w("basis", &p.basis);
    w("src", &p.src);
    let run = |args: &[&str]| {
        let o = std::process::Command::new(copia).args(args).current_dir(&d).output().unwrap();
        o.status.code()
    };
    let bs = p.bs.to_string();
    let c1 = run(&["signature", "basis", "-o", "b.sig", "--block-size", &bs]);
    let c2 = run(&["delta", "src", "b.sig", "-o", "s.delta"]);
    let c3 = run(&["patch", "basis", "s.delta", "-o", "out"]);
    if c1 != Some(0) || c2 != Some(0) || c3 != Some(0) {
        fails.push(format!("{} C01 CLI chain exit codes {:?} {:?} {:?}", p.id, c1, c2, c3));
    } else {
        let out = std::fs::read(format!("{}/out", d)).unwrap_or_default();
        if out != p.src {
            fails.push(format!("{} C01 CLI chain output differs from source", p.id));
        }
        let sig: Result<Signature, _> = bincode::deserialize(&std::fs::read(format!("{}/b.sig", d)).unwrap());
        let del: Result<Delta, _> = bincode::deserialize(&std::fs::read(format!("{}/s.delta", d)).unwrap());
        match (sig, del) {
            (Ok(s), Ok(dl)) => {
                if s != lib.sig {
                    fails.push(format!("{} C01 CLI signature file differs from library signature", p.id));
                }
                if dl != lib.delta {
                    fails.push(format!("{} C01 CLI delta file differs from library delta", p.id));
                }
            }
            _ => fails.push(format!("{} C01 CLI files do not decode", p.id)),
        }
    }
    // single-file sync: dst = basis
    w("dst", &p.basis);
    let c4 = run(&["sync", "src", "dst", "--block-size", &bs]);
    let dst = std::fs::read(format!("{}/dst", d)).unwrap_or_default();
    if c4 != Some(0) || dst != p.src {
        fails.push(format!("{} C01 `copia sync` exit {:?}, dst==src {}", p.id, c4, dst == p.src));
    }
    let _ = std::fs::remove_file(format!("{}/fresh", d));
    let c5 = run(&["sync", "src", "fresh", "--block-size", &bs]);
    let fresh = std::fs::read(format!("{}/fresh", d)).unwrap_or_default();
    if c5 != Some(0) || fresh != p.src {
        fails.push(format!("{} C01 `copia sync` to absent dst exit {:?}, ok {}", p.id, c5, fresh == p.src));
    }
    let _ = std::fs::remove_dir_all(&d);
    fails
}

pub fn main_pairs(a: Args, which: &str) -> i32 {
    let mut out = Out::new(&a.out);
    let pairs: Vec<Pair> = if let Some(p) = &a.replay {
        std::fs::read_to_string(p).unwrap().lines().filter(|l| !l.trim().is_empty() && !l.starts_with('#')).map(parse_pair).collect()
    } else {
        gen_pairs(a.seed, &a.tier, if which == "c16" { 0xC16 } else { 0xC01 })
    };
    let copia = a.rest.iter().position(|x| x == "--copia").map(|i| a.rest[i + 1].clone());
    let cli_every = if a.tier == "thorough" { 4 } else { 8 };
    let mut nfail = 0u64;
    let mut distinct = HashSet::new();
    for p in &pairs {
        let case_line = format!("{} {} {} {}", p.id, p.bs, hex(&p.basis), hex(&p.src));
        if p.basis.len() + p.src.len() < 300_000 {
            out.inflight(&case_line);
        }
        out.line("cases.txt", &case_line);
        let e = run_pair(p, a.seed);
        out.line("impl.txt", &e.line);
        out.count("pairs");
        out.count(&format!("class_{}", p.class.split(':').take(2).collect::<Vec<_>>().join(":")));
        out.count(&format!("bs_{}", p.bs));
        out.count(if p.basis.len() > 65536 { "basis_gt_64KiB" } else { "basis_le_64KiB" });
        out.add("copy_ops", e.delta.ops.iter().filter(|o| o.is_copy()).count() as u64);
        out.add("literal_ops", e.delta.ops.iter().filter(|o| o.is_literal()).count() as u64);
        if e.delta.ops.iter().any(|o| o.is_copy()) && e.delta.ops.iter().any(|o| o.is_literal()) {
            distinct.insert(blake3::hash(e.line.splitn(2, ' ').nth(1).unwrap_or("").as_bytes()).to_hex().to_string());
        }
        let mut fails = e.fails.clone();
        if which == "c01" {
            if let Some(c) = &copia {
                if is_valid_bs(p.bs) && (p.id % cli_every == 0 || a.replay.is_some()) {
                    out.count("cli_chains");
                    fails.extend(run_cli_pair(p, c, &a.out, &e));
                }
            }
        }
        if p.id % 53 == 7 && p.basis.len() + p.src.len() < 120 {
            out.sample(format!("{} bs={} basis={} src={} -> {}", p.class, p.bs, hex(&p.basis), hex(&p.src), delta_string(&e.delta)));
        }
        for f in fails {
            let relevant = if which == "c16" { f.contains(" C16 ") || f.contains("panic") } else { !f.contains(" C16 ") };
            if relevant {
                nfail += 1;
                out.line("specfail.txt", &f);
            }
        }
    }
    // ---- sources of several MiB (oracle-only: no model line): a 7-byte insertion into 3 MiB of unique blocks - a copy
    // that runs for megabytes, re-synchronisation far from the start, a source above any size threshold of the scan -
    // and 3 MiB of new data against an empty basis - one literal run of megabytes; library engines, the property
    // oracles (round trip, literal bytes <= textbook greedy), and for C01 the file chain through the real CLI
    if a.replay.is_none() {
        let mut r = Rng::new(a.seed ^ 0xB16);
        let big: Vec<u8> = (0..3 * 1024 * 1024).map(|_| r.byte()).collect();
        let mut edited = big.clone();
        for (k, b) in b"INSERT!".iter().enumerate() { edited.insert(3000 + k, *b); }
        let cases = [(2048usize, big.clone(), edited, "big:insert7"), (2048usize, vec![], big.clone(), "big:all-new")];
        for (k, (bs, basis, src, class)) in cases.into_iter().enumerate() {
            let p = Pair { id: 900_000 + k, bs, basis, src, class: class.to_string() };
            let e = run_pair(&p, a.seed);
            out.count("pairs_big_oracle_only");
            out.line("cases-oracle.txt", &format!("{} {} (basis {} bytes, source {} bytes, block size {}; generated from seed ^ 0xB16)", p.id, class, p.basis.len(), p.src.len(), bs));
            let mut fails = e.fails.clone();
            if which == "c01" {
                if let Some(c) = &copia {
                    out.count("cli_chains");
                    fails.extend(run_cli_pair(&p, c, &a.out, &e));
                }
            }
            for f in fails {
                let relevant = if which == "c16" { f.contains(" C16 ") || f.contains("panic") } else { !f.contains(" C16 ") };
                if relevant {
                    nfail += 1;
                    out.line("specfail.txt", &f);
                }
            }
        }
    }
    out.add("distinct_nontrivial", distinct.len() as u64);
    out.add("spec_failures", nfail);
    out.finish();
    0
}

// =====================================================================
// C05: hostile (basis, delta) pairs
// =====================================================================
#[derive(Clone)]
struct Hostile {
    basis: Vec<u8>,
    delta: Delta,
    preimage: Option<Vec<u8>>, // a string known to hash to delta.checksum
    class: &'static str,
}

fn naive_apply(basis: &[u8], d: &Delta) -> Option<Vec<u8>> {
    let mut out = vec![];
    for op in &d.ops {
        match op {
            DeltaOp::Copy { offset, len } => {
                let end = offset.checked_add(u64::from(*len))?;
                if end > basis.len() as u64 {
                    return None;
                }
                out.extend_from_slice(&basis[*offset as usize..end as usize]);
            }
            DeltaOp::Literal(l) => out.extend_from_slice(l),
        }
    }
    Some(out)
}

fn mutate(r: &mut Rng, basis: &[u8], src: &[u8], d: &Delta) -> Hostile {
    let mut h = Hostile { basis: basis.to_vec(), delta: d.clone(), preimage: Some(src.to_vec()), class: "valid" };
    let extremes = [0u64, 1, basis.len() as u64, basis.len() as u64 + 1, (1 << 32) - 1, 1 << 63, u64::MAX];
    let k = r.below(16);
    match k {
        0 => {}
        1 => {
            h.basis = r.bytes(basis.len());
            h.class = "other-basis";
        }
        2 => {
            let n = r.below(basis.len() as u64 + 1) as usize;
            h.basis.truncate(n);
            h.class = "truncated-basis";
        }
        3 => {
            let ne = 1 + r.below(40) as usize;
            let extra = r.bytes(ne);
            h.basis.extend(extra);
            h.class = "extended-basis";
        }
        4 => {
            if !h.basis.is_empty() {
                let i = r.below(h.basis.len() as u64) as usize;
                h.basis[i] ^= 1 << r.below(8);
            }
            h.class = "bitflip-basis";
        }
        5 | 6 => {
            let idx: Vec<usize> = h.delta.ops.iter().enumerate().filter(|(_, o)| o.is_copy()).map(|(i, _)| i).collect();
            if !idx.is_empty() {
                let i = *r.pick(&idx);
                if let DeltaOp::Copy { offset, len } = &mut h.delta.ops[i] {
                    if k == 5 {
                        *offset = match r.below(4) {
                            0 => offset.wrapping_add(1),
                            1 => offset.wrapping_sub(1),
                            _ => *r.pick(&extremes),
                        };
                    } else {
                        *len = match r.below(4) {
                            0 => len.wrapping_add(1),
                            1 => len.wrapping_sub(1),
                            2 => 0,
                            _ => *r.pick(&[0u32, 1, u32::MAX, 1 << 31, basis.len() as u32]),
                        };
                    }
                }
            }
            h.class = if k == 5 { "copy-offset" } else { "copy-len" };
        }
        7 => {
            if !h.delta.ops.is_empty() {
                let i = r.below(h.delta.ops.len() as u64) as usize;
                match r.below(3) {
                    0 => {
                        h.delta.ops.remove(i);
                    }
                    1 => {
                        let o = h.delta.ops[i].clone();
                        h.delta.ops.insert(i, o);
                    }
                    _ => {
                        let j = r.below(h.delta.ops.len() as u64) as usize;
                        h.delta.ops.swap(i, j);
                    }
                }
            }
            h.class = "ops-drop-dup-reorder";
        }
        8 => {
            let idx: Vec<usize> = h.delta.ops.iter().enumerate().filter(|(_, o)| o.is_literal()).map(|(i, _)| i).collect();
            if !idx.is_empty() {
                let i = *r.pick(&idx);
                if let DeltaOp::Literal(l) = &mut h.delta.ops[i] {
                    match r.below(3) {
                        0 if !l.is_empty() => {
                            let j = r.below(l.len() as u64) as usize;
                            l[j] ^= 0x40;
                        }
                        1 => l.push(r.byte()),
                        _ => {
                            l.pop();
                        }
                    }
                }
            }
            h.class = "literal-edit";
        }
        9 => {
            h.delta.source_size = *r.pick(&[0u64, 1, src.len() as u64 + 1, u64::MAX]);
            h.class = "source_size";
        }
        10 => {
            h.delta.basis_size = *r.pick(&extremes);
            h.class = "basis_size";
        }
        11 => {
            h.delta.block_size = *r.pick(&[0u32, 1, 3, 1000, u32::MAX]);
            h.class = "block_size";
        }
        12 => {
            let mut b = *h.delta.checksum.as_bytes();
            b[r.below(32) as usize] ^= 1 << r.below(8);
            h.delta.checksum = StrongHash::from_bytes(b);
            h.preimage = None;
            h.class = "checksum-edit";
        }
        13 => {
            // retag: a copy becomes a literal of its length, or a literal becomes a copy
            if !h.delta.ops.is_empty() {
                let i = r.below(h.delta.ops.len() as u64) as usize;
                h.delta.ops[i] = match &h.delta.ops[i] {
                    DeltaOp::Copy { len, .. } => DeltaOp::Literal(vec![0u8; (*len).min(4096) as usize]),
                    DeltaOp::Literal(l) => DeltaOp::Copy { offset: 0, len: l.len() as u32 },
                };
            }
            h.class = "retag";
        }
        14 => {
            // hostile basis + checksum recomputed over what the patch will produce: success is legitimate
            if !h.basis.is_empty() {
                let i = r.below(h.basis.len() as u64) as usize;
                h.basis[i] ^= 0x10;
            }
            if let Some(o) = naive_apply(&h.basis, &h.delta) {
                h.delta.checksum = StrongHash::compute(&o);
                h.delta.source_size = o.len() as u64;
                h.preimage = Some(o);
            }
            h.class = "rehash-consistent";
        }
        _ => {
            // huge declared basis_size + far offset: validate passes, the read must fail
            h.delta.basis_size = u64::MAX;
            h.delta.ops.push(DeltaOp::Copy { offset: *r.pick(&extremes), len: *r.pick(&[1u32, u32::MAX]) });
            h.class = "far-offset";
        }
    }
    h
}

fn err_class(e: &CopiaError) -> &'static str {
    match e {
        CopiaError::InvalidCopyBounds { .. } => "ERR_BOUNDS",
        CopiaError::ChecksumMismatch { .. } => "ERR_CHECKSUM",
        CopiaError::Io(_) => "ERR_IO",
        _ => "ERR_OTHER",
    }
}

pub fn main_c05(a: Args) -> i32 {
    let mut out = Out::new(&a.out);
    let checked = cfg!(debug_assertions);
    let mut r = Rng::new(a.seed ^ 0xC05);
    let pairs = gen_pairs(a.seed, "quick", 0xC05);
    let per = if a.tier == "thorough" { 60 } else { 12 };
    let copia = a.rest.iter().position(|x| x == "--copia").map(|i| a.rest[i + 1].clone());
    let rt = rt();
    let mut id = 0usize;
    let mut nfail = 0u64;
    let mut distinct = HashSet::new();
    let replay_lines: Option<Vec<String>> = a.replay.as_ref().map(|p| std::fs::read_to_string(p).unwrap().lines().filter(|l| !l.trim().is_empty() && !l.starts_with('#')).map(|s| s.to_string()).collect());
    let mut hostile: Vec<Hostile> = vec![];
    if let Some(lines) = &replay_lines {
        for l in lines {
            let f: Vec<&str> = l.split_whitespace().collect();
            let ops = if f[7] == "-" { vec![] } else {
                f[7].split(',').map(|t| if let Some(c) = t.strip_prefix('C') {
                    let mut it = c.split(':');
                    DeltaOp::Copy { offset: it.next().unwrap().parse().unwrap(), len: it.next().unwrap().parse().unwrap() }
                } else { DeltaOp::Literal(unhex(&t[1..])) }).collect()
            };
            let pre = if f[8] == "!" { None } else { Some(unhex(f[8])) };
            let mut d = Delta::new(f[4].parse().unwrap(), f[5].parse().unwrap(), f[6].parse().unwrap());
            d.ops = ops;
            d.checksum = match &pre { Some(p) => StrongHash::compute(p), None => StrongHash::from_bytes([0xA5; 32]) };
            hostile.push(Hostile { basis: unhex(f[3]), delta: d, preimage: pre, class: "replay" });
        }
    } else {
        for p in pairs.iter().filter(|p| p.basis.len() + p.src.len() < 40_000) {
            let sig = Signature::generate(&mut Cursor::new(&p.basis), p.bs).unwrap();
            let d = CopiaSync::new().delta(Cursor::new(&p.src), &sig).unwrap();
            for _ in 0..per {
                hostile.push(mutate(&mut r, &p.basis, &p.src, &d));
            }
        }
    }
    for h in &hostile {
        let pre = match &h.preimage {
            Some(p) => hex(p),
            None => "!".into(),
        };
        // engine 1: CopiaSync (verify on), this build profile
        let case = |cid: usize, chk: bool| format!("{} {} 1 {} {} {} {} {} {}", cid, if chk { 1 } else { 0 }, hex(&h.basis), h.delta.block_size, h.delta.source_size, h.delta.basis_size, ops_string(&h.delta.ops), pre);
        out.inflight(&case(id, checked));
        let hb = h.basis.clone();
        let hd = h.delta.clone();
        let res = catch(move || {
            let mut o = Vec::new();
            let r = SyncBuilder::new().build().patch(Cursor::new(&hb), &hd, &mut o);
            (r, o)
        });
        let (line, okout) = match &res {
            Ok((Ok(()), o)) => (format!("{} OK {}", id, hex(o)), Some(o.clone())),
            Ok((Err(e), _)) => (format!("{} {}", id, err_class(e)), None),
            Err(_) => (format!("{} PANIC", id), None),
        };
        out.line("cases.txt", &case(id, checked));
        out.line("impl.txt", &line);
        out.count("hostile_pairs");
        out.count(&format!("class_{}", h.class));
        out.count(&format!("outcome_sync_{}", line.split(' ').nth(1).unwrap()));
        distinct.insert(blake3::hash(case(0, false).splitn(2, ' ').nth(1).unwrap().as_bytes()).to_hex().to_string());
        if let Some(o) = &okout {
            if StrongHash::compute(o) != h.delta.checksum {
                nfail += 1;
                out.line("specfail.txt", &format!("{} C05 sync engine reported success but output does not hash to delta.checksum", id));
            }
        }
        if !checked && line.ends_with("PANIC") {
            nfail += 1;
            out.line("specfail.txt", &format!("{} C05 sync engine panicked in the shipped profile", id));
        }
        id += 1;
        // engine 2: AsyncCopiaSync (no debug asserts): modelled as checked=false
        out.inflight(&case(id, false));
        let hb2 = h.basis.clone();
        let res2 = catch(std::panic::AssertUnwindSafe(|| {
            let mut o = Cursor::new(Vec::new());
            let r = rt.block_on(AsyncCopiaSync::new().patch(Cursor::new(hb2), &h.delta, &mut o));
            (r, o.into_inner())
        }));
        let (line2, okout2) = match &res2 {
            Ok((Ok(()), o)) => (format!("{} OK {}", id, hex(o)), Some(o.clone())),
            Ok((Err(e), _)) => (format!("{} {}", id, err_class(e)), None),
            Err(_) => (format!("{} PANIC", id), None),
        };
        out.line("cases.txt", &case(id, false));
        out.line("impl.txt", &line2);
        out.count(&format!("outcome_async_{}", line2.split(' ').nth(1).unwrap()));
        if let Some(o) = &okout2 {
            if StrongHash::compute(o) != h.delta.checksum {
                nfail += 1;
                out.line("specfail.txt", &format!("{} C05 async engine reported success but output does not hash to delta.checksum", id));
            }
        }
        if line2.ends_with("PANIC") {
            nfail += 1;
            out.line("specfail.txt", &format!("{} C05 async engine panicked", id));
        }
        id += 1;
        out.landed();
        // engine 3: `copia patch` on files (shipped profile only)
        if let Some(c) = &copia {
            if !checked && ((id / 2) % (if a.tier == "thorough" { 5 } else { 12 }) == 0 || a.replay.is_some()) {
                let d = format!("{}/cli", a.out);
                let _ = std::fs::remove_dir_all(&d);
                std::fs::create_dir_all(&d).unwrap();
                std::fs::write(format!("{}/basis", d), &h.basis).unwrap();
                std::fs::write(format!("{}/d.delta", d), bincode::serialize(&h.delta).unwrap()).unwrap();
                let o = std::process::Command::new("bash")
                    .arg("-c")
                    .arg(format!("ulimit -v 6000000; exec timeout 20 {} patch basis d.delta -o out", c))
                    .current_dir(&d)
                    .output()
                    .unwrap();
                use std::os::unix::process::ExitStatusExt;
                let code = o.status.code();
                let sig = o.status.signal();
                let outb = std::fs::read(format!("{}/out", d)).ok();
                out.count("cli_patch_runs");
                out.count(&format!("cli_exit_{}", match (code, sig) { (Some(0), _) => "0".to_string(), (Some(c), _) => format!("code{}", c), (None, Some(s)) => format!("signal{}", s), _ => "?".into() }));
                let lib_ok = okout2.is_some();
                if code == Some(0) {
                    let good = outb.as_ref().map(|b| StrongHash::compute(b) == h.delta.checksum).unwrap_or(false);
                    if !good {
                        nfail += 1;
                        out.line("specfail.txt", &format!("{} C05 `copia patch` exit 0 but output does not hash to delta.checksum", id - 1));
                    }
                } else if code != Some(1) && code != Some(2) {
                    nfail += 1;
                    out.line("specfail.txt", &format!("{} C05 `copia patch` crashed: code {:?} signal {:?} (block_size={}) class={}", id - 1, code, sig, h.delta.block_size, h.class));
                }
                if (code == Some(0)) != lib_ok && (code == Some(0) || code == Some(1)) && is_valid_bs(h.delta.block_size as usize) {
                    nfail += 1;
                    out.line("specfail.txt", &format!("{} C05 `copia patch` exit {:?} disagrees with the async engine (ok={})", id - 1, code, lib_ok));
                }
                // the same command once more over whatever the first run left at the output path (a retry by the user or by
                // automation): the verdict and the guarantee are those of the first run
                if outb.is_some() {
                    let o2 = std::process::Command::new("bash")
                        .arg("-c")
                        .arg(format!("ulimit -v 6000000; exec timeout 20 {} patch basis d.delta -o out", c))
                        .current_dir(&d)
                        .output()
                        .unwrap();
                    out.count("cli_patch_reruns");
                    let code2 = o2.status.code();
                    let outb2 = std::fs::read(format!("{}/out", d)).ok();
                    if code2 == Some(0) && !outb2.as_ref().map(|b| StrongHash::compute(b) == h.delta.checksum).unwrap_or(false) {
                        nfail += 1;
                        out.line("specfail.txt", &format!("{} C05 `copia patch` run a second time over the output of the first run: exit 0 but the output does not hash to delta.checksum (first run: exit {:?})", id - 1, code));
                    } else if code2 != code && (code == Some(0) || code == Some(1)) {
                        nfail += 1;
                        out.line("specfail.txt", &format!("{} C05 `copia patch` run a second time gives exit {:?}, the first run gave {:?}", id - 1, code2, code));
                    }
                }
                let _ = std::fs::remove_dir_all(&d);
            }
        }
        if id % 97 == 1 && h.basis.len() < 60 {
            out.sample(format!("{}: {}", h.class, case(id, checked)));
        }
    }
    out.add("distinct_nontrivial", distinct.len() as u64);
    out.add("spec_failures", nfail);
    out.finish();
    0
}
