//! C18: the REAL `reconcile_path` / `reconcile` (reconcile.rs compiled in unchanged) against the extracted
//! Coq model (line by line) and against an independent transcription of the documented case table
//! (docs/specifications/distributed-sync.md, "3-way reconcile") as property oracle.
//!
//! cases.txt (a fingerprint is `-` = absent or `<digest hex>:<F|S>`; paths as hex of their bytes):
//!   `<id> R <a> <b> <base>`                                          -> `<id> R <Action> table=<Action>`
//!   `<id> T <trust 0|1> <na> (<path> <fp>)*na <nb> (..)*nb <nz> (..)*nz`
//!                                                                     -> `<id> T <path>=<Action>,..|-`
//! `<Action>` is the Debug form of reconcile::Action.  In R lines the first action is the implementation's,
//! `table=` is the harness's own table (the driver prints the extracted Coq `table` there).
use crate::cli::reconcile::{reconcile, reconcile_path, Action, ConflictKind, FileType, Fingerprint, FpMap};
use crate::util::*;
use std::collections::{BTreeMap, BTreeSet, HashSet};
use std::path::PathBuf;

type Fp = Option<Fingerprint>;

fn fp_tok(f: &Fp) -> String {
    match f {
        None => "-".into(),
        Some(f) => format!("{}:{}", hex(&f.blake3), if f.ftype == FileType::File { "F" } else { "S" }),
    }
}
fn parse_fp(s: &str) -> Fp {
    if s == "-" {
        return None;
    }
    let mut it = s.split(':');
    let d = unhex(it.next().unwrap());
    let mut b = [0u8; 32];
    b.copy_from_slice(&d);
    Some(Fingerprint { blake3: b, ftype: if it.next() == Some("S") { FileType::Symlink } else { FileType::File } })
}

// ---------------------------------------------------------------- the documented table, transcribed independently
fn eq_state(x: &Fp, y: &Fp) -> bool {
    match (x, y) {
        (None, None) => true,
        (Some(u), Some(v)) => u.blake3[..] == v.blake3[..] && (u.ftype == FileType::File) == (v.ftype == FileType::File),
        _ => false,
    }
}
pub fn table_oracle(a: &Fp, b: &Fp, z: &Fp) -> Action {
    let (pa, pb, pz) = (a.is_some(), b.is_some(), z.is_some());
    if !pa && !pb {
        return Action::Noop;
    }
    if pa && pb {
        // rows 1-4: "!= base" includes "there is no base"
        let a_ne = !eq_state(a, z);
        let b_ne = !eq_state(b, z);
        return match (a_ne, b_ne) {
            (false, false) => Action::Noop,
            (true, false) => Action::PropagateAtoB,
            (false, true) => Action::PropagateBtoA,
            (true, true) => {
                if eq_state(a, b) {
                    Action::ConvergeIdentical
                } else {
                    Action::Conflict(ConflictKind::BothChanged)
                }
            }
        };
    }
    // rows 5-7: one side absent
    let (survivor, prop, del) = if pa { (a, Action::PropagateAtoB, Action::DeleteA) } else { (b, Action::PropagateBtoA, Action::DeleteB) };
    if !pz {
        prop
    } else if eq_state(survivor, z) {
        del
    } else {
        Action::Conflict(ConflictKind::DeleteVsModify)
    }
}
fn swap(x: Action) -> Action {
    match x {
        Action::PropagateAtoB => Action::PropagateBtoA,
        Action::PropagateBtoA => Action::PropagateAtoB,
        Action::DeleteA => Action::DeleteB,
        Action::DeleteB => Action::DeleteA,
        o => o,
    }
}
/// an injective renaming of fingerprints: digest -> BLAKE3(digest) with the last bit of byte 0 flipped, types swapped
fn rename(f: &Fp) -> Fp {
    f.map(|f| {
        let mut d = *blake3::hash(&f.blake3).as_bytes();
        d[0] ^= 1;
        Fingerprint { blake3: d, ftype: if f.ftype == FileType::File { FileType::Symlink } else { FileType::File } }
    })
}

fn check_path(a: &Fp, b: &Fp, z: &Fp, got: Action) -> Option<String> {
    let want = table_oracle(a, b, z);
    if got != want {
        return Some(format!("reconcile_path = {:?} but the documented table gives {:?}", got, want));
    }
    let m = reconcile_path(*b, *a, *z);
    if m != swap(got) {
        return Some(format!("not mirror-symmetric: (a,b) -> {:?}, (b,a) -> {:?}", got, m));
    }
    let rn = reconcile_path(rename(a), rename(b), rename(z));
    if rn != got {
        return Some(format!("depends on more than equalities: {:?} after an injective renaming, {:?} before", rn, got));
    }
    if z.is_none() && matches!(got, Action::DeleteA | Action::DeleteB) {
        return Some(format!("{:?} without a base", got));
    }
    if got == Action::DeleteA && !(b.is_none() && eq_state(a, z)) {
        return Some("DeleteA although B is present or A differs from the base".into());
    }
    if got == Action::DeleteB && !(a.is_none() && eq_state(b, z)) {
        return Some("DeleteB although A is present or B differs from the base".into());
    }
    None
}

// ---------------------------------------------------------------- cases
#[derive(Clone)]
pub enum Case {
    R(Fp, Fp, Fp),
    T { trust: bool, a: Vec<(String, Fingerprint)>, b: Vec<(String, Fingerprint)>, z: Vec<(String, Fingerprint)> },
}

impl Case {
    fn body(&self) -> String {
        match self {
            Case::R(a, b, z) => format!("R {} {} {}", fp_tok(a), fp_tok(b), fp_tok(z)),
            Case::T { trust, a, b, z } => {
                let mut s = format!("T {}", if *trust { 1 } else { 0 });
                for m in [a, b, z] {
                    s.push_str(&format!(" {}", m.len()));
                    for (p, f) in m {
                        s.push_str(&format!(" {} {}", hex(p.as_bytes()), fp_tok(&Some(*f))));
                    }
                }
                s
            }
        }
    }
    fn parse(line: &str) -> Option<(String, Case)> {
        let f: Vec<&str> = line.split_whitespace().collect();
        if f.len() < 2 {
            return None;
        }
        let c = match f[1] {
            "R" => Case::R(parse_fp(f[2]), parse_fp(f[3]), parse_fp(f[4])),
            "T" => {
                let trust = f[2] == "1";
                let mut k = 3;
                let mut maps = vec![];
                for _ in 0..3 {
                    let n: usize = f[k].parse().ok()?;
                    k += 1;
                    let mut m = vec![];
                    for _ in 0..n {
                        m.push((String::from_utf8(unhex(f[k])).ok()?, parse_fp(f[k + 1])?));
                        k += 2;
                    }
                    maps.push(m);
                }
                let z = maps.pop()?;
                let b = maps.pop()?;
                let a = maps.pop()?;
                Case::T { trust, a, b, z }
            }
            _ => return None,
        };
        Some((f[0].to_string(), c))
    }
}

fn mk(v: &[(String, Fingerprint)]) -> FpMap {
    let mut m = FpMap::new();
    for (p, f) in v {
        m.insert(PathBuf::from(p), *f);
    }
    m
}

fn run_case(id: &str, c: &Case) -> (String, Option<String>) {
    match c {
        Case::R(a, b, z) => {
            let (a2, b2, z2) = (*a, *b, *z);
            match catch(move || reconcile_path(a2, b2, z2)) {
                Ok(got) => (format!("{} R {:?} table={:?}", id, got, table_oracle(a, b, z)), check_path(a, b, z, got)),
                Err(e) => (format!("{} R PANIC", id), Some(format!("reconcile_path panicked: {}", e))),
            }
        }
        Case::T { trust, a, b, z } => {
            let (ma, mb, mz) = (mk(a), mk(b), mk(z));
            let (ma2, mb2, mz2, t2) = (ma.clone(), mb.clone(), mz.clone(), *trust);
            match catch(move || reconcile(&ma2, &mb2, &mz2, t2)) {
                Ok(got) => {
                    // definition: non-Noop table entries over the sorted union of both sides' paths, each once
                    let paths: BTreeSet<&PathBuf> = ma.keys().chain(mb.keys()).collect();
                    let mut want = vec![];
                    for p in paths {
                        let base = if *trust { mz.get(p).copied() } else { None };
                        let act = table_oracle(&ma.get(p).copied(), &mb.get(p).copied(), &base);
                        if act != Action::Noop {
                            want.push((p.clone(), act));
                        }
                    }
                    let mut fail = if got != want { Some(format!("reconcile = {:?} but the per-path table over the sorted union gives {:?}", got, want)) } else { None };
                    if fail.is_none() && !*trust && got.iter().any(|(_, x)| matches!(x, Action::DeleteA | Action::DeleteB)) {
                        fail = Some("a delete with an untrusted base".into());
                    }
                    use std::os::unix::ffi::OsStrExt;
                    let body = if got.is_empty() {
                        "-".to_string()
                    } else {
                        got.iter().map(|(p, x)| format!("{}={:?}", hex(p.as_os_str().as_bytes()), x)).collect::<Vec<_>>().join(",")
                    };
                    (format!("{} T {}", id, body), fail)
                }
                Err(e) => (format!("{} T PANIC", id), Some(format!("reconcile panicked: {}", e))),
            }
        }
    }
}

fn gen_cases(seed: u64, tier: &str) -> Vec<(Case, &'static str)> {
    let thorough = tier == "thorough";
    let mut r = Rng::new(seed ^ 0xC18);
    let mut cs = vec![];
    let dg = |x: u8| -> [u8; 32] {
        let mut d = [x; 32];
        d[31] = x.wrapping_mul(7);
        d
    };
    // the quotient: {absent} + {3 digests} x {File, Symlink}
    let mut vals: Vec<Fp> = vec![None];
    for d in [1u8, 2, 3] {
        for t in [FileType::File, FileType::Symlink] {
            vals.push(Some(Fingerprint { blake3: dg(d), ftype: t }));
        }
    }
    for a in &vals {
        for b in &vals {
            for z in &vals {
                cs.push((Case::R(*a, *b, *z), "quotient_343"));
            }
        }
    }
    // random 32-byte digests: a small pool so that equalities happen, plus near-misses (one bit apart)
    let n = if thorough { 100_000 } else { 10_000 };
    for _ in 0..n {
        let mut pool: Vec<[u8; 32]> = (0..3)
            .map(|_| {
                let mut d = [0u8; 32];
                d.copy_from_slice(&r.bytes(32));
                d
            })
            .collect();
        let mut near = pool[0];
        near[r.below(32) as usize] ^= 1 << r.below(8);
        pool.push(near);
        // the digests a "this can never be a real hash" shortcut would pick as an in-band marker: all zeros, all ones
        if r.chance(1, 3) {
            pool.push([0u8; 32]);
            pool.push([0xffu8; 32]);
        }
        let mut pick = |r: &mut Rng| -> Fp {
            if r.chance(1, 5) {
                None
            } else {
                Some(Fingerprint { blake3: *r.pick(&pool), ftype: if r.chance(1, 4) { FileType::Symlink } else { FileType::File } })
            }
        };
        let (a, b, z) = (pick(&mut r), pick(&mut r), pick(&mut r));
        cs.push((Case::R(a, b, z), "random_digests"));
    }
    // all path maps over a 3-path universe x both trust settings
    let uni = ["a", "b/c", "b/d"];
    let pv: Vec<Fp> = vec![None, Some(Fingerprint { blake3: dg(1), ftype: FileType::File }), Some(Fingerprint { blake3: dg(2), ftype: FileType::File })];
    for code in 0..27u32.pow(3) {
        let mut c = code;
        let (mut a, mut b, mut z) = (vec![], vec![], vec![]);
        for u in uni {
            let s = c % 27;
            c /= 27;
            if let Some(f) = pv[(s % 3) as usize] {
                a.push((u.to_string(), f));
            }
            if let Some(f) = pv[((s / 3) % 3) as usize] {
                b.push((u.to_string(), f));
            }
            if let Some(f) = pv[(s / 9) as usize] {
                z.push((u.to_string(), f));
            }
        }
        for trust in [false, true] {
            cs.push((Case::T { trust, a: a.clone(), b: b.clone(), z: z.clone() }, "trees_3path_exhaustive"));
        }
    }
    // random larger trees: nested names, symlinks, insertion order shuffled, base-only paths
    // "a.b", "a-b", "a b", "a+" next to the directory "a/..": bytes below `/` right after a directory's name, where the
    // byte order of the whole string and the component-wise order of paths disagree
    let comp = ["a", "b", "c", "d.e", "*", "é", "a.b", "a-b", "a b", "a+", "d"];
    for _ in 0..(if thorough { 8000 } else { 1500 }) {
        let np = r.range(1, 14) as usize;
        let mut pool: BTreeSet<String> = BTreeSet::new();
        for _ in 0..np {
            let depth = r.range(1, 3);
            pool.insert((0..depth).map(|_| *r.pick(&comp)).collect::<Vec<_>>().join("/"));
        }
        let ds: Vec<[u8; 32]> = (0..3u8).map(|i| dg(10 + i)).collect();
        let (mut a, mut b, mut z) = (vec![], vec![], vec![]);
        for p in &pool {
            for m in [&mut a, &mut b, &mut z] {
                if r.chance(2, 3) {
                    m.push((p.clone(), Fingerprint { blake3: *r.pick(&ds), ftype: if r.chance(1, 5) { FileType::Symlink } else { FileType::File } }));
                }
            }
        }
        for v in [&mut a, &mut b, &mut z] {
            for k in (1..v.len()).rev() {
                let j = r.below(k as u64 + 1) as usize;
                v.swap(k, j);
            }
        }
        cs.push((Case::T { trust: r.chance(2, 3), a, b, z }, "trees_random"));
    }
    cs
}

pub fn main(a: Args) -> i32 {
    let mut out = Out::new(&a.out);
    let cases: Vec<(String, Case, &'static str)> = if let Some(p) = &a.replay {
        std::fs::read_to_string(p)
            .unwrap()
            .lines()
            .filter(|l| !l.trim().is_empty() && !l.starts_with('#'))
            .filter_map(Case::parse)
            .map(|(id, c)| (id, c, "replay"))
            .collect()
    } else {
        gen_cases(a.seed, &a.tier).into_iter().enumerate().map(|(i, (c, k))| (i.to_string(), c, k)).collect()
    };
    let mut distinct = HashSet::new();
    let mut patterns: BTreeMap<String, u64> = BTreeMap::new();
    let mut nfail = 0u64;
    let mut shown: BTreeMap<&'static str, u32> = BTreeMap::new();
    for (id, c, class) in &cases {
        let body = c.body();
        let line = format!("{} {}", id, body);
        out.inflight(&line);
        let (impl_line, fail) = run_case(id, c);
        out.line("cases.txt", &line);
        out.line("impl.txt", &impl_line);
        out.count("cases");
        out.count(&format!("class_{}", class));
        match c {
            Case::R(a, b, z) => {
                let act = impl_line.split(' ').nth(2).unwrap_or("?").to_string();
                out.count(&format!("action_{}", act));
                // equality pattern actually covered: presence bits + the three equalities
                let pat = format!("{}{}{}-{}{}{}", a.is_some() as u8, b.is_some() as u8, z.is_some() as u8, eq_state(a, b) as u8, eq_state(a, z) as u8, eq_state(b, z) as u8);
                *patterns.entry(pat).or_insert(0) += 1;
                if a.is_some() || b.is_some() {
                    distinct.insert(blake3::hash(body.as_bytes()).to_hex().to_string());
                }
            }
            Case::T { .. } => {
                if !impl_line.ends_with(" -") {
                    out.count("trees_with_actions");
                    distinct.insert(blake3::hash(body.as_bytes()).to_hex().to_string());
                }
            }
        }
        if let Some(f) = fail {
            nfail += 1;
            if nfail <= 200 {
                out.line("specfail.txt", &format!("{} C18 {}", id, f));
            }
        }
        let n = shown.entry(class).or_insert(0);
        if *n < 2 && line.len() < 400 && !impl_line.ends_with("Noop table=Noop") && !impl_line.ends_with(" -") {
            *n += 1;
            out.sample(format!("{}: {} => {}", class, line, impl_line));
        }
    }
    out.add("equality_patterns_covered", patterns.len() as u64);
    out.add("distinct_nontrivial", distinct.len() as u64);
    out.add("spec_failures", nfail);
    out.finish();
    0
}
