//! The CLI's pure modules (plan, reconcile, archive, wire, meta, transfer), compiled in unchanged.
#![allow(dead_code, unused_imports, clippy::all)]
include!(concat!(env!("OUT_DIR"), "/cli_mods.rs"));
