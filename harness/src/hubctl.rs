//! Controller for real `copia serve` processes running under interpose/libvpsched.so in gate mode.
//! The controller is the client of every server (it writes the requests and reads the replies) and
//! releases their gated libc calls one at a time according to a schedule.
#![allow(dead_code)]
use crate::cli::wire::{self, Request, Response};
use crate::util::*;
use std::collections::{BTreeMap, VecDeque};
use std::io::{BufRead, BufReader, Read, Write};
use std::os::unix::net::{UnixListener, UnixStream};
use std::process::{Child, ChildStdin, Command, Stdio};
use std::sync::mpsc::{channel, Receiver, Sender};
use std::sync::{Arc, Mutex};
use std::time::{Duration, Instant};

#[derive(Clone, Debug)]
pub struct Gate {
    pub mutating: bool,
    pub call: String,
    pub a: String,
    pub b: String,
    pub extra: String,
}

enum Event {
    Gate(String, Gate, Option<UnixStream>),
    Exit(String),
}

pub struct Proc {
    pub id: String,
    child: Child,
    stdin: Option<Sender<Vec<u8>>>,
    pub out: Arc<Mutex<Vec<u8>>>,
    stream: Option<UnixStream>,
    pub gate: Option<Gate>,
    pub exited: bool,
    pub status: Option<i32>,
    pub input: VecDeque<Vec<u8>>,
}

pub struct Ctl {
    pub dir: String,
    sock: String,
    rx: Receiver<Event>,
    tx: Sender<Event>,
    pub procs: BTreeMap<String, Proc>,
    pub shim: String,
    pub copia: String,
    /// run every spawned process as pid 1 of its own pid namespace (`unshare --pid --fork --kill-child`): what servers
    /// in separate containers sharing one hub directory look like - equal pids in different processes
    pub pidns: bool,
}

impl Ctl {
    pub fn new(dir: &str, shim: &str, copia: &str) -> Ctl {
        let mut sock = format!("{}/ctl.sock", dir);
        if sock.len() >= 100 {
            // sun_path holds 108 bytes: under a long working directory the socket gets a short name of its own (removed in shutdown)
            static N: std::sync::atomic::AtomicUsize = std::sync::atomic::AtomicUsize::new(0);
            sock = format!("{}/vpc-{}-{}.sock", std::env::temp_dir().display(), std::process::id(), N.fetch_add(1, std::sync::atomic::Ordering::SeqCst));
        }
        let _ = std::fs::remove_file(&sock);
        let listener = UnixListener::bind(&sock).unwrap();
        let (tx, rx) = channel();
        let tx2 = tx.clone();
        std::thread::spawn(move || {
            for s in listener.incoming() {
                let Ok(s) = s else { break };
                let tx3 = tx2.clone();
                std::thread::spawn(move || {
                    let mut first = true;
                    let wr = s.try_clone().unwrap();
                    let rd = BufReader::new(s);
                    for line in rd.lines() {
                        let Ok(line) = line else { break };
                        let f: Vec<&str> = line.splitn(6, ' ').collect();
                        if f.len() < 6 {
                            continue;
                        }
                        let g = Gate { mutating: f[1] == "M", call: f[2].into(), a: f[3].into(), b: f[4].into(), extra: f[5].into() };
                        let st = if first { Some(wr.try_clone().unwrap()) } else { None };
                        first = false;
                        if tx3.send(Event::Gate(f[0].to_string(), g, st)).is_err() {
                            break;
                        }
                    }
                });
            }
        });
        Ctl { dir: dir.into(), sock, rx, tx, procs: BTreeMap::new(), shim: shim.into(), copia: copia.into(), pidns: false }
    }

    /// Spawn `copia <args>` under the shim; returns once it sits at its first gate (or has exited).
    pub fn spawn(&mut self, id: &str, args: &[&str], watch: &str, gate_stdin: bool, extra_env: &[(&str, &str)]) {
        let mut c = if self.pidns {
            let mut c = Command::new("unshare");
            c.args(["--pid", "--fork", "--kill-child", &self.copia]).env("VPSCHED_ONLY", "copia");
            c
        } else {
            Command::new(&self.copia)
        };
        c.args(args)
            .env("LD_PRELOAD", &self.shim)
            .env("VPSCHED_SOCK", &self.sock)
            .env("VPSCHED_ID", id)
            .env("VPSCHED_WATCH", watch)
            .stdin(Stdio::piped())
            .stdout(Stdio::piped())
            .stderr(Stdio::null());
        if gate_stdin {
            c.env("VPSCHED_GATE_STDIN", "1");
        }
        for (k, v) in extra_env {
            c.env(k, v);
        }
        let mut child = c.spawn().unwrap();
        let stdin = child.stdin.take().map(|mut si| {
            // writer thread: the controller never blocks on a full pipe while the server sits at a gate
            let (ptx, prx) = channel::<Vec<u8>>();
            std::thread::spawn(move || {
                for piece in prx {
                    if si.write_all(&piece).is_err() || si.flush().is_err() {
                        break;
                    }
                }
            });
            ptx
        });
        let mut so = child.stdout.take().unwrap();
        let out = Arc::new(Mutex::new(Vec::new()));
        let out2 = out.clone();
        let tx = self.tx.clone();
        let idc = id.to_string();
        std::thread::spawn(move || {
            let mut buf = [0u8; 65536];
            loop {
                match so.read(&mut buf) {
                    Ok(0) | Err(_) => break,
                    Ok(n) => out2.lock().unwrap().extend_from_slice(&buf[..n]),
                }
            }
            let _ = tx.send(Event::Exit(idc));
        });
        self.procs.insert(id.into(), Proc { id: id.into(), child, stdin, out, stream: None, gate: None, exited: false, status: None, input: VecDeque::new() });
        self.wait(id);
    }

    fn pump(&mut self, timeout: Duration) -> bool {
        match self.rx.recv_timeout(timeout) {
            Ok(Event::Gate(id, g, st)) => {
                if std::env::var("VPDEBUG").is_ok() { eprintln!("gate {} {:?}", id, g); }
                if let Some(p) = self.procs.get_mut(&id) {
                    if st.is_some() {
                        p.stream = st;
                    }
                    p.gate = Some(g);
                }
                true
            }
            Ok(Event::Exit(id)) => {
                if std::env::var("VPDEBUG").is_ok() { eprintln!("exit {}", id); }
                if let Some(p) = self.procs.get_mut(&id) {
                    p.exited = true;
                    p.gate = None;
                    p.status = p.child.wait().ok().map(|s| {
                        use std::os::unix::process::ExitStatusExt;
                        s.code().unwrap_or_else(|| 128 + s.signal().unwrap_or(0))
                    });
                }
                true
            }
            Err(_) => false,
        }
    }

    /// Block until `id` is at a gate or has exited. Returns false on timeout (process stuck in the kernel).
    pub fn wait(&mut self, id: &str) -> bool {
        let t0 = Instant::now();
        loop {
            {
                let p = &self.procs[id];
                if p.gate.is_some() || p.exited {
                    return true;
                }
            }
            if t0.elapsed() > Duration::from_secs(20) {
                return false;
            }
            self.pump(Duration::from_millis(200));
        }
    }

    /// Release the pending gate of `id` with `answer` ('g' / 'k') WITHOUT waiting for the next one.
    pub fn release(&mut self, id: &str, answer: u8) -> Option<Gate> {
        let p = self.procs.get_mut(id).unwrap();
        let g = p.gate.take()?;
        if let Some(s) = p.stream.as_mut() {
            let _ = s.write_all(&[answer]);
        }
        Some(g)
    }

    /// Feed stdin according to the input queue (only meaningful at a read0 gate): returns what was done.
    pub fn feed(&mut self, id: &str) -> &'static str {
        let p = self.procs.get_mut(id).unwrap();
        if let Some(piece) = p.input.pop_front() {
            if let Some(si) = p.stdin.as_ref() {
                let _ = si.send(piece);
            }
            "fed"
        } else {
            p.stdin = None; // close: EOF
            "eof"
        }
    }

    /// Release + wait. For a read0 gate the caller must have arranged the input (feed) first.
    pub fn advance(&mut self, id: &str) -> Option<Gate> {
        let g = self.release(id, b'g')?;
        self.wait(id);
        Some(g)
    }

    pub fn kill(&mut self, id: &str) -> Option<Gate> {
        let g = self.release(id, b'k');
        // the shim kills itself; wait for the exit event
        let t0 = Instant::now();
        while !self.procs[id].exited && t0.elapsed() < Duration::from_secs(10) {
            self.pump(Duration::from_millis(100));
        }
        g
    }

    pub fn output(&self, id: &str) -> Vec<u8> {
        self.procs[id].out.lock().unwrap().clone()
    }

    pub fn shutdown(&mut self) {
        let ids: Vec<String> = self.procs.keys().cloned().collect();
        for id in ids {
            let p = self.procs.get_mut(&id).unwrap();
            p.stdin = None;
            let _ = p.child.kill();
            let _ = p.child.wait();
        }
        let _ = std::fs::remove_file(&self.sock);
    }
}

// ---------- wire helpers (the REAL write_frame / read_frame from wire.rs) ----------
pub fn frame(req: &Request) -> Vec<u8> {
    let mut v = Vec::new();
    wire::write_frame(&mut v, req).unwrap();
    v
}

/// Parse as many complete replies as possible from a server's stdout. `gets` tells for each reply index
/// whether the request was a Get (its Content frame is followed by raw bytes).
pub fn parse_replies(buf: &[u8]) -> (Vec<String>, usize) {
    let mut out = vec![];
    let mut pos = 0usize;
    loop {
        if buf.len() < pos + 4 {
            break;
        }
        let len = u32::from_be_bytes([buf[pos], buf[pos + 1], buf[pos + 2], buf[pos + 3]]) as usize;
        if len > (1 << 20) || buf.len() < pos + 4 + len {
            break;
        }
        let mut cur = std::io::Cursor::new(&buf[pos..pos + 4 + len]);
        let r: std::io::Result<Option<Response>> = wire::read_frame(&mut cur);
        pos += 4 + len;
        match r {
            Ok(Some(Response::Content { len, hash })) => {
                let l = len as usize;
                if buf.len() < pos + l {
                    out.push(format!("Content:{}:{}:SHORT{}", len, hex(&hash[..6]), buf.len() - pos));
                    pos = buf.len();
                    break;
                }
                let body = &buf[pos..pos + l];
                let ok = blake3::hash(body).as_bytes() == &hash;
                out.push(format!("Content:{}:{}:{}:{}", len, hex(&hash[..6]), if ok { "HASHOK" } else { "HASHBAD" }, hex(body)));
                pos += l;
            }
            Ok(Some(Response::Hello { version })) => out.push(format!("Hello:{}", version)),
            Ok(Some(Response::Fingerprints(m))) => out.push(format!(
                "Fingerprints:{}",
                m.iter().map(|(k, f)| format!("{}={}", hex(k.as_bytes()), hex(&f.blake3[..6]))).collect::<Vec<_>>().join(",")
            )),
            Ok(Some(Response::PutResult { committed, current })) => {
                out.push(format!("PutResult:{}:{}", committed, current.map(|h| hex(&h[..6])).unwrap_or("none".into())))
            }
            Ok(Some(Response::DeleteResult { deleted, current })) => {
                out.push(format!("DeleteResult:{}:{}", deleted, current.map(|h| hex(&h[..6])).unwrap_or("none".into())))
            }
            Ok(Some(Response::Error(e))) => out.push(format!("Error:{}", e.replace(' ', "_"))),
            Ok(None) => break,
            Err(_) => {
                out.push("UNPARSABLE".into());
                break;
            }
        }
    }
    (out, pos)
}

/// Sorted listing of a tree: rel path (hex) = content hex; directories are not listed.
pub fn snapshot(root: &str) -> Vec<(String, Vec<u8>)> {
    fn walk(base: &std::path::Path, dir: &std::path::Path, out: &mut Vec<(String, Vec<u8>)>) {
        let Ok(rd) = std::fs::read_dir(dir) else { return };
        for e in rd.flatten() {
            let p = e.path();
            let Ok(md) = std::fs::symlink_metadata(&p) else { continue };
            if md.is_dir() {
                walk(base, &p, out);
            } else {
                let rel = p.strip_prefix(base).unwrap().to_string_lossy().into_owned();
                out.push((rel, std::fs::read(&p).unwrap_or_default()));
            }
        }
    }
    let mut out = vec![];
    let b = std::path::Path::new(root);
    walk(b, b, &mut out);
    out.sort();
    out
}

pub fn snapshot_string(root: &str, hide_control: bool) -> String {
    let s = snapshot(root);
    let v: Vec<String> = s
        .iter()
        .filter(|(p, _)| !(hide_control && p.starts_with(".copia/")))
        .map(|(p, c)| format!("{}={}", hex(p.as_bytes()), hex(c)))
        .collect();
    if v.is_empty() {
        "-".into()
    } else {
        v.join(",")
    }
}
